"""C06 — the ring buffer never deadlocks or loses a wake-up; write, drain and join terminate."""
import re
from framework import Case
import ring_common as R

PROP = 'C06'
BUILDS, MINIMISE, SHARD_TIMEOUT, RULE = R.BUILDS, R.MINIMISE, R.SHARD_TIMEOUT, R.RULE
TRANSLATORS = R.TRANSLATORS + ['executor', 'spinwait']     # Gen/Executor.lean (ThreadedExecutor), Props/C06Gen.lean
ASSUMPTIONS = R.ASSUMPTIONS + [
    'termination theorems assume a fair schedule: spin strategy — weak fairness (every thread of the topology is scheduled '
    'infinitely often); blocking strategy — weak fairness plus strong fairness of lock acquisition (a thread whose lock / '
    're-acquisition after cvar.wait is enabled infinitely often eventually takes it): an assumption about std::sync::Mutex and '
    'the OS scheduler; real-time bounds are not modelled',
    'termination theorems cover the single-producer sequencer with batches 1 <= b <= N, the multi-producer sequencer with ONE '
    'writer thread and batches 1 <= b < N (ring sizes 2^k), and — for any number of writers — the draining thread and the '
    'handlers from every state in which all writers are done and cursor = high watermark; with two or more writer threads '
    'termination is false (known finding F11: a stranded sequence), those runs are judged by the oracle on the '
    'implementation events',
]
EXTRA_THEOREM_MODULES = ['DcVerif.Props.C06Gen', 'DcVerif.Props.C13WaitGen', 'DcVerif.Props.C13Gen', 'DcVerif.Lemmas.Ring', 'DcVerif.Lemmas.FairTermination', 'DcVerif.Lemmas.RingLive',
                         'DcVerif.Lemmas.RingMultiLiveC', 'DcVerif.Lemmas.RingMultiLiveInv', 'DcVerif.Lemmas.RingMultiLive',
                         'DcVerif.Lemmas.RingMultiLiveS', 'DcVerif.Lemmas.RingMultiLiveB']
classify, nontrivial = R.classify, R.nontrivial


def corpus():
    return R.corpus_cases(PROP)


def generate(rng, tier):
    yield from R.search_cases(tier)
    yield from R.scale_cases(tier)
    yield from R.smoke_cases(rng, 12 if tier == 'quick' else 300)
    yield from R.smoke_scale_cases()
    for _ in range(120 if tier == 'quick' else 12000):
        yield R.gen_case(rng, tier)


def writer_threads(case):
    """F7/F8/F11/F13 need two publishers inside `publish` at once: with ONE writer thread the multi-producer sequencer releases
    everything (c06_multi_single_writer_*), so a stranded sequence there is not the known finding"""
    m = re.search(r'writers=(\S+)', case.header)
    return len(m.group(1).split('|')) if m else 1


def signatures(case, lines):
    """F11: a multi-producer run that does not end because a written sequence whose `write` call has returned was
    stranded below the cursor (out-of-order publication); every other non-ok end stays a violation"""
    out = []
    for l in lines:
        m = re.search(r'run ended with status (\w+) kind=(\S+) producer=(\w+)', l)
        if m and m.group(1) != 'ok' and m.group(2) == 'multi-stranded' and m.group(3) == 'multi' and writer_threads(case) >= 2:
            out.append({'producer': 'multi', 'kind': 'multi-stranded'})
        else:
            out.append(None)
    return out
