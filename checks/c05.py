"""C05 (ring buffer)"""
import re
from framework import Case
import ring_common as R

PROP = 'C05'
BUILDS, MINIMISE, SHARD_TIMEOUT, ASSUMPTIONS = R.BUILDS, R.MINIMISE, R.SHARD_TIMEOUT, R.ASSUMPTIONS
TRANSLATORS = R.TRANSLATORS + ['spseq', 'mpseq']     # the wait condition of `next` (c14gen_next_respects_gating)
RULE = R.RULE + ('; C05 additionally generates stages that mix a mutable handler with other handlers (about one case in eight, '
                 'known finding F9) and judges every slot access by the slot-exclusion and vector-clock oracles')
EXTRA_THEOREM_MODULES = ['DcVerif.Props.C14Gen', 'DcVerif.Props.C14MGen', 'DcVerif.Props.C05Gen', 'DcVerif.Props.C13Gen', 'DcVerif.Lemmas.Ring', 'DcVerif.Lemmas.RingMulti', 'DcVerif.Lemmas.RingHB', 'DcVerif.Lemmas.RingMultiSafe', 'DcVerif.Lemmas.RingMultiHB', 'DcVerif.Lemmas.RingMultiHBW']
classify, nontrivial = R.classify, R.nontrivial


def corpus():
    return R.corpus_cases(PROP) + [
        # F9: one stage holding a mutable and an immutable handler — both access the same slot with nothing between them
        Case('n=4 prod=single wait=spin stages=mi writers=2,1 sched=random:3:64 budget=60000', [], tags=('corpus', 'F9-witness')),
        Case('n=4 prod=single wait=spin stages=i/im writers=2,3,1 sched=random:7:128 budget=60000', [], tags=('corpus', 'F9-witness')),
    ]


def generate(rng, tier):
    yield from R.search_cases(tier)
    yield from R.scale_cases(tier)
    # real executor, capacity argument != ring size: a producer lapping a handler shows as a wrong payload / gap at the handler
    yield from R.smoke_scale_cases()
    for _ in range(120 if tier == 'quick' else 12000):
        # about one case in eight contains a stage that mixes a mutable handler with others (known finding F9)
        yield R.gen_case(rng, tier, allow_f9=rng.random() < 0.5)


F9_SIGNATURE = {'same_stage_handlers': '>=2', 'mutable_in_stage': True}
_UNORDERED = re.compile(r'^SPECFAIL C05 unordered conflicting accesses to slot \d+: H(\d+)\.(\d+) seq \d+ \((write|read)\) '
                        r'vs access #\d+ of H(\d+)\.(\d+) \((write|read)\)')


def _stages(case):
    m = re.search(r'stages=(\S+)', case.header)
    return m.group(1).split('/') if m else []


def signatures(case, lines):
    """Every SPECFAIL line must be explained on its own. The only explained shape: the clock oracle reports two
    *handlers of the same stage* as unordered, that stage holds >= 2 handlers and at least one of the two is mutable
    according to the case header (F9). Producer/handler pairs, pairs of different stages, 'overwritten before consumed'
    lines and anything else are unexplained (-> VIOLATION)."""
    st = _stages(case)
    out = []
    for l in lines:
        m = _UNORDERED.match(l)
        sig = None
        if m:
            k1, j1, k2, j2 = int(m.group(1)), int(m.group(2)), int(m.group(4)), int(m.group(5))
            if k1 == k2 and j1 != j2 and k1 < len(st) and max(j1, j2) < len(st[k1]) and len(st[k1]) >= 2:
                mut1, mut2 = st[k1][j1] == 'm', st[k1][j2] == 'm'
                # the oracle calls an access a write exactly when its handler is mutable: cross-check with the header
                if (mut1 or mut2) and (m.group(3) == 'write') == mut1 and (m.group(6) == 'write') == mut2:
                    sig = dict(F9_SIGNATURE)
        out.append(sig)
    return out
