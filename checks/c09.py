"""C09 — Context keeps base and extra contexts as isolated, faithful contextoid stores.
Cases: `cap <c>` (Context::with_capacity) then op lines (see harness/src/c09.rs)."""
from framework import Case

PROP = 'C09'
# tools/rs2lean_context.py regenerates lean/DcVerif/Gen/Ctx.lean from the current source of Context (one definition per public
# function); Props/C09Gen.lean proves every generated definition equal to the hand model the C09 theorems are about
TRANSLATORS = ['ugraph', 'context']
EXTRA_THEOREM_MODULES = ['DcVerif.Props.C09Gen']
RULE = ('histories of 1-70 ops (thorough: up to 200) interleaving base-context operations (add/rmnode/edge/rmedge + observers), '
        'creation of extra contexts (default or not, capacities 0-3), switching / unsetting / mis-setting the current context, '
        'extra-context node and edge operations (with and without a selection), and set_index/get_index on both maps with colliding '
        'keys; targets drawn from the indices handed out so far in the addressed graph (live or removed: index reuse, duplicate '
        'edges, self-loops, absent targets) plus a malformed stream (huge ids, ops on contexts that do not exist, extra ops with no '
        'selection); after EVERY operation `snap n k` re-reads the base context, EVERY extra context 1..k+1 (the last one does not '
        'exist: selection must be refused and leave the selection alone) and both index maps; distinct = sha256 of the case text')
ASSUMPTIONS = ['contextoids are represented by their id (payload/kind checked by the harness on every read), relation kinds by their '
               'discriminant (not observable through the Context API)',
               'the graphs are UltraGraphs as covered by C08 (same model, fixes F2/F3 applied)',
               'Context::with_capacity(id, name, capacity): id/name are constants of the harness']
TRUSTED_EXTRA = ['UltraGraph behaviour as in C08 (petgraph modelled)']


class GState:
    """tracks a guess of one graph's allocator for targeting only"""

    def __init__(self):
        self.live, self.removed, self.upper, self.edges = set(), [], 0, set()

    def alloc(self):
        i = self.removed.pop() if self.removed else self.upper
        if i == self.upper:
            self.upper += 1
        self.live.add(i)

    def free(self, i):
        if i in self.live:
            self.live.discard(i)
            self.edges = {(a, b) for (a, b) in self.edges if a != i and b != i}
            if self.upper - i == 1:
                self.upper -= 1
            else:
                self.removed.append(i)


class Gen:
    def __init__(self, rng):
        self.rng = rng
        self.base = GState()
        self.extras = {}     # id -> GState
        self.cur = 0
        self.ops = []
        self.val = 100

    def n(self):
        return max([3, self.base.upper + 1] + [g.upper + 1 for g in self.extras.values()])

    def snap(self):
        self.ops.append(f'snap {min(self.n(), 9)} {len(self.extras)}')

    def tgt(self, g, p_live=0.8):
        r = self.rng.random()
        if g is not None and g.live and r < p_live:
            return self.rng.choice(sorted(g.live))
        if r < 0.95:
            return self.rng.randrange(0, self.n() + 1)
        return self.rng.choice([1000, 2 ** 32, 2 ** 40])

    def sel(self):
        return self.extras.get(self.cur) if self.cur else None

    def graph_op(self, x):
        """one node/edge op on the base (x=False) or the selected extra context (x=True)"""
        rng, pre = self.rng, 'x' if x else ''
        g = self.sel() if x else self.base
        r = rng.random()
        if r < 0.3:
            self.val += 1
            self.ops.append(f'{pre}add {self.val}')
            if g is not None:
                g.alloc()
        elif r < 0.45:
            i = self.tgt(g, 0.85)
            self.ops.append(f'{pre}rmnode {i}')
            if g is not None:
                g.free(i)
        elif r < 0.7:
            if g is not None and g.edges and rng.random() < 0.15:
                a, b = rng.choice(sorted(g.edges))
            elif g is not None and g.live and rng.random() < 0.1:
                a = b = rng.choice(sorted(g.live))
            else:
                a, b = self.tgt(g, 0.9), self.tgt(g, 0.9)
            self.ops.append(f'{pre}edge {a} {b} {rng.randrange(0, 4)}')
            if g is not None and a in g.live and b in g.live:
                g.edges.add((a, b))
        elif r < 0.85:
            if g is not None and g.edges and rng.random() < 0.75:
                a, b = rng.choice(sorted(g.edges))
            else:
                a, b = self.tgt(g), self.tgt(g)
            self.ops.append(f'{pre}rmedge {a} {b}')
            if g is not None:
                g.edges.discard((a, b))
        else:
            o = rng.choice(['hasnode', 'get', 'hasedge', 'size', 'empty', 'nnodes', 'nedges'])
            if o in ('hasnode', 'get'):
                self.ops.append(f'{pre}{o} {self.tgt(g, 0.6)}')
            elif o == 'hasedge':
                self.ops.append(f'{pre}hasedge {self.tgt(g)} {self.tgt(g)}')
            else:
                self.ops.append(pre + o)

    def mgmt(self):
        rng = self.rng
        r = rng.random()
        k = len(self.extras)
        if r < 0.3 and k < 4:
            d = rng.random() < 0.5
            self.ops.append(f'xnew {rng.randrange(0, 4)} {int(d)}')
            self.extras[k + 1] = GState()
            if d:
                self.cur = k + 1
        elif r < 0.65:
            t = rng.randrange(0, k + 1) if rng.random() < 0.8 else rng.choice([k + 1, k + 2, 99, 2 ** 40])
            self.ops.append(f'xset {t}')
            if t <= k:
                self.cur = t
        elif r < 0.75:
            self.ops.append('xunset')
            self.cur = 0
        elif r < 0.85:
            self.ops.append(f'xexists {rng.choice([0, 1, k, k + 1, 7])}')
        else:
            self.ops.append('xcur')

    def index(self):
        rng = self.rng
        key = rng.randrange(0, 4) if rng.random() < 0.9 else rng.randrange(0, 2 ** 40)
        if rng.random() < 0.6:
            self.ops.append(f'setidx {key} {rng.randrange(0, 50)} {rng.randrange(0, 2)}')
        else:
            self.ops.append(f'getidx {key} {rng.randrange(0, 2)}')


PROFILES = {   # weights: base graph op, extra graph op, management, index
    'mixed': (30, 35, 20, 15),
    'extra-heavy': (10, 60, 22, 8),
    'switching': (15, 35, 45, 5),
    'no-selection': (30, 45, 5, 20),
    'index': (15, 15, 10, 60),
}


def history(rng, prof, nops):
    g = Gen(rng)
    w = PROFILES[prof]
    if prof not in ('no-selection',) and rng.random() < 0.8:
        for _ in range(rng.randrange(1, 4)):
            g.ops.append(f'xnew {rng.randrange(0, 4)} {rng.randrange(0, 2)}')
            g.extras[len(g.extras) + 1] = GState()
            if g.ops[-1].endswith(' 1'):
                g.cur = len(g.extras)
    g.snap()
    for _ in range(nops):
        k = rng.choices(range(4), weights=w)[0]
        if k == 0:
            g.graph_op(False)
        elif k == 1:
            g.graph_op(True)
        elif k == 2:
            g.mgmt()
        else:
            g.index()
        g.snap()
    return g.ops


def corpus():
    # leakage probes: same indices in base and two extra contexts, edge removal, node removal, switching
    yield Case('cap 2', ['add 4', 'add 5', 'edge 0 1 2', 'xadd 7', 'xnew 1 1', 'xadd 7', 'xadd 8', 'xedge 0 1 3', 'xnew 0 0',
                         'snap 3 2', 'xset 2', 'xadd 9', 'snap 3 2', 'xset 3', 'xcur', 'xset 0', 'xget 0', 'xhasnode 0', 'xsize',
                         'setidx 1 5 1', 'setidx 1 6 0', 'getidx 1 1', 'getidx 1 0', 'getidx 2 1', 'snap 3 2', 'rmedge 0 1',
                         'snap 3 2', 'rmnode 0', 'snap 3 2', 'xset 1', 'xrmedge 0 1', 'snap 3 2', 'xrmnode 1', 'snap 3 2',
                         'xadd 11', 'snap 3 2', 'id', 'name'], tags=('corpus',))
    yield Case('cap 0', ['xadd 1', 'xhasnode 0', 'xget 0', 'xrmnode 0', 'xedge 0 0 0', 'xhasedge 0 0', 'xrmedge 0 0', 'xsize',
                         'xempty', 'xnnodes', 'xnedges', 'xset 1', 'xset 0', 'xunset', 'xexists 0', 'xexists 1', 'snap 2 0',
                         'xnew 0 0', 'xadd 1', 'xset 1', 'xadd 1', 'snap 2 1'], tags=('corpus', 'no-selection'))


def generate(rng, tier):
    ncases = 200 if tier == 'quick' else 4000
    maxops = 70 if tier == 'quick' else 200
    profs = list(PROFILES)
    for n in range(ncases):
        prof = profs[n % len(profs)]
        nops = rng.randrange(1, maxops + 1) if rng.random() < 0.8 else rng.randrange(1, 10)
        yield Case(f'cap {n % 4}', history(rng, prof, nops), tags=(prof,))


def classify(case):
    t = list(case.tags) + [case.header]
    kinds = {o.split()[0] for o in case.ops}
    for k in ('xnew', 'xset', 'xunset', 'xadd', 'xrmnode', 'xedge', 'xrmedge', 'rmnode', 'rmedge', 'setidx'):
        if k in kinds:
            t.append('has-' + k)
    return t


def nontrivial(case):
    kinds = {o.split()[0] for o in case.ops}
    return 'xnew' in kinds and 'xadd' in kinds and 'add' in kinds


def signature(case, verdicts):
    return None
