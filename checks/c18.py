"""C18 — collection aggregates. Cases: `assume <fn kinds>` / `infer` / `observe`, see harness/src/c18.rs."""
import struct
from framework import Case

PROP = 'C18'
# tools/rs2lean_collections.py regenerates lean/DcVerif/Gen/Collections.lean from the default methods' current source;
# Props/C18Gen.lean proves every generated definition equal to the hand model the C18 theorems are about
TRANSLATORS = ['collections']
EXTRA_THEOREM_MODULES = ['DcVerif.Props.C18Gen']
BUILDS = ['safe']
RULE = ('three case families on a Vec: (a) 0–8 assumptions whose function reads its own bit of the integer data value, histories of '
        '1–40 verify(i, d) / verify_all(d) calls, every aggregate, filter and flag dumped after every call; (b) inferences '
        'pushed one by one (1–14), full dump after every push; values: observation vs threshold equal / adjacent floats / ±0.0 '
        '/ ±NaN / ±inf / subnormal, effect vs target around the 4-decimal truncation (same 4 decimals, differing in the 5th, '
        'products that round across an integer, sign change around 0, overflow to inf, NaN); (c) 1–12 observations queried '
        'with 1–8 (threshold, effect) pairs chosen equal to / adjacent to member values, ±0.0, NaN. malformed stream: empty '
        'collections (percentages NaN), verify on an index out of range (panic). non-trivial = at least 2 members and a '
        'query; distinct = sha256 of the case text')
ASSUMPTIONS = ['f64 arithmetic of the Lean runtime = f64 arithmetic of rustc on this machine (IEEE binary64, round to nearest); '
               'floats are only executed, never reasoned about: theorems treat member predicates as arbitrary functions',
               'collection sizes < 2^53 (usize as f64 exact)', 'every NaN is printed as `nan` (payload/sign of computed NaNs not compared)',
               'members of one collection do not share their Arc flags (no clones inside a collection)']


def bits(x):
    return struct.pack('>d', x).hex()


def adj(h, k):
    return format((int(h, 16) + k) % (1 << 64), '016x')


SPECIAL = ['0000000000000000', '8000000000000000', '7ff8000000000000', 'fff8000000000000', '7ff8000000000001',
           '7ff0000000000000', 'fff0000000000000', '0000000000000001', '800fffffffffffff', '000fffffffffffff',
           '0010000000000000', '7fefffffffffffff', 'ffefffffffffffff', bits(1.0), bits(-1.0), bits(0.5)]


def _val(rng):
    r = rng.random()
    if r < 0.25:
        return rng.choice(SPECIAL)
    if r < 0.6:
        return bits(rng.choice([0.0, 0.1, 0.25, 0.5, 0.75, 0.9, 1.0, 1.5, 2.0, 10.0, -0.5, -2.0, 100.0]))
    if r < 0.85:
        return bits(rng.uniform(-3, 3))
    return bits(rng.uniform(-1, 1) * 10 ** rng.randrange(-320, 308))


def _near(rng, h):
    """a value related to h: identical, adjacent, sign-flipped zero, or unrelated"""
    r = rng.random()
    if r < 0.3:
        return h
    if r < 0.55:
        return adj(h, rng.choice([1, -1, 2, -2]))
    if r < 0.65:
        return format(int(h, 16) ^ (1 << 63), '016x')
    return _val(rng)


def _effect_pair(rng):
    """effect/target pairs around the truncating 4-decimal comparison"""
    r = rng.random()
    if r < 0.15:
        a = _val(rng)
        return a, _near(rng, a)
    if r < 0.75:
        base = rng.randrange(-30000, 30000)
        fa = rng.choice([0, 1, 4, 5, 9, 49, 50, 51, 99]) / 1000000.0
        fb = rng.choice([0, 1, 4, 5, 9, 49, 50, 51, 99, 100, 101]) / 1000000.0
        s = rng.choice([1, 1, 1, -1]) if base == 0 else 1
        return bits(base / 10000.0 + fa), bits(s * (base / 10000.0 + fb))
    if r < 0.85:   # products that land next to an integer
        k = rng.randrange(-5000, 5000)
        a = bits(k / 10000.0)
        return adj(a, rng.choice([0, 1, -1, 3])), adj(a, rng.choice([0, 1, -1, -3]))
    if r < 0.93:
        return bits(rng.choice([1e305, 1e306, -1e305, 1.7e308])), bits(rng.choice([1e305, 1e307, -1e306, 1.7e308]))
    return bits(rng.choice([0.00005, -0.00005, 0.00009, -0.00009, 0.0, -0.0])), bits(rng.choice([0.00005, -0.00005, 0.0, -0.0, 0.0001]))


def _assume_case(rng, length):
    n = rng.randrange(1, 9)
    kinds = [rng.randrange(6) for _ in range(n)]
    ops = ['q']
    for _ in range(length):
        r = rng.random()
        d = rng.randrange(0, 64) if rng.random() < 0.9 else rng.choice([-1, -2, -37, 0, 1 << 20, (1 << 40) + 5])
        if r < 0.55:
            ops.append(f'verify {rng.randrange(n)} {d if rng.random() < 0.7 else rng.choice([0, 0, 63])}')
        elif r < 0.8:
            ops.append(f'verifyall {d if rng.random() < 0.6 else rng.choice([0, 1 << rng.randrange(6)])}')
        elif r < 0.98:
            ops.append('q')
        else:
            ops.append(f'verify {n + rng.randrange(3)} {d}')
    return Case('assume ' + ','.join(map(str, kinds)), ops)


def _infer_case(rng, n):
    ops = []
    for _ in range(n):
        thr = _val(rng)
        obs = _near(rng, thr)
        eff, tgt = _effect_pair(rng)
        ops.append(f'push {obs} {thr} {eff} {tgt}')
    return Case('infer', ops + ['q'])


def _observe_case(rng, n, nq):
    ops, vals, effs = [], [], []
    common_eff = _val(rng)

    def query():
        r = rng.random()
        thr = _near(rng, rng.choice(vals)) if r < 0.6 else rng.choice(['fff0000000000000', bits(-1e300), bits(-3.0), bits(0.0)])
        eff = common_eff if rng.random() < 0.5 else _near(rng, rng.choice(effs))
        return f'q {thr} {eff}'

    for _ in range(n):
        o = _val(rng) if not vals or rng.random() < 0.6 else _near(rng, rng.choice(vals))
        e = common_eff if rng.random() < 0.6 else _near(rng, common_eff)
        vals.append(o)
        effs.append(e)
        ops.append(f'push {o} {e}')
        if rng.random() < 0.3:
            ops.append(query())
    for _ in range(nq):
        ops.append(query())
    return Case('observe', ops)


def generate(rng, tier):
    m = 1 if tier == 'quick' else 25
    for _ in range(300 * m):
        yield _assume_case(rng, rng.randrange(1, 41))
    for _ in range(300 * m):
        yield _infer_case(rng, rng.randrange(1, 15))
    for _ in range(300 * m):
        yield _observe_case(rng, rng.randrange(1, 13), rng.randrange(1, 9))
    # malformed stream: empty collections
    yield Case('assume -', ['q', 'verifyall 3', 'q'], tags=('empty',))
    yield Case('infer', ['q'], tags=('empty',))
    yield Case('observe', [f'q {bits(1.0)} {bits(1.0)}'], tags=('empty',))
    # exhaustive small scope: all verdict histories of length ≤ 4 for one assumption (+ a bystander)
    depth = 3 if tier == 'quick' else 5
    for L in range(1, depth + 1):
        for code in range(2 ** L):
            ops = ['q']
            for i in range(L):
                ops.append(f'verify 0 {(code >> i) & 1}')
            yield Case('assume 0,0', ops, tags=('exhaustive-verdict-histories',))
    # exhaustive: all orderings of obs/thr over a small value set × approx pairs
    small = [bits(0.0), bits(-0.0), bits(1.0), adj(bits(1.0), 1), '7ff8000000000000', 'fff8000000000000']
    pairs = [(bits(0.1234), bits(0.12345)), (bits(0.1234), bits(0.1235)), (bits(-0.00005), bits(0.00005)), ('7ff8000000000000', '7ff8000000000000')]
    ops = [f'push {a} {b} {e} {t}' for a in small for b in small for e, t in (pairs if tier != 'quick' else pairs[:2])]
    for i in range(0, len(ops), 12):
        yield Case('infer', ops[i:i + 12], tags=('exhaustive-cmp',))


def exhaustive_small():
    return []


def classify(case):
    t = [case.header.split()[0]] + list(case.tags)
    n = sum(1 for o in case.ops if o.startswith('push')) if t[0] != 'assume' else len(case.header.split()[1].split(','))
    t.append(f'{t[0]}-size<=2' if n <= 2 else f'{t[0]}-size<=6' if n <= 6 else f'{t[0]}-size>6')
    txt = ' '.join(case.ops)
    for name, pat in (('nan', '7ff8'), ('neg-zero', '8000000000000000'), ('inf', '7ff0000000000000'), ('subnormal', '0000000000000001')):
        if pat in txt:
            t.append('has-' + name)
    return t


def nontrivial(case):
    k = case.header.split()[0]
    if k == 'assume':
        return len(case.header.split()[1].split(',')) >= 2 and any(o.startswith('verify') for o in case.ops)
    return sum(1 for o in case.ops if o.startswith('push')) >= 2


def signature(case, verdicts):
    return None
