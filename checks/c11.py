"""C11 — activation state mirrors the latest evaluation and aggregate counts agree.

One persistent model per case (same line protocol and interpreter as C02, harness/src/c02.rs): a few nesting trees plus clones,
then a history of evaluation / reasoning calls with changing data, interleaved with `agg` (every aggregate of a wrapped
collection / graph) and `act` (is_active of every handle); clones and fresh causaloids are created in mid-history."""
from framework import Case
import c02

PROP = 'C11'
# tools/rs2lean_causable.py regenerates lean/DcVerif/Gen/Causable.lean from the current source of `impl Causable for Causaloid`,
# the constructors, the default methods of `CausableReasoning` and the aggregates of `CausaloidGraph`;
# Props/C11Gen.lean proves that the hand model the C11 theorems are about satisfies the generated equations
TRANSLATORS = ['causable']
EXTRA_THEOREM_MODULES = ['DcVerif.Props.C11Gen']
BUILDS = ['safe']
RULE = ('per case: 1–3 random nesting trees (generator of C02, depth ≤ 3 quick / ≤ 4 thorough) + clones, then a history of 12–40 '
        '(thorough ≤ 120) calls verify_single_cause / verify_all_causes / collection and graph reason_all_causes on random handles '
        'with fresh data every time (mostly-true, random over {t,f,err}, short, empty; with and without data index), after every '
        'call is_active of every handle is compared, after most calls the aggregates (number_active, percent_active as f64 bits, '
        'all_active / get_all_causes_true, active / inactive id lists, size) of 1–3 wrapped structures; clone ops and new '
        'singletons / wrappers over old handles in mid-history; non-trivial = ≥ 8 evaluations and ≥ 4 aggregate queries')
ASSUMPTIONS = ['same as C02', 'percent_active is re-computed with Lean `Float` (IEEE double, same operations in the same order); '
               'NaN (empty collection) is compared as "nan"']


def one_case(rng, tier, malformed):
    maxdepth = 3 if tier == 'quick' else 4
    nctx = rng.choice([0, 2, 3])
    markers = [rng.randrange(0, 7) for _ in range(nctx)]
    L = rng.randrange(4, 10)
    b = c02.Builder(rng, nctx, L, maxdepth, malformed)
    tops = []
    for _ in range(rng.randrange(1, 4)):
        tops.append(b.tree(rng.randrange(1, maxdepth + 1), plain=rng.random() < 0.4))
    for _ in range(rng.randrange(0, 3)):
        b.clone(rng.randrange(len(b.kind)))
    ops = list(b.ops)
    steps = rng.randrange(12, 41 if tier == 'quick' else 121)

    def wrappers():
        return [h for h in range(len(b.kind)) if b.kind[h] != 's']

    built = len(b.ops)
    for _ in range(steps):
        r = rng.random()
        if r < 0.08:
            # fresh causaloids in mid-history: clone / new singleton / new wrapper over old handles
            k = rng.random()
            if k < 0.4:
                b.clone(rng.randrange(len(b.kind)))
            elif k < 0.6:
                b.single()
            elif k < 0.8:
                b.coll([rng.randrange(len(b.kind)) for _ in range(rng.randrange(1, 4))])
            else:
                hs = [b.single()] + [rng.randrange(len(b.kind)) for _ in range(rng.randrange(1, 3))]
                b.graph(hs, [(0, j) for j in range(1, len(hs))], 0)
            ops += b.ops[built:]
            built = len(b.ops)
            continue
        mode = 'true' if rng.random() < 0.55 else 'random'
        Ld = L if rng.random() >= malformed else rng.choice([0, 1, L - 1])
        d = c02.vec(rng, L, mode)[:Ld]
        ix, _ = c02.index(rng, L, malformed)
        ws = wrappers()
        if ws and rng.random() < 0.8:
            h = rng.choice(ws)
            k = rng.random()
            if k < 0.5:
                ops.append(f'va {h} {c02.fmt(d)} {ix}')
            elif b.kind[h] == 'c':
                ops.append(f'rc {h} {c02.fmt(d)}')
            else:
                ops.append(f'rg {h} {c02.fmt(d)} {ix}')
        else:
            singles = [x for x in range(len(b.kind)) if b.kind[x] == 's']
            h = rng.choice(singles) if singles and rng.random() < 0.9 else rng.randrange(len(b.kind))
            ops.append(f'vs {h} {3 * rng.randrange(0, 4) + rng.choice([c02.T, c02.T, c02.F, c02.E])}')
        if ws and rng.random() < 0.85:
            for h in rng.sample(ws, min(len(ws), rng.randrange(1, 4))):
                ops.append(f'agg {h}')
    for h in wrappers():
        ops.append(f'agg {h}')
    ops.append('act')
    return Case(f'ctx {c02.fmt(markers)}', ops, tags=(f'steps={min(steps // 20 * 20, 100)}+',))


def corpus():
    yield Case('ctx 1,2', [
        's 0 p', 's 1 i', 'c 5 0,1', 's 2 p', 'g 6 0,2,3 0-1,1-2 0', 's 0 p', 'clone 0',
        'act', 'agg 2', 'agg 4',
        'va 4 1,3,1,0,0,1 -', 'agg 2', 'agg 4', 'vs 5 2', 'vs 5 1', 'vs 5 2', 'rc 2 2,1', 'agg 2', 'vs 1 1', 'agg 2', 'agg 4',
        'vs 6 0', 'agg 2', 'agg 4', 'c 7 -', 'agg 7', 'va 7 1 -', 'act'], tags=('hand-made',))

    # wrong entry point for the causal type: verify_all_causes on a singleton (Err), verify_single_cause on wrappers (panics:
    # the wrapper has no causal function) — error paths that must leave every activation flag alone
    yield Case('ctx -', ['s 0 p', 'va 0 1,1 -', 'act', 'vs 0 1', 'va 0 1 -', 'act', 'c 1 0', 'vs 1 1', 'act',
                         's 2 p', 'g 3 0,2 0-1 0', 'vs 4 1', 'act'], tags=('hand-made', 'wrong-entry-point'))

def scale():
    """wrapped structures with far more members than the random trees have: 150 and 1000 singletons in one collection /
    one graph (a percentage below 1 %, counts past 2^8), queried after 1, 2 and n−1 activations"""
    for n in (150, 1000):
        ops = [f's {i} p' for i in range(n)]
        hs = ','.join(map(str, range(n)))
        ops.append(f'c {n} {hs}')                                   # handle n: collection wrapper
        ops.append(f'g {n + 1} {hs} {",".join(f"0-{j}" for j in range(1, n))} 0')   # handle n+1: graph wrapper (fan)
        ops.append(f'c {n + 2} {n},{n + 1}')                        # handle n+2: wrapper over the two wrappers
        ops += ['act', f'agg {n}', f'agg {n + 1}', f'agg {n + 2}']
        ops += [f'vs {n - 3} 1', 'act', f'agg {n}', f'agg {n + 1}', f'agg {n + 2}']
        ops += ['vs 0 1', f'agg {n}', f'agg {n + 1}', f'vs {n - 3} 0', f'agg {n}', f'agg {n + 1}', f'agg {n + 2}', 'vs 0 0', 'act']
        if n <= 200:
            ops += [f'vs {i} 1' for i in range(n - 1)] + ['act', f'agg {n}', f'agg {n + 1}', f'agg {n + 2}',
                                                           f'vs {n - 1} 1', f'agg {n}', f'agg {n + 1}']
        yield Case('ctx -', ops, tags=('scale',))


def generate(rng, tier):
    yield from scale()
    n = 220 if tier == 'quick' else 10000
    for k in range(n):
        yield one_case(rng, tier, 0.2 if k % 5 == 4 else 0.0)


def classify(case):
    t = list(case.tags)
    kinds = [o.split()[0] for o in case.ops]
    for k in ('vs', 'va', 'rc', 'rg', 'agg', 'clone'):
        if k in kinds:
            t.append(f'has-{k}')
    return t


def nontrivial(case):
    ev = sum(1 for o in case.ops if o.split()[0] in ('vs', 'va', 'rc', 'rg'))
    return ev >= 8 and sum(1 for o in case.ops if o.startswith('agg ')) >= 4


def signature(case, verdicts):
    return None
