"""C17 — ArrayGrid store/load law. `case <id> <safe|unsafe_impl> <kind> <W,H,D,C>`; ops `set <coords> <v>`, `get <coords>`
(the number of coordinates selects PointIndex::new1d…new4d)."""
import itertools
from framework import Case

PROP = 'C17'
TRANSLATORS = ['grid']
BUILDS = ['safe', 'unsafe']
OPT_BUILDS = {'unsafe': 'unsafe-opt'}   # thorough tier: the unsafe cases again at opt-level 3
RULE = ('both builds (RefCell grid / raw-pointer grid under the repository feature `unsafe`), every dimension kind 1D-4D, '
        'every extent tuple (W,H,D,C) in {1..4}^4 (256 const-generic instantiations): (a) per kind and per cubic and '
        'non-cubic extents, ALL pairs (p,q) of points with all coordinates below the smallest extent: fill every point with '
        'a distinct value, then for each p store a fresh value and read every q; (b) the same over the whole coordinate range '
        '0..3 (in and out of bounds under the real axis convention, panics included) for a sample of p; (c) one random '
        'store/read sequence per (kind, extents) with mostly in-scope points, some out-of-scope/out-of-bounds ones and '
        'overwrites; (d) malformed stream: points of another dimension than the grid. Model answers are compared on '
        'every line (MISMATCH); the association-list oracle judges every in-scope store and read (SPECFAIL). '
        'non-trivial = at least one store followed by reads of that and of another point; distinct = sha256 of the case text')
ASSUMPTIONS = ['nested array indexing panics iff some index is out of range of its level and a store changes exactly the '
               'addressed cell (fixed prelude of Gen/GridAddr.lean)',
               'RefCell borrows and the raw-pointer write through &self behave as plain accesses in sequential code '
               '(UB of the latter is not detectable; compiled behaviour is compared)',
               'values are i64 in the runs, Int in the model (no arithmetic is performed on them)']
KINDS = {'1d': 1, '2d': 2, '3d': 3, '4d': 4}
BUILD_TOKEN = {'safe': 'safe', 'unsafe': 'unsafe_impl'}


def hdr(build, kind, ext):
    return f'{BUILD_TOKEN[build]} {kind} {ext[0]},{ext[1]},{ext[2]},{ext[3]}'


def pt(c):
    return ','.join(str(x) for x in c)


def all_pairs(build, kind, ext, rng, lo_only=True, sample=None):
    k = KINDS[kind]
    m = min(ext) if lo_only else 4
    pts = list(itertools.product(range(m), repeat=k))
    ops, val = [], {}
    order = pts[:]
    rng.shuffle(order)
    for i, p in enumerate(order):
        ops.append(f'set {pt(p)} {100 + i}')
    ps = pts if sample is None or len(pts) <= sample else rng.sample(pts, sample)
    for j, p in enumerate(ps):
        ops.append(f'set {pt(p)} {-1000 - j}')
        for q in pts:
            ops.append(f'get {pt(q)}')
    return Case(hdr(build, kind, ext), ops, build=build, tags=('all-pairs-in-scope' if lo_only else 'all-pairs-full-range',))


def rand_point(rng, k, m, mode):
    if mode == 'scope':
        return tuple(rng.randrange(m) for _ in range(k))
    if mode == 'range':
        return tuple(rng.randrange(4) for _ in range(k))
    return tuple(rng.choice([0, 1, 2, 3, 4, 4, 7]) for _ in range(k))        # 'wild': certainly some out of bounds


def random_seq(build, kind, ext, rng, nops, malformed=False):
    k, m = KINDS[kind], min(ext)
    ops, stored = [], []
    for _ in range(nops):
        r = rng.random()
        mode = 'scope' if r < 0.65 else 'range' if r < 0.9 else 'wild'
        kk = k
        if malformed and rng.random() < 0.3:
            kk = rng.choice([d for d in (1, 2, 3, 4) if d != k])
        if rng.random() < 0.45:
            p = rand_point(rng, kk, m, mode)
            stored.append(p)
            ops.append(f'set {pt(p)} {rng.choice([0, 1, -1, 7, -7, 2**40, -2**40, rng.randrange(-99, 100)])}')
        else:
            if stored and rng.random() < 0.6:
                p = rng.choice(stored)
                if rng.random() < 0.3:        # a neighbour / a coordinate permutation of a stored point
                    p = tuple(reversed(p)) if rng.random() < 0.5 else tuple(min(4, x + (i == 0)) for i, x in enumerate(p))
            else:
                p = rand_point(rng, kk, m, mode)
            ops.append(f'get {pt(p)}')
    return Case(hdr(build, kind, ext), ops, build=build, tags=('malformed-dimension',) if malformed else ('random',))


CUBIC = [(1, 1, 1, 1), (2, 2, 2, 2), (3, 3, 3, 3), (4, 4, 4, 4)]
NONCUBIC = [(1, 2, 3, 4), (4, 3, 2, 1), (2, 3, 4, 1), (3, 1, 4, 2), (2, 4, 1, 3), (4, 1, 2, 3), (3, 4, 2, 2), (2, 2, 3, 4),
            (4, 2, 3, 3), (3, 3, 2, 4), (2, 3, 2, 3), (4, 4, 2, 3)]


def generate(rng, tier):
    quick = tier == 'quick'
    all_ext = list(itertools.product((1, 2, 3, 4), repeat=4))
    for build in BUILDS:
        # (a) all pairs of in-scope points
        for kind, k in KINDS.items():
            for ext in CUBIC + NONCUBIC:
                n = min(ext) ** k
                if n > (81 if quick else 256):
                    continue
                if quick and n > 27 and ext not in CUBIC:
                    continue
                yield all_pairs(build, kind, ext, rng)
        # (b) whole coordinate range, in and out of bounds
        for kind, k in KINDS.items():
            for ext in (NONCUBIC[:6] if quick else NONCUBIC + CUBIC):
                yield all_pairs(build, kind, ext, rng, lo_only=False, sample=(6 if k >= 3 else None) if quick else (40 if k == 4 else None))
        # (c) one random sequence per (kind, extents)
        for rep in range(1 if quick else 6):
            for ext in all_ext:
                for kind in KINDS:
                    yield random_seq(build, kind, ext, rng, rng.randrange(10, 30 if quick else 120))
        # (d) malformed: points of another dimension
        for _ in range(40 if quick else 600):
            yield random_seq(build, rng.choice(list(KINDS)), rng.choice(all_ext), rng, rng.randrange(10, 40), malformed=True)


def corpus():
    """hand-made witnesses of the mutations this check was tested against (run first): coordinate permutations and
    neighbours of a stored point must stay untouched, in every kind and both builds"""
    for build in BUILDS:
        yield Case(hdr(build, '3d', (2, 2, 2, 2)), ['set 0,0,1 5', 'get 0,0,1', 'get 0,0,0', 'get 0,1,0', 'get 1,0,0', 'set 1,0,0 6',
                                                    'get 0,0,1', 'get 1,0,0', 'get 0,1,0', 'set 0,1,0 7', 'get 0,0,1', 'get 1,0,0',
                                                    'get 0,1,0', 'get 1,1,0', 'get 1,0,1', 'get 0,1,1'], build=build, tags=('corpus',))
        yield Case(hdr(build, '4d', (2, 2, 2, 2)), ['set 0,0,1,0 5', 'get 0,0,0,1', 'get 0,0,1,0', 'set 0,0,0,1 6', 'get 0,0,1,0',
                                                    'get 0,0,0,1', 'get 0,1,0,0', 'get 1,0,0,0', 'set 1,0,0,0 7', 'get 0,1,0,0',
                                                    'get 1,0,0,0'], build=build, tags=('corpus',))
        yield Case(hdr(build, '2d', (2, 2, 2, 2)), ['set 0,1 5', 'get 1,0', 'get 0,1', 'set 1,0 6', 'get 0,1', 'get 1,0', 'get 0,0',
                                                    'get 1,1'], build=build, tags=('corpus',))
        yield Case(hdr(build, '1d', (4, 4, 4, 4)), ['get 3', 'set 3 -3', 'get 3', 'get 0', 'set 0 1', 'get 3', 'get 0', 'get 4',
                                                    'set 4 1', 'get 3'], build=build, tags=('corpus',))


def exhaustive_small():
    import random
    rng = random.Random(17)
    for build in BUILDS:
        for kind, k in KINDS.items():
            for ext in CUBIC + NONCUBIC:
                if min(ext) ** k <= 81:
                    yield all_pairs(build, kind, ext, rng)
            for ext in NONCUBIC:
                yield all_pairs(build, kind, ext, rng, lo_only=False, sample=8 if k == 4 else None)


def classify(case):
    b, kind, ext = case.header.split()
    e = [int(x) for x in ext.split(',')]
    t = ['build-' + b, 'kind-' + kind, 'cubic' if len(set(e)) == 1 else 'non-cubic', f'min-extent-{min(e)}'] + list(case.tags)
    return t


def nontrivial(case):
    sets = [o.split()[1] for o in case.ops if o.startswith('set ')]
    gets = [o.split()[1] for o in case.ops if o.startswith('get ')]
    return bool(sets) and any(g in sets for g in gets) and any(g not in sets[:1] for g in gets)


def signature(case, verdicts):
    return None
