"""C03 — causal state machine. Cases: `states <sid>/<data>/<kind>,…` then new/add/remove/update/evals/evalall/updall/len/fault/counts lines."""
from framework import Case

PROP = 'C03'
# tools/rs2lean_csm.py regenerates lean/DcVerif/Gen/Csm.lean from the current source of csm_types/{mod,csm_state,csm_action}.rs;
# Props/C03Gen.lean proves every generated definition equal to the hand model the C03 theorems (and the driver) are about
TRANSLATORS = ['csm']
EXTRA_THEOREM_MODULES = ['DcVerif.Props.C03Gen']
BUILDS = ['safe']
RULE = ('per case a pool of 3–10 causal states (state ids drawn from 0…6 so that ids collide inside CSM::new / '
        'update_all_states; pairwise distinct integer data, small, negative and ~2^40, whose residue mod 3 encodes the verdict '
        'true/false/error; four causal-function kinds: plain, inverted, switch-faulty, constant-true) and 8 actions with own '
        'counters; histories of 1–60 calls over 16 keys (0…11, 15, 16, 1000003, 2^40) (collisions forced: ~half of the add/update/remove/evaluate calls hit a '
        'registered id, half an absent one), evaluations interleaved everywhere, fault switch for causal functions and fault '
        'mask for actions toggled inside the history; malformed stream: calls before CSM::new, empty slices, evaluation of an '
        'empty machine; exhaustive small scope: all 3-call table histories over 2 keys followed by a full probe; integer literals of the '
        'regenerated Gen/Csm.lean (none on the unchanged tree) join the key alphabet with their neighbours and get directed cases. '
        'non-trivial = a table call and an evaluation; distinct = sha256 of the case text')
ASSUMPTIONS = ['HashMap iteration order is external nondeterminism: the order observed through the causal-function log must be a '
               'duplicate-free enumeration of the registered ids (checked per call); theorems hold for every order',
               'data values are integers |v| < 2^53 (exact as f64); Arc/RwLock activation flag of the causaloid is not part of C03',
               'fn items are called through plain fn pointers (CausalFn, CausalAction::action)']


KEYS = list(range(12)) + [15, 16, 1000003, 2 ** 40]


def source_constants():
    """integer literals of the regenerated Gen/Csm.lean — there is none on the unchanged tree: an id (or a count) the source singles
    out joins the key alphabet together with its neighbours, so that the search after a broken obligation aims at it"""
    import os, re
    try:
        text = open(os.path.join(os.path.dirname(os.path.abspath(__file__)), '..', 'lean', 'DcVerif', 'Gen', 'Csm.lean')).read()
    except OSError:
        return []
    text = re.sub(r'--[^\n]*', '', re.sub(r'/-.*?-/', '', text, flags=re.S))
    out = []
    for m in re.findall(r'(?<![\w.])\d+(?![\w.])', text):
        for x in (int(m) - 1, int(m), int(m) + 1):
            if 0 <= x < 2 ** 63 and x not in KEYS and x not in out:
                out.append(x)
    return out[:30]


def directed(consts):
    """every call with each singled-out constant as the id, on a registered and on an absent id, with probes in between"""
    states = [(j % 7, 3 * (j + 1) + (1 if j % 4 else 0), j % 2) for j in range(10)]
    probe = ['len', 'evalall', 'counts']
    for c in consts:
        ops = ['new 0:0,1:1', f'remove {c}', f'update {c} 2 2', f'evals {c} 4', f'add {c} 3 3'] + probe + \
              [f'add {c} 4 4', f'evals {c} 4', f'evals {c} 3', f'update {c} 5 5', f'evals {c} 7'] + probe + \
              [f'evals 0 {c}', f'evals 1 {c}', f'remove {c}', f'remove {c}', f'evals {c} 1'] + probe + \
              [f'add {c} 6 6', 'updall 2:2,3:3', f'evals {c} 1'] + probe
        yield Case(_hdr(states), ops, tags=('directed-constant',))


def _pool(rng):
    n = rng.randrange(3, 11)
    qs = set()
    while len(qs) < n:
        r = rng.random()
        qs.add(rng.randrange(0, 40) if r < 0.6 else rng.randrange(-40, 0) if r < 0.8 else rng.randrange(2 ** 40, 2 ** 40 + 50))
    states = []
    for q in qs:
        code = rng.choice([0, 1, 1, 1, 0, 2]) if rng.random() < 0.5 else rng.choice([0, 1, 1])
        kind = rng.choice([0, 0, 0, 1, 1, 2, 3])
        states.append((rng.randrange(0, 7), 3 * q + code, kind))
    rng.shuffle(states)
    return states


def _data(rng):
    if rng.random() < 0.04:
        return rng.choice(['nan', 'inf', '-inf'])     # passed through to the causal function as they are
    q = rng.randrange(-30, 60) if rng.random() < 0.9 else rng.randrange(2 ** 40, 2 ** 41)
    return 3 * q + rng.choice([0, 1, 1, 2] if rng.random() < 0.5 else [0, 1])


def _history(rng, states, length, start_new=True, KEYS=KEYS):
    """the generator tracks which ids are registered (python-side bookkeeping only, to aim the calls)"""
    n = len(states)
    ops, reg = [], set()

    def slice_(lo, hi):
        k = rng.randrange(lo, hi + 1)
        prs = [(rng.randrange(n), rng.randrange(8)) for _ in range(k)]
        return ','.join(f'{j}:{a}' for j, a in prs) or '-', {states[j][0] for j, _ in prs}

    def key(want_registered):
        pool = sorted(reg) if want_registered else [k for k in KEYS if k not in reg]
        if pool and rng.random() < 0.75:
            return rng.choice(pool)
        return rng.choice(KEYS)

    if start_new:
        txt, reg = slice_(0, 6)
        ops.append('new ' + txt)
    while len(ops) < length:
        r = rng.random()
        if r < 0.20:
            k = key(False)
            ops.append(f'add {k} {rng.randrange(n)} {rng.randrange(8)}')
            reg.add(k)
        elif r < 0.27:
            k = key(True)
            ops.append(f'remove {k}')
            reg.discard(k)
        elif r < 0.39:
            ops.append(f'update {key(True)} {rng.randrange(n)} {rng.randrange(8)}')
        elif r < 0.62:
            ops.append(f'evals {key(True)} {_data(rng)}')
        elif r < 0.78:
            ops.append('evalall')
        elif r < 0.84:
            ops.append('len')
        elif r < 0.86:
            txt, reg = slice_(0, 7)
            ops.append('updall ' + txt)
        elif r < 0.87:
            txt, reg = slice_(0, 5)
            ops.append('new ' + txt)
        elif r < 0.92:
            ops.append(f'fault c {rng.choice([0, 0, 1])}')
        elif r < 0.98:
            ops.append(f'fault a {rng.choice([0, 0, 0, 1 << rng.randrange(8), rng.randrange(256)])}')
        else:
            ops.append('counts')
    return ops


def _hdr(states):
    return 'states ' + ','.join(f'{s}/{d}/{k}' for s, d, k in states)


def scale():
    """tables far larger than the random histories build: 100 / 300 registered ids (registered id != CausalState::id), then
    removals down to a handful with a full probe in between (hash-table growth and shrink thresholds)"""
    states = [(j % 7, 3 * (j + 1) + (1 if j % 4 else 0), j % 2) for j in range(10)]
    for n in (100, 300):
        ops = ['new 0:0']
        keys = [1000 + 7 * i for i in range(n)]
        for i, k in enumerate(keys):
            ops.append(f'add {k} {i % 10} {i % 8}')
        ops += ['len', 'evalall'] + [f'evals {k} {3 * i + 1}' for i, k in enumerate(keys[:n:9])]
        for i, k in enumerate(keys):
            if i % 10 != 3:
                ops.append(f'remove {k}')
                if i % 25 == 0:
                    ops += ['len', f'evals {keys[3]} 4', f'evals {keys[(i // 10) * 10 + 13] if (i // 10) * 10 + 13 < n else keys[3]} 7']
        ops += ['len', 'evalall'] + [f'evals {k} 1' for k in keys[3::10]] + [f'evals {keys[0]} 1', 'counts']
        yield Case(_hdr(states), ops, tags=('scale',))
    yield Case(_hdr(states), ['new 0:1,1:2', 'evals 0 nan', 'evals 1 nan', 'evals 0 inf', 'evals 1 -inf', 'evals 5 nan', 'counts'],
               tags=('scale', 'special-values'))


def generate(rng, tier):
    yield from scale()
    consts = source_constants()
    yield from directed(consts)
    keys = KEYS + consts
    ncases = 1200 if tier == 'quick' else 30000
    for n in range(ncases):
        states = _pool(rng)
        length = rng.randrange(1, 61)
        r = rng.random()
        if r < 0.9:
            ops = _history(rng, states, length, KEYS=keys)
            tags = ()
        elif r < 0.95:   # malformed: calls before CSM::new
            ops = _history(rng, states, rng.randrange(1, 6), start_new=False, KEYS=keys) + _history(rng, states, length, KEYS=keys)
            tags = ('malformed-before-new',)
        else:            # empty machine
            ops = ['new -', 'evalall', 'len', f'evals {rng.randrange(8)} 1', f'remove {rng.randrange(8)}'] + \
                  _history(rng, states, length, start_new=False, KEYS=keys)
            tags = ('empty-machine',)
        ops += ['evalall', 'len', 'counts']
        yield Case(_hdr(states), ops, tags=tags)
    # exhaustive small scope: every history of 3 table calls over keys {0,1}, two states, two actions; full probe after each call
    states = [(0, 1, 0), (1, 4, 0), (0, 3, 0)]
    probe = ['len', 'evals 0 1', 'evals 1 1', 'evalall']
    alphabet = [f'add {k} {j} {a}' for k in (0, 1) for j, a in ((0, 0), (1, 1))] + \
               [f'update {k} {j} {a}' for k in (0, 1) for j, a in ((0, 2), (2, 3))] + ['remove 0', 'remove 1', 'updall 0:4,1:5']
    depth = 2 if tier == 'quick' else 3
    def rec(prefix, d):
        if d == 0:
            ops = ['new 0:6']
            for o in prefix:
                ops += [o] + probe
            yield Case(_hdr(states), ops + ['counts'], tags=('exhaustive-small',))
            return
        for o in alphabet:
            yield from rec(prefix + [o], d - 1)
    yield from rec([], depth)


def exhaustive_small():
    return []


def classify(case):
    t = list(case.tags)
    for k in ('new', 'add', 'remove', 'update', 'updall', 'evals', 'evalall', 'len', 'counts'):
        if any(o.startswith(k + ' ') or o == k for o in case.ops):
            t.append('has-' + k)
    if any(o.startswith('fault c 1') for o in case.ops):
        t.append('fault-causal-fn')
    if any(o.startswith('fault a ') and not o.endswith(' 0') for o in case.ops):
        t.append('fault-action')
    n = len(case.ops)
    t.append('len<=10' if n <= 10 else 'len<=30' if n <= 30 else 'len>30')
    return t


def nontrivial(case):
    return any(o.split()[0] in ('add', 'remove', 'update', 'updall') for o in case.ops) and \
        any(o.split()[0] in ('evals', 'evalall') for o in case.ops)


def signature(case, verdicts):
    return None
