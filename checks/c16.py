"""C16 — adjustable context nodes. `case <id> <kind> <gridkind> <coords>`; ops `node <coords>` (fresh node),
`grid <x,y,z,t=v;…>` (fresh grid filled through ArrayGrid::set), `set <x,y,z,t> <v>`, `update`, `adjust`."""
import itertools
import re
from framework import Case

PROP = 'C16'
TRANSLATORS = ['adjustable']
RULE = ('per node kind (data, time, space, space-time) and operation (update, adjust): every sign pattern {-,0,+}^n of the '
        'current coordinates x every sign pattern {-,0,+}^n of the grid values at the cells the node reads, magnitudes drawn '
        'from {1,2,3,7,2^31-1} (adjust additionally with deltas that make a result exactly -1/0/+1); every grid also holds '
        'distinct positive decoys at the coordinate permutations / neighbours of the expected cells (sometimes at every '
        'in-bounds point), so a wrong cell is visible; real AdjustableData/Time/Space/SpaceTime<i64> (and <u64> for the cases without a negative value) and real ArrayGrids '
        '<i64,4,3,2,2> of the dimension the code expects (1D/1D/3D/4D) plus ~8% mismatched dimensions; stateful runs of '
        'several operations on one node; non-trivial = at least one update/adjust; distinct = sha256 of the case text')
ASSUMPTIONS = ['values of T are mathematical integers: i64 values below 2^31 in the runs, so no overflow (overflow of a '
               'concrete T is outside the property)',
               'a k-dimensional ArrayGrid looks only at the first k coordinates of a point (driver `project`); '
               'the grid is filled through ArrayGrid::set (C17 covers set/get)']

N = {'data': 1, 'time': 1, 'space': 3, 'spacetime': 4}
EXPECTED_GRID = {'data': '1d', 'time': '1d', 'space': '3d', 'spacetime': '4d'}
# in-bounds ranges per coordinate (x, y, z, t) for ArrayGrid<i64, W=4, H=3, D=2, C=2> (see harness/src/c16.rs)
BOUNDS = {'1d': (3, 1, 1, 1), '2d': (4, 3, 1, 1), '3d': (3, 2, 4, 1), '4d': (2, 2, 3, 4)}
DIM = {'1d': 1, '2d': 2, '3d': 3, '4d': 4}
BIG = 2 ** 31 - 1
MAGS = [1, 2, 3, 7, BIG]


def cells(kind):
    if kind in ('data', 'time'):
        return [(0, 0, 0, 0)]
    if kind == 'space':
        return [(0, 0, i, 0) for i in range(3)]
    return [(0, 0, 0, i) for i in range(4)]


def project(gk, c):
    return tuple(c[i] if i < DIM[gk] else 0 for i in range(4))


def inb(gk, c):
    return all(c[i] < BOUNDS[gk][i] for i in range(4))


def all_points(gk):
    return [c for c in itertools.product(*[range(b) for b in BOUNDS[gk]])]


def grid_arg(rng, kind, gk, values, full=False):
    """the cells the node reads get `values`; decoys elsewhere"""
    want = {}
    for c, v in zip(cells(kind), values):
        want[project(gk, c)] = v          # on a lower-dimensional grid several reads may hit one cell: last wins
    decoys = set()
    if full:
        decoys = set(all_points(gk))
    else:
        for c in cells(kind):
            for perm in set(itertools.permutations(c)):
                decoys.add(project(gk, perm))
        for i in range(4):
            decoys.add(project(gk, tuple(1 if j == i else 0 for j in range(4))))
            decoys.add(project(gk, tuple(3 if j == i else 0 for j in range(4))))
    items = []
    k = 0
    for c in sorted(decoys):
        if c in want or not inb(gk, c):
            continue
        k += 1
        items.append((c, 1000 + 37 * k + rng.randrange(0, 30)))
    items += list(want.items())
    rng.shuffle(items)
    # stores are applied in order: make sure the wanted cells are not overwritten (they are distinct keys, so fine)
    return ';'.join(f'{c[0]},{c[1]},{c[2]},{c[3]}={v}' for c, v in items) or '-', [want[project(gk, c)] for c in cells(kind)]


def val(rng, sign):
    return 0 if sign == 0 else sign * rng.choice(MAGS)


def fmt(vs):
    return ','.join(str(v) for v in vs)


def sign_tests(rng, kind, ops_filter=('update', 'adjust'), sample=None):
    """all sign patterns of current x grid for one kind; yields (cur, new, op)"""
    n = N[kind]
    pats = list(itertools.product((-1, 0, 1), repeat=n))
    pairs = [(a, b) for a in pats for b in pats]
    if sample is not None and len(pairs) > sample:
        pairs = rng.sample(pairs, sample)
    for a, b in pairs:
        for op in ops_filter:
            cur = [val(rng, s) for s in a]
            new = [val(rng, s) for s in b]
            if op == 'adjust' and rng.random() < 0.5:
                # keep the sign pattern of the delta but pick magnitudes relative to cur so that results land on -1/0/+1
                for i in range(n):
                    if b[i] != 0 and cur[i] != 0 and (b[i] < 0) != (cur[i] < 0) and abs(cur[i]) < BIG:
                        new[i] = b[i] * max(1, abs(cur[i]) + rng.choice([-1, 0, 1]))
            yield cur, new, op


def pack(kind, gk, tests, rng, per_case=40, tags=(), prefix=''):
    """tests -> cases of `node` / `grid` / op triples"""
    buf = []
    for cur, new, op in tests:
        garg, _ = grid_arg(rng, kind, gk, new, full=rng.random() < 0.05)
        buf.append((cur, [f'node {fmt(cur)}', f'grid {garg}', op]))
        if len(buf) == per_case:
            yield Case(f'{prefix}{kind} {gk} {fmt(buf[0][0])}', [l for _, ls in buf for l in ls], tags=tags)
            buf = []
    if buf:
        yield Case(f'{prefix}{kind} {gk} {fmt(buf[0][0])}', [l for _, ls in buf for l in ls], tags=tags)


def stateful(rng, kind, gk, nops):
    """one node, a run of operations with incremental `set`s between them (results feed the next operation)"""
    cur = [rng.choice([-3, -1, 0, 1, 2, 5, 100]) for _ in range(N[kind])]
    ops = []
    garg, _ = grid_arg(rng, kind, gk, [rng.choice([-2, -1, 0, 1, 2, 3]) for _ in range(N[kind])], full=rng.random() < 0.3)
    ops.append(f'grid {garg}')
    for _ in range(nops):
        r = rng.random()
        if r < 0.45:
            c = rng.choice(cells(kind)) if rng.random() < 0.8 else rng.choice(all_points(gk))
            c = project(gk, c)
            if inb(gk, c):
                ops.append(f'set {c[0]},{c[1]},{c[2]},{c[3]} {rng.choice([-BIG, -5, -2, -1, 0, 0, 1, 1, 2, 3, 9, BIG // 4])}')
        elif r < 0.7:
            ops.append('update')
        else:
            ops.append('adjust')
    return Case(f'{kind} {gk} {fmt(cur)}', ops, tags=('stateful',))


def generate(rng, tier):
    for c in _generate(rng, tier):
        yield c
        if 'mismatched-grid' not in c.tags and 'unsigned-T' not in c.tags:
            u = unsigned_variant(c)
            if u is not None and rng.random() < 0.5:
                yield u


def _generate(rng, tier):
    quick = tier == 'quick'
    # 1. exhaustive sign patterns on the grid kind the code expects
    for kind in ('data', 'time', 'space'):
        reps = 6 if kind != 'space' else 1
        for _ in range(reps if quick else reps * 4):
            yield from pack(kind, EXPECTED_GRID[kind], sign_tests(rng, kind), rng, tags=('sign-exhaustive',))
            nonneg = [t for t in sign_tests(rng, kind) if all(v >= 0 for v in t[0]) and all(v >= 0 for v in t[1])]
            yield from pack(kind, EXPECTED_GRID[kind], nonneg, rng, tags=('sign-exhaustive', 'unsigned-T'), prefix='u')
    # space-time: all 81 x 81 patterns x 2 ops (thorough: eight times, with other magnitudes)
    for _ in range(1 if quick else 8):
        yield from pack('spacetime', '4d', sign_tests(rng, 'spacetime', sample=None), rng,
                        tags=('sign-exhaustive',))
        nonneg = [t for t in sign_tests(rng, 'spacetime', sample=None) if all(v >= 0 for v in t[0]) and all(v >= 0 for v in t[1])]
        yield from pack('spacetime', '4d', nonneg, rng, tags=('sign-exhaustive', 'unsigned-T'), prefix='u')
    # 2. malformed stream: grids of a dimension the node does not expect
    for kind in N:
        for gk in BOUNDS:
            if gk != EXPECTED_GRID[kind]:
                yield from pack(kind, gk, sign_tests(rng, kind, sample=20 if quick else 200), rng, tags=('mismatched-grid',))
    # 3. stateful runs
    for i in range(120 if quick else 3000):
        kind = rng.choice(list(N))
        gk = EXPECTED_GRID[kind] if rng.random() < 0.9 else rng.choice(list(BOUNDS))
        yield stateful(rng, kind, gk, rng.randrange(5, 40))


def unsigned_variant(case):
    """the same case on AdjustableX<u64> / ArrayGrid<u64,…> (header kind `u<kind>`), when no value in it is negative"""
    if re.search(r'(?<![0-9])-[0-9]', case.header + ' ' + ' '.join(case.ops)):
        return None
    return Case('u' + case.header, case.ops, build=case.build, tags=tuple(case.tags) + ('unsigned-T',))


def corpus():
    """hand-made witnesses of the mutations this check was tested against (run first)"""
    # unsigned element type: adjust with positive data and positive / zero deltas, update with zero
    yield Case('udata 1d 4', ['grid 0,0,0,0=3;1,0,0,0=9', 'adjust', 'adjust', 'grid 0,0,0,0=0;1,0,0,0=9', 'adjust', 'update',
                              'grid 0,0,0,0=7', 'update', 'adjust'], tags=('corpus', 'unsigned-T'))
    yield Case('uspacetime 4d 1,2,3,4', ['grid 0,0,0,0=5;0,0,0,1=6;0,0,0,2=7;0,0,0,3=8', 'adjust', 'update', 'adjust',
                                         'grid 0,0,0,0=5;0,0,0,1=0;0,0,0,2=7;0,0,0,3=8', 'update', 'adjust'], tags=('corpus', 'unsigned-T'))
    # a later coordinate inadmissible while the earlier ones are fine: a partial write would show
    yield Case('spacetime 4d 1,2,3,4', ['grid 0,0,0,0=5;0,0,0,1=0;0,0,0,2=7;0,0,0,3=8', 'update',
                                        'grid 0,0,0,0=5;0,0,0,1=6;0,0,0,2=0;0,0,0,3=8', 'update',
                                        'grid 0,0,0,0=5;0,0,0,1=6;0,0,0,2=7;0,0,0,3=-1', 'update',
                                        'grid 0,0,0,0=5;0,0,0,1=6;0,0,0,2=7;0,0,0,3=-5', 'adjust',
                                        'grid 0,0,0,0=5;0,0,0,1=6;0,0,0,2=-4;0,0,0,3=1', 'adjust',
                                        'grid 0,0,0,0=5;0,0,0,1=6;0,0,0,2=7;0,0,0,3=0', 'update', 'adjust'], tags=('corpus',))
    yield Case('space 3d 1,2,3', ['grid 0,0,0,0=5;0,0,1,0=0;0,0,2,0=7', 'update', 'grid 0,0,0,0=5;0,0,1,0=6;0,0,2,0=0', 'update',
                                  'grid 0,0,0,0=5;0,0,1,0=6;0,0,2,0=-4', 'adjust', 'grid 0,0,0,0=5;0,0,1,0=-3;0,0,2,0=1', 'adjust',
                                  # decoys at the coordinate permutations of the expected cells
                                  'grid 0,0,0,0=5;0,0,1,0=6;0,0,2,0=7;0,1,0,0=91;1,0,0,0=92;2,0,0,0=93;0,0,3,0=94', 'update', 'adjust'],
               tags=('corpus',))
    yield Case('time 1d -2', ['adjust', 'grid 0,0,0,0=2', 'adjust', 'grid 0,0,0,0=-1', 'adjust', 'node 5', 'adjust', 'update',
                              'grid 0,0,0,0=0', 'update', 'adjust'], tags=('corpus',))
    yield Case('data 1d 4', ['grid 0,0,0,0=0;1,0,0,0=9', 'update', 'grid 0,0,0,0=-5;1,0,0,0=9', 'adjust', 'grid 0,0,0,0=-4;1,0,0,0=9',
                             'adjust', 'grid 0,0,0,0=-7;1,0,0,0=9', 'update'], tags=('corpus',))


def exhaustive_small():
    import random
    rng = random.Random(16)
    for kind in N:
        yield from pack(kind, EXPECTED_GRID[kind], sign_tests(rng, kind), rng, tags=('sign-exhaustive',))


def classify(case):
    kind, gk = case.header.split()[:2]
    t = [kind, 'grid-' + gk] + list(case.tags)
    if gk != EXPECTED_GRID[kind[1:] if kind.startswith('u') else kind]:
        t.append('unexpected-grid-dimension')
    for k in ('update', 'adjust', 'set', 'grid', 'node'):
        n = sum(1 for o in case.ops if o == k or o.startswith(k + ' '))
        if n:
            t.append(f'has-{k}')
    return t


def nontrivial(case):
    return any(o in ('update', 'adjust') for o in case.ops)


def signature(case, verdicts):
    return None
