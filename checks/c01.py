"""C01 — graph reasoning verdict = conjunction over all reachable causaloids.
Cases: build ops (`add|root <id> <fn>`, `edge a b`) then reasoning ops (`all`, `sub <start>`, `single <i>`), see harness/src/c01.rs."""
import itertools
from framework import Case

PROP = 'C01'
# tools/rs2lean_reasoning.py regenerates lean/DcVerif/Gen/Reasoning.lean from the current source of graph_reasoning.rs,
# graph_reasoning_utils.rs and graph.rs; Props/C01Gen.lean proves every generated definition equal to the hand model the
# C01 theorems are about
TRANSLATORS = ['reasoning']
EXTRA_THEOREM_MODULES = ['DcVerif.Props.C01Gen']
RULE = ('random DAGs (chain, tree, layered, diamonds, dense, disconnected parts; topological order = random permutation of '
        'the indices; edges added in random order, interleaved with node adds), n <= 12 quick / <= 40 thorough, DFS unfolding '
        'bounded; ids = index | permuted | colliding | sparse; functions plain / inverted / contextual; per graph several '
        'observation vectors (all-true, single false, single error, error+false, random over {t,f,e}), with and without '
        'data_index, reason_all + reason_subgraph_from_cause from every node + reason_single_cause; malformed stream: empty '
        'data, short data (panic), missing root, absent start, duplicate / dangling edges, data_index without the id; '
        'exhaustive: all DAGs on <= 3 (quick) / <= 4 (thorough) nodes x all verdict vectors x all starts; '
        'non-trivial = >= 2 nodes, >= 1 edge, >= 1 reasoning op; distinct = sha256 of the case text')
ASSUMPTIONS = ['graphs are built by adds only (no removals) and are acyclic',
               'causal functions are the harness decoders (obs mod 3), deterministic',
               'petgraph MatrixGraph hands out indices 0,1,2,… and lists neighbours in ascending index order '
               '(compared on every case, not proved)']
UNFOLD_LIMIT = {'quick': 4000, 'thorough': 40000}


def unfold_sizes(n, out):
    """size of the DFS unfolding (no visited set) from every node of a DAG"""
    memo = {}

    def sz(v):
        if v not in memo:
            memo[v] = 1 + sum(sz(c) for c in out[v])
        return memo[v]
    return [sz(v) for v in range(n)]


def make_dag(rng, n, shape):
    perm = list(range(n))
    if rng.random() < 0.7:
        rng.shuffle(perm)
    edges = set()
    if shape == 'chain':
        for i in range(n - 1):
            edges.add((perm[i], perm[i + 1]))
    elif shape == 'tree':
        for i in range(1, n):
            edges.add((perm[rng.randrange(0, i)], perm[i]))
    elif shape == 'layered':
        layers, i = [], 0
        while i < n:
            k = rng.randrange(1, 4)
            layers.append(perm[i:i + k])
            i += k
        for a, b in zip(layers, layers[1:]):
            for x in a:
                for y in b:
                    if rng.random() < 0.7:
                        edges.add((x, y))
    elif shape == 'diamonds':
        i = 0
        while i + 3 < n:
            a, b, c, d = perm[i:i + 4]
            edges |= {(a, b), (a, c), (b, d), (c, d)}
            i += 3
        for j in range(i + 1, n):
            edges.add((perm[j - 1], perm[j]))
    elif shape == 'disconnected':
        cut = max(1, n // 2)
        for part in (perm[:cut], perm[cut:]):
            for i in range(len(part)):
                for j in range(i + 1, len(part)):
                    if rng.random() < 0.4:
                        edges.add((part[i], part[j]))
    else:  # random / dense
        dens = 0.25 if shape == 'random' else 0.6
        for i in range(n):
            for j in range(i + 1, n):
                if rng.random() < dens:
                    edges.add((perm[i], perm[j]))
    return perm, sorted(edges)


def prune(rng, n, edges, limit):
    edges = list(edges)
    while True:
        out = [[] for _ in range(n)]
        for a, b in edges:
            out[a].append(b)
        if max(unfold_sizes(n, out)) <= limit or not edges:
            return edges
        edges.pop(rng.randrange(len(edges)))


def true_code(fn):
    if fn == 'p':
        return 0
    if fn == 'i':
        return 1
    return (-int(fn[1:])) % 3


def data_str(d):
    return ','.join(map(str, d)) if d else '-'


def idx_str(ix):
    if ix is None:
        return '-'
    return ','.join(f'{k}:{v}' for k, v in ix.items()) if ix else 'e'


def build_ops(rng, n, edges, ids, fns, root, extra_bad=True):
    """node adds in index order, each edge as soon as both endpoints exist (random order)"""
    ops = []
    pending = list(edges)
    rng.shuffle(pending)
    for i in range(n):
        ops.append(f"{'root' if i == root else 'add'} {ids[i]} {fns[i]}")
        ready = [e for e in pending if max(e) <= i]
        if ready and rng.random() < 0.6:
            k = rng.randrange(1, len(ready) + 1)
            for e in ready[:k]:
                ops.append(f'edge {e[0]} {e[1]}')
                pending.remove(e)
        if extra_bad and rng.random() < 0.08:
            ops.append(f'edge {rng.randrange(0, i + 1)} {i + 1 + rng.randrange(0, 3)}')   # dangling -> err
    for e in pending:
        ops.append(f'edge {e[0]} {e[1]}')
    if extra_bad and edges and rng.random() < 0.3:
        e = rng.choice(edges)
        ops.append(f'edge {e[0]} {e[1]}')                                                    # duplicate -> err
    return ops


def gen_case(rng, tier, nmax):
    n = rng.randrange(1, nmax + 1) if rng.random() < 0.8 else rng.randrange(1, 5)
    shape = rng.choice(['chain', 'tree', 'layered', 'diamonds', 'disconnected', 'random', 'dense'])
    perm, edges = make_dag(rng, n, shape)
    edges = prune(rng, n, edges, UNFOLD_LIMIT[tier])
    idmode = rng.choice(['same', 'same', 'permuted', 'permuted', 'colliding', 'sparse'])
    if idmode == 'same':
        ids = list(range(n))
    elif idmode == 'permuted':
        ids = list(range(n))
        rng.shuffle(ids)
    elif idmode == 'colliding':
        ids = [rng.randrange(0, max(1, n // 2)) for _ in range(n)]
    else:
        ids = rng.sample(range(0, 3 * n + 5), n)
    fns = [rng.choice(['p', 'p', 'p', 'i', 'c0', 'c1', 'c2']) for _ in range(n)]
    r = rng.random()
    root = perm[0] if r < 0.6 else (rng.randrange(n) if r < 0.9 else None)
    ops = build_ops(rng, n, edges, ids, fns, root)
    if rng.random() < 0.1:
        ops.append('info')
    tags = [f'shape:{shape}', f'ids:{idmode}', 'root' if root is not None else 'no-root']

    # observation vectors
    distinct = sorted(set(ids))
    nq = rng.randrange(2, 6)
    for q in range(nq):
        use_idx = rng.random() < 0.4
        if use_idx:
            slots = list(range(len(distinct) + rng.randrange(0, 3)))
            rng.shuffle(slots)
            ix = {d: slots[k] for k, d in enumerate(distinct)}
            dlen = len(slots)
            slot_of = lambda i: ix[ids[i]]
        else:
            ix = None
            dlen = max(ids) + 1 + rng.randrange(0, 2)
            slot_of = lambda i: ids[i]
        codes = [rng.randrange(0, 3) for _ in range(dlen)]          # slots no node uses: random
        kind = rng.choice(['all-true', 'all-true', 'one-false', 'one-error', 'error+false', 'random', 'mostly-true'])
        if kind != 'random':
            for i in range(n):
                codes[slot_of(i)] = true_code(fns[i])
            flip = []
            if kind == 'one-false':
                flip = [(rng.randrange(n), 1)]
            elif kind == 'one-error':
                flip = [(rng.randrange(n), 2)]
            elif kind == 'error+false':
                flip = [(rng.randrange(n), 1), (rng.randrange(n), 2)]
            elif kind == 'mostly-true':
                flip = [(rng.randrange(n), rng.randrange(1, 3)) for _ in range(rng.randrange(1, 4))]
            for i, d in flip:
                codes[slot_of(i)] = (true_code(fns[i]) + d) % 3
        data = [3 * (k + 100 * rng.randrange(0, 2)) + c for k, c in enumerate(codes)]
        tags.append(f'vec:{kind}')
        tags.append('with-index' if use_idx else 'by-id')
        ds, xs = data_str(data), idx_str(ix)
        ops.append(f'all {ds} {xs}')
        starts = list(range(n)) if (q == 0 or rng.random() < 0.3) else rng.sample(range(n), min(n, 3))
        for s in starts:
            ops.append(f'sub {s} {ds} {xs}')
        if rng.random() < 0.5:
            i = rng.randrange(n)
            ops.append(f'single {i} {data[rng.randrange(len(data))]}')
        # malformed stream
        m = rng.random()
        if m < 0.08:
            ops.append(f'all - {xs}')
            ops.append(f'sub {rng.randrange(n)} - {xs}')
            tags.append('mal:empty-data')
        elif m < 0.16:
            ops.append(f'sub {n + rng.randrange(0, 4)} {ds} {xs}')
            tags.append('mal:absent-start')
        elif m < 0.22 and len(data) > 1:
            ops.append(f'sub {rng.randrange(n)} {data_str(data[:rng.randrange(1, len(data))])} {xs}')
            tags.append('mal:short-data')
        elif m < 0.27 and use_idx and len(ix) > 1:
            ix2 = dict(ix)
            ix2.pop(rng.choice(list(ix2)))
            ops.append(f'all {ds} {idx_str(ix2)}')
            tags.append('mal:index-without-id')
        elif m < 0.30:
            ops.append(f'all {ds} e')
            tags.append('mal:empty-index')
        elif m < 0.36:
            i = rng.randrange(n + 2)
            ops.append(f'single {i} -')
            ops.append(f'single {i} {data_str(data[:rng.randrange(1, len(data) + 1)])}')
            tags.append('mal:single-multi')
    return Case(f'n {n}', ops, tags=tags)


def all_dags(k):
    pairs = [(a, b) for a in range(k) for b in range(k) if a != b]
    for mask in range(1 << len(pairs)):
        edges = [pairs[i] for i in range(len(pairs)) if mask >> i & 1]
        # acyclic?
        indeg = [0] * k
        for a, b in edges:
            indeg[b] += 1
        todo = [v for v in range(k) if indeg[v] == 0]
        seen = 0
        while todo:
            v = todo.pop()
            seen += 1
            for a, b in edges:
                if a == v:
                    indeg[b] -= 1
                    if indeg[b] == 0:
                        todo.append(b)
        if seen == k:
            yield edges


def exhaustive(kmax):
    """all DAGs on <= kmax labelled nodes x all verdict vectors over {t,f,e} x every start (+ reason_all from node 0 as root)"""
    for k in range(1, kmax + 1):
        for edges in all_dags(k):
            ops = ['root 0 p'] + [f'add {i} p' for i in range(1, k)] + [f'edge {a} {b}' for a, b in edges]
            for codes in itertools.product(range(3), repeat=k):
                ds = data_str([3 * i + c for i, c in enumerate(codes)])
                ops.append(f'all {ds} -')
                for s in range(1, k):
                    ops.append(f'sub {s} {ds} -')
            yield Case(f'n {k}', ops, tags=('exhaustive-dags',))


def exhaustive_small():
    return exhaustive(4)


def corpus():
    # the three shapes of the repository's tests, but with mixed verdicts, and the two "error or false" orders
    yield Case('n 3', ['root 0 p', 'add 1 p', 'add 2 p', 'edge 0 1', 'edge 0 2', 'all 0,4,8 -', 'all 0,5,7 -', 'all 0,3,7 -',
                       'all 0,3,8 -', 'all 1,5,8 -'], tags=('corpus',))
    yield Case('n 0', ['info', 'all 0 -', 'sub 0 0 -', 'single 0 0', 'all - -'], tags=('corpus', 'mal:empty-graph'))
    yield Case('n 2', ['add 0 p', 'add 1 p', 'edge 0 1', 'all 0,3 -', 'sub 0 0,3 -', 'info'], tags=('corpus', 'no-root'))


def scale():
    """cases beyond the sizes the random generator reaches: long chains and wide fans (depth / breadth past 2^8), ids
    past 2^32 that collide in their low 32 bits and are told apart only through the data index"""
    for n, bad in ((300, 280), (300, 256), (300, 257), (600, 599)):
        ops = ['root 0 p'] + [f'add {i} p' for i in range(1, n)] + [f'edge {i} {i + 1}' for i in range(n - 1)]
        good = [3 * i for i in range(n)]
        d = list(good); d[bad] += 1
        e = list(good); e[bad] += 2
        ops += [f'all {data_str(good)} -', f'all {data_str(d)} -', f'all {data_str(e)} -', f'sub {bad - 3} {data_str(d)} -',
                f'sub {bad + 1 if bad + 1 < n else 0} {data_str(d)} -']
        yield Case(f'n {n}', ops, tags=('scale', 'scale:chain'))
    n = 300                                            # fan: root -> 299 children, one false / one error among them
    ops = ['root 0 p'] + [f'add {i} p' for i in range(1, n)] + [f'edge 0 {i}' for i in range(1, n)]
    for bad, delta in ((290, 1), (257, 2), (1, 1)):
        d = [3 * i for i in range(n)]; d[bad] += delta
        ops.append(f'all {data_str(d)} -')
    yield Case(f'n {n}', ops, tags=('scale', 'scale:fan'))
    big = 2 ** 32
    ids = [5, big + 5, 7, big + 7, 2 ** 63 + 5, 6]     # low 32 bits collide pairwise; verdicts differ
    ops = [f"{'root' if i == 0 else 'add'} {v} p" for i, v in enumerate(ids)] + [f'edge {i} {i + 1}' for i in range(5)]
    ix = {v: k for k, v in enumerate(ids)}
    for bad in range(6):
        d = [3 * k for k in range(6)]; d[bad] += 1
        ops.append(f'all {data_str(d)} {idx_str(ix)}')
        ops.append(f'sub 1 {data_str(d)} {idx_str(ix)}')
    ix2 = {v: 5 - k for k, v in enumerate(ids)}
    ops.append(f'all 0,3,6,9,13,15 {idx_str(ix2)}')
    yield Case('n 6', ops, tags=('scale', 'scale:wide-ids'))


def generate(rng, tier):
    yield from scale()
    if tier == 'quick':
        ncases, nmax, kmax = 800, 12, 3
    else:
        ncases, nmax, kmax = 5000, 40, 4
    for _ in range(ncases):
        yield gen_case(rng, tier, nmax)
    yield from exhaustive(kmax)


def classify(case):
    t = list(case.tags)
    n = int(case.header.split()[1])
    t.append('n=0' if n == 0 else 'n<=4' if n <= 4 else 'n<=12' if n <= 12 else 'n>12')
    return sorted(set(t))


def nontrivial(case):
    return (sum(1 for o in case.ops if o.startswith(('add ', 'root '))) >= 2 and any(o.startswith('edge ') for o in case.ops)
            and any(o.startswith(('all ', 'sub ')) for o in case.ops))


def signature(case, verdicts):
    return None
