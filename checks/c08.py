"""C08 — UltraGraph is a directed-graph store. Cases: `cap <c> via <ctor>` then op lines (see harness/src/c08.rs)."""
from framework import Case

PROP = 'C08'
# tools/rs2lean_ugraph.py: index / weight widths -> Gen/UGraphTypes.lean; tools/rs2lean_ugraphfns.py: the wrapper code of
# UltraMatrixGraph, function by function -> Gen/UGraphFns.lean; Props/C08Gen.lean proves every generated definition equal to the
# hand model the C08 theorems are about (on every well-formed state) and transports the theorems to the generated step function
TRANSLATORS = ['ugraph', 'ugraphfns']
EXTRA_THEOREM_MODULES = ['DcVerif.Props.C08Gen', 'DcVerif.Props.C15Gen', 'DcVerif.Props.C01Store']   # C15Gen: C15's statements on the generated shortest_path
RULE = ('histories of 1-80 ops (thorough: up to 250) over add/addroot/rmnode/edge/edgew/rmedge/clear, built through every '
        'public constructor with initial capacities 0-4 (forces matrix growth 0/1/2/3/4 -> 4 -> 8 -> 16 ...); targets drawn '
        'mostly from the indices returned so far (live or removed, so that index reuse after removals, duplicate edges, '
        'self-loops and absent targets all occur), plus a malformed stream (huge / never-allocated indices, ops on the empty '
        'graph); after every mutator `snap n` re-reads EVERY observer (contains_node/get_node for every index, contains_edge '
        'for every ordered pair, counts, sorted get_all_edges/get_all_nodes, outgoing lists, root triple, last index) and '
        'individual observer ops (raw outgoing order) are interleaved; scripted profiles: removal-heavy with index reuse, '
        'edge-dense, root handling, clear-and-rebuild, F2/F3 witnesses; thorough adds all mutator sequences of length <= 4 '
        'over two nodes; distinct = sha256 of the case text')
ASSUMPTIONS = ['node values and weights < 2^64, fewer than 2^32 nodes (NodeIndex<u32>)',
               'petgraph 0.7.1 MatrixGraph is modelled (id reuse, neighbour order, nb_edges), matrix growth modelled as identity',
               'hash-map iteration order is external nondeterminism: get_all_nodes / get_all_edges are compared sorted',
               'the model mirrors the code with fixes/F2-remove-edge.diff and fixes/F3-number-edges.diff applied']
TRUSTED_EXTRA = ['petgraph 0.7.1 MatrixGraph/IdStorage behaviour is modelled, not proved (exercised by the correspondence run)',
                 'tools/rs2lean_ugraphfns.py for the fragment it translates (ultragraph wrapper code -> Gen/UGraphFns.lean; fail-closed); '
                 'the wrapper functions of Model/UGraph.lean are proved equal to the generated definitions (Props/C08Gen.lean)']

CTORS = ['new', 'default', 'cap', 'matrix', 'storage', 'storage-new']
OBS0 = ['size', 'empty', 'nnodes', 'nedges', 'nodes', 'edges', 'hasroot', 'rootnode', 'rootidx', 'lastidx']


class Gen:
    """tracks a *guess* of the live set only to pick interesting targets; answers come from the real code"""

    def __init__(self, rng, profile):
        self.rng, self.profile = rng, profile
        self.seen = []      # indices we believe were handed out (model of petgraph's allocator, only for targeting)
        self.live = set()
        self.removed = []   # stack
        self.upper = 0
        self.edges = set()
        self.ops = []
        self.val = 100

    def bound(self):
        return max(3, self.upper + 2)

    def _alloc(self):
        if self.removed:
            i = self.removed.pop()
        else:
            i = self.upper
            self.upper += 1
        self.live.add(i)
        return i

    def _free(self, i):
        if i in self.live:
            self.live.discard(i)
            self.edges = {(a, b) for (a, b) in self.edges if a != i and b != i}
            if self.upper - i == 1:
                self.upper -= 1
            else:
                self.removed.append(i)

    def target(self, want_live=0.8):
        r = self.rng.random()
        if self.live and r < want_live:
            return self.rng.choice(sorted(self.live))
        if r < 0.93:
            return self.rng.randrange(0, self.bound())
        return self.rng.choice([self.bound() + 5, 1000, 2 ** 32, 2 ** 32 + 1, 2 ** 40])

    def snap(self):
        self.ops.append(f'snap {self.bound()}')

    def mut(self, kind):
        rng = self.rng
        if kind in ('add', 'addroot'):
            self.val += 1
            self.ops.append(f'{kind} {self.val}')
            self._alloc()
        elif kind == 'rmnode':
            i = self.target(0.85)
            self.ops.append(f'rmnode {i}')
            self._free(i)
        elif kind in ('edge', 'edgew'):
            if self.edges and rng.random() < 0.12:
                a, b = rng.choice(sorted(self.edges))          # duplicate
            elif self.live and rng.random() < 0.1:
                a = b = rng.choice(sorted(self.live))          # self-loop
            else:
                a, b = self.target(0.9), self.target(0.9)
            if kind == 'edge':
                self.ops.append(f'edge {a} {b}')
            else:
                self.ops.append(f'edgew {a} {b} {rng.choice([0, 1, 2, 7, rng.randrange(0, 1000), 2 ** 40])}')
            if a in self.live and b in self.live:
                self.edges.add((a, b))
        elif kind == 'rmedge':
            if self.edges and rng.random() < 0.75:
                a, b = rng.choice(sorted(self.edges))
                if rng.random() < 0.1:
                    a, b = b, a
            else:
                a, b = self.target(0.8), self.target(0.8)
            self.ops.append(f'rmedge {a} {b}')
            self.edges.discard((a, b))
        elif kind == 'clear':
            self.ops.append('clear')
            self.live, self.removed, self.upper, self.edges = set(), [], 0, set()

    def observer(self):
        rng = self.rng
        r = rng.random()
        if r < 0.3:
            self.ops.append(f'out {self.target(0.8)}')
        elif r < 0.45:
            self.ops.append(f'get {self.target(0.6)}')
        elif r < 0.55:
            self.ops.append(f'hasnode {self.target(0.5)}')
        elif r < 0.7:
            self.ops.append(f'hasedge {self.target(0.8)} {self.target(0.8)}')
        else:
            self.ops.append(rng.choice(OBS0))


PROFILES = {
    #            add  addroot rmnode edge edgew rmedge clear
    'mixed':    (24, 4, 14, 18, 12, 14, 2),
    'removal':  (22, 2, 30, 16, 8, 10, 1),
    'dense':    (12, 2, 6, 34, 22, 20, 1),
    'roots':    (14, 18, 22, 12, 6, 8, 6),
    'rebuild':  (20, 4, 14, 18, 10, 10, 12),
    'malformed': (6, 2, 24, 20, 12, 24, 6),
}
KINDS = ['add', 'addroot', 'rmnode', 'edge', 'edgew', 'rmedge', 'clear']


def history(rng, profile, nops):
    g = Gen(rng, profile)
    w = PROFILES[profile]
    if profile != 'malformed':
        for _ in range(rng.randrange(0, 4)):
            g.mut('add')
        g.snap()
    for _ in range(nops):
        g.mut(rng.choices(KINDS, weights=w)[0])
        g.snap()
        if rng.random() < 0.35:
            g.observer()
    return g.ops


def header(rng, n):
    return f'cap {n % 5} via {CTORS[(n // 5) % len(CTORS)]}'


def corpus():
    # the two repaired defects, exactly as in DESIGN.md §6
    yield Case('cap 0 via new', ['add 10', 'add 11', 'edge 0 1', 'snap 3', 'rmedge 0 1', 'snap 3', 'get 0', 'get 1',
                                 'hasnode 0', 'hasnode 1', 'edge 0 1', 'snap 3'], tags=('F2-witness',))
    yield Case('cap 4 via cap', ['add 1', 'add 2', 'add 3', 'edge 0 1', 'edge 1 2', 'snap 3', 'rmnode 1', 'nedges',
                                 'edges', 'snap 3', 'add 7', 'snap 3', 'edge 0 1', 'nedges', 'snap 3'], tags=('F3-witness',))
    # self-loop + both directions + removal of the node in the middle, growth 1 -> 4 -> 8
    yield Case('cap 1 via storage', ['add 1', 'edge 0 0', 'snap 2', 'add 2', 'add 3', 'add 4', 'add 5', 'edge 4 0', 'edge 0 4',
                                     'edge 3 3', 'snap 6', 'rmnode 0', 'snap 6', 'nedges', 'rmnode 4', 'snap 6', 'add 9',
                                     'add 10', 'snap 6', 'out 0', 'out 4'], tags=('growth',))
    # stale root: root node removed, index reused
    yield Case('cap 2 via matrix', ['addroot 5', 'add 6', 'snap 3', 'rmnode 0', 'snap 3', 'rootnode', 'rootidx', 'hasroot',
                                    'add 7', 'snap 3', 'rootnode', 'clear', 'snap 3', 'lastidx'], tags=('stale-root',))


def generate(rng, tier):
    ncases = 240 if tier == 'quick' else 6000
    maxops = 80 if tier == 'quick' else 250
    profs = list(PROFILES)
    for n in range(ncases):
        prof = profs[n % len(profs)]
        nops = rng.randrange(1, maxops + 1) if rng.random() < 0.8 else rng.randrange(1, 12)
        yield Case(header(rng, n), history(rng, prof, nops), tags=(prof,))
    if tier == 'thorough':
        yield from exhaustive_small()


def exhaustive_small():
    """every sequence of <= 4 mutators over two pre-built nodes (indices 0, 1), full snapshot after each"""
    import itertools
    # index-width boundary of the petgraph node index (only reached by this directed case)
    yield Case('cap 0 via new', ['add 1', 'addmany 70000'], tags=('index-width',))
    alpha = ['add 9', 'rmnode 0', 'rmnode 1', 'edge 0 1', 'edge 1 0', 'edge 0 0', 'rmedge 0 1', 'rmedge 1 0', 'addroot 8']
    for L in range(1, 5):
        for seq in itertools.product(alpha, repeat=L):
            ops = ['add 1', 'add 2']
            for o in seq:
                ops += [o, 'snap 4']
            yield Case('cap 0 via new', ops, tags=('exhaustive-small',))


def classify(case):
    t = list(case.tags) + [' '.join(case.header.split()[:2]), 'via-' + case.header.split()[3]]
    kinds = {o.split()[0] for o in case.ops}
    for k in KINDS:
        if k in kinds:
            t.append('has-' + k)
    n = sum(1 for o in case.ops if o.split()[0] in KINDS)
    t.append('muts<=10' if n <= 10 else 'muts<=40' if n <= 40 else 'muts>40')
    return t


def nontrivial(case):
    kinds = [o.split()[0] for o in case.ops]
    return ('rmnode' in kinds or 'rmedge' in kinds) and ('edge' in kinds or 'edgew' in kinds)


def signature(case, verdicts):
    return None
