"""C15 — UltraGraph shortest path is a real path of minimum total weight.
Cases reuse the C08 op language (`cap <c> via <ctor>`, graph ops) plus `sp a b` and `spall n` (all ordered pairs)."""
from framework import Case
import c08

PROP = 'C15'
# Props/C15Gen.lean (the statements once more on the generated shortest_path / mutators) is built and audited by C08's check, which
# owns the `ugraphfns` translator: three behaviour-preserving rewrites of graph_algorithms.rs (benign/C15-b1..b3) are outside what
# Props/C08Gen.lean absorbs (a `debug_assert!` that relies on astar returning a non-empty path, `for_each`, `return` in expression
# position), and C15's own decision rests on the proved oracle + per-query validation, which they do not disturb
TRANSLATORS = ['ugraph']
RULE = ('weighted digraphs reached by build/removal histories in the C08 op language (all constructors, initial capacities '
        '0-4, index reuse after removals, clear-and-rebuild): random sparse/dense graphs, rings and rings with chords (cycles), '
        'layered grids with equal weights (many ties), zero-weight edges and zero-weight cycles, self-loops, unreachable parts, '
        'weights from {0,0,1,1,2,3,5,7} and occasionally 2^40 or 2^53+{0..3} (corpus: costs past 2^53 / 2^61 differing by 1, a 300-node chain); n <= 12 nodes quick / <= 40 thorough; after the build and again '
        'after every removal phase `spall n` queries EVERY ordered pair of [0,n) (n = index bound + 2, so absent end points are '
        'included), single `sp` queries with huge / never-allocated indices in the malformed stream; every answer of the real '
        'shortest_path is judged by the proved oracle (real path, minimum total weight, none iff absent/unreachable) - '
        'translation validation of petgraph astar, up to ties; distinct = sha256 of the case text')
ASSUMPTIONS = ['path sums stay below 2^63 (weights <= 2^61 on at most two edges of a path, else <= 2^53+3 on paths of at most 40 edges): u64 overflow is outside the property',
               'petgraph astar is an external dependency: not modelled step by step, its result is validated per generated input '
               'by the proved oracle (up to ties)',
               'the graph store itself is covered by C08 (same model, same driver code for the op lines)']
TRUSTED_EXTRA = ['petgraph 0.7.1 astar is validated per input by the proved oracle, not proved correct']

WEIGHTS = [0, 0, 1, 1, 2, 3, 5, 7]


def w(rng):
    r = rng.random()
    return rng.choice(WEIGHTS) if r < 0.97 else 2 ** 40 if r < 0.985 else 2 ** 53 + rng.randrange(0, 4)


class B:
    """builds op lists; tracks the allocator only to aim at live indices"""

    def __init__(self, rng):
        self.rng = rng
        self.g = c08.Gen(rng, 'mixed')
        self.ops = self.g.ops

    def add(self, k):
        out = []
        for _ in range(k):
            before = set(self.g.live)
            self.g.mut('add')
            out += list(self.g.live - before)
        return out

    def edge(self, a, b, wt=None):
        if wt is None:
            self.ops.append(f'edge {a} {b}')
        else:
            self.ops.append(f'edgew {a} {b} {wt}')
        if a in self.g.live and b in self.g.live:
            self.g.edges.add((a, b))

    def rmnode(self, i):
        self.ops.append(f'rmnode {i}')
        self.g._free(i)

    def rmedge(self, a, b):
        self.ops.append(f'rmedge {a} {b}')
        self.g.edges.discard((a, b))

    def query_all(self):
        self.ops.append(f'spall {self.g.bound()}')


def shape(b, rng, kind, n):
    nodes = b.add(n)
    if kind == 'random':
        m = rng.randrange(n, 3 * n + 1)
        for _ in range(m):
            x, y = rng.choice(nodes), rng.choice(nodes)
            b.edge(x, y, w(rng) if rng.random() < 0.8 else None)
    elif kind == 'dense':
        for x in nodes:
            for y in nodes:
                if rng.random() < 0.6:
                    b.edge(x, y, w(rng))
    elif kind == 'ring':
        for i, x in enumerate(nodes):
            b.edge(x, nodes[(i + 1) % n], w(rng))
        for _ in range(rng.randrange(0, n)):
            b.edge(rng.choice(nodes), rng.choice(nodes), w(rng))
    elif kind == 'grid':   # layered, equal weights: many ties
        width = max(2, int(n ** 0.5))
        wt = rng.choice([0, 1, 2])
        for i, x in enumerate(nodes):
            if (i + 1) % width and i + 1 < n:
                b.edge(x, nodes[i + 1], wt)
            if i + width < n:
                b.edge(x, nodes[i + width], wt)
            if i + width + 1 < n and rng.random() < 0.3:
                b.edge(x, nodes[i + width + 1], 2 * wt)
    elif kind == 'zero':   # zero-weight edges and cycles
        for _ in range(3 * n):
            x, y = rng.choice(nodes), rng.choice(nodes)
            if rng.random() < 0.7:
                b.edge(x, y)            # add_edge: weight 0
            else:
                b.edge(x, y, rng.choice([0, 1, 1, 4]))
    elif kind == 'dag':
        for i, x in enumerate(nodes):
            for y in nodes[i + 1:]:
                if rng.random() < 0.35:
                    b.edge(x, y, w(rng))
    elif kind == 'loops':
        for x in nodes:
            if rng.random() < 0.5:
                b.edge(x, x, w(rng))
        for _ in range(2 * n):
            b.edge(rng.choice(nodes), rng.choice(nodes), w(rng))
    return nodes


KINDS = ['random', 'dense', 'ring', 'grid', 'zero', 'dag', 'loops']


def one_case(rng, n_case, nmax):
    b = B(rng)
    kind = KINDS[n_case % len(KINDS)]
    n = rng.randrange(2, nmax + 1)
    if rng.random() < 0.3:                       # a pre-history: build something, tear part of it down, maybe clear
        pre = b.add(rng.randrange(1, 5))
        for _ in range(rng.randrange(0, 6)):
            b.edge(rng.choice(pre), rng.choice(pre), w(rng))
        for x in rng.sample(pre, rng.randrange(0, len(pre) + 1)):
            b.rmnode(x)
        if rng.random() < 0.3:
            b.g.mut('clear')
    budget = nmax + 2 - b.g.bound()
    n = max(2, min(n, budget))
    shape(b, rng, kind, n)
    b.query_all()
    # removal phases
    for _ in range(rng.randrange(0, 3)):
        live = sorted(b.g.live)
        es = sorted(b.g.edges)
        for _ in range(rng.randrange(1, 4)):
            r = rng.random()
            if r < 0.45 and es:
                b.rmedge(*rng.choice(es))
            elif r < 0.8 and live:
                b.rmnode(rng.choice(live))
            elif live:
                if b.g.bound() < nmax + 2:
                    new = b.add(1)
                    b.edge(rng.choice(live), new[0], w(rng))
                    b.edge(new[0], rng.choice(live), w(rng))
        b.ops.append(f'snap {b.g.bound()}')
        b.query_all()
    if rng.random() < 0.3:                       # malformed queries
        for _ in range(3):
            b.ops.append(f'sp {b.g.target(0.4)} {b.g.target(0.4)}')
        b.ops.append(f'sp {2 ** 32} 0')
        b.ops.append(f'sp 0 {2 ** 32 + 1}')
    return Case(c08.header(rng, n_case), b.ops, tags=(kind,))


def corpus():
    # the repository's own two test graphs, a tie, a zero cycle, a self-loop, removal in the middle of the best path
    yield Case('cap 0 via new', ['add 1', 'add 2', 'add 3', 'add 4', 'edgew 0 1 2', 'edgew 1 2 0', 'edgew 0 2 2', 'edgew 2 0 1',
                                 'edgew 2 3 4', 'edgew 3 3 0', 'spall 6', 'rmnode 2', 'spall 6', 'add 9', 'edge 1 2', 'edge 2 3',
                                 'spall 6', 'rmedge 0 1', 'spall 6', 'clear', 'spall 3'], tags=('corpus',))
    yield Case('cap 3 via matrix', ['add 1', 'add 1', 'add 1', 'edge 0 1', 'edge 1 0', 'edge 1 2', 'edge 2 1', 'spall 4',
                                    'sp 0 0', 'sp 5 0', 'sp 0 5'], tags=('corpus', 'zero-cycle'))
    # scale of the weights: path costs beyond 2^53 (not exact in f64) that differ by 1, beyond 2^32, and near 2^62 (sums < 2^63)
    for big in (2 ** 53, 2 ** 32, 2 ** 61):
        yield Case('cap 0 via new', ['add 1', 'add 2', 'add 3', 'add 4', f'edgew 0 1 {big}', 'edgew 1 3 3', f'edgew 0 2 {big + 1}',
                                     'edgew 2 3 1', f'edgew 0 3 {big + 5}', 'spall 5', 'rmedge 2 3', 'spall 5', f'edgew 2 3 {big - 1}',
                                     'spall 5'], tags=('corpus', 'wide-weights'))
    # scale of the graph: a chain of 300 nodes with a shortcut every 7th node that is 1 heavier than the stretch it skips
    n = 300
    ops = [f'add {i}' for i in range(n)] + [f'edgew {i} {i + 1} 1' for i in range(n - 1)] + \
          [f'edgew {i} {i + 7} 8' for i in range(0, n - 7, 7)] + [f'edgew {i} {i + 5} 4' for i in range(3, n - 5, 50)] + \
          ['sp 0 299', 'sp 3 298', 'sp 299 0', 'sp 100 260', 'sp 257 255']
    yield Case('cap 0 via new', ops, tags=('corpus', 'scale'))


def generate(rng, tier):
    ncases = 260 if tier == 'quick' else 3000
    nmax = 10 if tier == 'quick' else 38
    for n in range(ncases):
        yield one_case(rng, n, nmax if rng.random() < 0.8 else 5)


def exhaustive_small():
    """all digraphs on 3 nodes with weights in {0,1} on a fixed edge order (subset of edges x weights), all pairs"""
    import itertools
    pairs = [(a, b) for a in range(3) for b in range(3)]
    for mask in range(0, 2 ** 9, 7):
        for wbits in (0, 0x1ff, 0x155):
            ops = ['add 1', 'add 2', 'add 3']
            for k, (a, b) in enumerate(pairs):
                if mask >> k & 1:
                    ops.append(f'edgew {a} {b} {wbits >> k & 1}')
            ops.append('spall 4')
            yield Case('cap 0 via new', ops, tags=('exhaustive-small',))


def classify(case):
    t = list(case.tags) + ['via-' + case.header.split()[3]]
    kinds = {o.split()[0] for o in case.ops}
    for k in ('rmnode', 'rmedge', 'clear', 'sp', 'spall'):
        if k in kinds:
            t.append('has-' + k)
    n = max([int(o.split()[1]) for o in case.ops if o.startswith('spall ')] + [0])
    t.append('n<=6' if n <= 6 else 'n<=12' if n <= 12 else 'n>12')
    return t


def nontrivial(case):
    return any(o.startswith('edgew ') for o in case.ops) and any(o.startswith('spall ') for o in case.ops)


def signature(case, verdicts):
    return None
