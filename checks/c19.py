"""C19 — BitMap residues. Cases: `cap <c>` then set/unset/isset/log2 lines."""
from framework import Case

PROP = 'C19'
TRANSLATORS = ['bitmap']
RULE = ('capacities: powers of two 1…4096 (plus a malformed stream of non-powers, model-only); per case a random '
        'set/unset history over sequences drawn from [0, 3c) biased to word and capacity boundaries, every probe '
        'answered by the real BitMap; exhaustive all-pairs set(a)/isset(b) for c ≤ 64; concurrent cases: 2–3 scheduler-managed threads owning disjoint residue classes of one word;  non-trivial = at least one '
        'set followed by a probe of a different residue and of a congruent sequence; distinct = sha256 of the case text')
ASSUMPTIONS = ['size_of::<AtomicU64>() = 8', 'sequence numbers and capacities < 2^64 (casts are value-preserving)',
               'sequential calls: fetch_or/fetch_and/load as atomic read-modify-write on a word']


def _seq(rng, c):
    r = rng.random()
    if r < 0.3:
        return rng.randrange(0, 3 * c + 1)
    if r < 0.5:
        return rng.choice([0, 1, c - 1, c, c + 1, 63, 64, 65, 2 * c - 1, 2 * c, 127, 128]) if c > 1 else rng.randrange(0, 4)
    if r < 0.6:
        return rng.randrange(0, 2 ** 40)
    return rng.randrange(0, max(2, min(c, 200)))


def generate(rng, tier):
    ncases = 200 if tier == 'quick' else 4000
    caps = [1, 2, 4, 8, 16, 32, 64, 128, 256, 512, 1024, 2048, 4096]
    for n in range(ncases):
        c = caps[n % len(caps)] if rng.random() < 0.9 else rng.choice([3, 5, 63, 65, 100, 1000])
        ops, sets = [], []
        for _ in range(rng.randrange(4, 60 if tier == 'quick' else 200)):
            r = rng.random()
            if r < 0.35:
                s = _seq(rng, c)
                sets.append(s)
                ops.append(f'set {s}')
            elif r < 0.5:
                s = rng.choice(sets) + rng.choice([0, c, 2 * c]) if sets and rng.random() < 0.7 else _seq(rng, c)
                ops.append(f'unset {s}')
            else:
                if sets and rng.random() < 0.5:
                    b = rng.choice(sets)
                    s = rng.choice([b, b + c, b + 1, b + 16, b + 64, max(0, b - 1), b ^ 1])
                else:
                    s = _seq(rng, c)
                ops.append(f'isset {s}')
        if rng.random() < 0.2:
            ops.append(f'log2 {rng.choice([1, 2, 3, 63, 64, 65, 2**32, 2**63, 2**64 - 1, rng.randrange(1, 2**64)])}')
        yield Case(f'cap {c}', ops)
    yield from conc_cases(rng, 60 if tier == 'quick' else 1500)
    # exhaustive small scope: every pair (a, b) in [0, 2c) for c ≤ 64 (quick: c ≤ 16)
    for c in ([1, 2, 4, 8, 16] if tier == 'quick' else [1, 2, 4, 8, 16, 32, 64]):
        for a in range(2 * c):
            ops = [f'set {a}'] + [f'isset {b}' for b in range(2 * c)] + [f'unset {a + c}'] + \
                  [f'isset {b}' for b in range(2 * c)]
            yield Case(f'cap {c}', ops, tags=('exhaustive-pairs',))


def conc_cases(rng, count):
    """concurrent part: 2–3 threads own disjoint residue classes (mostly inside one 64-bit word, so that a lost update
    on the shared word would show) and issue set/unset calls under the deterministic scheduler"""
    for _ in range(count):
        c = rng.choice([2, 8, 64, 64, 128, 1024])
        nthreads = rng.choice([2, 2, 3]) if c >= 3 else 2
        residues = rng.sample(range(min(c, 64)), min(c, 64, nthreads * 2)) if c >= 4 else list(range(c))
        ops = []
        for t in range(nthreads):
            own = residues[t::nthreads] or [residues[0]]
            if t > 0 and own[0] == residues[0] and c < nthreads:
                continue
            for _ in range(rng.randrange(2, 7)):
                r = rng.choice(own)
                s = r + c * rng.randrange(0, 3)
                ops.append((t, 'set' if rng.random() < 0.55 else 'unset', s))
        rng.shuffle(ops)   # only the per-thread order matters
        lines = [f't {t} {k} {s}' for (t, k, s) in ops] + ['go']
        yield Case(f'conc cap {c} sched=random:{rng.randrange(1, 2**31)}:{rng.choice([0, 0, 64, 160])}', lines, tags=('concurrent',))


def exhaustive_small():
    for c in [64, 128, 256, 1024]:
        for a in list(range(0, 130)) + [c - 1, c, c + 1]:
            yield Case(f'cap {c}', [f'set {a}'] + [f'isset {b}' for b in range(0, 2 * c if c <= 128 else 300)])


def classify(case):
    c = int(case.header.split()[2] if case.header.startswith('conc') else case.header.split()[1])
    t = ['cap<64' if c < 64 else 'cap=64' if c == 64 else 'cap>64']
    if c & (c - 1):
        t.append('non-pow2(model-only)')
    t += list(case.tags)
    for k in ('set', 'unset', 'isset', 'log2'):
        n = sum(1 for o in case.ops if o.startswith(k + ' '))
        if n:
            t.append(f'has-{k}')
    return t


def nontrivial(case):
    if case.header.startswith('conc'):
        return len({o.split()[1] for o in case.ops if o.startswith('t ')}) >= 2
    return any(o.startswith('set ') for o in case.ops) and sum(1 for o in case.ops if o.startswith('isset ')) >= 2


def signature(case, verdicts):
    return None
