"""C10 — shortest-path reasoning evaluates exactly one minimum-weight path.
Cases: build ops (`add|root <id> <fn>`, `wedge a b w`, `edge a b`) then `sp <start> <stop> <data> <idx>`, see harness/src/c10.rs."""
import itertools
from framework import Case
from c01 import data_str, idx_str, true_code

PROP = 'C10'
# the translator of C01 also reads reason_shortest_path_between_causes and get_shortest_path; Props/C01Gen.lean proves them equal
# to Model.CausalGraph.reasonShortest (reason_shortest_path_eq, path_loop_eq, get_shortest_path_eq; c10gen_*)
TRANSLATORS = ['reasoning']
EXTRA_THEOREM_MODULES = ['DcVerif.Props.C01Gen']
RULE = ('weighted digraphs (cycles, self-loops, zero weights allowed): random sparse/dense, grids with equal-weight ties, '
        '"detour" gadgets (a direct edge against a chain that is cheaper / equal / dearer), layered DAGs, disconnected parts; '
        'n <= 12 quick / <= 40 thorough; ids = index | permuted | sparse, functions plain / inverted / contextual; for each graph '
        'several observation vectors (all-true, a non-true causaloid on or off the cheapest route, random over {t,f,e}), with '
        'and without data_index; queried pairs: all ordered pairs for small n, random pairs otherwise, plus start = stop, absent '
        'endpoints, unreachable targets, empty data; exhaustive: all weighted digraphs on 3 nodes (weights absent/1/2) x all '
        'pairs x all verdict vectors (thorough); the reported path is validated against the proved Floyd–Warshall distance; '
        'non-trivial = >= 3 nodes, >= 2 edges, a query between distinct live nodes; distinct = sha256 of the case text')
ASSUMPTIONS = ['graphs of singleton causaloids, built by adds only', 'edge weights small enough that path sums stay far below 2^64',
               'petgraph astar is deterministic for a fixed graph (the path is read back with a second get_shortest_path call and '
               'cross-checked against the evaluation log)']


def make_graph(rng, n, shape):
    """returns list of (a, b, w), no duplicate (a, b)"""
    E = {}

    def put(a, b, w):
        if (a, b) not in E:
            E[(a, b)] = w
    if shape == 'sparse' or shape == 'dense':
        dens = 0.15 if shape == 'sparse' else 0.5
        for a in range(n):
            for b in range(n):
                if (a != b or rng.random() < 0.1) and rng.random() < dens:
                    put(a, b, rng.choice([0, 1, 1, 2, 3, 5, 8, 13]))
    elif shape == 'grid':
        w = max(2, int(n ** 0.5))
        for v in range(n):
            if (v + 1) % w and v + 1 < n:
                put(v, v + 1, 1)
            if v + w < n:
                put(v, v + w, 1)
        for _ in range(rng.randrange(0, 3)):
            put(rng.randrange(n), rng.randrange(n), rng.randrange(0, 4))
    elif shape == 'detour':
        # node 0 = s, node 1 = t, chain through 2..k; more gadgets chained after
        nodes = list(range(n))
        rng.shuffle(nodes)
        i = 0
        while i + 2 < n:
            k = min(n - i - 2, rng.randrange(1, 4))
            s, t, chain = nodes[i], nodes[i + 1], nodes[i + 2:i + 2 + k]
            cw = [rng.randrange(0, 4) for _ in range(k + 1)]
            direct = sum(cw) + rng.choice([-1, 0, 0, 1, 5])
            put(s, t, max(0, direct))
            prev = s
            for c, w in zip(chain, cw):
                put(prev, c, w)
                prev = c
            put(prev, t, cw[-1])
            if i > 0:
                put(nodes[i - 1], s, rng.randrange(0, 3))
            i += k + 1
    elif shape == 'layered':
        perm = list(range(n))
        rng.shuffle(perm)
        layers, i = [], 0
        while i < n:
            k = rng.randrange(1, 4)
            layers.append(perm[i:i + k])
            i += k
        for a, b in zip(layers, layers[1:]):
            for x in a:
                for y in b:
                    if rng.random() < 0.75:
                        put(x, y, rng.randrange(0, 4))
        if len(layers) > 2 and rng.random() < 0.5:
            put(layers[0][0], layers[-1][0], rng.randrange(0, 8))        # long shortcut
    else:  # two parts, second unreachable from the first
        cut = max(1, n // 2)
        for a in range(n):
            for b in range(n):
                if a != b and (a < cut) == (b < cut) and rng.random() < 0.4:
                    put(a, b, rng.randrange(0, 5))
        if rng.random() < 0.5 and cut < n:
            put(rng.randrange(cut, n), rng.randrange(0, cut), 1)           # one-way bridge back
    return [(a, b, w) for (a, b), w in E.items()]


def dijkstra_path(n, edges, s, t):
    """some cheapest path (python side, only used to aim verdict flips at the route; the oracle is the Lean one)"""
    import heapq
    adj = [[] for _ in range(n)]
    for a, b, w in edges:
        adj[a].append((b, w))
    dist, prev, pq = {s: 0}, {}, [(0, s)]
    while pq:
        d, v = heapq.heappop(pq)
        if d > dist.get(v, 1 << 60):
            continue
        for b, w in adj[v]:
            if d + w < dist.get(b, 1 << 60):
                dist[b], prev[b] = d + w, v
                heapq.heappush(pq, (d + w, b))
    if t not in dist or s == t:
        return None
    p = [t]
    while p[-1] != s:
        p.append(prev[p[-1]])
    return p[::-1]


def gen_case(rng, tier, nmax):
    n = rng.randrange(2, nmax + 1) if rng.random() < 0.85 else rng.randrange(1, 5)
    shape = rng.choice(['sparse', 'dense', 'grid', 'detour', 'detour', 'layered', 'parts'])
    edges = make_graph(rng, n, shape)
    wide = rng.random() < 0.15
    if wide:
        # weights beyond 32 bits (sums stay far below 2^63): the weight is a u64 all the way through the search
        big = rng.choice([2 ** 32, 2 ** 33 + 5, 2 ** 40])
        edges = [(a, b, w * big + rng.choice([0, 0, 1, 7]) if rng.random() < 0.7 else w) for (a, b, w) in edges]
    idmode = rng.choice(['same', 'same', 'permuted', 'sparse'])
    if idmode == 'same':
        ids = list(range(n))
    elif idmode == 'permuted':
        ids = list(range(n))
        rng.shuffle(ids)
    else:
        ids = rng.sample(range(0, 3 * n + 5), n)
    fns = [rng.choice(['p', 'p', 'p', 'i', 'c0', 'c1', 'c2']) for _ in range(n)]
    ops = []
    pending = list(edges)
    rng.shuffle(pending)
    root = rng.randrange(n) if rng.random() < 0.5 else None
    for i in range(n):
        ops.append(f"{'root' if i == root else 'add'} {ids[i]} {fns[i]}")
        ready = [e for e in pending if max(e[0], e[1]) <= i]
        if ready and rng.random() < 0.5:
            for e in ready[:rng.randrange(1, len(ready) + 1)]:
                ops.append(f'wedge {e[0]} {e[1]} {e[2]}' if (e[2] or rng.random() < 0.5) else f'edge {e[0]} {e[1]}')
                pending.remove(e)
    for e in pending:
        ops.append(f'wedge {e[0]} {e[1]} {e[2]}')
    if edges and rng.random() < 0.2:
        e = rng.choice(edges)
        ops.append(f'wedge {e[0]} {e[1]} {e[2] + 1}')           # duplicate edge: rejected, weight must not change
    tags = [f'shape:{shape}', f'ids:{idmode}'] + (['wide-weights'] if wide else [])

    pairs_all = [(s, t) for s in range(n) for t in range(n)]
    succ = [[] for _ in range(n)]
    for a, b, _ in edges:
        succ[a].append(b)
    good_pairs = []
    for s in range(n):
        seen, todo = set(), list(succ[s])
        while todo:
            v = todo.pop()
            if v not in seen:
                seen.add(v)
                todo += succ[v]
        good_pairs += [(s, t) for t in sorted(seen) if t != s]
    distinct = sorted(set(ids))
    for q in range(rng.randrange(2, 5)):
        use_idx = rng.random() < 0.35
        if use_idx:
            slots = list(range(len(distinct) + rng.randrange(0, 3)))
            rng.shuffle(slots)
            ix = {d: slots[k] for k, d in enumerate(distinct)}
            dlen, slot_of = len(slots), (lambda i: ix[ids[i]])
        else:
            ix, dlen, slot_of = None, max(ids) + 1 + rng.randrange(0, 2), (lambda i: ids[i])
        if n <= 4 or (q == 0 and n <= 6):
            pairs = pairs_all
        else:
            pairs = rng.sample(good_pairs, min(len(good_pairs), 10)) + rng.sample(pairs_all, min(len(pairs_all), 3))
        kind = rng.choice(['all-true', 'on-path', 'on-path', 'off-path', 'random'])
        tags.append(f'vec:{kind}')
        tags.append('with-index' if use_idx else 'by-id')
        for (s, t) in pairs:
            codes = [rng.randrange(0, 3) for _ in range(dlen)]
            if kind != 'random':
                for i in range(n):
                    codes[slot_of(i)] = true_code(fns[i])
                route = dijkstra_path(n, edges, s, t) or []
                if kind == 'on-path' and route:
                    for _ in range(rng.randrange(1, 3)):
                        i = rng.choice(route)
                        codes[slot_of(i)] = (true_code(fns[i]) + rng.randrange(1, 3)) % 3
                elif kind == 'off-path':
                    for i in range(n):
                        if i not in route:
                            codes[slot_of(i)] = (true_code(fns[i]) + rng.randrange(0, 3)) % 3
            data = [3 * (k + 100 * rng.randrange(0, 2)) + c for k, c in enumerate(codes)]
            ops.append(f'sp {s} {t} {data_str(data)} {idx_str(ix)}')
        m = rng.random()
        if m < 0.15:
            ops.append(f'sp {rng.randrange(n)} {n + rng.randrange(0, 3)} {data_str(data)} {idx_str(ix)}')
            ops.append(f'sp {n + rng.randrange(0, 3)} {rng.randrange(n)} {data_str(data)} {idx_str(ix)}')
            tags.append('mal:absent-endpoint')
        elif m < 0.25:
            s, t = rng.choice(pairs_all)
            ops.append(f'sp {s} {t} - {idx_str(ix)}')
            tags.append('mal:empty-data')
        elif m < 0.32 and len(data) > 1:
            s, t = rng.choice(pairs_all)
            ops.append(f'sp {s} {t} {data_str(data[:rng.randrange(1, len(data))])} {idx_str(ix)}')
            tags.append('mal:short-data')
    return Case(f'n {n}', ops, tags=tags)


def exhaustive(k, weights=(None, 1, 2)):
    pairs = [(a, b) for a in range(k) for b in range(k) if a != b]
    for ws in itertools.product(weights, repeat=len(pairs)):
        ops = [f'add {i} p' for i in range(k)] + [f'wedge {a} {b} {w}' for (a, b), w in zip(pairs, ws) if w is not None]
        for codes in itertools.product(range(3), repeat=k):
            ds = data_str([3 * i + c for i, c in enumerate(codes)])
            for s in range(k):
                for t in range(k):
                    ops.append(f'sp {s} {t} {ds} -')
        yield Case(f'n {k}', ops, tags=('exhaustive-digraphs',))


def exhaustive_small():
    return exhaustive(3)


def corpus():
    # direct edge (5) against a cheaper chain (1+1+1), an equal one, and a dearer one; off-path node 4 with every verdict
    for direct in (5, 3, 2):
        ops = [f'add {i} p' for i in range(5)] + [f'wedge 0 1 {direct}', 'wedge 0 2 1', 'wedge 2 3 1', 'wedge 3 1 1',
                                                  'wedge 0 4 0', 'wedge 4 0 0']
        for c4 in range(3):
            for bad in (None, 0, 1, 2, 3):
                for code in (1, 2):
                    d = [3 * i for i in range(5)]
                    d[4] += c4
                    if bad is not None:
                        d[bad] += code
                    ops.append(f'sp 0 1 {data_str(d)} -')
        ops += ['sp 0 0 0,3,6,9,12 -', 'sp 1 0 0,3,6,9,12 -', 'sp 0 7 0,3,6,9,12 -', 'sp 7 0 0,3,6,9,12 -']
        yield Case('n 5', ops, tags=('corpus', 'shape:detour'))
    yield Case('n 0', ['sp 0 1 0,3 -', 'sp 0 0 - -'], tags=('corpus', 'mal:empty-graph'))
    # self-loop and a zero-weight cycle next to the route
    yield Case('n 3', ['add 0 p', 'add 1 p', 'add 2 p', 'wedge 0 0 0', 'wedge 0 1 0', 'wedge 1 0 0', 'wedge 1 2 4', 'wedge 0 2 4',
                       'sp 0 2 0,3,6 -', 'sp 0 2 0,4,6 -', 'sp 2 0 0,3,6 -', 'sp 0 0 0,3,6 -'], tags=('corpus', 'ties'))


def generate(rng, tier):
    if tier == 'quick':
        ncases, nmax = 900, 12
    else:
        ncases, nmax = 4000, 40
    for _ in range(ncases):
        yield gen_case(rng, tier, nmax)
    if tier == 'quick':
        yield from exhaustive(2, weights=(None, 0, 1, 2))
        yield from exhaustive(3, weights=(None, 1))
    else:
        yield from exhaustive(3)


def classify(case):
    t = list(case.tags)
    n = int(case.header.split()[1])
    t.append('n=0' if n == 0 else 'n<=4' if n <= 4 else 'n<=12' if n <= 12 else 'n>12')
    return sorted(set(t))


def nontrivial(case):
    n = int(case.header.split()[1])
    if n < 3 or sum(1 for o in case.ops if o.startswith(('wedge ', 'edge '))) < 2:
        return False
    for o in case.ops:
        if o.startswith('sp '):
            a = o.split()
            if a[1] != a[2] and int(a[1]) < n and int(a[2]) < n:
                return True
    return False


def signature(case, verdicts):
    return None
