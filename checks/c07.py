"""C07 — sliding window = last N pushed values. Cases: `<kind> <size> <cap|multiple> <ty>` then push/obs/accessor lines."""
from framework import Case

PROP = 'C07'
TRANSLATORS = ['window']                        # Gen/Window.lean: the whole storage model is generated from the source
EXTRA_THEOREM_MODULES = ['DcVerif.Props.C07Gen']  # what each generated function does under the invariant (counted, audited)
BUILDS = ['safe', 'unsafe']
OPT_BUILDS = {'unsafe': 'unsafe-opt'}   # thorough tier: the unsafe cases again at opt-level 3
RULE = ('storages arr|vec (both builds) and uarr|uvec (build with the `unsafe` feature); sizes 1…9; array capacities every '
        'value N+1 … 3N (capacity = N+1 and capacity < 2N make the rewind overlap), vector multiples 2…4; element types '
        'u8/u32/u64 and 12-/24-byte structs; one deterministic sweep case per (storage, size, capacity) with 3·cap+2 distinct values plus random '
        'cases with 0 … 16·cap (quick) / 40·cap (thorough) pushes (distinct counters, random values incl. 0 and MAX, or a '
        'two-letter alphabet); `push` is answered with size/empty/filled/first/last/slice/vec/arr after EVERY push, single '
        'accessors and arr::<N-1|N|N+1> interleaved; malformed stream (model-only, no spec): SIZE = 0, CAPACITY <= SIZE, '
        'multiple 0/1, size 0 on the safe storages; non-trivial = history longer than the capacity (at least one rewind); '
        'distinct = sha256 of the case text')
ASSUMPTIONS = ['copy_within / ptr::copy = memmove; consecutive forward `ptr::copy` calls on byte ranges that tile a prefix '
               '(destination = buffer start, below the source) move the same bytes as one memmove — the tiling itself is derived '
               'from the parsed source by the translator, not assumed',
               'values stay within the element type (the generator never emits a value that does not fit)',
               'usize arithmetic does not overflow (indices < 2^64)']
TRUSTED_EXTRA = ['C07: tools/rs2lean_window.py (which guard each Rust operation contributes; byte-copy tiling argument) and '
                 'lean/DcVerif/Model/WindowPrim.lean (Out, St, memmove); everything else of the storage model is generated',
                 'C07: the abstract-machine meaning of the unsafe blocks is modelled (preconditions of unchecked operations '
                 'are `ub` outcomes of the model and proved unreachable), the compiled behaviour is what is compared']

# Which model the safe vector storage is compared with: 'vec' = storage_vec.rs as it is in the repository (defect F1, open
# known finding); switch to 'vecfix' (model of the file after fixes/F1-window-vec.diff, for which the full theorem is proved)
# once that fix is in /repo, and mark F1 as fixed in known_findings.json.
VEC = 'vec'
SIZES = list(range(1, 10))
TYPES = ['u8', 'u16', 'w3', 'u32', 'u64', 'w12', 'w24']    # w3 / w12 / w24: 3-, 12- and 24-byte elements (below 4 bytes but not 1; size does not divide 16)
TMAX = {'u8': 2 ** 8 - 1, 'u16': 2 ** 16 - 1, 'w3': 2 ** 8 - 3, 'u32': 2 ** 32 - 1, 'u64': 2 ** 64 - 1, 'w12': 2 ** 32 - 4, 'w24': 2 ** 64 - 4}
MALFORMED_ARR = [(0, 0), (0, 1), (0, 2), (12, 12), (12, 11), (13, 13)]
MALFORMED_UARR = [(12, 12), (12, 11)]          # only what the constructor rejects; anything else would be UB
MALFORMED_VEC = [(0, 2), (0, 0), (3, 0), (1, 1), (2, 1), (5, 1)]


def caps(n):
    return list(range(n + 1, 3 * n + 1))


def cells(kind, n, c):
    return c if kind in ('arr', 'uarr') else n * c


def build_of(rng, kind):
    if kind in ('uarr', 'uvec'):
        return 'unsafe'
    return 'unsafe' if rng.random() < 0.2 else 'safe'


def values(rng, ty, length, mode):
    m = TMAX[ty]
    if mode == 'counter':
        start = rng.randrange(1, 50)
        return [(start + i) % m + 1 for i in range(length)] if ty not in ('u8', 'w3') else [(start + i) % (m - 1) + 1 for i in range(length)]
    if mode == 'random':
        pool = [0, 1, m, m - 1]
        return [rng.choice(pool) if rng.random() < 0.15 else rng.randrange(0, m + 1) for _ in range(length)]
    a, b = rng.randrange(0, 4), rng.randrange(0, 4)          # tiny alphabet: equal neighbours
    return [rng.choice([a, b]) for _ in range(length)]


def widths(kind, n):
    return [w for w in (n - 1, n, n + 1) if w >= 0]


def mk_case(rng, kind, n, c, ty, length, mode, build, extras=True, tags=()):
    ops = ['obs'] if rng.random() < 0.7 else []
    if extras and rng.random() < 0.3:
        ops += rng.sample(['first', 'last', 'slice', 'vec', 'filled', 'empty', 'size', f'arr {n}'], 3)
    for v in values(rng, ty, length, mode):
        ops.append(f'push {v}')
        if extras and rng.random() < 0.08:
            r = rng.random()
            if r < 0.5:
                ops.append(f'arr {rng.choice(widths(kind, n))}')
            else:
                ops.append(rng.choice(['first', 'last', 'slice', 'vec', 'filled', 'empty', 'size', 'obs']))
    return Case(f'{VEC if kind == "vec" else kind} {n} {c} {ty}', ops, build=build, tags=tags)


def menu():
    for kind in ('arr', 'uarr'):
        for n in SIZES:
            for c in caps(n):
                yield kind, n, c
    for kind in ('vec', 'uvec'):
        for n in SIZES:
            for m in (2, 3, 4):
                yield kind, n, m


def sweep(rng, factor):
    """one deterministic-length case per instantiation, element types rotating"""
    for i, (kind, n, c) in enumerate(menu()):
        ty = TYPES[(i + n) % len(TYPES)]
        cap = cells(kind, n, c)
        yield mk_case(rng, kind, n, c, ty, factor * cap + 2, 'counter', build_of(rng, kind), extras=False, tags=('sweep',))


def malformed(rng):
    for n, c in MALFORMED_ARR:
        yield mk_case(rng, 'arr', n, c, rng.choice(TYPES), rng.randrange(0, 8), 'counter', build_of(rng, 'arr'), tags=('malformed',))
    for n, c in MALFORMED_UARR:
        yield mk_case(rng, 'uarr', n, c, rng.choice(TYPES), rng.randrange(0, 4), 'counter', 'unsafe', tags=('malformed',))
    for n, m in MALFORMED_VEC:
        yield mk_case(rng, 'vec', n, m, rng.choice(TYPES), rng.randrange(0, 3 * max(1, n * m) + 3), 'counter',
                      build_of(rng, 'vec'), tags=('malformed',))


def corpus():
    # F1 (storage_vec.rs): size 3, multiple 2 — 4 values after the 7th push, value 9 lost at the 10th
    yield Case(f'{VEC} 3 2 u32', ['obs'] + [f'push {i}' for i in range(1, 14)], tags=('corpus-F1',))
    # F10 (unsafe_storage_array.rs before the fix): copy_nonoverlapping on overlapping ranges aborted here
    for ty, n, c in (('u8', 2, 3), ('u32', 5, 8), ('u64', 9, 10)):
        yield Case(f'uarr {n} {c} {ty}', ['obs'] + [f'push {i}' for i in range(1, 3 * c + 3)], build='unsafe',
                   tags=('corpus-F10',))
    # the repository's own test sizes: SIZE 4, CAPACITY 1200 is not in the menu; nearest shapes
    yield Case('arr 4 12 u64', [f'push {i}' for i in range(1, 60)], tags=('corpus',))
    yield Case(f'{VEC} 4 3 u64', [f'push {i}' for i in range(1, 60)], tags=('corpus',))
    # scale: a capacity past 2^8 (array storages, SIZE 3 CAPACITY 300) and a vector storage with 3·400 cells, pushed over three rewinds;
    # element types on the small-type path of the unsafe array storage (2 and 3 bytes)
    for kind, ty, build in (('arr', 'u16', 'safe'), ('uarr', 'u16', 'unsafe'), ('uarr', 'w3', 'unsafe'), ('arr', 'u32', 'unsafe')):
        yield Case(f'{kind} 3 300 {ty}', ['obs'] + [f'push {i % 250 + 1}' for i in range(1, 3 * 300 + 9)], build=build, tags=('scale',))
    yield Case('uvec 3 400 u16', ['obs'] + [f'push {i % 60000 + 1}' for i in range(1, 3 * 1200 + 9)], build='unsafe', tags=('scale',))
    for ty, n, c in (('u16', 2, 3), ('w3', 5, 8), ('u16', 9, 10), ('w3', 3, 4)):
        yield Case(f'uarr {n} {c} {ty}', ['obs'] + [f'push {i}' for i in range(1, 3 * c + 3)], build='unsafe', tags=('corpus', 'small-type'))


def generate(rng, tier):
    quick = tier == 'quick'
    yield from sweep(rng, 3 if quick else 6)
    yield from malformed(rng)
    kinds = ['arr', 'vec', 'uarr', 'uvec']
    nrand = 900 if quick else 30000
    maxf = 16 if quick else 40
    for i in range(nrand):
        kind = kinds[i % 4]
        n = rng.choice(SIZES)
        if kind in ('arr', 'uarr'):
            r = rng.random()
            c = n + 1 if r < 0.3 else rng.choice([x for x in caps(n) if x < 2 * n] or [n + 1]) if r < 0.6 else rng.choice(caps(n))
        else:
            c = rng.choice([2, 2, 3, 4])
        cap = cells(kind, n, c)
        r = rng.random()
        if r < 0.15:
            length = rng.randrange(0, n + 2)                       # around "filled"
        elif r < 0.35:
            length = rng.randrange(max(0, cap - 2), cap + 4)       # around the first rewind
        elif r < 0.85:
            length = rng.randrange(cap, 6 * cap + 1)
        else:
            length = rng.randrange(6 * cap, maxf * cap + 1)        # dozens of rewinds
        mode = rng.choice(['counter', 'counter', 'random', 'alphabet'])
        yield mk_case(rng, kind, n, c, rng.choice(TYPES), length, mode, build_of(rng, kind))


def exhaustive_small():
    """search tier: every instantiation × every element type, long distinct histories"""
    import random
    rng = random.Random(7)
    for kind, n, c in menu():
        for ty in TYPES:
            cap = cells(kind, n, c)
            yield mk_case(rng, kind, n, c, ty, 8 * cap + 3, 'counter', 'unsafe' if kind in ('uarr', 'uvec') else 'safe',
                          extras=False, tags=('exhaustive',))


def _parse(case):
    kind, n, c, ty = case.header.split()
    return ('vec' if kind == 'vecfix' else kind), int(n), int(c), ty


def _admissible(kind, n, c):
    return n > 0 and (n < c if kind in ('arr', 'uarr') else c >= 2)


def rewinds(case):
    kind, n, c, ty = _parse(case)
    if not _admissible(kind, n, c):
        return 0
    cap = cells(kind, n, c)
    pushes = sum(1 for o in case.ops if o.startswith('push '))
    return 0 if pushes <= cap else 1 + (pushes - cap - 1) // (cap - n)


def classify(case):
    kind, n, c, ty = _parse(case)
    t = [f'kind={kind}', f'ty={ty}', f'build={case.build}', f'size={n}']
    if not _admissible(kind, n, c):
        t.append('malformed(model-only)')
    elif kind in ('arr', 'uarr'):
        t.append('cap=N+1' if c == n + 1 else 'cap<2N' if c < 2 * n else 'cap>=2N')
    else:
        t.append(f'multiple={c}')
    r = rewinds(case)
    t.append('rewinds=0' if r == 0 else 'rewinds=1' if r == 1 else 'rewinds=2-9' if r < 10 else 'rewinds>=10')
    if any(o.startswith('arr ') for o in case.ops):
        t.append('has-arr-width')
    t += list(case.tags)
    return t


def nontrivial(case):
    return rewinds(case) >= 1


VIEW_FIELDS = {'first', 'slice', 'vec', 'arr'}
# Read by the framework (getattr) when it is about to minimise the first unlisted SPECFAIL case. While F1 is open, delta
# debugging a *vec* case with "any SPECFAIL" as its criterion would shrink a new deviation into the known F1 pattern, so
# such a case is written to the replay file unminimised (with its MISMATCH lines). Set by `signature`.
MINIMISE = True
_first_unlisted = None


F1_SIGNATURE = {'storage': 'vec', 'model_of_todays_code_agrees': True, 'only_window_bound_fields': True}


def signature(case, verdicts):
    """F1: the safe vector storage, behaving exactly as the model of today's code (no MISMATCH), wrong only in the
    fields derived from the window bounds (`head` one too low after a rewind). The live model is regenerated from the
    source and therefore agrees with *any* storage_vec.rs; "today's code" is pinned by lean/DcVerif/Model/WindowF1.lean (a
    frozen copy of the generated vec… definitions): for `vec` cases the driver adds `MISMATCH pinned=F1 …` to every
    answer that violates the spec *and* differs from the frozen model, so a new defect of the vector storage is not
    mistaken for F1."""
    kind, n, c, ty = _parse(case)
    spec = [l for l in verdicts if l.startswith('SPECFAIL')]
    if not spec:
        return None
    fields = set()
    for l in spec:
        w = l.split()
        f = [x[6:] for x in w[1:3] if x.startswith('field=')]
        fields.add(f[0] if f else 'whole-answer')
    sig = {'storage': kind,
           'model_of_todays_code_agrees': not any(l.startswith('MISMATCH') for l in verdicts),
           'only_window_bound_fields': fields <= VIEW_FIELDS}
    global MINIMISE, _first_unlisted
    if sig != F1_SIGNATURE and _first_unlisted is None:
        _first_unlisted = case.header
        MINIMISE = kind != 'vec'
    return sig
