"""Shared orchestration for ./check (stdlib only). See DESIGN.md §1, §2."""
import os, sys, re, json, time, fcntl, hashlib, random, subprocess, shutil, collections

VERIF = os.path.dirname(os.path.dirname(os.path.abspath(__file__)))
LEAN = os.path.join(VERIF, 'lean')
HARNESS = os.path.join(VERIF, 'harness')
WORK = os.path.join(VERIF, '.work')
REPO = os.environ.get('VERIF_REPO', '/repo')
GUARD = 'deep_causality_verif'
ALLOWED_AXIOMS = {'propext', 'Classical.choice', 'Quot.sound'}
FORBIDDEN = re.compile(r'\b(sorry|admit|native_decide|bv_decide|implemented_by|unsafe)\b|^\s*axiom\s|maxHeartbeats\s+0\b')
NCPU = os.cpu_count() or 4

TRUSTED_BASE = [
    'Lean 4.33.0 kernel (axioms allowed: propext, Classical.choice, Quot.sound; audited per theorem by #print axioms)',
    'statements in lean/DcVerif/Props and lean/DcVerif/Spec say what the property says (human-read)',
    'correspondence check: harness (Rust, real /repo code), driver (compiled Lean), generators in /verif/checks',
]


class Case:
    """one correspondence case: a header line (`case <id> …`) and op lines; `build` selects the harness build"""
    __slots__ = ('header', 'ops', 'build', 'tags')

    def __init__(self, header, ops, build='safe', tags=()):
        self.header, self.ops, self.build, self.tags = header, list(ops), build, tuple(tags)

    def lines(self, cid):
        return [f'case {cid} {self.header}'] + self.ops

    def key(self):
        return hashlib.sha256(('\n'.join([self.build, self.header] + self.ops)).encode()).hexdigest()

    def to_json(self):
        return {'build': self.build, 'header': self.header, 'ops': self.ops}

    @staticmethod
    def from_json(j):
        return Case(j['header'], j['ops'], j.get('build', 'safe'))


# ------------------------------------------------------------------------------------------------
def sh(cmd, cwd=None, env=None, timeout=None, inp=None):
    e = dict(os.environ)
    e.update({'CARGO_NET_OFFLINE': 'true'})
    if env:
        e.update(env)
    p = subprocess.run(cmd, cwd=cwd, env=e, timeout=timeout, input=inp, capture_output=True, text=True)
    return p.returncode, p.stdout, p.stderr


class BuildLock:
    def __enter__(self):
        os.makedirs(WORK, exist_ok=True)
        self.f = open(os.path.join(VERIF, '.build.lock'), 'w')
        fcntl.flock(self.f, fcntl.LOCK_EX)
        return self

    def __exit__(self, *a):
        fcntl.flock(self.f, fcntl.LOCK_UN)
        self.f.close()


def theorem_names(path):
    """all `theorem` declarations of a Props file, with namespace prefix and line number"""
    out, ns = [], []
    for i, l in enumerate(open(path).read().split('\n'), 1):
        m = re.match(r'\s*namespace\s+(\S+)', l)
        if m:
            ns.append(m.group(1))
        m = re.match(r'\s*end\s+(\S+)\s*$', l)
        if m and ns and ns[-1] == m.group(1):
            ns.pop()
        m = re.match(r'\s*(?:@\[[^\]]*\]\s*)?(?:private\s+|protected\s+)?theorem\s+([^\s:({\[]+)', l)
        if m:
            out.append(('.'.join(ns + [m.group(1)]), i))
    return out


def lean_sources_for(targets):
    """transitively imported project files of the given modules (for the forbidden-token scan)"""
    seen, todo = set(), list(targets)
    while todo:
        m = todo.pop()
        if m in seen:
            continue
        p = os.path.join(LEAN, m.replace('.', '/') + '.lean')
        if not os.path.exists(p):
            continue
        seen.add(m)
        for l in open(p):
            mm = re.match(r'\s*import\s+((?:DcVerif|Driver)\.\S+)', l)
            if mm:
                todo.append(mm.group(1))
    return sorted(seen)


def strip_lean_comments(text):
    text = re.sub(r'/-.*?-/', lambda m: '\n' * m.group(0).count('\n'), text, flags=re.S)
    return re.sub(r'--[^\n]*', '', text)


def scan_forbidden(mods):
    hits = []
    for m in mods:
        p = os.path.join(LEAN, m.replace('.', '/') + '.lean')
        for i, l in enumerate(strip_lean_comments(open(p).read()).split('\n'), 1):
            if FORBIDDEN.search(l):
                hits.append(f'{p}:{i}: {l.strip()}')
    return hits


def run_translators(names):
    """regenerate *all* Gen files (a stale file from an earlier run on a different tree must never survive);
    ok = the generators this property depends on succeeded"""
    rc, out, err = sh([sys.executable, os.path.join(VERIF, 'tools', 'rs2lean.py'), 'all', '--repo', REPO])
    try:
        allrep = json.loads(out)
    except Exception:
        allrep = {}
    rep, ok = {}, True
    for n in names:
        r = allrep.get(n, {'ok': False, 'error': (out + err)[-400:]})
        rep[n] = r
        ok = ok and r.get('ok', False)
    return ok, rep


def lake_build(targets):
    rc, out, err = sh(['lake', 'build'] + targets, cwd=LEAN, timeout=3000)
    return rc == 0, out + err


def cargo_build(build):
    env = {'RUSTFLAGS': f'--cfg {GUARD}'}
    cmd = ['cargo', 'build', '--offline', '--quiet']
    tdir = 'target'
    profile = 'debug'
    if build.endswith('-opt'):
        # the same harness at opt-level 3 (cargo's release profile): behaviour that depends on what the optimiser makes of the
        # raw-pointer code (thorough tier only)
        cmd += ['--release']
        profile = 'release'
    if build.startswith('unsafe'):
        cmd += ['--features', 'unsafe_impl']
        tdir = 'target-unsafe'
    cmd += ['--target-dir', os.path.join(HARNESS, tdir)]
    lock_src = os.path.join(REPO, 'Cargo.lock')
    rc, out, err = sh(cmd, cwd=HARNESS, env=env, timeout=3000)
    return rc == 0, out + err, os.path.join(HARNESS, tdir, profile, 'dcv-harness')


DRIVER = os.path.join(LEAN, '.lake', 'build', 'bin', 'dcv-driver')
DRIVER_RUN = [DRIVER]     # replaced by a private copy per run (see run_check)


def private_copy(path, prop, name):
    """binaries are copied out of the build trees while the build lock is held, so that another check that rebuilds them
    concurrently cannot pull them from under a running correspondence phase"""
    d = os.path.join(WORK, prop, 'bin')
    os.makedirs(d, exist_ok=True)
    dst = os.path.join(d, f'{name}-{os.getpid()}')
    shutil.copy2(path, dst)
    import atexit
    atexit.register(lambda: os.path.exists(dst) and os.remove(dst))
    return dst


# ------------------------------------------------------------------------------------------------
VERDICT = re.compile(r'^(MISMATCH|SPECFAIL)\b(.*?)\bcase=(\S+) line=(\S+)(?: :: (.*))?$')


def run_shard(prop, bin_path, cases, ids, timeout, workdir, tag):
    """cases through harness then driver. returns (verdicts {cid: [lines]}, trace_lines, error)"""
    os.makedirs(workdir, exist_ok=True)
    inp = '\n'.join('\n'.join(c.lines(i)) for c, i in zip(cases, ids)) + '\n'
    try:
        p = subprocess.run([bin_path, prop], input=inp, capture_output=True, text=True, timeout=timeout)
    except subprocess.TimeoutExpired:
        return None, 0, 'hang'
    if p.returncode != 0:
        return None, 0, f'crash rc={p.returncode} {p.stderr[-300:]}'
    trace = p.stdout
    with open(os.path.join(workdir, f'{tag}.trace'), 'w') as fh:
        fh.write(trace)
    try:
        d = subprocess.run([DRIVER_RUN[0], prop], input=trace, capture_output=True, text=True, timeout=timeout * 4 + 60)
    except subprocess.TimeoutExpired:
        return None, 0, 'driver-hang'
    if d.returncode != 0:
        return None, 0, f'driver-crash rc={d.returncode} {d.stderr[-300:]}'
    verd = collections.defaultdict(list)
    summary = None
    for l in d.stdout.split('\n'):
        m = VERDICT.match(l)
        if m:
            verd[m.group(3)].append(l)
        elif l.startswith('SUMMARY'):
            summary = l
    if summary is None:
        return None, 0, 'driver-no-summary'
    return dict(verd), trace.count('\n'), None


def run_cases(prop, bins, cases, timeout=120, tag='run'):
    """returns verdicts {index: [lines]} for cases with findings, total trace lines, list of (index, error)"""
    from concurrent.futures import ThreadPoolExecutor
    workdir = os.path.join(WORK, prop)
    by_build = collections.defaultdict(list)
    for idx, c in enumerate(cases):
        by_build[c.build].append(idx)
    shards = []
    for b, idxs in by_build.items():
        n = max(1, min(NCPU, len(idxs) // 8 or 1))
        for k in range(n):
            part = idxs[k::n]
            if part:
                shards.append((b, part))
    verdicts, errors, total = {}, [], 0

    def work(sh_):
        b, part = sh_
        v, n, err = run_shard(prop, bins[b], [cases[i] for i in part], [str(i) for i in part], timeout, workdir,
                              f'{tag}-{b}-{part[0]}')
        if err is None:
            return [(int(k), vv) for k, vv in v.items()], n, []
        # shard failed as a whole: isolate the culprit case by case
        vs, errs, nn = [], [], 0
        for i in part:
            v1, n1, e1 = run_shard(prop, bins[b], [cases[i]], [str(i)], max(120, timeout // 3), workdir, f'{tag}-{b}-one')
            if e1 is None:
                vs += [(int(k), vv) for k, vv in v1.items()]
                nn += n1
            else:
                errs.append((i, e1))
        return vs, nn, errs

    with ThreadPoolExecutor(max_workers=NCPU) as ex:
        for vs, n, errs in ex.map(work, shards):
            for k, vv in vs:
                verdicts[k] = vv
            total += n
            errors += errs
    return verdicts, total, errors


def minimise(prop, bins, case, still_fails, budget=150):
    """delta debugging on the op list; `still_fails(verdict_lines)` decides"""
    ops = list(case.ops)

    def fails(cand):
        c = Case(case.header, cand, case.build)
        v, _, errs = run_cases(prop, bins, [c], timeout=30, tag='min')
        if errs:
            return still_fails([f'SPECFAIL {errs[0][1]}'])
        return still_fails(v.get(0, []))

    n, runs = 2, 0
    while len(ops) >= 2 and runs < budget:
        chunk = max(1, len(ops) // n)
        reduced = False
        for i in range(0, len(ops), chunk):
            cand = ops[:i] + ops[i + chunk:]
            runs += 1
            if cand and fails(cand):
                ops, n, reduced = cand, max(n - 1, 2), True
                break
            if runs >= budget:
                break
        if not reduced:
            if chunk == 1:
                break
            n = min(len(ops), n * 2)
    return Case(case.header, ops, case.build)


# ------------------------------------------------------------------------------------------------
def known_for(mod, known, case, verdict_lines):
    """ids of the open known findings that explain *every* SPECFAIL line of the case, or None if some line is not
    explained (then the case is a new violation). `mod.signatures` maps each SPECFAIL line to a canonical signature."""
    if not hasattr(mod, 'signatures'):
        if hasattr(mod, 'signature'):          # case-level signature
            sg = mod.signature(case, verdict_lines)
            kf = next((k for k in known if sg is not None and k.get('signature') == sg), None)
            return [kf['id']] if kf else None
        return None
    lines = [l for l in verdict_lines if l.startswith('SPECFAIL')]
    sigs = mod.signatures(case, lines)
    if sigs is None or len(sigs) != len(lines):
        return None
    ids = set()
    for sg in sigs:
        kf = next((k for k in known if sg is not None and k.get('signature') == sg), None)
        if kf is None:
            return None
        ids.add(kf['id'])
    return sorted(ids)


def load_known(prop):
    p = os.path.join(VERIF, 'known_findings.json')
    if not os.path.exists(p):
        return []
    return [k for k in json.load(open(p)) if k.get('property') == prop and k.get('status') == 'open']


def write_replay(prop, seed, payload):
    os.makedirs(os.path.join(VERIF, 'replays'), exist_ok=True)
    path = os.path.join(VERIF, 'replays', f'{prop}-{seed}.json')
    payload = dict(payload)
    payload['property'] = prop
    payload['how_to_replay'] = f'./check {prop} --replay {path}'
    with open(path, 'w') as fh:
        json.dump(payload, fh, indent=1)
    return path


REPLAY_MODE = [False]


def write_evidence(prop, ev):
    if REPLAY_MODE[0]:
        return      # a --replay run explores one recorded case; it must not replace the evidence of the last full run
    os.makedirs(os.path.join(VERIF, 'evidence'), exist_ok=True)
    with open(os.path.join(VERIF, 'evidence', f'{prop}.json'), 'w') as fh:
        json.dump(ev, fh, indent=1)


def first_error_theorem(build_log, props_file, theorems):
    """map the first Lean error in the property file to the enclosing theorem"""
    base = os.path.basename(props_file)
    for m in re.finditer(r'error: ((?:\S*/)?' + re.escape(base) + r'):(\d+):(\d+): (.*)', build_log):
        line = int(m.group(2))
        name = None
        for n, ln in theorems:
            if ln <= line:
                name = n
        return name, m.group(0)[:400]
    m = re.search(r'error: (.*)', build_log)
    return None, (m.group(0)[:400] if m else build_log[-400:])


# ------------------------------------------------------------------------------------------------
def run_check(mod, tier, seed, replay=None):
    t0 = time.time()
    REPLAY_MODE[0] = bool(replay)
    prop = mod.PROP
    rng = random.Random(seed * 1000003 + (17 if tier == 'thorough' else 0))
    props_module = f'DcVerif.Props.{prop}'
    props_file = os.path.join(LEAN, 'DcVerif', 'Props', f'{prop}.lean')
    extra_modules = getattr(mod, 'EXTRA_THEOREM_MODULES', [])
    notes = []
    obligation_failure = None     # (theorem name | None, message)

    with BuildLock():
        # 1. translators
        ok, gen_report = run_translators(getattr(mod, 'TRANSLATORS', []))
        if getattr(mod, 'TRANSLATORS', None):
            if not ok:
                bad = {k: v.get('error') for k, v in gen_report.items() if not v.get('ok')}
                obligation_failure = (None, f'translator failed closed: {bad}')
        # 2. kernel check of the theorems
        ok_props, log_props = lake_build([props_module] + extra_modules)
        theorems = theorem_names(props_file)
        for em in extra_modules:
            theorems += theorem_names(os.path.join(LEAN, em.replace('.', '/') + '.lean'))
        if not ok_props and obligation_failure is None:
            files = [props_file] + [os.path.join(LEAN, em.replace('.', '/') + '.lean') for em in extra_modules]
            cands = [first_error_theorem(log_props, f, theorem_names(f)) for f in files]
            obligation_failure = next((c for c in cands if c[0]), cands[0])
        # 3. audit
        axioms = {}
        if ok_props:
            axioms, audit_log = audit_axioms_multi(prop, [props_module] + extra_modules, theorems)
        mods = lean_sources_for([props_module] + extra_modules + ['Driver.Main'])
        forbidden = scan_forbidden(mods)
        leanchecker = None
        if tier == 'thorough' and ok_props:
            leanchecker = True
            for lm in [props_module] + extra_modules:
                rc, out, err = sh(['lake', 'env', 'leanchecker', lm], cwd=LEAN, timeout=3000)
                if rc != 0:
                    leanchecker = False
                    obligation_failure = (None, 'leanchecker rejected ' + lm + ': ' + (out + err)[-300:])
                    break
        # 4. driver + harness
        ok_drv, log_drv = lake_build(['dcv-driver'])
        bins, build_logs = {}, {}
        extra_builds = sorted(getattr(mod, 'OPT_BUILDS', {}).values()) if tier == 'thorough' and not replay else []
        if replay:
            rb = (json.load(open(replay)).get('case') or {}).get('build')
            if rb and rb not in getattr(mod, 'BUILDS', ['safe']):
                extra_builds = [rb]
        for b in list(getattr(mod, 'BUILDS', ['safe'])) + extra_builds:
            okb, logb, path = cargo_build(b)
            if not okb:
                build_logs[b] = logb[-1500:]
            else:
                bins[b] = private_copy(path, prop, f'dcv-harness-{b}')
        if ok_drv:
            DRIVER_RUN[0] = private_copy(DRIVER, prop, 'dcv-driver')

    discharged = []
    for n, _ in theorems:
        ax = axioms.get(n)
        if ax is not None and set(ax) <= ALLOWED_AXIOMS:
            discharged.append(n)
        elif ok_props and obligation_failure is None:
            obligation_failure = (n, f'axiom audit: {n} depends on {ax}')
    if forbidden and obligation_failure is None:
        obligation_failure = (None, 'forbidden token in Lean sources: ' + forbidden[0])

    if build_logs:
        # the harness does not compile against /repo: the tie cannot be checked
        path = write_replay(prop, seed, {'kind': 'obligation', 'theorem': None,
                                         'oracle_says': 'harness does not build against /repo', 'log': build_logs})
        print(f'VIOLATION property={prop} replay={path} no-failing-input-found')
        finish_evidence(mod, tier, seed, t0, theorems, discharged, axioms, gen_report, [], {}, 0, [], [], 1,
                        leanchecker, notes + ['harness build failed'])
        return 1
    if not ok_drv:
        notes.append('dcv-driver does not build (model side broken); falling back to the spec-only oracle is not '
                     'possible for this property: ' + log_drv[-300:])
        if obligation_failure is None:
            obligation_failure = (None, 'driver/model does not compile: ' + first_error_theorem(log_drv, 'x', [])[1])

    # 5. cases
    if replay:
        rj = json.load(open(replay))
        cases = [Case.from_json(rj['case'])] if 'case' in rj and isinstance(rj['case'], dict) and 'ops' in rj['case'] else []
    else:
        cases = list(mod.corpus()) if hasattr(mod, 'corpus') else []
        cases += list(mod.generate(rng, tier))
        if tier == 'thorough' and getattr(mod, 'OPT_BUILDS', None):
            # every case of a raw-pointer build is run a second time against the optimised harness
            cases += [Case(c.header, c.ops, mod.OPT_BUILDS[c.build], c.tags + ('opt-level-3',)) for c in cases if c.build in mod.OPT_BUILDS]
    verdicts, trace_lines, errors = ({}, 0, [])
    if ok_drv and cases:
        verdicts, trace_lines, errors = run_cases(prop, bins, cases, timeout=getattr(mod, 'SHARD_TIMEOUT', 300))
    for i, e in errors:
        verdicts.setdefault(i, []).append(f'SPECFAIL impl={e.split()[0]} spec=returns case={i} line=- :: harness {e}')

    # 6. classify
    known = load_known(prop)
    spec_cases = [i for i, v in verdicts.items() if any(l.startswith('SPECFAIL') for l in v)]
    mism_cases = [i for i, v in verdicts.items() if any(l.startswith('MISMATCH') for l in v) and i not in spec_cases]
    known_hit, new_spec = collections.Counter(), []
    for i in sorted(spec_cases):
        kfs = known_for(mod, known, cases[i], verdicts[i])
        if kfs is not None:
            for kid in kfs:
                known_hit[kid] += 1
        else:
            new_spec.append(i)
    for k in known:
        if known_hit[k['id']]:
            print(f"KNOWN-FINDING: property={prop} {k['id']}: {k['what']} ({known_hit[k['id']]} case(s) this run)")

    rc = 0
    if new_spec:
        i = new_spec[0]
        case = cases[i]
        if getattr(mod, 'MINIMISE', True) and len(case.ops) > 1:
            want = first_specfail_kind(verdicts[i])
            case = minimise(prop, bins, case, lambda v: any(l.startswith('SPECFAIL') for l in v))
        v, _, e = run_cases(prop, bins, [case], timeout=60, tag='final')
        path = write_replay(prop, seed, {'kind': 'specfail', 'case': case.to_json(),
                                         'verdicts': v.get(0, verdicts[i]), 'oracle_says': 'implementation output violates the spec oracle',
                                         'specfail_cases_this_run': len(new_spec),
                                         'broken_obligation': obligation_failure})
        print(f'VIOLATION property={prop} replay={path}')
        rc = 1
    elif obligation_failure or mism_cases:
        # the property is no longer shown to hold; search harder for a failing input
        found = None
        if ok_drv and not replay and hasattr(mod, 'generate'):
            rng2 = random.Random(seed * 7919 + 1)
            extra = list(mod.generate(rng2, 'thorough'))
            if hasattr(mod, 'exhaustive_small'):
                extra = list(mod.exhaustive_small()) + extra
            v2, n2, e2 = run_cases(prop, bins, extra, timeout=getattr(mod, 'SHARD_TIMEOUT', 300), tag='search')
            trace_lines += n2
            for j in sorted(v2):
                if any(l.startswith('SPECFAIL') for l in v2[j]):
                    if known_for(mod, known, extra[j], v2[j]) is None:
                        found = (extra[j], v2[j])
                        break
            cases_searched = len(extra)
        else:
            cases_searched = 0
        if found:
            case = minimise(prop, bins, found[0], lambda v: any(l.startswith('SPECFAIL') for l in v)) \
                if getattr(mod, 'MINIMISE', True) else found[0]
            path = write_replay(prop, seed, {'kind': 'specfail', 'case': case.to_json(), 'verdicts': found[1],
                                             'broken_obligation': obligation_failure,
                                             'oracle_says': 'found by the search that follows a broken obligation / correspondence'})
            print(f'VIOLATION property={prop} replay={path}')
        else:
            payload = {'kind': 'obligation' if obligation_failure else 'mismatch',
                       'theorem': obligation_failure[0] if obligation_failure else None,
                       'message': obligation_failure[1] if obligation_failure else None,
                       'searched_cases': cases_searched,
                       'oracle_says': 'property no longer shown to hold; no failing input found by the search'}
            if mism_cases:
                i = mism_cases[0]
                payload['case'] = cases[i].to_json()
                payload['verdicts'] = verdicts[i][:10]
                payload['correspondence'] = f'model/implementation disagreement in {len(mism_cases)} case(s)'
            if gen_report:
                payload['generated'] = gen_report
            path = write_replay(prop, seed, payload)
            print(f'VIOLATION property={prop} replay={path} no-failing-input-found')
        rc = 1

    finish_evidence(mod, tier, seed, t0, theorems, discharged, axioms, gen_report, cases, verdicts, trace_lines,
                    sorted(known_hit), new_spec, rc, leanchecker, notes, mism=len(mism_cases))
    if rc == 0:
        print(f'OK property={prop} tier={tier} theorems={len(discharged)}/{len(theorems)} cases={len(cases)} '
              f'lines={trace_lines} wall={time.time() - t0:.1f}s')
        # the shard traces are only of interest after a failure (the replay file carries the failing case itself)
        import glob
        for f in glob.glob(os.path.join(WORK, prop, '*.trace')):
            try:
                os.remove(f)
            except OSError:
                pass
    return rc


def audit_axioms_multi(prop, modules, theorems):
    os.makedirs(os.path.join(WORK, 'audit'), exist_ok=True)
    f = os.path.join(WORK, 'audit', f'{prop}.lean')
    with open(f, 'w') as fh:
        for m in modules:
            fh.write(f'import {m}\n')
        for n, _ in theorems:
            fh.write(f'#print axioms {n}\n')
    rc, out, err = sh(['lake', 'env', 'lean', f], cwd=LEAN, timeout=1200)
    res, text = {}, out + err
    for n, _ in theorems:
        m = re.search(r"'" + re.escape(n) + r"' depends on axioms: \[([^\]]*)\]", text)
        if m:
            res[n] = [a.strip() for a in m.group(1).replace('\n', ' ').split(',') if a.strip()]
        elif re.search(r"'" + re.escape(n) + r"' does not depend on any axioms", text):
            res[n] = []
        else:
            res[n] = None
    return res, text


def first_specfail_kind(lines):
    for l in lines:
        if l.startswith('SPECFAIL'):
            return l.split(' case=')[0]
    return None


def finish_evidence(mod, tier, seed, t0, theorems, discharged, axioms, gen_report, cases, verdicts, trace_lines,
                    known_hit, new_spec, rc, leanchecker, notes, mism=0):
    prop = mod.PROP
    hist = collections.Counter()
    distinct = set()
    for c in cases:
        for t in (mod.classify(c) if hasattr(mod, 'classify') else c.tags):
            hist[t] += 1
        if not hasattr(mod, 'nontrivial') or mod.nontrivial(c):
            distinct.add(c.key())
    samples = [c.to_json() for c in cases[:2]] + [c.to_json() for c in cases[-1:]] if cases else []
    for s in samples:
        if len(s['ops']) > 40:
            s['ops'] = s['ops'][:40] + [f'… ({len(s["ops"]) - 40} more)']
    samples += [{'obligation': n, 'axioms': axioms.get(n)} for n, _ in theorems[:3]]
    cov = {
        'obligations': len(theorems),
        'discharged': len(discharged),
        'checker_cmd': f'cd /verif/lean && lake build DcVerif.Props.{prop} {" ".join(getattr(mod, "EXTRA_THEOREM_MODULES", []))} && '
                       f'lake env lean /verif/.work/audit/{prop}.lean  # #print axioms of every theorem'
                       f'{" && lake env leanchecker <each of these modules>" if tier == "thorough" else ""}',
        'trusted_base': TRUSTED_BASE + list(getattr(mod, 'TRUSTED_EXTRA', [])),
        'theorems': [{'name': n, 'axioms': axioms.get(n)} for n, _ in theorems],
        'generated_files': gen_report,
        'traces_validated_against_impl': len(cases),
        'evaluations': trace_lines,
        'distinct_nontrivial': len(distinct),
        'rule': getattr(mod, 'RULE', ''),
        'histogram': dict(sorted(hist.items())),
        'samples': samples,
        'known_findings_hit': known_hit,
        'mismatches': mism,
        'specfails': len(new_spec),
        'leanchecker': leanchecker,
        'notes': notes,
    }
    ev = {'property_id': prop, 'tier': tier, 'seed': seed, 'level': 'proof', 'coverage': cov,
          'assumptions': list(getattr(mod, 'ASSUMPTIONS', [])), 'wall_s': round(time.time() - t0, 2),
          'violations': 0 if rc == 0 else 1}
    write_evidence(prop, ev)
