"""C14 (ring buffer)"""
import re
from framework import Case
import ring_common as R

PROP = 'C14'
BUILDS, TRANSLATORS, MINIMISE, SHARD_TIMEOUT, ASSUMPTIONS, RULE = R.BUILDS, R.TRANSLATORS, R.MINIMISE, R.SHARD_TIMEOUT, R.ASSUMPTIONS, R.RULE
EXTRA_THEOREM_MODULES = R.EXTRA_THEOREM_MODULES
classify, nontrivial = R.classify, R.nontrivial


def corpus():
    return R.corpus_cases(PROP)


def generate(rng, tier):
    for _ in range(120 if tier == 'quick' else 12000):
        yield R.gen_case(rng, tier)


def signatures(case, lines):
    out = []
    for l in lines:
        m = re.search(r'all claimants published but cursor=(\d+) highest-claimed=(\d+) producer=multi', l)
        if m and int(m.group(1)) < int(m.group(2)):
            out.append({'producer': 'multi', 'kind': 'stranded'})
        else:
            out.append(None)
    return out
