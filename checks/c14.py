"""C14 (ring buffer)"""
import re
from framework import Case
import ring_common as R

PROP = 'C14'
BUILDS, MINIMISE, SHARD_TIMEOUT, ASSUMPTIONS, RULE = R.BUILDS, R.MINIMISE, R.SHARD_TIMEOUT, R.ASSUMPTIONS, R.RULE
TRANSLATORS = R.TRANSLATORS + ['spseq', 'mpseq']     # Gen/SpSeq.lean (single-producer arithmetic), Props/C14Gen.lean
EXTRA_THEOREM_MODULES = R.EXTRA_THEOREM_MODULES + ['DcVerif.Props.C14Gen', 'DcVerif.Props.C14MGen', 'DcVerif.Lemmas.RingMultiSerial']
classify, nontrivial = R.classify, R.nontrivial


def corpus():
    return R.corpus_cases(PROP)


def generate(rng, tier):
    yield from R.search_cases(tier)
    yield from R.scale_cases(tier)
    for k in range(120 if tier == 'quick' else 12000):
        if k % 6 == 0:
            # claim/publish protocol under stress: several writers on a small ring that wraps several times, frequent
            # switches (publishes complete in a different order than the claims, bitmap words are reused lap after lap)
            yield R.gen_case(rng, tier, prod='multi', n=rng.choice([2, 4, 4, 8, 16]), laps=rng.choice([3, 4, 6]),
                             stick=rng.choice([0, 64, 128]), zero_prob=0.0)
        elif k % 6 == 3 and k < 1800:
            # 4-6 writer threads with single-event batches, hardly any stickiness: publication order ~ a random permutation of the
            # claim order (partial releases that leave gaps, several inversions in a row)
            yield R.gen_case(rng, tier, prod='multi', n=rng.choice([8, 16, 16, 64]), writers_n=rng.choice([4, 5, 6]),
                             small_batches=True, stick=rng.choice([0, 16, 48]), zero_prob=0.0)
        else:
            yield R.gen_case(rng, tier)


def writer_threads(case):
    """F7/F8/F11/F13 need two publishers inside `publish` at once: with ONE writer thread the multi-producer sequencer releases
    everything (c06_multi_single_writer_*), so a stranded sequence there is not the known finding"""
    m = re.search(r'writers=(\S+)', case.header)
    return len(m.group(1).split('|')) if m else 1


def signatures(case, lines):
    out = []
    for l in lines:
        m = re.search(r'all claimants published but cursor=(\d+) highest-claimed=(\d+) producer=multi lwRegressed=(\w+)', l)
        if m and int(m.group(1)) < int(m.group(2)) and writer_threads(case) >= 2:
            out.append({'producer': 'multi', 'kind': 'stranded', 'lw_regressed': m.group(3) == 'true'})
        else:
            out.append(None)
    return out
