"""C12 — container independence / determinism. Cases: see harness/src/c12.rs."""
from framework import Case
import c18

PROP = 'C12'
BUILDS = ['safe']
TRANSLATORS = ['containers', 'collections', 'causable']   # Gen/Containers.lean (the adapters) + the default methods they feed
EXTRA_THEOREM_MODULES = ['DcVerif.Props.C12Graph', 'DcVerif.Props.C12Gen']
RULE = ('five families, each item list held in [T], Vec, VecDeque (ring buffer wrapped), BTreeMap, HashMap and a rebuilt twin Vec: '
        'assumptions (0–8, verify / verify_all histories of 1–12 calls, full dump of all six after every call), inferences and '
        'observations (0–10, value generators of C18: thresholds, ±0.0, NaN, truncation edges), causaloid collections (1–7 members, '
        'singletons of 4 causal-function kinds and collection causaloids of 1–3 singletons; reason_all_causes with data of '
        'the right length, too short (panic), all-true and mixed true/false/error values, every call made twice), causal graphs '
        '(1–8 nodes, random DAG; graph vs clone() vs rebuilt twin under reason_all_causes / subgraph / '
        'single cause / shortest path; the graph\'s own verdict of the first three replayed on Model.CausalGraph). map keys: increasing (B-tree iterates like the Vec), permuted, sparse/large. '
        'non-trivial = at least 2 members and a reasoning call; distinct = sha256 of the case text')
ASSUMPTIONS = ['HashMap iteration order is external nondeterminism: reported through get_all_items(), checked to be a permutation '
               'of the members, stable between calls on an unmodified map',
               'the six holders of a case contain separately constructed items (no shared Arc flags between holders)',
               'graphs: the verdict of graph, clone and twin is compared with each other and (reason_all_causes, subgraph, single cause) with Model.CausalGraph; '
               'shortest-path verdicts and the activation aggregates of clone/twin are compared with each other on the real code only',
               'f64 as in C18 (bit patterns compared, NaN canonicalised)']


def _keys(rng, n):
    r = rng.random()
    if r < 0.35:
        ks = sorted(rng.sample(range(0, 40), n))
    elif r < 0.8:
        ks = rng.sample(range(0, 40), n)
    else:
        ks = rng.sample([0, 1, 2 ** 32, 2 ** 63, 2 ** 64 - 1, 999, 7, 2 ** 40 + 1, 65536, 12345678901], n)
    return ','.join(map(str, ks)) or '-'


def _assume(rng):
    n = rng.randrange(0, 9) if rng.random() < 0.1 else rng.randrange(1, 9)
    kinds = [rng.randrange(6) for _ in range(n)]
    ops = ['q']
    for _ in range(rng.randrange(1, 13)):
        r = rng.random()
        d = rng.randrange(0, 64)
        if r < 0.5 and n:
            ops.append(f'verify {rng.randrange(n)} {d}')
        elif r < 0.85:
            ops.append(f'verifyall {d if rng.random() < 0.6 else rng.choice([0, 1 << rng.randrange(6)])}')
        else:
            ops.append('q')
    return Case(f"assume {','.join(map(str, kinds)) or '-'} {_keys(rng, n)}", ops)


def _infer(rng):
    n = rng.randrange(0, 11) if rng.random() < 0.1 else rng.randrange(1, 11)
    items = []
    for _ in range(n):
        thr = c18._val(rng)
        obs = c18._near(rng, thr)
        eff, tgt = c18._effect_pair(rng)
        items.append(f'{obs}/{thr}/{eff}/{tgt}')
    return Case(f"infer {_keys(rng, n)} {','.join(items) or '-'}", ['q'])


def _observe(rng):
    n = rng.randrange(0, 11) if rng.random() < 0.1 else rng.randrange(1, 11)
    common = c18._val(rng)
    vals, effs = [], []
    for _ in range(n):
        vals.append(c18._val(rng) if not vals or rng.random() < 0.6 else c18._near(rng, rng.choice(vals)))
        effs.append(common if rng.random() < 0.6 else c18._near(rng, common))
    ops = []
    for _ in range(rng.randrange(1, 6)):
        thr = c18._near(rng, rng.choice(vals)) if vals and rng.random() < 0.6 else rng.choice(['fff0000000000000', c18.bits(-3.0), c18.bits(0.0)])
        eff = common if rng.random() < 0.5 or not effs else c18._near(rng, rng.choice(effs))
        ops.append(f'q {thr} {eff}')
    return Case(f"observe {_keys(rng, n)} {','.join(f'{o}/{e}' for o, e in zip(vals, effs)) or '-'}", ops)


def _datum(rng, want):
    """integer whose residue mod 3 is `want` (1 true, 0 false, 2 error for the plain kind)"""
    return 3 * rng.randrange(-5, 30) + want


def _cause(rng):
    n = rng.randrange(0, 8) if rng.random() < 0.08 else rng.randrange(1, 8)
    items = []
    for _ in range(n):
        if rng.random() < 0.7:
            items.append(f's{rng.choice([0, 0, 0, 1, 2, 3])}')
        else:
            items.append('c' + '.'.join(str(rng.choice([0, 0, 1, 2, 3])) for _ in range(rng.randrange(1, 4))))
    ops = ['q']
    width = max([n] + [len(it[1:].split('.')) for it in items if it.startswith('c')])
    for _ in range(rng.randrange(1, 8)):
        r = rng.random()
        if r < 0.15:
            ops.append('q')
            continue
        if r < 0.45:      # every plain function true
            data = [_datum(rng, 1) for _ in range(width)]
        elif r < 0.55:    # uniform value: order independent data
            data = [_datum(rng, rng.choice([0, 1]))] * width
        elif r < 0.9:
            data = [_datum(rng, rng.choice([1, 1, 1, 0, 2] if rng.random() < 0.5 else [1, 1, 0])) for _ in range(width)]
        else:             # too short: `expect("failed to get value")`
            data = [_datum(rng, 1) for _ in range(rng.randrange(0, max(1, n)))]
        ops.append('reason ' + (','.join(map(str, data)) or '-'))
    return Case(f"cause {_keys(rng, n)} {','.join(items) or '-'}", ops + ['q'])


def _graph(rng):
    n = rng.randrange(1, 9)
    kinds = [rng.choice([0, 0, 0, 1, 2, 3]) for _ in range(n)]
    edges = set()
    for b in range(1, n):
        edges.add((rng.randrange(0, b), b))           # reachable from the root
    for _ in range(rng.randrange(0, n + 1)):
        a, b = rng.randrange(n), rng.randrange(n)
        if a < b:                                     # acyclic only: graph reasoning does not terminate on a cycle (C01's subject)
            edges.add((a, b))
    ops = ['gq']
    for _ in range(rng.randrange(1, 9)):
        r = rng.random()
        if r < 0.5:
            data = [_datum(rng, 1 if kinds[i] != 1 else 0) for i in range(n)]
        elif r < 0.9:
            data = [_datum(rng, rng.choice([1, 1, 0, 2] if rng.random() < 0.4 else [1, 1, 1, 0])) for _ in range(n)]
        else:
            data = [_datum(rng, 1) for _ in range(rng.randrange(0, n))]
        ds = ','.join(map(str, data)) or '-'
        k = rng.random()
        if k < 0.45:
            ops.append(f'gall {ds}')
        elif k < 0.65:
            ops.append(f'gsub {rng.randrange(n + 1)} {ds}')
        elif k < 0.8:
            ops.append(f'gone {rng.randrange(n + 1)} {_datum(rng, rng.choice([0, 1, 1, 2]))}')
        else:
            a, b = (0, n - 1) if rng.random() < 0.5 else (rng.randrange(n), rng.randrange(n))
            ops.append(f'gpath {a} {b} {ds}')
    # half of the graphs carry edge weights (hop-shortest and weight-shortest paths then differ)
    weighted = rng.random() < 0.5
    es = ','.join((f'{a}-{b}:{rng.choice([1, 1, 2, 5, 9, 40, 2 ** 33])}' if weighted and rng.random() < 0.8 else f'{a}-{b}')
                  for a, b in sorted(edges)) or '-'
    return Case(f"graph {','.join(map(str, kinds))} {es}", ops)


def corpus():
    """weighted graphs in which the lightest path is not the one with the fewest hops, and only one of the two carries a
    false / failing causaloid: graph, clone and twin must pick the same path (all kinds 0: datum ≡ 1 true, 0 false, 2 error)"""
    t, f, e = 4, 3, 5
    yield Case('graph 0,0,0,0 0-1:1,0-3:40,1-3:1', ['gq', f'gpath 0 3 {t},{f},{t},{t}', f'gpath 0 3 {t},{t},{t},{t}',
                                                 f'gpath 0 3 {t},{e},{t},{t}', f'gall {t},{f},{t},{t}'], tags=('corpus', 'weighted'))
    yield Case('graph 0,0,0,0,0 0-1:2,0-2:9,1-2:2,2-4:1,0-4:100,1-3:1,3-4:50',
               ['gq', f'gpath 0 4 {t},{t},{f},{t},{t}', f'gpath 0 4 {t},{f},{t},{t},{t}', f'gpath 0 2 {t},{f},{t},{t},{t}',
                f'gpath 1 4 {t},{t},{t},{f},{t}', f'gsub 1 {t},{t},{t},{f},{t}'], tags=('corpus', 'weighted'))
    yield Case(f'graph 0,0,0 0-1:{2 ** 33},0-2:{2 ** 40},1-2:{2 ** 33}', ['gq', f'gpath 0 2 {t},{f},{t}', f'gpath 0 2 {t},{t},{t}'],
               tags=('corpus', 'weighted', 'wide-weights'))


def generate(rng, tier):
    m = 1 if tier == 'quick' else 20
    for _ in range(150 * m):
        yield _assume(rng)
    for _ in range(150 * m):
        yield _infer(rng)
    for _ in range(150 * m):
        yield _observe(rng)
    for _ in range(250 * m):
        yield _cause(rng)
    for _ in range(200 * m):
        yield _graph(rng)


def exhaustive_small():
    return []


def classify(case):
    h = case.header.split()
    t = [h[0]]
    if h[0] != 'graph':
        ks = h[2] if h[0] == 'assume' else h[1]
        kl = [] if ks == '-' else [int(x) for x in ks.split(',')]
        t.append(f'{h[0]}-size0' if not kl else f'{h[0]}-size<=3' if len(kl) <= 3 else f'{h[0]}-size>3')
        t.append('btree-order=vec-order' if kl == sorted(kl) else 'btree-order-permuted')
    if h[0] == 'cause':
        if any(x.startswith('c') for x in h[2].split(',')):
            t.append('has-collection-causaloid')
        if any(o.startswith('reason') for o in case.ops):
            t.append('has-reason')
    return t


def nontrivial(case):
    h = case.header.split()
    if h[0] == 'graph':
        return len(h[1].split(',')) >= 2 and len(case.ops) >= 2
    ks = h[2] if h[0] == 'assume' else h[1]
    return ks != '-' and len(ks.split(',')) >= 2


def signature(case, verdicts):
    return None
