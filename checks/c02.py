"""C02 — nested causal structures evaluate like the conjunction of what they contain.

Cases: `ctx <markers>` then build lines (`s`, `c`, `g`, `clone`) that describe a nesting tree bottom-up (every line creates
one real causaloid, wrappers hold clones of earlier handles), then evaluation lines: every wrapper is evaluated wrapped
(`va`) and directly (`rc` / `rg`) on the same data. See harness/src/c02.rs for the line protocol."""
from framework import Case

PROP = 'C02'
# the verdict functions of Model/Causaloid.lean the C02 theorems are about (verifySingle, verifyAll, reasonFrom / reasonColl) are tied
# to the current source by tools/rs2lean_causable.py -> Gen/Causable.lean and Props/C11Gen.lean (graph reasoning stays abstract there)
# graph level: tools/rs2lean_reasoning.py -> Gen/ReasoningN.lean (the generated graph reasoning over nodes that may be wrappers) and Props/C02Gen.lean
TRANSLATORS = ['causable', 'reasoning', 'reasoningN']
EXTRA_THEOREM_MODULES = ['DcVerif.Props.C11Gen', 'DcVerif.Props.C02Gen']
BUILDS = ['safe']
RULE = ('random nesting trees of singletons / collection wrappers / graph wrappers, depth ≤ 3 (quick) / ≤ 5 (thorough), fan-out ≤ 4, '
        'graphs = random DAGs (tree + extra edges, node order independent of edge direction, root at any position, wrappers in '
        'interior positions), ids random / colliding, causal functions plain / inverted / contextual over 2–3 contexts with '
        'different markers, shared handles (clones); per tree 3–6 observation vectors (all-true with 0–2 flipped slots, or random '
        'over {t,f,err}), with and without data index; every wrapper evaluated wrapped and directly; malformed stream: short / '
        'empty data, empty collection, no root, wrapper in root position, contextual causaloid without context, index without '
        'the id, verify_all on a singleton, verify_single on a wrapper; non-trivial = nesting depth ≥ 2 and ≥ 2 evaluations')
ASSUMPTIONS = ['observations are small non-negative integers (exact in f64); the causal functions decode obs mod 3',
               'graphs are built by adds only (no removals), edges between existing nodes, no duplicates',
               'panics are observed through catch_unwind; flags written before a panic persist (as in the model log)']

T, F, E = 1, 0, 2


class Builder:
    """emits build ops bottom-up; remembers per handle: kind, depth, member handles, ids"""

    def __init__(self, rng, nctx, L, maxdepth, malformed=0.0):
        self.rng, self.nctx, self.L, self.maxdepth, self.malformed = rng, nctx, L, maxdepth, malformed
        self.ops = []
        self.kind = []     # 's' | 'c' | 'g'
        self.depth = []
        self.members = []
        self.ids = []

    def _new(self, line, kind, depth, members, ident):
        self.ops.append(line)
        self.kind.append(kind)
        self.depth.append(depth)
        self.members.append(members)
        self.ids.append(ident)
        return len(self.kind) - 1

    def rid(self):
        return self.rng.randrange(self.L)

    def single(self, plain=False, ident=None):
        r = self.rng.random()
        if plain or r < 0.5:
            fn = 'p'
        elif r < 0.7:
            fn = 'i'
        elif self.nctx and r < 0.97:
            fn = f'x{self.rng.randrange(self.nctx)}'
        else:
            fn = 'xn' if self.rng.random() < self.malformed * 3 else 'p'
        ident = self.rid() if ident is None else ident
        return self._new(f's {ident} {fn}', 's', 0, [], ident)

    def clone(self, h):
        return self._new(f'clone {h}', self.kind[h], self.depth[h], self.members[h], self.ids[h])

    def coll(self, items, ident=None):
        ident = self.rid() if ident is None else ident
        ctx = f' {self.rng.randrange(self.nctx)}' if self.nctx and self.rng.random() < 0.15 else ''
        d = 1 + max([self.depth[i] for i in items], default=0)
        return self._new(f'c {ident} {",".join(map(str, items)) or "-"}{ctx}', 'c', d, list(items), ident)

    def graph(self, nodes, edges, root, ident=None):
        ident = self.rid() if ident is None else ident
        ctx = f' {self.rng.randrange(self.nctx)}' if self.nctx and self.rng.random() < 0.15 else ''
        d = 1 + max([self.depth[i] for i in nodes], default=0)
        es = ','.join(f'{a}-{b}' for a, b in edges) or '-'
        return self._new(f'g {ident} {",".join(map(str, nodes)) or "-"} {es} {"-" if root is None else root}{ctx}',
                         'g', d, list(nodes), ident)

    def dag(self, n):
        """random DAG on positions 0..n-1: a random tree below a random root plus extra forward edges w.r.t. a random order"""
        rng = self.rng
        order = list(range(n))
        rng.shuffle(order)          # order[0] is the root position
        edges = set()
        for k in range(1, n):
            if rng.random() < 0.9:  # attach below an earlier node (else: disconnected part)
                edges.add((order[rng.randrange(k)], order[k]))
        for _ in range(rng.randrange(0, n)):
            i, j = sorted(rng.sample(range(n), 2)) if n >= 2 else (0, 0)
            if i != j:
                edges.add((order[i], order[j]))
        edges = list(edges)
        rng.shuffle(edges)
        return edges, order[0]

    def tree(self, depth, plain=False, distinct_ids=False):
        """a random causaloid of nesting depth ≤ depth; returns its handle"""
        rng = self.rng
        if depth == 0 or rng.random() < 0.15:
            return self.single(plain)
        k = rng.randrange(1, 5)
        shared = None
        subs = []
        for j in range(k):
            r = rng.random()
            if shared is not None and r < 0.1:
                subs.append(shared if rng.random() < 0.5 else self.clone(shared))
            elif r < 0.45 + 0.15 * (self.maxdepth - depth):
                subs.append(self.single(plain))
            else:
                subs.append(self.tree(depth - 1, plain))
            shared = subs[-1]
        if rng.random() < 0.5:
            if rng.random() < self.malformed:
                subs = []
            return self.coll(subs)
        edges, root = self.dag(len(subs))
        # the start node goes through verify_single_cause: a wrapper there panics — keep that to the malformed share
        if self.kind[subs[root]] != 's' and rng.random() >= self.malformed:
            subs[root] = self.single(plain)
        if rng.random() < self.malformed:
            root = None
        return self.graph(subs, edges, root)


def vec(rng, L, mode):
    if mode == 'true':
        d = [3 * rng.randrange(0, 4) + T for _ in range(L)]
        for _ in range(rng.choice([0, 0, 1, 1, 2])):
            d[rng.randrange(L)] = 3 * rng.randrange(0, 4) + rng.choice([F, F, E])
    else:
        d = [3 * rng.randrange(0, 4) + rng.choice([T, T, T, T, F, E]) for _ in range(L)]
    return d


def fmt(d):
    return ','.join(map(str, d)) or '-'


def index(rng, L, malformed):
    r = rng.random()
    if r < 0.6:
        return '-', None
    if r < 0.6 + malformed * 0.5:
        return 'e', {}
    perm = list(range(L))
    rng.shuffle(perm)
    m = {i: perm[i] for i in range(L)}
    if rng.random() < malformed:
        del m[rng.randrange(L)]
    return ','.join(f'{k}:{v}' for k, v in m.items()) or 'e', m


def eval_pair(b, h, d, ix):
    """wrapped evaluation followed by the direct one"""
    if b.kind[h] == 'c':
        return [f'va {h} {fmt(d)} {ix}', f'rc {h} {fmt(d)}']
    if b.kind[h] == 'g':
        return [f'va {h} {fmt(d)} {ix}', f'rg {h} {fmt(d)} {ix}']
    return [f'vs {h} {d[h % len(d)] if d else 0}']


def one_case(rng, maxdepth, malformed, plain_true):
    nctx = rng.choice([0, 2, 2, 3])
    markers = [rng.randrange(0, 7) for _ in range(nctx)]
    if nctx >= 2 and markers[0] % 3 == markers[1] % 3:
        markers[1] += 1
    L = rng.randrange(4, 11)
    b = Builder(rng, nctx, L, maxdepth, malformed)
    top = b.tree(rng.randrange(1, maxdepth + 1), plain=plain_true)
    while b.kind[top] == 's':
        top = b.tree(maxdepth, plain=plain_true)
    # the same structure once more as an item of a collection and as an interior node of a graph
    extra = []
    if rng.random() < 0.5:
        a, c = b.single(plain_true), b.single(plain_true)
        extra.append(b.coll([a, top, c] if rng.random() < 0.5 else [top, a]))
    if rng.random() < 0.5:
        a, c = b.single(plain_true), b.single(plain_true)
        extra.append(b.graph([a, top, c], [(0, 1), (1, 2)] if rng.random() < 0.5 else [(0, 2), (0, 1)], 0))
    ops = list(b.ops)
    wrappers = [h for h in range(len(b.kind)) if b.kind[h] != 's']
    targets = [top] + extra
    for _ in range(rng.randrange(3, 7)):
        mode = 'true' if (plain_true or rng.random() < 0.5) else 'random'
        Ld = L if rng.random() >= malformed else rng.choice([0, 1, L - 1, max(1, L // 2)])
        d = vec(rng, L, mode)[:Ld]
        ix, _ = index(rng, L, malformed)
        for h in targets:
            ops += eval_pair(b, h, d, ix)
        h = rng.choice(wrappers)
        ops += eval_pair(b, h, d, ix)
        if rng.random() < malformed:
            h = rng.randrange(len(b.kind))
            ops.append(f'va {h} {fmt(d)} {ix}' if b.kind[h] == 's' else f'vs {h} {rng.randrange(0, 9)}')
    ops.append('act')
    depth = max(b.depth[h] for h in targets)
    return Case(f'ctx {fmt(markers)}', ops, tags=(f'depth={depth}',))


def corpus():
    # hand-made: depth-2 nestings in every position, the root-wrapper panic, own-context check
    yield Case('ctx 1,2', [
        's 0 p', 's 1 i', 's 2 x0', 's 2 x1', 'c 3 0,1,2', 'c 3 0,1,3',
        'va 4 1,0,0 -', 'rc 4 1,0,0', 'va 5 1,0,0 -', 'rc 5 1,0,0', 'va 5 1,0,2 -', 'rc 5 1,0,2',
        'g 1 0,4,1 0-1,1-2 0', 'va 6 1,0,0,1 -', 'rg 6 1,0,0,1 -', 'va 6 1,0,0 -', 'rg 6 1,0,0 -',
        'g 1 4,0 0-1 0', 'va 7 1,0,0,1 -', 'rg 7 1,0,0,1 -',
        'c 0 6,0', 'va 8 1,0,0,1 -', 'rc 8 1,0,0,1', 'va 8 1,3,0,1 -', 'rc 8 1,3,0,1',
        'va 6 1,0,0,1 1:3,3:0,0:1', 'rg 6 1,0,0,1 1:3,3:0,0:1', 'act'], tags=('hand-made',))

    # wrong entry point for the causal type: verify_all_causes on a singleton (Err), verify_single_cause on wrappers (panics:
    # the wrapper has no causal function) — error paths that must leave every activation flag alone
    yield Case('ctx -', ['s 0 p', 'va 0 1,1 -', 'act', 'vs 0 1', 'va 0 1 -', 'act', 'c 1 0', 'vs 1 1', 'act',
                         's 2 p', 'g 3 0,2 0-1 0', 'vs 4 1', 'act'], tags=('hand-made', 'wrong-entry-point'))

def generate(rng, tier):
    n = 260 if tier == 'quick' else 30000
    maxdepth = 3 if tier == 'quick' else 5
    for k in range(n):
        malformed = 0.25 if k % 5 == 4 else 0.0
        yield one_case(rng, rng.randrange(2, maxdepth + 1), malformed, plain_true=(k % 5 in (0, 1)))
    if tier == 'thorough':
        yield from exhaustive_small()


def exhaustive_small():
    # every verdict vector over {t,f,err}^3 for: collection of 3, wrapped in a collection, wrapped in a graph
    import itertools
    for v in itertools.product([T, F, E], repeat=3):
        d = fmt(list(v) + [T])
        yield Case('ctx -', ['s 0 p', 's 1 p', 's 2 p', 'c 3 0,1,2', f'va 3 {d} -', f'rc 3 {d}',
                             's 0 p', 'c 1 4,3', f'va 5 {d} -', f'rc 5 {d}',
                             'g 2 4,3,0 0-1,0-2 0', f'va 6 {d} -', f'rg 6 {d} -', 'act'], tags=('exhaustive',))


def classify(case):
    t = list(case.tags)
    kinds = {o.split()[0] for o in case.ops}
    if any(o.startswith(('va ', 'rg ')) and o.split()[3] not in ('-',) for o in case.ops if len(o.split()) > 3):
        t.append('with-data-index')
    for k, name in (('c', 'has-collection'), ('g', 'has-graph'), ('clone', 'has-clone')):
        if k in kinds:
            t.append(name)
    if any(' x' in o for o in case.ops if o.startswith('s ')):
        t.append('contextual')
    return t


def nontrivial(case):
    deep = any(t.startswith('depth=') and int(t[6:]) >= 2 for t in case.tags) or 'hand-made' in case.tags
    return deep and sum(1 for o in case.ops if o.startswith('va ')) >= 2


def signature(case, verdicts):
    return None
