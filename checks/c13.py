"""C13 (ring buffer)"""
import re
from framework import Case
import ring_common as R

PROP = 'C13'
BUILDS, MINIMISE, SHARD_TIMEOUT, ASSUMPTIONS, RULE = R.BUILDS, R.MINIMISE, R.SHARD_TIMEOUT, R.ASSUMPTIONS, R.RULE
TRANSLATORS = R.TRANSLATORS + ['spinwait', 'consumer']     # Gen/SpinWait.lean (get_min_cursor_sequence, one pass of the spin wait loop), Props/C13WaitGen.lean
EXTRA_THEOREM_MODULES = R.EXTRA_THEOREM_MODULES + ['DcVerif.Props.C04Gen', 'DcVerif.Props.C13WaitGen', 'DcVerif.Props.C05Gen', 'DcVerif.Lemmas.RingMultiPay']
classify, nontrivial = R.classify, R.nontrivial


def corpus():
    return R.corpus_cases(PROP)


def generate(rng, tier):
    yield from R.search_cases(tier)
    yield from R.scale_cases(tier)
    for _ in range(120 if tier == 'quick' else 12000):
        yield R.gen_case(rng, tier)


def signatures(case, lines):
    out = []
    for l in lines:
        m = re.search(r'delivered≠published kind=(\S+) missing=\[([^\]]*)\] extra=\[\] producer=(\w+)', l)
        if m and m.group(3) == 'single' and m.group(2).strip() == '0':
            out.append({'producer': 'single', 'missing': [0]})
        elif m and m.group(3) == 'multi' and m.group(1) == 'stranded-tail':
            out.append({'producer': 'multi', 'kind': 'stranded-tail'})
        else:
            out.append(None)
    return out
