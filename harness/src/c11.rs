//! C11: activation state and aggregates over evaluation histories. The implementation side is the same interpreter as C02
//! (`c02::Nest`: persistent arena of real causaloids, clones sharing their `Arc<RwLock<bool>>`, evaluation ops printing the
//! `is_active` of every handle, `agg` printing every aggregate); only the generated histories differ (checks/c11.py).
pub use crate::c02::Nest as C11;
