//! C01 (and, through `c10.rs`, C10): real `CausaloidGraph`s of singleton `Causaloid`s whose causal function decodes the
//! verdict from the observation: `obs mod 3` = 0 true, 1 false, 2 error. Every call of a causal function is logged
//! (thread-local), so the answer to a reasoning op is `<result>;<activation flags by index>;<log of observations>`.
//!
//! ops:  add <id> <fn> | root <id> <fn>            -> index           fn: p (plain) | i (inverted) | c<m> (contextual, marker m)
//!       edge <a> <b> | wedge <a> <b> <w>          -> ok | err
//!       info                                      -> <size>,<last index | e>,<root index | ->
//!       all <data> <idx> | sub <start> <data> <idx> | single <i> <data>
//!  data: `-` or a,b,c (integers)      idx: `-` (None) | `e` (empty map) | k:v,k:v
use crate::{p, Interp};
use deep_causality::errors::CausalityError;
use deep_causality::prelude::*;
use std::cell::RefCell;
use std::collections::HashMap;
use std::panic::{catch_unwind, AssertUnwindSafe};

thread_local! {
    static LOG: RefCell<Vec<i64>> = const { RefCell::new(Vec::new()) };
}

fn log(obs: f64) -> i64 {
    let k = obs as i64;
    LOG.with(|l| l.borrow_mut().push(k));
    k
}

fn decode(k: i64) -> Result<bool, CausalityError> {
    match k.rem_euclid(3) {
        0 => Ok(true),
        1 => Ok(false),
        _ => Err(CausalityError("encoded error".into())),
    }
}

fn fn_plain(obs: NumericalValue) -> Result<bool, CausalityError> {
    decode(log(obs))
}

fn fn_inverted(obs: NumericalValue) -> Result<bool, CausalityError> {
    decode(log(obs)).map(|b| !b)
}

fn fn_contextual(obs: NumericalValue, ctx: &'static BaseContext) -> Result<bool, CausalityError> {
    let k = log(obs);
    decode(k + ctx.id() as i64)
}

pub type Graph = CausaloidGraph<BaseCausaloid<'static>>;

pub struct C01 {
    pub g: Graph,
    ctxs: HashMap<u64, &'static BaseContext>,
}

impl Default for C01 {
    fn default() -> Self {
        C01 { g: CausaloidGraph::new_with_capacity(4), ctxs: HashMap::new() }
    }
}

pub fn parse_data(s: &str) -> Vec<f64> {
    if s == "-" {
        vec![]
    } else {
        s.split(',').map(|x| p::<i64>(x) as f64).collect()
    }
}

pub fn parse_idx(s: &str) -> Option<HashMap<u64, u64>> {
    match s {
        "-" => None,
        "e" => Some(HashMap::new()),
        _ => Some(
            s.split(',')
                .map(|kv| {
                    let (k, v) = kv.split_once(':').expect("bad idx");
                    (p::<u64>(k), p::<u64>(v))
                })
                .collect(),
        ),
    }
}

impl C01 {
    fn mk(&mut self, id: u64, f: &str) -> BaseCausaloid<'static> {
        match f {
            "p" => Causaloid::new(id, fn_plain, "plain"),
            "i" => Causaloid::new(id, fn_inverted, "inverted"),
            _ => {
                let m: u64 = p(&f[1..]);
                let ctx: &'static BaseContext =
                    self.ctxs.entry(m).or_insert_with(|| Box::leak(Box::new(BaseContext::with_capacity(m, "marker", 1))));
                Causaloid::new_with_context(id, fn_contextual, Some(ctx), "contextual")
            }
        }
    }

    pub fn flags(&self) -> String {
        let n = self.g.size();
        let s: String =
            (0..n).map(|i| match self.g.get_causaloid(i) { Some(c) => if c.is_active() { '1' } else { '0' }, None => 'x' }).collect();
        if s.is_empty() { "-".into() } else { s }
    }

    /// runs a reasoning call, catching a panic, and reports result, flags and evaluation log
    pub fn observe<F: FnOnce(&Graph) -> Result<bool, CausalityGraphError>>(&self, f: F) -> String {
        LOG.with(|l| l.borrow_mut().clear());
        let r = match catch_unwind(AssertUnwindSafe(|| f(&self.g))) {
            Ok(Ok(true)) => "t",
            Ok(Ok(false)) => "f",
            Ok(Err(_)) => "err",
            Err(_) => "panic",
        };
        let lg = LOG.with(|l| l.borrow().iter().map(|k| k.to_string()).collect::<Vec<_>>().join(","));
        format!("{};{};{}", r, self.flags(), if lg.is_empty() { "-".to_string() } else { lg })
    }
}

impl Interp for C01 {
    fn case(&mut self, _a: &[&str]) -> String {
        let ctxs = std::mem::take(&mut self.ctxs);
        *self = C01::default();
        self.ctxs = ctxs;
        "ok".into()
    }

    fn op(&mut self, op: &str, a: &[&str]) -> String {
        match op {
            "add" => {
                let c = self.mk(p(a[0]), a[1]);
                self.g.add_causaloid(c).to_string()
            }
            "root" => {
                let c = self.mk(p(a[0]), a[1]);
                self.g.add_root_causaloid(c).to_string()
            }
            "edge" => match self.g.add_edge(p(a[0]), p(a[1])) {
                Ok(()) => "ok".into(),
                Err(_) => "err".into(),
            },
            "wedge" => match self.g.add_edg_with_weight(p(a[0]), p(a[1]), p(a[2])) {
                Ok(()) => "ok".into(),
                Err(_) => "err".into(),
            },
            "info" => format!(
                "{},{},{}",
                self.g.size(),
                match self.g.get_last_index() { Ok(i) => i.to_string(), Err(_) => "e".into() },
                match self.g.get_root_index() { Some(i) => i.to_string(), None => "-".into() }
            ),
            "all" => {
                let (d, ix) = (parse_data(a[0]), parse_idx(a[1]));
                self.observe(|g| g.reason_all_causes(&d, ix.as_ref()))
            }
            "sub" => {
                let (s, d, ix) = (p::<usize>(a[0]), parse_data(a[1]), parse_idx(a[2]));
                self.observe(|g| g.reason_subgraph_from_cause(s, &d, ix.as_ref()))
            }
            "single" => {
                let (i, d) = (p::<usize>(a[0]), parse_data(a[1]));
                self.observe(|g| g.reason_single_cause(i, &d))
            }
            _ => "bad-op".into(),
        }
    }
}
