//! C12: the same items in `[T]`, `Vec`, `VecDeque`, `BTreeMap`, `HashMap` (+ a rebuilt twin `Vec`), every reasoning
//! trait method on each; and a `CausaloidGraph` vs. its `clone()` vs. a rebuilt twin.
//!
//! `case <id> assume <kinds> <keys>` | `infer <keys> <o/t/e/g,…>` | `observe <keys> <o/e,…>` |
//! `cause <keys> <s<kind>|c<kind>.<kind>…,…>` | `graph <kinds> <a-b,…|->`.
//! Every answer lists the containers as `arr:…|vec:…|deq:…|bt:…|hm:…|tw:…`; each dump is computed twice and must be
//! identical (`unstable(..)` otherwise).
use crate::c18::{b, dump_assumable, dump_inferable, dump_observable, fl, hx, ids, AFNS};
use crate::{p, Interp};
use deep_causality::prelude::*;
use std::collections::{BTreeMap, HashMap, VecDeque};
use std::panic::{catch_unwind, AssertUnwindSafe};

/// the six holders of one family of items
pub struct Six<T> {
    arr: Box<[T]>,
    vec: Vec<T>,
    deq: VecDeque<T>,
    bt: BTreeMap<u64, T>,
    hm: HashMap<u64, T>,
    tw: Vec<T>,
}

impl<T> Six<T> {
    fn build(n: usize, keys: &[u64], mk: &dyn Fn(usize) -> T) -> Self {
        let arr: Box<[T]> = (0..n).map(mk).collect::<Vec<_>>().into_boxed_slice();
        let vec: Vec<T> = (0..n).map(mk).collect();
        // a deque whose ring buffer is wrapped: second half pushed to the back, first half to the front
        let mut deq: VecDeque<T> = VecDeque::with_capacity(n + 3);
        let h = n / 2;
        for i in h..n {
            deq.push_back(mk(i));
        }
        for i in (0..h).rev() {
            deq.push_front(mk(i));
        }
        let mut bt = BTreeMap::new();
        let mut hm = HashMap::new();
        for i in 0..n {
            bt.insert(keys[i], mk(i));
        }
        for i in (0..n).rev() {
            hm.insert(keys[i], mk(i));
        }
        let tw: Vec<T> = (0..n).map(mk).collect();
        Six { arr, vec, deq, bt, hm, tw }
    }
}

// ---- fixed-size arrays ------------------------------------------------------------------------------------------
// `[T; N]` has no impl of its own: a method call on an array reaches the `[T]` extension through unsizing. An impl added for
// `[T; N]` (in any file) would be picked first by method resolution. `FixC` / `FixA` forward EVERY trait method to the array
// with method-call syntax, so whatever a user's `array.method()` resolves to is what the generic dump functions exercise.
pub struct FixC<'a, const N: usize>(&'a [Cz; N]);
impl<'a, const N: usize> CausableReasoning<Cz> for FixC<'a, N> {
    fn len(&self) -> usize {
        self.0.len()
    }
    fn is_empty(&self) -> bool {
        self.0.is_empty()
    }
    fn to_vec(&self) -> Vec<Cz> {
        self.0.to_vec()
    }
    fn get_all_items(&self) -> Vec<&Cz> {
        self.0.get_all_items()
    }
    fn get_all_causes_true(&self) -> bool {
        self.0.get_all_causes_true()
    }
    fn get_all_active_causes(&self) -> Vec<&Cz> {
        self.0.get_all_active_causes()
    }
    fn get_all_inactive_causes(&self) -> Vec<&Cz> {
        self.0.get_all_inactive_causes()
    }
    fn number_active(&self) -> NumericalValue {
        self.0.number_active()
    }
    fn percent_active(&self) -> NumericalValue {
        self.0.percent_active()
    }
    fn reason_all_causes(&self, data: &[NumericalValue]) -> Result<bool, CausalityError> {
        self.0.reason_all_causes(data)
    }
    fn explain(&self) -> String {
        self.0.explain()
    }
}
pub struct FixA<'a, T: Assumable, const N: usize>(&'a [T; N]);
impl<'a, T: Assumable, const N: usize> AssumableReasoning<T> for FixA<'a, T, N> {
    fn len(&self) -> usize {
        self.0.len()
    }
    fn is_empty(&self) -> bool {
        self.0.is_empty()
    }
    fn get_all_items(&self) -> Vec<&T> {
        self.0.get_all_items()
    }
    fn all_assumptions_tested(&self) -> bool {
        self.0.all_assumptions_tested()
    }
    fn all_assumptions_valid(&self) -> bool {
        self.0.all_assumptions_valid()
    }
    fn number_assumption_valid(&self) -> NumericalValue {
        self.0.number_assumption_valid()
    }
    fn percent_assumption_valid(&self) -> NumericalValue {
        self.0.percent_assumption_valid()
    }
    fn verify_all_assumptions(&self, data: &[NumericalValue]) {
        self.0.verify_all_assumptions(data)
    }
    fn get_all_invalid_assumptions(&self) -> Vec<&T> {
        self.0.get_all_invalid_assumptions()
    }
    fn get_all_valid_assumptions(&self) -> Vec<&T> {
        self.0.get_all_valid_assumptions()
    }
    fn get_all_tested_assumptions(&self) -> Vec<&T> {
        self.0.get_all_tested_assumptions()
    }
    fn get_all_untested_assumptions(&self) -> Vec<&T> {
        self.0.get_all_untested_assumptions()
    }
}
pub struct FixI<'a, T: Inferable, const N: usize>(&'a [T; N]);
impl<'a, T: Inferable, const N: usize> InferableReasoning<T> for FixI<'a, T, N> {
    fn len(&self) -> usize {
        self.0.len()
    }
    fn is_empty(&self) -> bool {
        self.0.is_empty()
    }
    fn get_all_items(&self) -> Vec<&T> {
        self.0.get_all_items()
    }
    fn get_all_inferable(&self) -> Vec<&T> {
        self.0.get_all_inferable()
    }
    fn get_all_inverse_inferable(&self) -> Vec<&T> {
        self.0.get_all_inverse_inferable()
    }
    fn get_all_non_inferable(&self) -> Vec<&T> {
        self.0.get_all_non_inferable()
    }
    fn all_inferable(&self) -> bool {
        self.0.all_inferable()
    }
    fn all_inverse_inferable(&self) -> bool {
        self.0.all_inverse_inferable()
    }
    fn all_non_inferable(&self) -> bool {
        self.0.all_non_inferable()
    }
    fn conjoint_delta(&self) -> NumericalValue {
        self.0.conjoint_delta()
    }
    fn number_inferable(&self) -> NumericalValue {
        self.0.number_inferable()
    }
    fn number_inverse_inferable(&self) -> NumericalValue {
        self.0.number_inverse_inferable()
    }
    fn number_non_inferable(&self) -> NumericalValue {
        self.0.number_non_inferable()
    }
    fn percent_inferable(&self) -> NumericalValue {
        self.0.percent_inferable()
    }
    fn percent_inverse_inferable(&self) -> NumericalValue {
        self.0.percent_inverse_inferable()
    }
    fn percent_non_inferable(&self) -> NumericalValue {
        self.0.percent_non_inferable()
    }
}
pub struct FixO<'a, T: Observable, const N: usize>(&'a [T; N]);
impl<'a, T: Observable, const N: usize> ObservableReasoning<T> for FixO<'a, T, N> {
    fn len(&self) -> usize {
        self.0.len()
    }
    fn is_empty(&self) -> bool {
        self.0.is_empty()
    }
    fn get_all_items(&self) -> Vec<&T> {
        self.0.get_all_items()
    }
    fn number_observation(&self, target_threshold: NumericalValue, target_effect: NumericalValue) -> NumericalValue {
        self.0.number_observation(target_threshold, target_effect)
    }
    fn number_non_observation(&self, target_threshold: NumericalValue, target_effect: NumericalValue) -> NumericalValue {
        self.0.number_non_observation(target_threshold, target_effect)
    }
    fn percent_observation(&self, target_threshold: NumericalValue, target_effect: NumericalValue) -> NumericalValue {
        self.0.percent_observation(target_threshold, target_effect)
    }
    fn percent_non_observation(&self, target_threshold: NumericalValue, target_effect: NumericalValue) -> NumericalValue {
        self.0.percent_non_observation(target_threshold, target_effect)
    }
}
/// runs `$f` on the `arr` holder: as a fixed-size array `[T; N]` when it has 2, 4, 6 or 8 members, as the slice otherwise
macro_rules! on_arr {
    ($fix:ident, $sl:expr, $f:expr) => {{
        let sl = $sl;
        match sl.len() {
            2 => $f(&$fix(<&[_; 2]>::try_from(sl).unwrap())),
            4 => $f(&$fix(<&[_; 4]>::try_from(sl).unwrap())),
            6 => $f(&$fix(<&[_; 6]>::try_from(sl).unwrap())),
            8 => $f(&$fix(<&[_; 8]>::try_from(sl).unwrap())),
            _ => $f(sl),
        }
    }};
}

fn twice(f: &dyn Fn() -> String) -> String {
    let a = f();
    let b = f();
    if a == b {
        a
    } else {
        format!("unstable({a})({b})")
    }
}

macro_rules! each {
    ($six:expr, $f:expr) => {{
        let s = &$six;
        format!(
            "arr:{}|vec:{}|deq:{}|bt:{}|hm:{}|tw:{}",
            $f(&*s.arr),
            $f(&s.vec),
            $f(&s.deq),
            $f(&s.bt),
            $f(&s.hm),
            $f(&s.tw)
        )
    }};
}

macro_rules! each_fix {
    ($fix:ident, $six:expr, $f:expr) => {{
        let s = &$six;
        format!(
            "arr:{}|vec:{}|deq:{}|bt:{}|hm:{}|tw:{}",
            on_arr!($fix, &*s.arr, $f),
            $f(&s.vec),
            $f(&s.deq),
            $f(&s.bt),
            $f(&s.hm),
            $f(&s.tw)
        )
    }};
}

// ---- causaloids -------------------------------------------------------------------------------------------------
fn decode(kind: u8, obs: f64) -> Result<bool, CausalityError> {
    let r = (obs as i64).rem_euclid(3);
    let fail = || Err(CausalityError("causal function failed".into()));
    match kind {
        0 => match r {
            1 => Ok(true),
            0 => Ok(false),
            _ => fail(),
        },
        1 => match r {
            0 => Ok(true),
            1 => Ok(false),
            _ => fail(),
        },
        2 => Ok(r != 2),
        _ => Ok(true),
    }
}
fn cf0(o: NumericalValue) -> Result<bool, CausalityError> {
    decode(0, o)
}
fn cf1(o: NumericalValue) -> Result<bool, CausalityError> {
    decode(1, o)
}
fn cf2(o: NumericalValue) -> Result<bool, CausalityError> {
    decode(2, o)
}
fn cf3(o: NumericalValue) -> Result<bool, CausalityError> {
    decode(3, o)
}
const CFNS: [CausalFn; 4] = [cf0, cf1, cf2, cf3];

type Cz = BaseCausaloid<'static>;

fn mk_cause(i: usize, desc: &str) -> Cz {
    if let Some(k) = desc.strip_prefix('s') {
        Causaloid::new(i as u64, CFNS[p::<usize>(k)], "verif")
    } else {
        let inner: Vec<Cz> = desc[1..]
            .split('.')
            .filter(|x| !x.is_empty())
            .enumerate()
            .map(|(j, k)| Causaloid::new((100 * (i + 1) + j) as u64, CFNS[p::<usize>(k)], "verif"))
            .collect();
        let inner: &'static Vec<Cz> = Box::leak(Box::new(inner));
        Causaloid::from_causal_collection(i as u64, inner, "verif coll")
    }
}

fn explain_ids(s: &str) -> String {
    let v: Vec<&str> = s
        .split("Causaloid: ")
        .skip(1)
        .map(|t| t.split_whitespace().next().unwrap_or("?"))
        .collect();
    if v.is_empty() {
        "-".into()
    } else {
        v.join(",")
    }
}

fn dump_causable<C: CausableReasoning<Cz> + ?Sized>(c: &C) -> String {
    let items = c.get_all_items();
    let act: String = if items.is_empty() { "-".into() } else { items.iter().map(|x| b(x.is_active())).collect() };
    let ex = match catch_unwind(AssertUnwindSafe(|| c.explain())) {
        Ok(s) => explain_ids(&s),
        Err(_) => "panic".into(),
    };
    let tv = c.to_vec();
    format!(
        "ord={};act={};allt={};aids={};iids={};na={};pa={};tv={};ex={};len={};e={}",
        ids(c.get_all_items()),
        act,
        b(c.get_all_causes_true()),
        ids(c.get_all_active_causes()),
        ids(c.get_all_inactive_causes()),
        hx(c.number_active()),
        hx(c.percent_active()),
        ids(tv.iter().collect()),
        ex,
        c.len(),
        b(c.is_empty()),
    )
}

fn res_str<E>(r: std::thread::Result<Result<bool, E>>) -> String {
    match r {
        Ok(Ok(v)) => format!("ok{}", b(v)),
        Ok(Err(_)) => "err".into(),
        Err(_) => "panic".into(),
    }
}

fn reason_causable<C: CausableReasoning<Cz> + ?Sized>(c: &C, data: &[f64]) -> String {
    let r1 = res_str(catch_unwind(AssertUnwindSafe(|| c.reason_all_causes(data))));
    let d1 = dump_causable(c);
    let r2 = res_str(catch_unwind(AssertUnwindSafe(|| c.reason_all_causes(data))));
    let d2 = dump_causable(c);
    if d1 == d2 {
        format!("{r1}/{r2}/{d1}")
    } else {
        format!("{r1}/{r2}/unstable({d1})({d2})")
    }
}

fn verify_all<T: Assumable, C: AssumableReasoning<T> + ?Sized>(c: &C, d: &[f64]) {
    c.verify_all_assumptions(d)
}

fn data_of(s: &str) -> Vec<f64> {
    if s == "-" {
        vec![]
    } else {
        s.split(',').map(|x| p::<i64>(x) as f64).collect()
    }
}

// ---- graphs -----------------------------------------------------------------------------------------------------
type G = CausaloidGraph<Cz>;

fn build_graph(kinds: &[usize], edges: &[(usize, usize, Option<u64>)]) -> G {
    let mut g: G = CausaloidGraph::new_with_capacity(kinds.len().max(1) + 2);
    for (i, k) in kinds.iter().enumerate() {
        let c = Causaloid::new(i as u64, CFNS[*k], "verif node");
        if i == 0 {
            g.add_root_causaloid(c);
        } else {
            g.add_causaloid(c);
        }
    }
    for (a, bb, w) in edges {
        let _ = match w {
            None => g.add_edge(*a, *bb),
            Some(w) => g.add_edg_with_weight(*a, *bb, *w),
        };
    }
    g
}

fn graph_agg(g: &G) -> String {
    format!("{},{},{}", hx(g.number_active()), hx(g.percent_active()), b(g.all_active()))
}

pub enum Fam {
    None,
    Assume(Six<Assumption>),
    Infer(Six<Inference>),
    Observe(Six<Observation>),
    Cause(Six<Cz>),
    Graph(G, G, G),
}

impl Default for Fam {
    fn default() -> Self {
        Fam::None
    }
}

#[derive(Default)]
pub struct C12 {
    fam: Fam,
}

fn keys_of(s: &str) -> Vec<u64> {
    if s == "-" {
        vec![]
    } else {
        s.split(',').map(p::<u64>).collect()
    }
}
fn list(s: &str) -> Vec<String> {
    if s == "-" {
        vec![]
    } else {
        s.split(',').map(|x| x.to_string()).collect()
    }
}

impl Interp for C12 {
    fn case(&mut self, a: &[&str]) -> String {
        self.fam = match a[1] {
            "assume" => {
                let kinds = list(a[2]);
                let keys = keys_of(a[3]);
                Fam::Assume(Six::build(kinds.len(), &keys, &|i| {
                    Assumption::new(i as u64, format!("a{i}"), AFNS[p::<usize>(&kinds[i])])
                }))
            }
            "infer" => {
                let keys = keys_of(a[2]);
                let items = list(a[3]);
                Fam::Infer(Six::build(items.len(), &keys, &|i| {
                    let f: Vec<&str> = items[i].split('/').collect();
                    Inference::new(i as u64, format!("q{i}"), fl(f[0]), fl(f[1]), fl(f[2]), fl(f[3]))
                }))
            }
            "observe" => {
                let keys = keys_of(a[2]);
                let items = list(a[3]);
                Fam::Observe(Six::build(items.len(), &keys, &|i| {
                    let f: Vec<&str> = items[i].split('/').collect();
                    Observation::new(i as u64, fl(f[0]), fl(f[1]))
                }))
            }
            "cause" => {
                let keys = keys_of(a[2]);
                let items = list(a[3]);
                Fam::Cause(Six::build(items.len(), &keys, &|i| mk_cause(i, &items[i])))
            }
            "graph" => {
                let kinds: Vec<usize> = list(a[2]).iter().map(|k| p::<usize>(k)).collect();
                // `a-b` (add_edge) or `a-b:w` (add_edg_with_weight)
                let edges: Vec<(usize, usize, Option<u64>)> = list(a[3])
                    .iter()
                    .map(|e| {
                        let (x, rest) = e.split_once('-').expect("edge");
                        match rest.split_once(':') {
                            Some((y, w)) => (p::<usize>(x), p::<usize>(y), Some(p::<u64>(w))),
                            None => (p::<usize>(x), p::<usize>(rest), None),
                        }
                    })
                    .collect();
                let g = build_graph(&kinds, &edges);
                let c = g.clone();
                let t = build_graph(&kinds, &edges);
                Fam::Graph(g, c, t)
            }
            _ => Fam::None,
        };
        "ok".into()
    }

    fn op(&mut self, op: &str, a: &[&str]) -> String {
        match (&self.fam, op) {
            (Fam::Assume(s), "q") => each_fix!(FixA, s, |c| twice(&|| dump_assumable(c))),
            (Fam::Assume(s), "verify") => {
                let i: usize = p(a[0]);
                let d = [p::<i64>(a[1]) as f64];
                // member i is addressed by position in the sequences and by its id in the maps
                let r: String = [
                    s.arr[i].verify_assumption(&d),
                    s.vec[i].verify_assumption(&d),
                    s.deq[i].verify_assumption(&d),
                    s.bt.values().find(|x| x.id() == i as u64).unwrap().verify_assumption(&d),
                    s.hm.values().find(|x| x.id() == i as u64).unwrap().verify_assumption(&d),
                    s.tw[i].verify_assumption(&d),
                ]
                .iter()
                .map(|x| b(*x))
                .collect();
                format!("r={r}|{}", each_fix!(FixA, s, |c| twice(&|| dump_assumable(c))))
            }
            (Fam::Assume(s), "verifyall") => {
                let d = [p::<i64>(a[0]) as f64];
                on_arr!(FixA, &*s.arr, |c| verify_all(c, &d));
                s.vec.verify_all_assumptions(&d);
                s.deq.verify_all_assumptions(&d);
                s.bt.verify_all_assumptions(&d);
                s.hm.verify_all_assumptions(&d);
                s.tw.verify_all_assumptions(&d);
                each_fix!(FixA, s, |c| twice(&|| dump_assumable(c)))
            }
            (Fam::Infer(s), "q") => each_fix!(FixI, s, |c| twice(&|| dump_inferable(c))),
            (Fam::Observe(s), "q") => {
                let (t, e) = (fl(a[0]), fl(a[1]));
                each_fix!(FixO, s, |c| twice(&|| dump_observable(c, t, e)))
            }
            (Fam::Cause(s), "q") => each_fix!(FixC, s, |c| twice(&|| dump_causable(c))),
            (Fam::Cause(s), "reason") => {
                let d = data_of(a[0]);
                each_fix!(FixC, s, |c| reason_causable(c, &d))
            }
            (Fam::Graph(g, c, t), _) => {
                let run = |x: &G| -> String {
                    match op {
                        "gall" => {
                            let d = data_of(a[0]);
                            res_str(catch_unwind(AssertUnwindSafe(|| x.reason_all_causes(&d, None))))
                        }
                        "gsub" => {
                            let d = data_of(a[1]);
                            res_str(catch_unwind(AssertUnwindSafe(|| x.reason_subgraph_from_cause(p(a[0]), &d, None))))
                        }
                        "gone" => {
                            let d = data_of(a[1]);
                            res_str(catch_unwind(AssertUnwindSafe(|| x.reason_single_cause(p(a[0]), &d))))
                        }
                        "gpath" => {
                            let d = data_of(a[2]);
                            res_str(catch_unwind(AssertUnwindSafe(|| {
                                x.reason_shortest_path_between_causes(p(a[0]), p(a[1]), &d, None)
                            })))
                        }
                        "gq" => "-".into(),
                        _ => "bad-op".into(),
                    }
                };
                let (r1, r2, rc, rt) = (run(g), run(g), run(c), run(t));
                format!("g={r1};g2={r2};c={rc};t={rt};ag={};ac={};at={}", graph_agg(g), graph_agg(c), graph_agg(t))
            }
            _ => "bad-op".into(),
        }
    }
}
