//! C16: the real AdjustableData / AdjustableTime / AdjustableSpace / AdjustableSpaceTime over i64 and real
//! ArrayGrids. `case <id> <kind> <gridkind> <coords>`; ops `set <x,y,z,t> <v>` (fills the grid through
//! `ArrayGrid::set` with a point of the grid's own dimension), `grid <x,y,z,t=v;…>` (fresh grid, then those
//! stores), `node <coords>` (fresh node), `update`, `adjust` (answer: `ok:`/`err:` + the
//! coordinates read back through the getters, canonical order data | time | x,y,z | x,y,z,t).
//!
//! Point -> cell convention of the storages (checked against storage_array_*.rs; the model side knows only
//! points): 1D `[T;H]`: `[p.x]`; 2D `[[T;W];H]`: `[p.y][p.x]`; 3D `[[[T;W];H];D]`: `[p.y][p.x][p.z]`;
//! 4D `[[[[T;W];H];D];C]`: `[p.y][p.x][p.z][p.t]`. The points the nodes read — new3d(0,0,i), new4d(0,0,0,i) —
//! therefore run along the innermost axis `W`, so W >= 4 is needed; coordinates a storage does not look at are
//! ignored by it (a 1D grid answers every point with cell `p.x`).
use crate::{p, Interp};
use dcl_data_structures::prelude::{ArrayGrid, ArrayType, PointIndex};
use deep_causality::prelude::{
    Adjustable, AdjustableData, AdjustableSpace, AdjustableSpaceTime, AdjustableTime, TimeScale,
};

const W: usize = 4;
const H: usize = 3;
const D: usize = 2;
const C: usize = 2;
macro_rules! c16_impl {
    ($m:ident, $t:ty) => {
        pub mod $m {
            use super::*;
            type G = ArrayGrid<$t, W, H, D, C>;

            enum Node {
                Data(AdjustableData<$t>),
                Time(AdjustableTime<$t>),
                Space(AdjustableSpace<$t>),
                SpaceTime(AdjustableSpaceTime<$t>),
            }

            pub struct Impl {
                node: Option<Node>,
                grid: Option<G>,
                dim: usize,
            }

            impl Default for Impl {
                fn default() -> Self {
                    Impl { node: None, grid: None, dim: 0 }
                }
            }

            fn ints(s: &str) -> Vec<$t> {
                s.split(',').map(p::<$t>).collect()
            }

            impl Impl {
                fn coords(&self) -> String {
                    let v: Vec<$t> = match self.node.as_ref().unwrap() {
                        Node::Data(n) => vec![*n.data()],
                        Node::Time(n) => vec![*n.time_unit()],
                        Node::Space(n) => vec![*n.x(), *n.y(), *n.z()],
                        Node::SpaceTime(n) => vec![*n.x(), *n.y(), *n.z(), *n.time_unit()],
                    };
                    v.iter().map(|x| x.to_string()).collect::<Vec<_>>().join(",")
                }
            }

            impl Interp for Impl {
                fn case(&mut self, a: &[&str]) -> String {
                    // case <n> <kind> <gridkind> <coords>
                    let c = ints(a[3]);
                    self.node = Some(match a[1] {
                        "data" => Node::Data(AdjustableData::new(7, c[0])),
                        "time" => Node::Time(AdjustableTime::new(7, TimeScale::Second, c[0])),
                        "space" => Node::Space(AdjustableSpace::new(7, c[0], c[1], c[2])),
                        "spacetime" => Node::SpaceTime(AdjustableSpaceTime::new(7, TimeScale::Second, c[3], c[0], c[1], c[2])),
                        _ => return "bad-kind".into(),
                    });
                    let (ty, dim) = match a[2] {
                        "1d" => (ArrayType::Array1D, 1),
                        "2d" => (ArrayType::Array2D, 2),
                        "3d" => (ArrayType::Array3D, 3),
                        "4d" => (ArrayType::Array4D, 4),
                        _ => return "bad-grid".into(),
                    };
                    self.grid = Some(G::new(ty));
                    self.dim = dim;
                    format!("ok:{}", self.coords())
                }

                fn op(&mut self, op: &str, a: &[&str]) -> String {
                    match op {
                        "node" => {
                            // fresh node of the case's kind with the given coordinates
                            let c = ints(a[0]);
                            let n = match self.node.as_ref().unwrap() {
                                Node::Data(_) => Node::Data(AdjustableData::new(7, c[0])),
                                Node::Time(_) => Node::Time(AdjustableTime::new(7, TimeScale::Second, c[0])),
                                Node::Space(_) => Node::Space(AdjustableSpace::new(7, c[0], c[1], c[2])),
                                Node::SpaceTime(_) => {
                                    Node::SpaceTime(AdjustableSpaceTime::new(7, TimeScale::Second, c[3], c[0], c[1], c[2]))
                                }
                            };
                            self.node = Some(n);
                            format!("ok:{}", self.coords())
                        }
                        "grid" => {
                            // fresh grid of the case's kind, then `x,y,z,t=v;…` stored through ArrayGrid::set
                            let ty = match self.dim {
                                1 => ArrayType::Array1D,
                                2 => ArrayType::Array2D,
                                3 => ArrayType::Array3D,
                                _ => ArrayType::Array4D,
                            };
                            self.grid = Some(G::new(ty));
                            if a[0] != "-" {
                                for item in a[0].split(';') {
                                    let (pt, v) = item.split_once('=').unwrap();
                                    self.op("set", &[pt, v]);
                                }
                            }
                            "ok".into()
                        }
                        "set" => {
                            let c: Vec<usize> = a[0].split(',').map(p::<usize>).collect();
                            let pt = match self.dim {
                                1 => PointIndex::new1d(c[0]),
                                2 => PointIndex::new2d(c[0], c[1]),
                                3 => PointIndex::new3d(c[0], c[1], c[2]),
                                _ => PointIndex::new4d(c[0], c[1], c[2], c[3]),
                            };
                            self.grid.as_ref().unwrap().set(pt, p::<$t>(a[1]));
                            "ok".into()
                        }
                        "update" | "adjust" => {
                            let g = self.grid.as_ref().unwrap();
                            let upd_ = op == "update";
                            // through the trait (a generic caller): an inherent method of the same name must not stand in for it
                        fn upd<A: Adjustable<$t>>(a: &mut A, g: &G) -> bool {
                            a.update(g).is_ok()
                        }
                        fn adj<A: Adjustable<$t>>(a: &mut A, g: &G) -> bool {
                            a.adjust(g).is_ok()
                        }
                        let ok = match self.node.as_mut().unwrap() {
                            Node::Data(n) => if upd_ { upd(n, g) } else { adj(n, g) },
                            Node::Time(n) => if upd_ { upd(n, g) } else { adj(n, g) },
                            Node::Space(n) => if upd_ { upd(n, g) } else { adj(n, g) },
                            Node::SpaceTime(n) => if upd_ { upd(n, g) } else { adj(n, g) },
                        };
                            format!("{}:{}", if ok { "ok" } else { "err" }, self.coords())
                        }
                        _ => "bad-op".into(),
                    }
                }
            }
        }
    };
}
c16_impl!(signed, i64);
c16_impl!(unsigned, u64);

/// `case <id> <kind> …` runs on `…<i64>`, `case <id> u<kind> …` (udata, utime, uspace, uspacetime) on `…<u64>`
#[derive(Default)]
pub struct C16 {
    s: signed::Impl,
    u: unsigned::Impl,
    uns: bool,
}

impl Interp for C16 {
    fn case(&mut self, a: &[&str]) -> String {
        self.uns = a[1].starts_with('u');
        if self.uns {
            let mut b: Vec<&str> = a.to_vec();
            b[1] = &a[1][1..];
            self.u.case(&b)
        } else {
            self.s.case(a)
        }
    }
    fn op(&mut self, op: &str, a: &[&str]) -> String {
        if self.uns {
            self.u.op(op, a)
        } else {
            self.s.op(op, a)
        }
    }
}
