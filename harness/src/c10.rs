//! C10: `reason_shortest_path_between_causes` on the graphs of `c01.rs` (same ops), plus
//!       sp <start> <stop> <data> <idx>   -> <result>;<flags>;<log>;<path of get_shortest_path | ->
//! The path is reported so that the driver can validate the tie-break (a real start→stop path of minimum weight) and
//! check that exactly its prefix up to the first non-true causaloid was evaluated.
use crate::c01::{parse_data, parse_idx, C01};
use crate::{p, Interp};
use deep_causality::prelude::*;
use std::panic::{catch_unwind, AssertUnwindSafe};

#[derive(Default)]
pub struct C10 {
    inner: C01,
}

impl Interp for C10 {
    fn case(&mut self, a: &[&str]) -> String {
        self.inner.case(a)
    }

    fn op(&mut self, op: &str, a: &[&str]) -> String {
        match op {
            "sp" => {
                let (s, t, d, ix) = (p::<usize>(a[0]), p::<usize>(a[1]), parse_data(a[2]), parse_idx(a[3]));
                let r = self.inner.observe(|g| g.reason_shortest_path_between_causes(s, t, &d, ix.as_ref()));
                let path = match catch_unwind(AssertUnwindSafe(|| self.inner.g.get_shortest_path(s, t))) {
                    Ok(Ok(pth)) => {
                        if pth.is_empty() {
                            "empty".to_string()
                        } else {
                            pth.iter().map(|x| x.to_string()).collect::<Vec<_>>().join(",")
                        }
                    }
                    Ok(Err(_)) => "-".into(),
                    Err(_) => "panic".into(),
                };
                format!("{r};{path}")
            }
            _ => self.inner.op(op, a),
        }
    }
}
