//! Deterministic scheduler behind the `verif_sync` facade (DESIGN.md §8.1).
//!
//! Managed threads are real OS threads; exactly one holds the *baton*. Every facade operation is a
//! scheduling point: the caller records its pending event, the strategy picks the next thread among the
//! enabled ones, the event's effect on the scheduler state (mutex ownership, parking) is applied when it is
//! granted, and a trace line is appended. A schedule is the list of granted thread ids and replays exactly.
use dcl_data_structures::ring_buffer::verif_sync::{Ev, Ordering, SyncHook};
use std::cell::RefCell;
use std::collections::BTreeMap;
use std::sync::{Condvar, Mutex};

#[derive(Clone, Debug, PartialEq)]
pub enum Pending {
    Start,
    /// a logged non-synchronising action that is nevertheless a scheduling point (slot accesses)
    Plain(String),
    Sync(Ev),
    Relock { mutex: usize },
    Join(Vec<String>),
    Parked { cv: usize, mutex: usize },
    Running,
    Finished,
}

pub enum Strategy {
    /// uniform among enabled, but keep the current thread with probability `stick`/256
    Random { state: u64, stick: u64 },
    /// forced prefix (thread ids), afterwards `fallback`
    Replay { list: Vec<String>, pos: usize, fallback: Box<Strategy> },
    /// lowest thread id first (used below a DFS prefix)
    First,
    /// non-preemptive round robin with forced choices (bounded-preemption search): keep the running thread while it is
    /// enabled and not *yielding* (a thread that performed `yield_after` scheduling points in a row that were all loads is
    /// taken to be in a failed wait iteration), otherwise the next enabled thread in cyclic tid order; at step `s` of
    /// `forced` the given thread is taken instead
    Np { forced: Vec<(u64, String)>, yield_after: u32, loads: BTreeMap<String, u32>, run_len: u32 },
    /// maximal-lag schedule: the threads in `lazy` run only while every other enabled thread is *idle* (has performed
    /// `limit` scheduling points in a row without any thread making progress — progress = a store / read-modify-write on an
    /// atomic or a slot access; lock, notify and loads are not); among the non-idle threads non-preemptive round robin.
    /// A lazy handler thus falls as far behind as the protocol lets it; a lazy producer publishes only when all else waits.
    Lazy { lazy: Vec<String>, limit: u32, idle: BTreeMap<String, u32> },
}

fn splitmix(s: &mut u64) -> u64 {
    *s = s.wrapping_add(0x9E3779B97F4A7C15);
    let mut z = *s;
    z = (z ^ (z >> 30)).wrapping_mul(0xBF58476D1CE4E5B9);
    z = (z ^ (z >> 27)).wrapping_mul(0x94D049BB133111EB);
    z ^ (z >> 31)
}

impl Strategy {
    fn pick(&mut self, enabled: &[String], current: &Option<String>, step: u64) -> Option<String> {
        match self {
            Strategy::First => enabled.first().cloned(),
            Strategy::Np { forced, yield_after, loads, run_len } => {
                if let Some((_, t)) = forced.iter().find(|(s, _)| *s == step) {
                    *run_len = 0;
                    return if enabled.contains(t) { Some(t.clone()) } else { None };
                }
                if let Some(c) = current {
                    // fairness: a failed wait iteration (loads only) or a long uninterrupted run (a wait loop that also
                    // signals, like `drain` under the blocking strategy) hands over to the next thread
                    let yielding = loads.get(c).copied().unwrap_or(0) >= *yield_after || *run_len >= 4 * *yield_after + 8;
                    if enabled.contains(c) && !(yielding && enabled.len() > 1) {
                        *run_len += 1;
                        return Some(c.clone());
                    }
                    *run_len = 0;
                    if yielding {
                        loads.insert(c.clone(), 0);
                    }
                    // next enabled thread after `c` in cyclic order
                    if let Some(n) = enabled.iter().find(|t| t.as_str() > c.as_str()) {
                        return Some(n.clone());
                    }
                }
                enabled.first().cloned()
            }
            Strategy::Lazy { lazy, limit, idle } => {
                let is_idle = |t: &String| idle.get(t).copied().unwrap_or(0) >= *limit;
                let next_after = |set: &Vec<&String>| -> Option<String> {
                    if let Some(c) = current {
                        if set.iter().any(|t| *t == c) {
                            return Some(c.clone());
                        }
                        if let Some(n) = set.iter().find(|t| t.as_str() > c.as_str()) {
                            return Some((*n).clone());
                        }
                    }
                    set.first().map(|t| (*t).clone())
                };
                let eager: Vec<&String> = enabled.iter().filter(|t| !lazy.contains(t) && !is_idle(t)).collect();
                if let Some(t) = next_after(&eager) {
                    return Some(t);
                }
                let lz: Vec<&String> = enabled.iter().filter(|t| lazy.contains(t) && !is_idle(t)).collect();
                if let Some(t) = next_after(&lz) {
                    return Some(t);
                }
                // everybody idle: keep polling in cyclic order (ends by budget if nothing can move)
                if let Some(c) = current {
                    if let Some(n) = enabled.iter().find(|t| t.as_str() > c.as_str()) {
                        return Some(n.clone());
                    }
                }
                enabled.first().cloned()
            }
            Strategy::Random { state, stick } => {
                if let Some(c) = current {
                    if enabled.contains(c) && (splitmix(state) & 255) < *stick {
                        return Some(c.clone());
                    }
                }
                let i = (splitmix(state) % enabled.len() as u64) as usize;
                Some(enabled[i].clone())
            }
            Strategy::Replay { list, pos, fallback } => {
                if *pos < list.len() {
                    let t = list[*pos].clone();
                    *pos += 1;
                    if enabled.contains(&t) {
                        Some(t)
                    } else {
                        None // divergence
                    }
                } else {
                    fallback.pick(enabled, current, step)
                }
            }
        }
    }
}

pub struct Inner {
    pub threads: BTreeMap<String, Pending>,
    pub current: Option<String>,
    pub trace: Vec<Line>,
    pub last_line: BTreeMap<String, usize>,
    pub owner: BTreeMap<usize, String>,
    pub strategy: Strategy,
    pub steps: u64,
    pub budget: u64,
    pub status: Option<String>,
    pub log_enabled: bool,
    pub probe: Option<usize>,
    pub probing: bool,
}

pub struct Line {
    pub tid: String,
    pub text: String,
    pub en: String,
    pub obs: Option<u64>,
}

impl Line {
    pub fn render(&self) -> String {
        let o = match self.obs {
            Some(v) => v.to_string(),
            None => "-".into(),
        };
        if self.en.is_empty() {
            format!("{} {} => {}", self.tid, self.text, o)
        } else {
            format!("{} {} en={} => {}", self.tid, self.text, self.en, o)
        }
    }
}

pub struct Sched {
    pub m: Mutex<Inner>,
    pub cv: Condvar,
}

thread_local! {
    static TID: RefCell<Option<String>> = const { RefCell::new(None) };
}

pub fn my_tid() -> Option<String> {
    TID.with(|t| t.borrow().clone())
}

fn ord(o: Ordering) -> &'static str {
    match o {
        Ordering::Relaxed => "rlx",
        Ordering::Acquire => "acq",
        Ordering::Release => "rel",
        Ordering::AcqRel => "acqrel",
        Ordering::SeqCst => "sc",
        _ => "other",
    }
}

fn render(ev: &Ev) -> String {
    match *ev {
        Ev::Load { addr, ord: o } => format!("ld {addr} {}", ord(o)),
        Ev::Store { addr, val, ord: o } => format!("st {addr} {val} {}", ord(o)),
        Ev::Cas { addr, exp, new, ok, fail } => format!("cas {addr} {exp} {new} {} {}", ord(ok), ord(fail)),
        Ev::FetchAdd { addr, val, ord: o } => format!("fadd {addr} {val} {}", ord(o)),
        Ev::FetchOr { addr, val, ord: o } => format!("for {addr} {val} {}", ord(o)),
        Ev::FetchAnd { addr, val, ord: o } => format!("fand {addr} {val} {}", ord(o)),
        Ev::Rmw { addr, op, val, ord: o } => format!("rmw {addr} {op} {val} {}", ord(o)),
        Ev::LoadBool { addr, ord: o } => format!("ldb {addr} {}", ord(o)),
        Ev::StoreBool { addr, val, ord: o } => format!("stb {addr} {} {}", val as u8, ord(o)),
        Ev::Lock { addr } => format!("lock {addr}"),
        Ev::Unlock { addr } => format!("unlock {addr}"),
        Ev::CvWait { cv, mutex } => format!("cvwait {cv} {mutex}"),
        Ev::CvNotifyAll { cv } => format!("notify {cv}"),
    }
}

impl Sched {
    pub fn new(strategy: Strategy, budget: u64) -> Self {
        Sched {
            m: Mutex::new(Inner {
                threads: BTreeMap::new(),
                current: None,
                trace: Vec::new(),
                last_line: BTreeMap::new(),
                owner: BTreeMap::new(),
                strategy,
                steps: 0,
                budget,
                status: None,
                log_enabled: true,
                probe: None,
                probing: false,
            }),
            cv: Condvar::new(),
        }
    }

    fn enabled(inner: &Inner) -> Vec<String> {
        inner
            .threads
            .iter()
            .filter(|(_, p)| match p {
                Pending::Start => true,
                Pending::Plain(_) => true,
                Pending::Sync(Ev::Lock { addr }) => !inner.owner.contains_key(addr),
                Pending::Sync(_) => true,
                Pending::Relock { mutex } => !inner.owner.contains_key(mutex),
                Pending::Join(ts) => ts.iter().all(|t| inner.threads.get(t) == Some(&Pending::Finished)),
                Pending::Parked { .. } | Pending::Running | Pending::Finished => false,
            })
            .map(|(t, _)| t.clone())
            .collect()
    }

    /// choose the next thread and grant its pending event; loops over grants that leave the grantee
    /// unable to run (CvWait). Terminates the process when the run cannot continue.
    fn dispatch(&self, inner: &mut Inner) {
        loop {
            if inner.status.is_some() {
                return;
            }
            let en = Self::enabled(inner);
            if en.is_empty() {
                let all_done = inner.threads.values().all(|p| *p == Pending::Finished);
                inner.status = Some(if all_done { "ok".into() } else { "deadlock".into() });
                inner.current = None;
                return;
            }
            if inner.steps >= inner.budget {
                inner.status = Some("budget".into());
                inner.current = None;
                return;
            }
            let cur = inner.current.clone();
            let step = inner.steps;
            let pick = inner.strategy.pick(&en, &cur, step);
            let u = match pick {
                Some(u) => u,
                None => {
                    inner.status = Some("replay-diverged".into());
                    inner.current = None;
                    return;
                }
            };
            inner.steps += 1;
            let p = inner.threads.get(&u).cloned().unwrap();
            if let Strategy::Np { loads, .. } = &mut inner.strategy {
                let is_load = matches!(p, Pending::Sync(Ev::Load { .. }) | Pending::Sync(Ev::LoadBool { .. }));
                let e = loads.entry(u.clone()).or_insert(0);
                *e = if is_load { *e + 1 } else { 0 };
            }
            if let Strategy::Lazy { idle, .. } = &mut inner.strategy {
                let progress = matches!(
                    p,
                    Pending::Plain(_)
                        | Pending::Start
                        | Pending::Sync(Ev::Store { .. })
                        | Pending::Sync(Ev::StoreBool { .. })
                        | Pending::Sync(Ev::Cas { .. })
                        | Pending::Sync(Ev::FetchAdd { .. })
                        | Pending::Sync(Ev::FetchOr { .. })
                        | Pending::Sync(Ev::FetchAnd { .. })
                        | Pending::Sync(Ev::Rmw { .. })
                );
                if progress {
                    idle.clear();
                } else {
                    *idle.entry(u.clone()).or_insert(0) += 1;
                }
            }
            let mut runs = true;
            let text = match &p {
                Pending::Start => "start".to_string(),
                Pending::Plain(t) => t.clone(),
                Pending::Join(ts) => format!("join {}", ts.join(",")),
                Pending::Relock { mutex } => {
                    inner.owner.insert(*mutex, u.clone());
                    format!("relock {mutex}")
                }
                Pending::Sync(ev) => {
                    match ev {
                        Ev::Lock { addr } => {
                            inner.owner.insert(*addr, u.clone());
                        }
                        Ev::Unlock { addr } => {
                            inner.owner.remove(addr);
                        }
                        Ev::CvWait { cv, mutex } => {
                            inner.owner.remove(mutex);
                            inner.threads.insert(u.clone(), Pending::Parked { cv: *cv, mutex: *mutex });
                            runs = false;
                        }
                        Ev::CvNotifyAll { cv } => {
                            let woken: Vec<(String, usize)> = inner
                                .threads
                                .iter()
                                .filter_map(|(t, p)| match p {
                                    Pending::Parked { cv: c, mutex } if c == cv => Some((t.clone(), *mutex)),
                                    _ => None,
                                })
                                .collect();
                            for (t, mutex) in woken {
                                inner.threads.insert(t, Pending::Relock { mutex });
                            }
                        }
                        _ => {}
                    }
                    render(ev)
                }
                _ => unreachable!(),
            };
            if inner.log_enabled {
                inner.last_line.insert(u.clone(), inner.trace.len());
                inner.trace.push(Line { tid: u.clone(), text, en: en.join(","), obs: None });
            }
            if runs {
                inner.threads.insert(u.clone(), Pending::Running);
                inner.current = Some(u);
                return;
            }
        }
    }

    /// block the calling OS thread until it holds the baton (or the run is over: then never return)
    fn wait_turn<'a>(&'a self, mut g: std::sync::MutexGuard<'a, Inner>, me: &str) -> std::sync::MutexGuard<'a, Inner> {
        self.cv.notify_all();
        loop {
            if g.status.is_some() {
                // run is over (deadlock / budget / divergence): the main thread reports; everybody else sleeps
                if me == "M" {
                    return g;
                }
                drop(g);
                loop {
                    std::thread::park();
                }
            }
            if g.current.as_deref() == Some(me) {
                return g;
            }
            g = self.cv.wait(g).unwrap();
        }
    }

    fn point(&self, me: &str, p: Pending) {
        let mut g = self.m.lock().unwrap();
        g.threads.insert(me.to_string(), p);
        self.dispatch(&mut g);
        let g = self.wait_turn(g, me);
        if g.status.is_some() && me == "M" {
            drop(g);
            if let Some(f) = ON_RUN_OVER.get() {
                f(); // prints the report and exits the process
            }
            std::panic::panic_any(RunOver);
        }
    }

    /// first call of a freshly spawned managed thread
    pub fn enter(&self, tid: &str) {
        TID.with(|t| *t.borrow_mut() = Some(tid.to_string()));
        let mut g = self.m.lock().unwrap();
        g.threads.insert(tid.to_string(), Pending::Start);
        let _g = self.wait_turn(g, tid);
    }

    /// the main thread becomes managed and takes the baton
    pub fn enter_main(&self) {
        TID.with(|t| *t.borrow_mut() = Some("M".to_string()));
        let mut g = self.m.lock().unwrap();
        g.threads.insert("M".into(), Pending::Running);
        g.current = Some("M".into());
    }

    pub fn leave_main(&self) {
        TID.with(|t| *t.borrow_mut() = None);
    }

    /// the spawner (holding the baton) waits until the child has registered
    pub fn wait_registered(&self, tid: &str) {
        let mut g = self.m.lock().unwrap();
        while !g.threads.contains_key(tid) {
            g = self.cv.wait(g).unwrap();
        }
    }

    pub fn exit(&self, tid: &str) {
        let mut g = self.m.lock().unwrap();
        g.threads.insert(tid.to_string(), Pending::Finished);
        if g.log_enabled {
            g.trace.push(Line { tid: tid.to_string(), text: "exit".into(), en: String::new(), obs: None });
        }
        self.dispatch(&mut g);
        self.cv.notify_all();
    }

    pub fn join(&self, targets: Vec<String>) {
        let me = my_tid().unwrap();
        self.point(&me, Pending::Join(targets));
    }

    /// a logged action that is also a scheduling point: other threads may run between the preceding synchronisation
    /// operation of this thread and the action (plain slot accesses are not atomic with the cursor operations around them)
    pub fn sync_log(&self, text: String) {
        if let Some(me) = my_tid() {
            self.point(&me, Pending::Plain(text));
        }
    }

    /// a line logged by the baton holder (handler calls, write closure)
    pub fn log(&self, text: String) {
        if let Some(me) = my_tid() {
            let mut g = self.m.lock().unwrap();
            if g.log_enabled {
                g.trace.push(Line { tid: me, text, en: String::new(), obs: None });
            }
        }
    }
}

/// payload of the panic that unwinds the main thread when the run is over early
pub struct RunOver;

/// called by the main thread at the scheduling point at which it learns that the run is over early; expected to
/// report and exit the process (so that no destructor of the code under test runs during an unwind)
pub static ON_RUN_OVER: std::sync::OnceLock<Box<dyn Fn() + Send + Sync>> = std::sync::OnceLock::new();

pub struct Hook;
pub static HOOK: Hook = Hook;
pub static CURRENT: Mutex<Option<&'static Sched>> = Mutex::new(None);

fn current() -> Option<&'static Sched> {
    *CURRENT.lock().unwrap()
}

impl SyncHook for Hook {
    fn before(&self, ev: Ev) {
        let s = match current() {
            Some(s) => s,
            None => return,
        };
        match my_tid() {
            Some(me) => s.point(&me, Pending::Sync(ev)),
            None => {
                // unmanaged thread (address probing by the interpreter)
                let mut g = s.m.lock().unwrap();
                if g.probing {
                    g.probe = Some(match ev {
                        Ev::Load { addr, .. } | Ev::LoadBool { addr, .. } => addr,
                        _ => 0,
                    });
                }
            }
        }
    }
    fn after(&self, observed: u64) {
        if let (Some(s), Some(me)) = (current(), my_tid()) {
            let mut g = s.m.lock().unwrap();
            if let Some(&i) = g.last_line.get(&me) {
                if g.trace[i].obs.is_none() {
                    g.trace[i].obs = Some(observed);
                }
            }
        }
    }
}
