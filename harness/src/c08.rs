//! C08 (and the graph part of C15): the real `UltraGraph<u64>` / `UltraMatrixGraph<u64>`.
//!
//! `case <id> cap <c> via <new|default|cap|matrix|storage>` builds the graph through one of the public
//! constructors (`storage` = the bare `UltraMatrixGraph`, everything else the `UltraGraphContainer`).
//! Every public method of GraphLike / GraphRoot / GraphStorage / GraphAlgorithms is an op; `snap <n>`
//! prints every observer over the index range `[0, n)` in one canonical token.
use crate::{p, Interp};
use ultragraph::prelude::*;

pub enum G {
    C(UltraGraph<u64>),
    S(UltraMatrixGraph<u64>),
}

macro_rules! g {
    ($s:expr, $g:ident => $e:expr) => {
        match $s {
            G::C($g) => $e,
            G::S($g) => $e,
        }
    };
}

pub fn build(a: &[&str]) -> G {
    // a = [<id>, "cap", <c>, "via", <k>]
    let cap: usize = p(a[2]);
    match a.get(4).copied().unwrap_or("cap") {
        "new" => G::C(ultragraph::new()),
        "default" => G::C(ultragraph::default()),
        "matrix" => G::C(ultragraph::new_with_matrix_storage(cap)),
        "storage" => G::S(UltraMatrixGraph::new_with_capacity(cap)),
        "storage-new" => G::S(UltraMatrixGraph::new()),
        _ => G::C(ultragraph::with_capacity(cap)),
    }
}

fn b(x: bool) -> String {
    (x as u8).to_string()
}
fn r<E>(x: Result<(), E>) -> String {
    if x.is_ok() { "ok".into() } else { "err".into() }
}
fn list(v: &[String]) -> String {
    if v.is_empty() { "-".into() } else { v.join(",") }
}
fn opt(o: Option<String>) -> String {
    o.unwrap_or_else(|| "none".into())
}

pub fn outgoing(g: &G, a: usize) -> String {
    match g!(g, x => x.outgoing_edges(a)) {
        Ok(it) => list(&it.map(|n| n.to_string()).collect::<Vec<_>>()),
        Err(_) => "err".into(),
    }
}
pub fn all_edges(g: &G) -> String {
    let mut e = g!(g, x => x.get_all_edges());
    e.sort(); // hash-map iteration order is external nondeterminism
    list(&e.iter().map(|(a, b)| format!("{a}:{b}")).collect::<Vec<_>>())
}
pub fn all_nodes(g: &G) -> String {
    let mut v: Vec<u64> = g!(g, x => x.get_all_nodes().into_iter().copied().collect());
    v.sort();
    list(&v.iter().map(|n| n.to_string()).collect::<Vec<_>>())
}
pub fn last_index(g: &G) -> String {
    match g!(g, x => x.get_last_index()) {
        Ok(n) => n.to_string(),
        Err(_) => "err".into(),
    }
}

/// every observer over `[0, n)`, one token
pub fn snapshot(g: &G, n: usize) -> String {
    let mut live = Vec::new();
    let mut ce = Vec::new();
    let mut out = Vec::new();
    for i in 0..n {
        let c = g!(g, x => x.contains_node(i));
        let v = g!(g, x => x.get_node(i).copied());
        match (c, v) {
            (false, None) => {}
            (true, Some(v)) => live.push(format!("{i}={v}")),
            (true, None) => live.push(format!("{i}=?")),   // contained but no value
            (false, Some(v)) => live.push(format!("{i}=!{v}")), // value without containment
        }
        // the order of an outgoing list is checked by the `out` op; canonical (sorted) here
        if let Ok(it) = g!(g, x => x.outgoing_edges(i)) {
            let mut o: Vec<usize> = it.collect();
            o.sort();
            let o: Vec<String> = o.iter().map(|n| n.to_string()).collect();
            out.push(format!("{i}>{}", if o.is_empty() { "-".to_string() } else { o.join("+") }));
        }
        for j in 0..n {
            if g!(g, x => x.contains_edge(i, j)) {
                ce.push(format!("{i}:{j}"));
            }
        }
    }
    format!(
        "n={};sz={};emp={};e={};live={};ce={};all={};vals={};out={};root={}/{}/{};last={}",
        g!(g, x => x.number_nodes()),
        g!(g, x => x.size()),
        b(g!(g, x => x.is_empty())),
        g!(g, x => x.number_edges()),
        list(&live),
        list(&ce),
        all_edges(g),
        all_nodes(g),
        list(&out),
        b(g!(g, x => x.contains_root_node())),
        opt(g!(g, x => x.get_root_index()).map(|i| i.to_string())),
        opt(g!(g, x => x.get_root_node().copied()).map(|i| i.to_string())),
        last_index(g),
    )
}

pub fn graph_op(g: &mut G, op: &str, a: &[&str]) -> Option<String> {
    Some(match op {
        "add" => g!(g, x => x.add_node(p::<u64>(a[0]))).to_string(),
        // `addmany <count>`: many nodes in one op (index-width boundary); answers count of distinct returned indices,
        // node count before / after and how many nodes the graph enumerates
        "addmany" => {
            let n: usize = p(a[0]);
            let before = g!(g, x => x.number_nodes());
            let mut seen = std::collections::HashSet::new();
            for i in 0..n {
                seen.insert(g!(g, x => x.add_node(i as u64)));
            }
            let after = g!(g, x => x.number_nodes());
            let listed = g!(g, x => x.get_all_nodes().len());
            format!("distinct={} before={} after={} listed={}", seen.len(), before, after, listed)
        }
        "addroot" => g!(g, x => x.add_root_node(p::<u64>(a[0]))).to_string(),
        "rmnode" => r(g!(g, x => x.remove_node(p(a[0])))),
        "edge" => r(g!(g, x => x.add_edge(p(a[0]), p(a[1])))),
        "edgew" => r(g!(g, x => x.add_edge_with_weight(p(a[0]), p(a[1]), p::<u64>(a[2])))),
        "rmedge" => r(g!(g, x => x.remove_edge(p(a[0]), p(a[1])))),
        "clear" => {
            g!(g, x => x.clear());
            "ok".into()
        }
        "hasnode" => b(g!(g, x => x.contains_node(p(a[0])))),
        "get" => opt(g!(g, x => x.get_node(p(a[0])).copied()).map(|v| v.to_string())),
        "hasedge" => b(g!(g, x => x.contains_edge(p(a[0]), p(a[1])))),
        "size" => g!(g, x => x.size()).to_string(),
        "empty" => b(g!(g, x => x.is_empty())),
        "nnodes" => g!(g, x => x.number_nodes()).to_string(),
        "nedges" => g!(g, x => x.number_edges()).to_string(),
        "nodes" => all_nodes(g),
        "edges" => all_edges(g),
        "out" => outgoing(g, p(a[0])),
        "hasroot" => b(g!(g, x => x.contains_root_node())),
        "rootnode" => opt(g!(g, x => x.get_root_node().copied()).map(|v| v.to_string())),
        "rootidx" => opt(g!(g, x => x.get_root_index()).map(|v| v.to_string())),
        "lastidx" => last_index(g),
        "snap" => snapshot(g, p(a[0])),
        "sp" => match g!(g, x => x.shortest_path(p(a[0]), p(a[1]))) {
            None => "none".into(),
            Some(path) => list(&path.iter().map(|n| n.to_string()).collect::<Vec<_>>()),
        },
        // shortest_path for every ordered pair of [0, n)
        "spall" => {
            let n: usize = p(a[0]);
            let mut v = Vec::with_capacity(n * n);
            for i in 0..n {
                for j in 0..n {
                    let r = match g!(g, x => x.shortest_path(i, j)) {
                        None => "none".to_string(),
                        Some(path) => path.iter().map(|n| n.to_string()).collect::<Vec<_>>().join("+"),
                    };
                    v.push(format!("{i}>{j}={r}"));
                }
            }
            list(&v)
        }
        _ => return None,
    })
}

#[derive(Default)]
pub struct C08 {
    g: Option<G>,
}

impl Interp for C08 {
    fn case(&mut self, a: &[&str]) -> String {
        self.g = Some(build(a));
        "ok".into()
    }
    fn op(&mut self, op: &str, a: &[&str]) -> String {
        graph_op(self.g.as_mut().unwrap(), op, a).unwrap_or_else(|| "bad-op".into())
    }
}
