//! C17: the real ArrayGrid<i64, W, H, D, C> (the build decides: RefCell grid, or raw-pointer grid under the
//! repository's feature `unsafe`). `case <id> <safe|unsafe_impl> <kind> <W,H,D,C>`; ops `set <coords> <v>`, `get <coords>`
//! where the number of coordinates selects PointIndex::new1d … new4d. Every extent 1…4 per axis is available
//! (const generics => macro-generated menu of 256 instantiations).
use crate::{p, Interp};
use dcl_data_structures::prelude::{ArrayGrid, ArrayType, PointIndex};

trait DynGrid {
    fn get(&self, p: PointIndex) -> i64;
    fn set(&self, p: PointIndex, v: i64);
}

impl<const W: usize, const H: usize, const D: usize, const C: usize> DynGrid for ArrayGrid<i64, W, H, D, C> {
    fn get(&self, p: PointIndex) -> i64 {
        ArrayGrid::get(self, p)
    }
    fn set(&self, p: PointIndex, v: i64) {
        ArrayGrid::set(self, p, v)
    }
}

fn mk<const W: usize, const H: usize, const D: usize, const C: usize>(ty: ArrayType) -> Box<dyn DynGrid> {
    Box::new(ArrayGrid::<i64, W, H, D, C>::new(ty))
}

macro_rules! menu_c {
    ($ty:expr, $c:expr, $W:literal, $H:literal, $D:literal) => {
        match $c {
            1 => Some(mk::<$W, $H, $D, 1>($ty)),
            2 => Some(mk::<$W, $H, $D, 2>($ty)),
            3 => Some(mk::<$W, $H, $D, 3>($ty)),
            4 => Some(mk::<$W, $H, $D, 4>($ty)),
            _ => None,
        }
    };
}
macro_rules! menu_d {
    ($ty:expr, $d:expr, $c:expr, $W:literal, $H:literal) => {
        match $d {
            1 => menu_c!($ty, $c, $W, $H, 1),
            2 => menu_c!($ty, $c, $W, $H, 2),
            3 => menu_c!($ty, $c, $W, $H, 3),
            4 => menu_c!($ty, $c, $W, $H, 4),
            _ => None,
        }
    };
}
macro_rules! menu_h {
    ($ty:expr, $h:expr, $d:expr, $c:expr, $W:literal) => {
        match $h {
            1 => menu_d!($ty, $d, $c, $W, 1),
            2 => menu_d!($ty, $d, $c, $W, 2),
            3 => menu_d!($ty, $d, $c, $W, 3),
            4 => menu_d!($ty, $d, $c, $W, 4),
            _ => None,
        }
    };
}

fn menu(ty: ArrayType, w: usize, h: usize, d: usize, c: usize) -> Option<Box<dyn DynGrid>> {
    match w {
        1 => menu_h!(ty, h, d, c, 1),
        2 => menu_h!(ty, h, d, c, 2),
        3 => menu_h!(ty, h, d, c, 3),
        4 => menu_h!(ty, h, d, c, 4),
        _ => None,
    }
}

#[derive(Default)]
pub struct C17 {
    grid: Option<Box<dyn DynGrid>>,
}

fn point(s: &str) -> Option<PointIndex> {
    let c: Vec<usize> = s.split(',').map(p::<usize>).collect();
    match c.len() {
        1 => Some(PointIndex::new1d(c[0])),
        2 => Some(PointIndex::new2d(c[0], c[1])),
        3 => Some(PointIndex::new3d(c[0], c[1], c[2])),
        4 => Some(PointIndex::new4d(c[0], c[1], c[2], c[3])),
        _ => None,
    }
}

impl Interp for C17 {
    fn case(&mut self, a: &[&str]) -> String {
        // case <n> <build> <kind> <W,H,D,C>
        self.grid = None;
        let build = if cfg!(feature = "unsafe_impl") { "unsafe_impl" } else { "safe" };
        if a[1] != build {
            return format!("wrong-build:{build}");
        }
        let ty = match a[2] {
            "1d" => ArrayType::Array1D,
            "2d" => ArrayType::Array2D,
            "3d" => ArrayType::Array3D,
            "4d" => ArrayType::Array4D,
            _ => return "bad-kind".into(),
        };
        let e: Vec<usize> = a[3].split(',').map(p::<usize>).collect();
        self.grid = menu(ty, e[0], e[1], e[2], e[3]);
        if self.grid.is_some() { "ok".into() } else { "bad-extents".into() }
    }

    fn op(&mut self, op: &str, a: &[&str]) -> String {
        let g = match self.grid.as_ref() {
            Some(g) => g,
            None => return "no-grid".into(),
        };
        let pt = match point(a[0]) {
            Some(pt) => pt,
            None => return "bad-point".into(),
        };
        match op {
            "set" => {
                g.set(pt, p::<i64>(a[1]));
                "ok".into()
            }
            "get" => g.get(pt).to_string(),
            _ => "bad-op".into(),
        }
    }
}
