//! C19, concurrent part: threads issue `set`/`unset` calls on one shared BitMap under the deterministic scheduler.
//! `--bm-one <cap> <sched> <budget> <tid:op:seq>…` runs one case in this process and prints
//! `events=<tid:kind,…> final=<seq:0|1,…> status=<…>`.
use crate::sched::{self, Sched, Strategy};
use dcl_data_structures::ring_buffer::prelude::*;
use dcl_data_structures::ring_buffer::verif_sync;
use std::num::NonZeroUsize;
use std::sync::Arc;

pub fn bm_one(args: &[String]) -> ! {
    let cap: usize = args[0].parse().unwrap();
    let strategy = crate::ring::parse_strategy(&args[1]);
    let budget: u64 = args[2].parse().unwrap();
    let mut per_thread: Vec<Vec<(bool, u64)>> = Vec::new();
    let mut seqs: Vec<u64> = Vec::new();
    for t in &args[3..] {
        let p: Vec<&str> = t.split(':').collect();
        let tid: usize = p[0].parse().unwrap();
        let seq: u64 = p[2].parse().unwrap();
        while per_thread.len() <= tid {
            per_thread.push(Vec::new());
        }
        per_thread[tid].push((p[1] == "set", seq));
        if !seqs.contains(&seq) {
            seqs.push(seq);
        }
    }
    let sched: &'static Sched = Box::leak(Box::new(Sched::new(strategy, budget)));
    verif_sync::set_hook(&sched::HOOK);
    *sched::CURRENT.lock().unwrap() = Some(sched);
    let report = move |status: String, finals: String| -> ! {
        let g = sched.m.lock().unwrap();
        let evs: Vec<String> = g
            .trace
            .iter()
            .filter(|l| l.tid.starts_with('T') && !l.en.is_empty() && l.text != "start")
            .map(|l| format!("{}:{}", l.tid, l.text.split(' ').next().unwrap_or("")))
            .collect();
        println!("events={} final={} status={}", if evs.is_empty() { "-".into() } else { evs.join(",") }, finals, status);
        std::process::exit(0)
    };
    let _ = sched::ON_RUN_OVER.set(Box::new(move || {
        let status = sched.m.lock().unwrap().status.clone().unwrap_or_else(|| "panic".into());
        report(status, "-".into())
    }));
    let bm = Arc::new(BitMap::new(NonZeroUsize::new(cap).unwrap()));
    sched.enter_main();
    let mut hs = Vec::new();
    let mut tids = Vec::new();
    for (i, ops) in per_thread.iter().enumerate() {
        let bm = bm.clone();
        let ops = ops.clone();
        let tid = format!("T{i}");
        let t2 = tid.clone();
        hs.push(std::thread::spawn(move || {
            sched.enter(&t2);
            let r = std::panic::catch_unwind(std::panic::AssertUnwindSafe(|| {
                for (is_set, s) in ops {
                    if is_set {
                        bm.set(s)
                    } else {
                        bm.unset(s)
                    }
                }
            }));
            if r.is_err() {
                sched.log("panic".into());
            }
            sched.exit(&t2);
        }));
        sched.wait_registered(&tid);
        tids.push(tid);
    }
    sched.join(tids);
    for h in hs {
        let _ = h.join();
    }
    let finals: Vec<String> = seqs.iter().map(|s| format!("{}:{}", s, bm.is_set(*s) as u8)).collect();
    report("ok".into(), finals.join(","))
}
