//! C09: the real `deep_causality::Context` (type parameters of the crate's own tests: `BaseContext`,
//! `BaseContextoid`). `case <id> cap <c>` = `Context::with_capacity(1, "base", c)`.
//! A node value `v` is the contextoid with id `v`: a `Root` when `v` is even, a `Datoid(Data::new(v, 7v+1))`
//! when odd; a node is printed as its id (`<id>?` if kind or payload are not the ones that were stored).
use crate::{p, Interp};
use deep_causality::prelude::*;

#[derive(Default)]
pub struct C09 {
    c: Option<BaseContext>,
}

fn mk(v: u64) -> BaseContextoid {
    if v % 2 == 0 {
        Contextoid::new(v, ContextoidType::Root(Root::new(v)))
    } else {
        Contextoid::new(v, ContextoidType::Datoid(Data::new(v, 7 * v + 1)))
    }
}
fn show(n: &BaseContextoid) -> String {
    let v = n.id();
    let ok = match n.vertex_type() {
        ContextoidType::Root(r) => v % 2 == 0 && r.id() == v,
        ContextoidType::Datoid(d) => v % 2 == 1 && d.id() == v && *d.data() == 7 * v + 1,
        _ => false,
    };
    if ok { v.to_string() } else { format!("{v}?") }
}
fn kind(w: u64) -> RelationKind {
    match w % 4 {
        0 => RelationKind::Datial,
        1 => RelationKind::Temporal,
        2 => RelationKind::Spatial,
        _ => RelationKind::SpaceTemporal,
    }
}
fn b(x: bool) -> String {
    (x as u8).to_string()
}
fn r<T, E>(x: Result<T, E>, f: impl Fn(T) -> String) -> String {
    match x {
        Ok(v) => f(v),
        Err(_) => "err".into(),
    }
}
fn list(v: &[String]) -> String {
    if v.is_empty() { "-".into() } else { v.join(",") }
}

/// the base graph over `[0, n)`
fn snap_base(c: &BaseContext, n: usize) -> String {
    let mut live = Vec::new();
    let mut ce = Vec::new();
    for i in 0..n {
        match (c.contains_node(i), c.get_node(i)) {
            (false, None) => {}
            (true, Some(v)) => live.push(format!("{i}={}", show(v))),
            (true, None) => live.push(format!("{i}=?")),
            (false, Some(v)) => live.push(format!("{i}=!{}", show(v))),
        }
        for j in 0..n {
            if c.contains_edge(i, j) {
                ce.push(format!("{i}:{j}"));
            }
        }
    }
    format!("n={};sz={};emp={};e={};live={};ce={}", c.node_count(), c.size(), b(c.is_empty()), c.edge_count(), list(&live), list(&ce))
}
/// the currently selected extra graph over `[0, n)`
fn snap_extra(c: &BaseContext, n: usize) -> String {
    let mut live = Vec::new();
    let mut ce = Vec::new();
    for i in 0..n {
        match (c.extra_ctx_contains_node(i), c.extra_ctx_get_node(i)) {
            (false, Err(_)) => {}
            (true, Ok(v)) => live.push(format!("{i}={}", show(v))),
            (true, Err(_)) => live.push(format!("{i}=?")),
            (false, Ok(v)) => live.push(format!("{i}=!{}", show(v))),
        }
        for j in 0..n {
            if c.extra_ctx_contains_edge(i, j) {
                ce.push(format!("{i}:{j}"));
            }
        }
    }
    format!(
        "n={};sz={};emp={};e={};live={};ce={}",
        r(c.extra_ctx_node_count(), |v| v.to_string()),
        r(c.extra_ctx_size(), |v| v.to_string()),
        r(c.extra_ctx_is_empty(), b),
        r(c.extra_ctx_edge_count(), |v| v.to_string()),
        list(&live),
        list(&ce)
    )
}

impl Interp for C09 {
    fn case(&mut self, a: &[&str]) -> String {
        self.c = Some(Context::with_capacity(1, "base", p(a[2])));
        "ok".into()
    }
    fn op(&mut self, op: &str, a: &[&str]) -> String {
        let c = self.c.as_mut().unwrap();
        let ok = |x: Result<(), ContextIndexError>| if x.is_ok() { "ok".to_string() } else { "err".to_string() };
        match op {
            // ContextuableGraph
            "add" => c.add_node(mk(p(a[0]))).to_string(),
            "hasnode" => b(c.contains_node(p(a[0]))),
            "get" => c.get_node(p(a[0])).map(show).unwrap_or_else(|| "none".into()),
            "rmnode" => ok(c.remove_node(p(a[0]))),
            "edge" => ok(c.add_edge(p(a[0]), p(a[1]), kind(p(a[2])))),
            "hasedge" => b(c.contains_edge(p(a[0]), p(a[1]))),
            "rmedge" => ok(c.remove_edge(p(a[0]), p(a[1]))),
            "size" => c.size().to_string(),
            "empty" => b(c.is_empty()),
            "nnodes" => c.node_count().to_string(),
            "nedges" => c.edge_count().to_string(),
            // ExtendableContextuableGraph
            "xnew" => c.extra_ctx_add_new(p(a[0]), p::<u8>(a[1]) != 0).to_string(),
            "xexists" => b(c.extra_ctx_check_exists(p(a[0]))),
            "xcur" => c.extra_ctx_get_current_id().to_string(),
            "xset" => ok(c.extra_ctx_set_current_id(p(a[0]))),
            "xunset" => ok(c.extra_ctx_unset_current_id()),
            "xadd" => r(c.extra_ctx_add_node(mk(p(a[0]))), |v| v.to_string()),
            "xhasnode" => b(c.extra_ctx_contains_node(p(a[0]))),
            "xget" => r(c.extra_ctx_get_node(p(a[0])), show),
            "xrmnode" => ok(c.extra_ctx_remove_node(p(a[0]))),
            "xedge" => ok(c.extra_ctx_add_edge(p(a[0]), p(a[1]), kind(p(a[2])))),
            "xhasedge" => b(c.extra_ctx_contains_edge(p(a[0]), p(a[1]))),
            "xrmedge" => ok(c.extra_ctx_remove_edge(p(a[0]), p(a[1]))),
            "xsize" => r(c.extra_ctx_size(), |v| v.to_string()),
            "xempty" => r(c.extra_ctx_is_empty(), b),
            "xnnodes" => r(c.extra_ctx_node_count(), |v| v.to_string()),
            "xnedges" => r(c.extra_ctx_edge_count(), |v| v.to_string()),
            // Indexable
            "setidx" => {
                c.set_index(p(a[0]), p(a[1]), p::<u8>(a[2]) != 0);
                "ok".into()
            }
            "getidx" => c.get_index(&p(a[0]), p::<u8>(a[1]) != 0).map(|v| v.to_string()).unwrap_or_else(|| "none".into()),
            // Identifiable / name
            "id" => c.id().to_string(),
            "name" => c.name().to_string(),
            // re-read everything: base, then every extra context 1..=k+1 (selecting each in turn, the last one does
            // not exist), the selection is restored afterwards; index maps over keys [0, n)
            "snap" => {
                let n: usize = p(a[0]);
                let k: u64 = p(a[1]);
                let cur = c.extra_ctx_get_current_id();
                let mut parts = vec![format!("cur={cur}"), format!("B[{}]", snap_base(c, n))];
                for x in 1..=k + 1 {
                    let ex = c.extra_ctx_check_exists(x);
                    let sel = c.extra_ctx_set_current_id(x).is_ok();
                    if sel {
                        parts.push(format!("X{x}[ex={};{}]", b(ex), snap_extra(c, n)));
                    } else {
                        parts.push(format!("X{x}[ex={};refused;cur={}]", b(ex), c.extra_ctx_get_current_id()));
                    }
                }
                let back = c.extra_ctx_set_current_id(cur).is_ok();
                parts.push(format!("back={}/{}", b(back), c.extra_ctx_get_current_id()));
                let mut im = Vec::new();
                for key in 0..n {
                    let f = |o: Option<&usize>| o.map(|v| v.to_string()).unwrap_or_else(|| "_".into());
                    let (x, y) = (f(c.get_index(&key, true)), f(c.get_index(&key, false)));
                    if x != "_" || y != "_" {
                        im.push(format!("{key}:{x}/{y}"));
                    }
                }
                parts.push(format!("idx={}", list(&im)));
                parts.join(";")
            }
            _ => "bad-op".into(),
        }
    }
}
