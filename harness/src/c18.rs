//! C18: the real `AssumableReasoning` / `InferableReasoning` / `ObservableReasoning` default methods on a `Vec`,
//! plus `Assumption::verify_assumption`. The `dump_*` functions print every answer of a collection in one
//! canonical token string; they are generic in the container and reused by C12.
//!
//! Floats travel as 16 hex digits of `to_bits()`, any NaN as `nan`.
use crate::{p, Interp};
use deep_causality::prelude::*;

pub fn hx(v: f64) -> String {
    if v.is_nan() {
        "nan".into()
    } else {
        format!("{:016x}", v.to_bits())
    }
}
pub fn fl(s: &str) -> f64 {
    f64::from_bits(u64::from_str_radix(s, 16).expect("hex float"))
}
pub fn b(v: bool) -> char {
    if v {
        '1'
    } else {
        '0'
    }
}
pub fn ids<T: Identifiable>(v: Vec<&T>) -> String {
    if v.is_empty() {
        "-".into()
    } else {
        v.iter().map(|x| x.id().to_string()).collect::<Vec<_>>().join(",")
    }
}
fn bits(v: Vec<bool>) -> String {
    if v.is_empty() {
        "-".into()
    } else {
        v.into_iter().map(b).collect()
    }
}

// assumption functions: assumption kind j reads bit j of data[0]
macro_rules! afns {
    ($($name:ident $j:expr),*) => { $(fn $name(d: &[NumericalValue]) -> bool { ((d[0] as i64) >> $j) & 1 == 1 })* };
}
afns!(af0 0, af1 1, af2 2, af3 3, af4 4, af5 5);
pub const AFNS: [EvalFn; 6] = [af0, af1, af2, af3, af4, af5];

pub fn dump_assumable<C: AssumableReasoning<Assumption> + ?Sized>(c: &C) -> String {
    let items = c.get_all_items();
    format!(
        "ord={};t={};v={};at={};av={};nv={};pv={};inv={};val={};tes={};unt={};len={};e={}",
        ids(c.get_all_items()),
        bits(items.iter().map(|a| a.assumption_tested()).collect()),
        bits(items.iter().map(|a| a.assumption_valid()).collect()),
        b(c.all_assumptions_tested()),
        b(c.all_assumptions_valid()),
        hx(c.number_assumption_valid()),
        hx(c.percent_assumption_valid()),
        ids(c.get_all_invalid_assumptions()),
        ids(c.get_all_valid_assumptions()),
        ids(c.get_all_tested_assumptions()),
        ids(c.get_all_untested_assumptions()),
        c.len(),
        b(c.is_empty()),
    )
}

pub fn dump_inferable<C: InferableReasoning<Inference> + ?Sized>(c: &C) -> String {
    let items = c.get_all_items();
    format!(
        "ord={};mi={};mv={};mc={};inf={};inv={};non={};ai={};av={};an={};ni={};nv={};nn={};pi={};pv={};pn={};cd={};len={};e={}",
        ids(c.get_all_items()),
        bits(items.iter().map(|i| i.is_inferable()).collect()),
        bits(items.iter().map(|i| i.is_inverse_inferable()).collect()),
        if items.is_empty() { "-".into() } else { items.iter().map(|i| hx(i.conjoint_delta())).collect::<Vec<_>>().join(",") },
        ids(c.get_all_inferable()),
        ids(c.get_all_inverse_inferable()),
        ids(c.get_all_non_inferable()),
        b(c.all_inferable()),
        b(c.all_inverse_inferable()),
        b(c.all_non_inferable()),
        hx(c.number_inferable()),
        hx(c.number_inverse_inferable()),
        hx(c.number_non_inferable()),
        hx(c.percent_inferable()),
        hx(c.percent_inverse_inferable()),
        hx(c.percent_non_inferable()),
        hx(c.conjoint_delta()),
        c.len(),
        b(c.is_empty()),
    )
}

pub fn dump_observable<C: ObservableReasoning<Observation> + ?Sized>(c: &C, thr: f64, eff: f64) -> String {
    let items = c.get_all_items();
    format!(
        "ord={};m={};no={};nn={};po={};pn={};len={};e={}",
        ids(c.get_all_items()),
        bits(items.iter().map(|o| o.effect_observed(thr, eff)).collect()),
        hx(c.number_observation(thr, eff)),
        hx(c.number_non_observation(thr, eff)),
        hx(c.percent_observation(thr, eff)),
        hx(c.percent_non_observation(thr, eff)),
        c.len(),
        b(c.is_empty()),
    )
}

/// the same members in a `VecDeque` whose ring buffer is wrapped (second half pushed to the back, first half to the
/// front): the counting laws are claimed for every supported collection, and a deque is the one whose item
/// enumeration is not a plain slice walk
pub fn wrapped<T: Clone>(v: &[T]) -> std::collections::VecDeque<T> {
    let n = v.len();
    let mut d = std::collections::VecDeque::with_capacity(n + 3);
    for x in &v[n / 2..] {
        d.push_back(x.clone());
    }
    for x in v[..n / 2].iter().rev() {
        d.push_front(x.clone());
    }
    d
}

/// answer of the `Vec`, or both answers when the wrapped deque disagrees with it
fn both(vec_answer: String, deque_answer: String) -> String {
    if vec_answer == deque_answer {
        vec_answer
    } else {
        format!("container-differs:vec={vec_answer}:deque={deque_answer}")
    }
}

#[derive(Default)]
pub struct C18 {
    kind: String,
    asm: Vec<Assumption>,
    inf: Vec<Inference>,
    obs: Vec<Observation>,
}

impl Interp for C18 {
    fn case(&mut self, a: &[&str]) -> String {
        // case <n> assume <kinds|-> | case <n> infer | case <n> observe
        self.kind = a[1].to_string();
        self.asm.clear();
        self.inf.clear();
        self.obs.clear();
        if self.kind == "assume" && a[2] != "-" {
            for (i, k) in a[2].split(',').enumerate() {
                self.asm.push(Assumption::new(i as u64, format!("assumption {i}"), AFNS[p::<usize>(k)]));
            }
        }
        "ok".into()
    }

    fn op(&mut self, op: &str, a: &[&str]) -> String {
        match (self.kind.as_str(), op) {
            ("assume", "verify") => {
                let r = self.asm[p::<usize>(a[0])].verify_assumption(&[p::<i64>(a[1]) as f64]);
                format!("{}|{}", b(r), both(dump_assumable(&self.asm), dump_assumable(&wrapped(&self.asm))))
            }
            ("assume", "verifyall") => {
                self.asm.verify_all_assumptions(&[p::<i64>(a[0]) as f64]);
                format!("ok|{}", both(dump_assumable(&self.asm), dump_assumable(&wrapped(&self.asm))))
            }
            ("assume", "q") => both(dump_assumable(&self.asm), dump_assumable(&wrapped(&self.asm))),
            ("infer", "push") => {
                let id = self.inf.len() as u64;
                self.inf.push(Inference::new(id, format!("q{id}"), fl(a[0]), fl(a[1]), fl(a[2]), fl(a[3])));
                both(dump_inferable(&self.inf), dump_inferable(&wrapped(&self.inf)))
            }
            ("infer", "q") => both(dump_inferable(&self.inf), dump_inferable(&wrapped(&self.inf))),
            ("observe", "push") => {
                let id = self.obs.len() as u64;
                self.obs.push(Observation::new(id, fl(a[0]), fl(a[1])));
                "ok".into()
            }
            ("observe", "q") => both(
                dump_observable(&self.obs, fl(a[0]), fl(a[1])),
                dump_observable(&wrapped(&self.obs), fl(a[0]), fl(a[1])),
            ),
            _ => "bad-op".into(),
        }
    }
}
