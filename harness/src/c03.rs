//! C03: the real `CSM` (deep_causality/src/types/csm_types), driven by op lines.
//!
//! `case <id> states <sid>/<data>/<kind>,…` builds a pool of causal states (state j = j-th entry): `sid` is
//! `CausalState::id`, `data` the stored (integer valued) data, `kind` selects the causal function. The causal
//! functions decode their verdict from the data value (`value mod 3`: 1 = true, 0 = false, 2 = error), log
//! `c<kind>:<data>` and can be made to fail by the global switch; the eight action functions log `a<i>`, bump
//! their own counter and fail when bit i of the global mask is set.
use crate::{p, Interp};
use deep_causality::prelude::*;
use std::sync::atomic::{AtomicBool, AtomicU32, AtomicU64, Ordering::SeqCst};
use std::sync::Mutex;

type State = CausalState<'static, Data<u64>, Space<u64>, Time<u64>, SpaceTime<u64>, u64>;
type Machine = CSM<'static, Data<u64>, Space<u64>, Time<u64>, SpaceTime<u64>, u64>;

static SWITCH: AtomicBool = AtomicBool::new(false);
static MASK: AtomicU32 = AtomicU32::new(0);
static LOG: Mutex<Vec<String>> = Mutex::new(Vec::new());
static COUNT: [AtomicU64; 8] = [
    AtomicU64::new(0),
    AtomicU64::new(0),
    AtomicU64::new(0),
    AtomicU64::new(0),
    AtomicU64::new(0),
    AtomicU64::new(0),
    AtomicU64::new(0),
    AtomicU64::new(0),
];

fn log(s: String) {
    LOG.lock().unwrap_or_else(|e| e.into_inner()).push(s);
}

fn decode(kind: u8, obs: f64) -> Result<bool, CausalityError> {
    let v = obs as i64;
    log(format!("c{kind}:{v}"));
    let r = v.rem_euclid(3);
    let fail = || Err(CausalityError("causal function failed".into()));
    match kind {
        0 => match r {
            1 => Ok(true),
            0 => Ok(false),
            _ => fail(),
        },
        1 => match r {
            0 => Ok(true),
            1 => Ok(false),
            _ => fail(),
        },
        2 => {
            if SWITCH.load(SeqCst) {
                return fail();
            }
            match r {
                1 => Ok(true),
                0 => Ok(false),
                _ => fail(),
            }
        }
        _ => {
            if SWITCH.load(SeqCst) {
                return fail();
            }
            Ok(true)
        }
    }
}

fn causal0(obs: NumericalValue) -> Result<bool, CausalityError> {
    decode(0, obs)
}
fn causal1(obs: NumericalValue) -> Result<bool, CausalityError> {
    decode(1, obs)
}
fn causal2(obs: NumericalValue) -> Result<bool, CausalityError> {
    decode(2, obs)
}
fn causal3(obs: NumericalValue) -> Result<bool, CausalityError> {
    decode(3, obs)
}

fn act(i: usize) -> Result<(), ActionError> {
    COUNT[i].fetch_add(1, SeqCst);
    log(format!("a{i}"));
    if MASK.load(SeqCst) & (1 << i) != 0 {
        Err(ActionError(format!("action {i} failed")))
    } else {
        Ok(())
    }
}
macro_rules! actions {
    ($($name:ident $i:expr),*) => { $(fn $name() -> Result<(), ActionError> { act($i) })* };
}
actions!(act0 0, act1 1, act2 2, act3 3, act4 4, act5 5, act6 6, act7 7);
const ACTIONS: [fn() -> Result<(), ActionError>; 8] = [act0, act1, act2, act3, act4, act5, act6, act7];

#[derive(Default)]
pub struct C03 {
    states: Vec<&'static State>,
    actions: Vec<&'static CausalAction>,
    csm: Option<Machine>,
}

impl C03 {
    fn pairs(&self, s: &str) -> &'static [(&'static State, &'static CausalAction)] {
        let mut v = Vec::new();
        if s != "-" {
            for pr in s.split(',') {
                let (j, a) = pr.split_once(':').expect("pair");
                v.push((self.states[p::<usize>(j)], self.actions[p::<usize>(a)]));
            }
        }
        Box::leak(v.into_boxed_slice())
    }
    fn take_log() -> String {
        let mut l = LOG.lock().unwrap_or_else(|e| e.into_inner());
        let s = if l.is_empty() { "-".to_string() } else { l.join(",") };
        l.clear();
        s
    }
}

impl Interp for C03 {
    fn case(&mut self, a: &[&str]) -> String {
        // case <n> states <sid>/<data>/<kind>,…
        SWITCH.store(false, SeqCst);
        MASK.store(0, SeqCst);
        LOG.lock().unwrap_or_else(|e| e.into_inner()).clear();
        for c in COUNT.iter() {
            c.store(0, SeqCst);
        }
        self.csm = None;
        self.states.clear();
        self.actions.clear();
        for (i, f) in ACTIONS.iter().enumerate() {
            self.actions.push(Box::leak(Box::new(CausalAction::new(*f, "verif action", i))));
        }
        for (j, d) in a[2].split(',').enumerate() {
            let f: Vec<&str> = d.split('/').collect();
            let sid: usize = p(f[0]);
            let data: i64 = p(f[1]);
            let kind: u8 = p(f[2]);
            let cf: CausalFn = match kind {
                0 => causal0,
                1 => causal1,
                2 => causal2,
                _ => causal3,
            };
            let causaloid: &'static BaseCausaloid<'static> =
                Box::leak(Box::new(Causaloid::new(j as u64, cf, "verif causaloid")));
            self.states.push(Box::leak(Box::new(CausalState::new(sid, 1, data as f64, causaloid))));
        }
        "ok".into()
    }

    fn op(&mut self, op: &str, a: &[&str]) -> String {
        match op {
            "new" => {
                let m = CSM::new(self.pairs(a[0]));
                let n = m.len();
                self.csm = Some(m);
                return format!("ok:{n}");
            }
            "fault" => {
                match a[0] {
                    "c" => SWITCH.store(p::<u8>(a[1]) != 0, SeqCst),
                    _ => MASK.store(p::<u32>(a[1]), SeqCst),
                }
                return "ok".into();
            }
            "counts" => {
                return COUNT.iter().map(|c| c.load(SeqCst).to_string()).collect::<Vec<_>>().join(",");
            }
            _ => {}
        }
        let csm = match self.csm.as_ref() {
            Some(c) => c,
            None => return "nocsm".into(),
        };
        let st = |r: bool| if r { "ok" } else { "err" };
        match op {
            "add" => {
                let r = csm.add_single_state(p(a[0]), (self.states[p::<usize>(a[1])], self.actions[p::<usize>(a[2])]));
                format!("{}:{}", st(r.is_ok()), csm.len())
            }
            "update" => {
                let r =
                    csm.update_single_state(p(a[0]), (self.states[p::<usize>(a[1])], self.actions[p::<usize>(a[2])]));
                format!("{}:{}", st(r.is_ok()), csm.len())
            }
            "remove" => {
                let r = csm.remove_single_state(p(a[0]));
                format!("{}:{}", st(r.is_ok()), csm.len())
            }
            "updall" => {
                csm.update_all_states(self.pairs(a[0]));
                format!("ok:{}", csm.len())
            }
            "len" => format!("{}:{}", csm.len(), csm.is_empty() as u8),
            "evals" => {
                // special values: the causal functions see them as `obs as i64` (NaN -> 0, ±inf saturate)
                let d = match a[1] {
                    "nan" => f64::NAN,
                    "inf" => f64::INFINITY,
                    "-inf" => f64::NEG_INFINITY,
                    x => p::<i64>(x) as f64,
                };
                let r = csm.eval_single_state(p(a[0]), d);
                format!("{};{}", st(r.is_ok()), Self::take_log())
            }
            "evalall" => {
                let r = csm.eval_all_states();
                format!("{};{}", st(r.is_ok()), Self::take_log())
            }
            _ => "bad-op".into(),
        }
    }
}
