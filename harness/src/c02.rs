//! C02 / C11: nested causaloids (singleton | collection wrapper | graph wrapper), the real ones.
//!
//! `case <n> ctx <m0,m1,…|->`         contexts number 0,1,… whose id is the marker m_k
//! build ops (answer: the new handle, counted from 0; `bad` when the description is unusable):
//!   `s <id> <fn>`                     singleton; fn = p (plain) | i (inverted) | x<k> (contextual, context k) | xn (contextual, None)
//!   `c <id> <h,h,…|-> [k]`            wrapper over a Vec holding clones of the handles (optionally `…_with_context` k)
//!   `g <id> <h,…|-> <a-b,…|-> <r|-> [k]`  wrapper over a graph: nodes added in order (position r through add_root_causaloid), then the edges
//!   `clone <h>`                       `Clone::clone` of handle h (shares the activation cell and the wrapped structure)
//! evaluation ops (answer `<t|f|err|panic>:<is_active of every handle, in handle order>`):
//!   `vs <h> <obs>`                    verify_single_cause
//!   `va <h> <data|-> <idx|-|e>`       verify_all_causes(data, data_index)   (idx `id:pos,…`, `-` = None, `e` = empty map)
//!   `rc <h> <data|->`                 reason_all_causes directly on the Vec wrapped by h
//!   `rg <h> <data|-> <idx|-|e>`       reason_all_causes directly on the graph wrapped by h
//! queries:
//!   `act`                             is_active of every handle
//!   `agg <h>`                         aggregates of the structure wrapped by h:
//!        collection: `<number_active bits>;<percent_active bits|nan>;<get_all_causes_true>;<ids active>;<ids inactive>`
//!        graph:      `<number_active bits>;<percent_active bits|nan>;<all_active>;<size>`
use crate::{p, Interp};
use deep_causality::prelude::*;
use std::collections::HashMap;
use std::panic::{catch_unwind, AssertUnwindSafe};

type C = BaseCausaloid<'static>;
type G = CausaloidGraph<C>;

fn decode(n: u64) -> Result<bool, CausalityError> {
    match n % 3 {
        1 => Ok(true),
        0 => Ok(false),
        _ => Err(CausalityError("encoded error".into())),
    }
}

fn fn_plain(obs: NumericalValue) -> Result<bool, CausalityError> {
    decode(obs as u64)
}

fn fn_inv(obs: NumericalValue) -> Result<bool, CausalityError> {
    decode(obs as u64).map(|b| !b)
}

fn fn_ctx(obs: NumericalValue, ctx: &BaseContext) -> Result<bool, CausalityError> {
    decode(obs as u64 + ctx.id())
}

#[derive(Default)]
pub struct Nest {
    ctxs: Vec<&'static BaseContext>,
    arena: Vec<C>,
    colls: HashMap<usize, &'static Vec<C>>,
    graphs: HashMap<usize, &'static G>,
}

fn list<T: std::str::FromStr>(s: &str) -> Vec<T>
where
    T::Err: std::fmt::Debug,
{
    if s == "-" {
        vec![]
    } else {
        s.split(',').map(p::<T>).collect()
    }
}

fn data(s: &str) -> Vec<NumericalValue> {
    list::<u64>(s).into_iter().map(|v| v as NumericalValue).collect()
}

fn index(s: &str) -> Option<HashMap<IdentificationValue, IdentificationValue>> {
    match s {
        "-" => None,
        "e" => Some(HashMap::new()),
        _ => Some(
            s.split(',')
                .map(|kv| {
                    let (k, v) = kv.split_once(':').expect("bad index entry");
                    (p::<u64>(k), p::<u64>(v))
                })
                .collect(),
        ),
    }
}

fn bits(x: f64) -> String {
    if x.is_nan() {
        "nan".into()
    } else {
        format!("{:016x}", x.to_bits())
    }
}

impl Nest {
    fn flags(&self) -> String {
        if self.arena.is_empty() {
            return "-".into();
        }
        self.arena.iter().map(|c| if c.is_active() { '1' } else { '0' }).collect()
    }

    fn ctx(&self, a: &[&str], i: usize) -> Option<Option<&'static BaseContext>> {
        match a.get(i) {
            None => Some(None),
            Some(k) => self.ctxs.get(p::<usize>(k)).map(|c| Some(*c)),
        }
    }

    fn push(&mut self, c: C) -> String {
        self.arena.push(c);
        (self.arena.len() - 1).to_string()
    }

    fn handles(&self, s: &str) -> Option<Vec<C>> {
        let mut v = vec![];
        for h in list::<usize>(s) {
            v.push(self.arena.get(h)?.clone());
        }
        Some(v)
    }

    fn eval<E>(&self, f: impl FnOnce() -> Result<bool, E>) -> String {
        let verdict = match catch_unwind(AssertUnwindSafe(f)) {
            Ok(Ok(true)) => "t",
            Ok(Ok(false)) => "f",
            Ok(Err(_)) => "err",
            Err(_) => "panic",
        };
        format!("{}:{}", verdict, self.flags())
    }
}

impl Interp for Nest {
    fn case(&mut self, a: &[&str]) -> String {
        // case <n> ctx <markers>
        *self = Nest::default();
        for m in list::<u64>(a[2]) {
            let ctx: BaseContext = Context::with_capacity(m, "ctx", 4);
            self.ctxs.push(Box::leak(Box::new(ctx)));
        }
        "ok".into()
    }

    fn op(&mut self, op: &str, a: &[&str]) -> String {
        match op {
            "s" => {
                let id: u64 = p(a[0]);
                let c: C = match a[1] {
                    "p" => Causaloid::new(id, fn_plain, "plain"),
                    "i" => Causaloid::new(id, fn_inv, "inverted"),
                    "xn" => Causaloid::new_with_context(id, fn_ctx, None, "contextual, no context"),
                    f if f.starts_with('x') => match self.ctxs.get(p::<usize>(&f[1..])) {
                        Some(ctx) => Causaloid::new_with_context(id, fn_ctx, Some(*ctx), "contextual"),
                        None => return "bad".into(),
                    },
                    _ => return "bad".into(),
                };
                self.push(c)
            }
            "c" => {
                let id: u64 = p(a[0]);
                let (items, ctx) = match (self.handles(a[1]), self.ctx(a, 2)) {
                    (Some(i), Some(c)) => (i, c),
                    _ => return "bad".into(),
                };
                let coll: &'static Vec<C> = Box::leak(Box::new(items));
                let c = if a.len() > 2 {
                    Causaloid::from_causal_collection_with_context(id, coll, ctx, "coll+ctx")
                } else {
                    Causaloid::from_causal_collection(id, coll, "coll")
                };
                self.colls.insert(self.arena.len(), coll);
                self.push(c)
            }
            "g" => {
                let id: u64 = p(a[0]);
                let (nodes, ctx) = match (self.handles(a[1]), self.ctx(a, 4)) {
                    (Some(i), Some(c)) => (i, c),
                    _ => return "bad".into(),
                };
                let root: Option<usize> = if a[3] == "-" { None } else { Some(p(a[3])) };
                let mut g: G = CausaloidGraph::new_with_capacity(1 + (id as usize) % 4);
                for (j, n) in nodes.into_iter().enumerate() {
                    let at = if Some(j) == root { g.add_root_causaloid(n) } else { g.add_causaloid(n) };
                    if at != j {
                        return "bad".into();
                    }
                }
                if a[2] != "-" {
                    for e in a[2].split(',') {
                        let (x, y) = e.split_once('-').expect("bad edge");
                        if g.add_edge(p(x), p(y)).is_err() {
                            return "bad".into();
                        }
                    }
                }
                let g: &'static G = Box::leak(Box::new(g));
                let c = if a.len() > 4 {
                    Causaloid::from_causal_graph_with_context(id, g, ctx, "graph+ctx")
                } else {
                    Causaloid::from_causal_graph(id, g, "graph")
                };
                self.graphs.insert(self.arena.len(), g);
                self.push(c)
            }
            "clone" => {
                let h: usize = p(a[0]);
                let c = match self.arena.get(h) {
                    Some(c) => c.clone(),
                    None => return "bad".into(),
                };
                if let Some(v) = self.colls.get(&h).copied() {
                    self.colls.insert(self.arena.len(), v);
                }
                if let Some(g) = self.graphs.get(&h).copied() {
                    self.graphs.insert(self.arena.len(), g);
                }
                self.push(c)
            }
            "vs" => {
                let c = &self.arena[p::<usize>(a[0])];
                let obs = p::<u64>(a[1]) as NumericalValue;
                self.eval(|| c.verify_single_cause(&obs))
            }
            "va" => {
                let c = &self.arena[p::<usize>(a[0])];
                let (d, ix) = (data(a[1]), index(a[2]));
                self.eval(|| c.verify_all_causes(&d, ix.as_ref()))
            }
            "rc" => {
                let v = match self.colls.get(&p::<usize>(a[0])) {
                    Some(v) => *v,
                    None => return "bad".into(),
                };
                let d = data(a[1]);
                self.eval(|| v.reason_all_causes(&d))
            }
            "rg" => {
                let g = match self.graphs.get(&p::<usize>(a[0])) {
                    Some(g) => *g,
                    None => return "bad".into(),
                };
                let (d, ix) = (data(a[1]), index(a[2]));
                self.eval(|| g.reason_all_causes(&d, ix.as_ref()))
            }
            "act" => self.flags(),
            "agg" => {
                let h: usize = p(a[0]);
                let ids = |v: Vec<&C>| -> String {
                    if v.is_empty() {
                        "-".into()
                    } else {
                        v.iter().map(|c| c.id().to_string()).collect::<Vec<_>>().join(",")
                    }
                };
                if let Some(v) = self.colls.get(&h) {
                    let vec_answer = format!(
                        "{};{};{};{};{}",
                        bits(v.number_active()),
                        bits(v.percent_active()),
                        v.get_all_causes_true() as u8,
                        ids(v.get_all_active_causes()),
                        ids(v.get_all_inactive_causes())
                    );
                    // the same members (clones share their activation cells) in a `VecDeque` whose ring buffer is wrapped:
                    // the aggregates are claimed for every supported collection
                    let n = v.len();
                    let mut d: std::collections::VecDeque<C> = std::collections::VecDeque::with_capacity(n + 3);
                    for x in &v[n / 2..] {
                        d.push_back(x.clone());
                    }
                    for x in v[..n / 2].iter().rev() {
                        d.push_front(x.clone());
                    }
                    let deque_answer = format!(
                        "{};{};{};{};{}",
                        bits(d.number_active()),
                        bits(d.percent_active()),
                        d.get_all_causes_true() as u8,
                        ids(d.get_all_active_causes()),
                        ids(d.get_all_inactive_causes())
                    );
                    if vec_answer == deque_answer {
                        vec_answer
                    } else {
                        format!("container-differs:vec={vec_answer}:deque={deque_answer}")
                    }
                } else if let Some(g) = self.graphs.get(&h) {
                    format!(
                        "{};{};{};{}",
                        bits(g.number_active()),
                        bits(g.percent_active()),
                        g.all_active() as u8,
                        g.size()
                    )
                } else {
                    "bad".into()
                }
            }
            _ => "bad-op".into(),
        }
    }
}
