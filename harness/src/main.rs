//! dcv-harness: drives the *real* deep_causality crates from /repo with op lines read from stdin
//! and prints `<line> => <answer>`; one sub-command per property. Generation of cases happens
//! in /verif/check (python); this binary is a pure interpreter, so every case replays exactly.
use std::io::{self, BufRead, Write};
use std::panic::{catch_unwind, AssertUnwindSafe};

mod c07;
mod c16;
mod c17;
mod c02;
mod c11;
mod c03;
mod c18;
mod c12;
mod c08;
mod c09;
mod c01;
mod c10;
mod c19;
mod c19conc;
mod ring;
mod sched;

/// One interpreter per property: `case` starts a fresh implementation state.
pub trait Interp {
    fn case(&mut self, args: &[&str]) -> String;
    fn op(&mut self, op: &str, args: &[&str]) -> String;
    /// further output lines produced by the last `case`/op (ring-buffer traces)
    fn extra_lines(&mut self) -> Vec<String> {
        Vec::new()
    }
}

fn make(prop: &str) -> Option<Box<dyn Interp>> {
    match prop {
        "C07" => Some(Box::new(c07::C07::default())),
        "C16" => Some(Box::new(c16::C16::default())),
        "C17" => Some(Box::new(c17::C17::default())),
        "C02" => Some(Box::new(c02::Nest::default())),
        "C11" => Some(Box::new(c11::C11::default())),
        "C03" => Some(Box::new(c03::C03::default())),
        "C18" => Some(Box::new(c18::C18::default())),
        "C12" => Some(Box::new(c12::C12::default())),
        "C08" => Some(Box::new(c08::C08::default())),
        "C09" => Some(Box::new(c09::C09::default())),
        "C15" => Some(Box::new(c08::C08::default())),
        "C01" => Some(Box::new(c01::C01::default())),
        "C10" => Some(Box::new(c10::C10::default())),
        "C19" => Some(Box::new(c19::C19::default())),
        "C04" | "C05" | "C06" | "C13" | "C14" => Some(Box::new(ring::Ring::default())),
        _ => None,
    }
}

fn main() {
    let prop = std::env::args().nth(1).unwrap_or_default();
    if prop == "--bm-one" {
        let rest: Vec<String> = std::env::args().skip(2).collect();
        c19conc::bm_one(&rest);
    }
    if prop == "--ring-smoke" {
        let rest: Vec<String> = std::env::args().skip(2).collect();
        ring::run_smoke(&rest);
    }
    if prop == "--ring-one" {
        let rest: Vec<String> = std::env::args().skip(2).collect();
        ring::run_one(&rest);
    }
    std::panic::set_hook(Box::new(|_| {})); // panics are answers, not noise
    let mut it = match make(&prop) {
        Some(i) => i,
        None => {
            eprintln!("unknown property {prop}");
            std::process::exit(2)
        }
    };
    let stdin = io::stdin();
    let stdout = io::stdout();
    let mut out = io::BufWriter::new(stdout.lock());
    let mut poisoned = false;
    for line in stdin.lock().lines() {
        let line = line.unwrap();
        let l = line.trim();
        if l.is_empty() || l.starts_with('#') {
            continue;
        }
        let toks: Vec<&str> = l.split_whitespace().collect();
        let ans = if toks[0] == "case" {
            poisoned = false;
            match catch_unwind(AssertUnwindSafe(|| it.case(&toks[1..]))) {
                Ok(a) => a,
                Err(_) => {
                    poisoned = true;
                    it = make(&prop).unwrap();
                    "panic".to_string()
                }
            }
        } else if poisoned {
            "skipped".to_string()
        } else {
            match catch_unwind(AssertUnwindSafe(|| it.op(toks[0], &toks[1..]))) {
                Ok(a) => a,
                Err(_) => "panic".to_string(),
            }
        };
        writeln!(out, "{l} => {ans}").unwrap();
        for x in it.extra_lines() {
            writeln!(out, "{x}").unwrap();
        }
    }
    out.flush().unwrap();
}

pub fn p<T: std::str::FromStr>(s: &str) -> T
where
    T::Err: std::fmt::Debug,
{
    s.parse::<T>().expect("bad number in op line")
}
