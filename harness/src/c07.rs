//! C07: the sliding window over its four storage back-ends, the real ones.
//!
//! `case <id> <kind> <size> <cap|multiple> <ty>` with kind ∈ arr | vec (alias vecfix) | uarr | uvec (the last two only in the
//! `unsafe_impl` build) and ty ∈ u8 | u16 | w3 | u32 | u64 | w12 | w24 (3-, 12- and 24-byte elements). The array storages are const-generic, so they come from a fixed menu
//! of (SIZE, CAPACITY) instantiations (sizes 1…9, every capacity N+1 … 3N, plus a few malformed ones).
//!
//! ops: `push <v>` (answers with the full observation after the push), `obs`, and the single accessors
//! `size | empty | filled | first | last | slice | vec | arr <k>`.
//! observation = `size=…;empty=…;filled=…;first=…;last=…;slice=…;vec=…;arr=…` (arr = `arr::<SIZE>()`),
//! `err` for `Err(_)`, lists as `a,b,c`, `-` for the empty list.
use crate::{p, Interp};
use dcl_data_structures::prelude::*;
use std::fmt::Display;
use std::panic::{catch_unwind, AssertUnwindSafe};
use std::str::FromStr;

pub trait Elem: PartialEq + Copy + Default + Display + FromStr + 'static {}
impl Elem for u8 {}
impl Elem for u16 {}
impl Elem for u32 {}
impl Elem for u64 {}

/// element types whose size does not divide 16 (the unsafe array storage copies in 16-byte chunks plus a remainder): a
/// value `v` is stored as (v, v+1, v+2); a torn or partially copied element prints as `corrupt:…`
#[derive(PartialEq, Copy, Clone, Default)]
pub struct W12(u32, u32, u32);
#[derive(PartialEq, Copy, Clone, Default)]
pub struct W24([u64; 3]);
impl Display for W12 {
    fn fmt(&self, f: &mut std::fmt::Formatter<'_>) -> std::fmt::Result {
        if (self.0 == 0 && self.1 == 0 && self.2 == 0) || (self.1 == self.0.wrapping_add(1) && self.2 == self.0.wrapping_add(2)) {
            write!(f, "{}", self.0)
        } else {
            write!(f, "corrupt:{}/{}/{}", self.0, self.1, self.2)
        }
    }
}
impl FromStr for W12 {
    type Err = std::num::ParseIntError;
    fn from_str(s: &str) -> Result<Self, Self::Err> {
        let v: u32 = s.parse()?;
        Ok(if v == 0 { W12(0, 0, 0) } else { W12(v, v.wrapping_add(1), v.wrapping_add(2)) })
    }
}
impl Display for W24 {
    fn fmt(&self, f: &mut std::fmt::Formatter<'_>) -> std::fmt::Result {
        let a = self.0;
        if (a[0] == 0 && a[1] == 0 && a[2] == 0) || (a[1] == a[0].wrapping_add(1) && a[2] == a[0].wrapping_add(2)) {
            write!(f, "{}", a[0])
        } else {
            write!(f, "corrupt:{}/{}/{}", a[0], a[1], a[2])
        }
    }
}
impl FromStr for W24 {
    type Err = std::num::ParseIntError;
    fn from_str(s: &str) -> Result<Self, Self::Err> {
        let v: u64 = s.parse()?;
        Ok(if v == 0 { W24([0, 0, 0]) } else { W24([v, v.wrapping_add(1), v.wrapping_add(2)]) })
    }
}
impl Elem for W12 {}
impl Elem for W24 {}

/// a 3-byte element (smaller than 4 bytes but not 1: the unsafe array storage's small-type path): `v` stored as (v, v+1, v+2) mod 256
#[derive(PartialEq, Copy, Clone, Default)]
pub struct W3([u8; 3]);
impl Display for W3 {
    fn fmt(&self, f: &mut std::fmt::Formatter<'_>) -> std::fmt::Result {
        let a = self.0;
        if (a[0] == 0 && a[1] == 0 && a[2] == 0) || (a[1] == a[0].wrapping_add(1) && a[2] == a[0].wrapping_add(2)) {
            write!(f, "{}", a[0])
        } else {
            write!(f, "corrupt:{}/{}/{}", a[0], a[1], a[2])
        }
    }
}
impl FromStr for W3 {
    type Err = std::num::ParseIntError;
    fn from_str(s: &str) -> Result<Self, Self::Err> {
        let v: u8 = s.parse()?;
        Ok(if v == 0 { W3([0, 0, 0]) } else { W3([v, v.wrapping_add(1), v.wrapping_add(2)]) })
    }
}
impl Elem for W3 {}

fn list<T: Display>(xs: &[T]) -> String {
    if xs.is_empty() {
        "-".into()
    } else {
        xs.iter().map(|x| x.to_string()).collect::<Vec<_>>().join(",")
    }
}
fn rl<T: Display, L: AsRef<[T]>>(r: Result<L, String>) -> String {
    match r {
        Ok(l) => list(l.as_ref()),
        Err(_) => "err".into(),
    }
}
fn rv<T: Display>(r: Result<T, String>) -> String {
    match r {
        Ok(v) => v.to_string(),
        Err(_) => "err".into(),
    }
}
fn b(x: bool) -> String {
    (x as u8).to_string()
}
fn val<T: FromStr>(s: &str) -> T {
    match s.parse::<T>() {
        Ok(v) => v,
        Err(_) => panic!("value does not fit the element type"),
    }
}

/// object-safe face of `SlidingWindow<S, T>`; `arr(k)` = `arr::<k>()`, `None` when k is not instantiated
trait DynWin {
    fn push(&mut self, v: &str);
    fn get(&self, what: &str) -> String;
    fn arr(&self, k: usize) -> Option<String>;
    fn size(&self) -> usize;
}

fn single<S: WindowStorage<T>, T: Elem>(w: &SlidingWindow<S, T>, what: &str) -> String {
    match what {
        "size" => w.size().to_string(),
        "empty" => b(w.empty()),
        "filled" => b(w.filled()),
        "first" => rv(w.first()),
        "last" => rv(w.last()),
        "slice" => rl(w.slice()),
        "vec" => rl(w.vec()),
        _ => "bad-op".into(),
    }
}

/// const-generic storages: SIZE−1, SIZE, SIZE+1 are the instantiated `arr` widths
struct FixW<S: WindowStorage<T>, T: Elem, const NM: usize, const N: usize, const NP: usize>(SlidingWindow<S, T>);

impl<S: WindowStorage<T>, T: Elem, const NM: usize, const N: usize, const NP: usize> DynWin for FixW<S, T, NM, N, NP> {
    fn push(&mut self, v: &str) {
        self.0.push(val::<T>(v))
    }
    fn get(&self, what: &str) -> String {
        single(&self.0, what)
    }
    fn arr(&self, k: usize) -> Option<String> {
        if k == N {
            Some(rl(self.0.arr::<N>()))
        } else if k == NM {
            Some(rl(self.0.arr::<NM>()))
        } else if k == NP {
            Some(rl(self.0.arr::<NP>()))
        } else {
            None
        }
    }
    fn size(&self) -> usize {
        self.0.size()
    }
}

/// run-time sized storages
struct DynW<S: WindowStorage<T>, T: Elem>(SlidingWindow<S, T>);

impl<S: WindowStorage<T>, T: Elem> DynWin for DynW<S, T> {
    fn push(&mut self, v: &str) {
        self.0.push(val::<T>(v))
    }
    fn get(&self, what: &str) -> String {
        single(&self.0, what)
    }
    fn arr(&self, k: usize) -> Option<String> {
        macro_rules! widths { ($($k:literal),*) => { match k { $( $k => Some(rl(self.0.arr::<$k>())), )* _ => None } } }
        widths!(0, 1, 2, 3, 4, 5, 6, 7, 8, 9, 10, 11, 12)
    }
    fn size(&self) -> usize {
        self.0.size()
    }
}

/// the menu of (SIZE, CAPACITY) instantiations; rows are `(SIZE-1, SIZE, SIZE+1) => [capacities]`
macro_rules! arr_menu {
    ($mk:ident, $store:ident, $ctor:path; $( ($nm:literal, $n:literal, $np:literal) => [$($c:literal),*] );* $(;)?) => {
        fn $mk<T: Elem>(size: usize, cap: usize) -> Option<Box<dyn DynWin>> {
            match (size, cap) {
                $( $( ($n, $c) => {
                    let w: SlidingWindow<$store<T, $n, $c>, T> = $ctor();
                    Some(Box::new(FixW::<$store<T, $n, $c>, T, $nm, $n, $np>(w)))
                } )* )*
                _ => None,
            }
        }
    };
}

arr_menu! { mk_arr, ArrayStorage, window_type::new_with_array_storage;
    (0, 1, 2) => [2, 3];
    (1, 2, 3) => [3, 4, 5, 6];
    (2, 3, 4) => [4, 5, 6, 7, 8, 9, 300];
    (3, 4, 5) => [5, 6, 7, 8, 9, 10, 11, 12];
    (4, 5, 6) => [6, 7, 8, 9, 10, 11, 12, 13, 14, 15];
    (5, 6, 7) => [7, 8, 9, 10, 11, 12, 13, 14, 15, 16, 17, 18];
    (6, 7, 8) => [8, 9, 10, 11, 12, 13, 14, 15, 16, 17, 18, 19, 20, 21];
    (7, 8, 9) => [9, 10, 11, 12, 13, 14, 15, 16, 17, 18, 19, 20, 21, 22, 23, 24];
    (8, 9, 10) => [10, 11, 12, 13, 14, 15, 16, 17, 18, 19, 20, 21, 22, 23, 24, 25, 26, 27];
    // malformed (outside the property's hypotheses): SIZE = 0, CAPACITY <= SIZE (the constructor asserts)
    (0, 0, 1) => [0, 1, 2];
    (11, 12, 13) => [12, 11];
    (12, 13, 14) => [13];
}

#[cfg(feature = "unsafe_impl")]
arr_menu! { mk_uarr, UnsafeArrayStorage, window_type::new_with_unsafe_array_storage;
    (0, 1, 2) => [2, 3];
    (1, 2, 3) => [3, 4, 5, 6];
    (2, 3, 4) => [4, 5, 6, 7, 8, 9, 300];
    (3, 4, 5) => [5, 6, 7, 8, 9, 10, 11, 12];
    (4, 5, 6) => [6, 7, 8, 9, 10, 11, 12, 13, 14, 15];
    (5, 6, 7) => [7, 8, 9, 10, 11, 12, 13, 14, 15, 16, 17, 18];
    (6, 7, 8) => [8, 9, 10, 11, 12, 13, 14, 15, 16, 17, 18, 19, 20, 21];
    (7, 8, 9) => [9, 10, 11, 12, 13, 14, 15, 16, 17, 18, 19, 20, 21, 22, 23, 24];
    (8, 9, 10) => [10, 11, 12, 13, 14, 15, 16, 17, 18, 19, 20, 21, 22, 23, 24, 25, 26, 27];
    // malformed: only what the constructor rejects (anything else would be undefined behaviour)
    (11, 12, 13) => [12, 11];
}

fn mk_vec<T: Elem>(size: usize, multiple: usize) -> Option<Box<dyn DynWin>> {
    Some(Box::new(DynW(window_type::new_with_vector_storage::<T>(size, multiple))))
}

#[cfg(feature = "unsafe_impl")]
fn mk_uvec<T: Elem>(size: usize, multiple: usize) -> Option<Box<dyn DynWin>> {
    Some(Box::new(DynW(window_type::new_with_unsafe_vector_storage::<T>(size, multiple))))
}

fn mk<T: Elem>(kind: &str, size: usize, c: usize) -> Option<Box<dyn DynWin>> {
    match kind {
        "arr" => mk_arr::<T>(size, c),
        // `vecfix` is the same real storage; the token only tells the driver to compare with the model of the repaired file
        "vec" | "vecfix" => mk_vec::<T>(size, c),
        #[cfg(feature = "unsafe_impl")]
        "uarr" => mk_uarr::<T>(size, c),
        #[cfg(feature = "unsafe_impl")]
        "uvec" => mk_uvec::<T>(size, c),
        _ => None,
    }
}

#[derive(Default)]
pub struct C07 {
    win: Option<Box<dyn DynWin>>,
    dead: bool,
}

fn obs(w: &dyn DynWin) -> String {
    let arr = w.arr(w.size()).unwrap_or_else(|| "unsupported".into());
    format!(
        "size={};empty={};filled={};first={};last={};slice={};vec={};arr={}",
        w.get("size"),
        w.get("empty"),
        w.get("filled"),
        w.get("first"),
        w.get("last"),
        w.get("slice"),
        w.get("vec"),
        arr
    )
}

impl Interp for C07 {
    fn case(&mut self, a: &[&str]) -> String {
        // case <id> <kind> <size> <cap|multiple> <ty>
        self.dead = false;
        self.win = None;
        let (kind, size, c, ty) = (a[1], p::<usize>(a[2]), p::<usize>(a[3]), a[4]);
        self.win = match ty {
            "u8" => mk::<u8>(kind, size, c),
            "u16" => mk::<u16>(kind, size, c),
            "w3" => mk::<W3>(kind, size, c),
            "u32" => mk::<u32>(kind, size, c),
            "u64" => mk::<u64>(kind, size, c),
            "w12" => mk::<W12>(kind, size, c),
            "w24" => mk::<W24>(kind, size, c),
            _ => None,
        };
        if self.win.is_some() { "ok".into() } else { "unsupported".into() }
    }
    fn op(&mut self, op: &str, a: &[&str]) -> String {
        if self.dead {
            return "skipped".into();
        }
        let w = match self.win.as_mut() {
            Some(w) => w,
            None => return "skipped".into(),
        };
        let r = catch_unwind(AssertUnwindSafe(|| match op {
            "push" => {
                w.push(a[0]);
                obs(w.as_ref())
            }
            "obs" => obs(w.as_ref()),
            "arr" => w.arr(p::<usize>(a[0])).unwrap_or_else(|| "unsupported".into()),
            "size" | "empty" | "filled" | "first" | "last" | "slice" | "vec" => w.get(op),
            _ => "bad-op".into(),
        }));
        match r {
            Ok(s) => s,
            Err(_) => {
                // a panic may leave the storage half-updated: the case ends here
                self.dead = true;
                "panic".into()
            }
        }
    }
}
