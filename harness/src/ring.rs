//! Ring-buffer cases (C04, C05, C06, C13, C14): real pipelines built with the DSL, run under the
//! deterministic scheduler; the answer of a case is the trace.
//!
//! header: `n=<N> prod=single|multi wait=spin|block stages=<ii/m/…> writers=<b,b|b,…> sched=<…> budget=<steps>`
//!   stages: one group per barrier stage, one letter per handler (`i` immutable, `m` mutable)
//!   writers: batch sizes per writer thread (single producer: exactly one writer, run by the main thread)
//!   sched: `random:<seed>:<stick>` | `replay:<tid,tid,…>[:first|:random:<seed>:<stick>]`
//! Each case runs in a child process (`--ring-one`) so that deadlock / budget / hang end cleanly.
use crate::sched::{self, Line, RunOver, Sched, Strategy};
use crate::Interp;
use dcl_data_structures::ring_buffer::prelude::*;
use dcl_data_structures::ring_buffer::verif_sync;
use std::io::Write as _;
use std::sync::Arc;

#[derive(Clone, Debug)]
pub struct Cfg {
    pub n: usize,
    pub multi: bool,
    pub block: bool,
    pub stages: Vec<Vec<bool>>, // true = mutable
    pub writers: Vec<Vec<usize>>,
    pub sched: String,
    pub budget: u64,
    pub drain: bool,
    /// smoke runs: `with_ring_buffer::<_, N>(N * capmul)` — the capacity argument (the const N is what sizes the ring)
    pub capmul: usize,
    /// … or `N / capdiv` (a capacity argument *smaller* than the const N; still a power of two)
    pub capdiv: usize,
}

pub fn parse_cfg(a: &[&str]) -> Cfg {
    let mut c = Cfg { n: 4, multi: false, block: false, stages: vec![vec![false]], writers: vec![vec![1]],
                      sched: "random:1:128".into(), budget: 200_000, drain: true, capmul: 1, capdiv: 1 };
    for t in a {
        if let Some((k, v)) = t.split_once('=') {
            match k {
                "n" => c.n = v.parse().unwrap(),
                "prod" => c.multi = v == "multi",
                "wait" => c.block = v == "block",
                "stages" => c.stages = v.split('/').map(|g| g.chars().map(|ch| ch == 'm').collect()).collect(),
                "writers" => {
                    c.writers = v
                        .split('|')
                        .map(|w| if w == "-" { vec![] } else { w.split(',').map(|b| b.parse().unwrap()).collect() })
                        .collect()
                }
                "sched" => c.sched = v.to_string(),
                "budget" => c.budget = v.parse().unwrap(),
                "drain" => c.drain = v == "1",
                "capmul" => c.capmul = v.parse().unwrap(),
                "capdiv" => c.capdiv = v.parse().unwrap(),
                _ => {}
            }
        }
    }
    c
}

pub fn parse_strategy(s: &str) -> Strategy {
    let parts: Vec<&str> = s.split(':').collect();
    match parts[0] {
        "random" => Strategy::Random {
            state: parts.get(1).and_then(|x| x.parse().ok()).unwrap_or(1),
            stick: parts.get(2).and_then(|x| x.parse().ok()).unwrap_or(128),
        },
        "replay" => {
            let list = if parts.get(1).map_or(true, |l| l.is_empty() || *l == "-") {
                vec![]
            } else {
                parts[1].split(',').map(|x| x.to_string()).collect()
            };
            let fb = if parts.get(2) == Some(&"random") {
                Strategy::Random {
                    state: parts.get(3).and_then(|x| x.parse().ok()).unwrap_or(1),
                    stick: parts.get(4).and_then(|x| x.parse().ok()).unwrap_or(128),
                }
            } else {
                Strategy::First
            };
            Strategy::Replay { list, pos: 0, fallback: Box::new(fb) }
        }
        // np:<step@tid+step@tid…|->:<yield_after>
        "np" => {
            let forced = match parts.get(1) {
                Some(l) if !l.is_empty() && *l != "-" => l
                    .split('+')
                    .filter_map(|x| x.split_once('@').map(|(a, b)| (a.parse::<u64>().unwrap(), b.to_string())))
                    .collect(),
                _ => vec![],
            };
            Strategy::Np {
                forced,
                yield_after: parts.get(2).and_then(|x| x.parse().ok()).unwrap_or(6),
                loads: Default::default(),
                run_len: 0,
            }
        }
        // lazy:<tid+tid…>:<limit>
        "lazy" => Strategy::Lazy {
            lazy: parts.get(1).map(|l| l.split('+').map(|x| x.to_string()).collect()).unwrap_or_default(),
            limit: parts.get(2).and_then(|x| x.parse().ok()).unwrap_or(12),
            idle: Default::default(),
        },
        _ => Strategy::First,
    }
}

// ------------------------------------------------------------------------------------------------
/// wraps the real ring buffer and logs every slot access
struct LoggingProvider<D: DataProvider<u64>> {
    inner: D,
    sched: &'static Sched,
}

impl<D: DataProvider<u64>> DataProvider<u64> for LoggingProvider<D> {
    fn buffer_size(&self) -> usize {
        self.inner.buffer_size()
    }
    unsafe fn get_mut(&self, sequence: Sequence) -> &mut u64 {
        self.sched.sync_log(format!("slot mut {sequence}"));
        self.inner.get_mut(sequence)
    }
    unsafe fn get(&self, sequence: Sequence) -> &u64 {
        self.sched.sync_log(format!("slot ref {sequence}"));
        self.inner.get(sequence)
    }
}

struct H {
    k: usize,
    j: usize,
    sched: &'static Sched,
}

impl EventHandler<u64> for H {
    fn handle_event(&self, event: &u64, sequence: Sequence, eob: bool) {
        self.sched.log(format!("handle {} {} {} {} {}", self.k, self.j, sequence, *event, eob as u8));
    }
}

struct HM {
    k: usize,
    j: usize,
    sched: &'static Sched,
}

pub fn transform(v: u64, k: usize, j: usize) -> u64 {
    v.wrapping_mul(31).wrapping_add((k * 16 + j + 1) as u64)
}

impl EventHandlerMut<u64> for HM {
    fn handle_event(&mut self, event: &mut u64, sequence: Sequence, eob: bool) {
        self.sched.log(format!("handle {} {} {} {} {}", self.k, self.j, sequence, *event, eob as u8));
        *event = transform(*event, self.k, self.j);
    }
}

/// executor that spawns the runnables as managed threads
struct SchedExecutor<'a> {
    runnables: Vec<Box<dyn Runnable + 'a>>,
}

struct SchedHandle {
    threads: Vec<std::thread::JoinHandle<()>>,
    tids: Vec<String>,
}

thread_local! {
    static TOPO: std::cell::RefCell<(Vec<String>, Option<&'static Sched>)> = const { std::cell::RefCell::new((Vec::new(), None)) };
}

impl<'a> EventProcessorExecutor<'a> for SchedExecutor<'a> {
    type Handle = SchedHandle;
    fn with_runnables(items: Vec<Box<dyn Runnable + 'a>>) -> Self {
        SchedExecutor { runnables: items }
    }
    fn spawn(self) -> SchedHandle {
        let (tids, sched) = TOPO.with(|t| t.borrow().clone());
        let sched = sched.unwrap();
        let mut threads = Vec::new();
        for (r, tid) in self.runnables.into_iter().zip(tids.iter().cloned()) {
            // same lifetime erasure as ThreadedExecutor::spawn
            let b = unsafe { std::mem::transmute::<Box<dyn Runnable + 'a>, Box<dyn Runnable + 'static>>(r) };
            let t2 = tid.clone();
            threads.push(std::thread::spawn(move || {
                sched.enter(&t2);
                let res = std::panic::catch_unwind(std::panic::AssertUnwindSafe(|| b.run()));
                if res.is_err() {
                    sched.log("panic".into());
                }
                sched.exit(&t2);
            }));
            sched.wait_registered(&tid);
        }
        SchedHandle { threads, tids }
    }
}

impl ExecutorHandle for SchedHandle {
    fn join(self) {
        let sched = TOPO.with(|t| t.borrow().1).unwrap();
        sched.join(self.tids.clone());
        for t in self.threads {
            let _ = t.join();
        }
    }
}

fn probe_addr(sched: &'static Sched, c: &Arc<AtomicSequenceOrdered>) -> usize {
    {
        let mut g = sched.m.lock().unwrap();
        g.probing = true;
        g.probe = None;
    }
    let _ = c.get();
    let mut g = sched.m.lock().unwrap();
    g.probing = false;
    g.probe.unwrap_or(0)
}

macro_rules! with_n {
    ($n:expr, $f:ident, $($arg:expr),*) => {
        match $n {
            2 => $f::<2>($($arg),*),
            4 => $f::<4>($($arg),*),
            8 => $f::<8>($($arg),*),
            16 => $f::<16>($($arg),*),
            64 => $f::<64>($($arg),*),
            128 => $f::<128>($($arg),*),
            256 => $f::<256>($($arg),*),
            512 => $f::<512>($($arg),*),
            1024 => $f::<1024>($($arg),*),
            _ => panic!("unsupported ring size"),
        }
    };
}

fn writer_body<P: EventProducer<'static, Item = u64>>(p: &P, w: usize, batches: &[usize], sched: &'static Sched) {
    let mut counter: u64 = 0;
    for &b in batches {
        let items: Vec<u64> = (0..b)
            .map(|_| {
                counter += 1;
                ((w as u64 + 1) << 32) | counter
            })
            .collect();
        sched.log(format!("wbegin {b}"));
        p.write(items, |slot, seq, item| {
            sched.log(format!("write {seq} {item}"));
            *slot = *item;
        });
        sched.log("wend".into());
    }
}

macro_rules! run_writers {
    (single, $producer:ident, $cfg:ident, $sched:ident) => {{
        let producer = $producer; let cfg = $cfg; let sched = $sched;
                writer_body(&producer, 0, &cfg.writers[0], sched);
                if cfg.drain {
                    sched.log("drain".into());
                    producer.drain();
                    sched.log("drained".into());
                } else {
                    drop(producer);
                }
    }};
    (multi, $producer:ident, $cfg:ident, $sched:ident) => {{
        let producer = $producer; let cfg = $cfg; let sched = $sched;
                let producer = Arc::new(producer);
                let mut hs = Vec::new();
                let mut wt = Vec::new();
                for (w, batches) in cfg.writers.iter().enumerate() {
                    let p = producer.clone();
                    let batches = batches.clone();
                    let tid = format!("W{w}");
                    let t2 = tid.clone();
                    hs.push(std::thread::spawn(move || {
                        sched.enter(&t2);
                        let res = std::panic::catch_unwind(std::panic::AssertUnwindSafe(|| {
                            writer_body(&*p, w, &batches, sched)
                        }));
                        if res.is_err() {
                            sched.log("panic".into());
                        }
                        drop(p);
                        sched.exit(&t2);
                    }));
                    sched.wait_registered(&tid);
                    wt.push(tid);
                }
                sched.join(wt);
                for h in hs {
                    let _ = h.join();
                }
                let producer = match Arc::try_unwrap(producer) {
                    Ok(p) => p,
                    Err(_) => panic!("producer still shared"),
                };
                if cfg.drain {
                    sched.log("drain".into());
                    producer.drain();
                    sched.log("drained".into());
                } else {
                    drop(producer);
                }
    }};
}

fn run_pipeline<const N: usize>(cfg: &Cfg, sched: &'static Sched, header_out: &mut String) {
    let provider = Arc::new(LoggingProvider { inner: RingBuffer::<u64, N>::new(), sched });
    let b0 = RustDisruptorBuilder::new::<_, u64>(provider);
    macro_rules! finish {
        ($b1:expr, $seqty:ident, $wty:ty, $kind:ident) => {{
            // `with_single_producer()` / `with_multi_producer()` are sugar for exactly this; building the sequencer
            // here lets the harness learn the address of the producer cursor
            let sequencer = $seqty::<$wty>::new(N, <$wty as WaitStrategy>::new());
            let pc_addr = probe_addr(sched, &sequencer.get_cursor());
            header_out.push_str(&format!(" pc={pc_addr}"));
            let b2 = $b1.with_sequencer(sequencer);
            // stage wiring through the public DSL; cursors probed through `handle_events_with`
            let mut cursor_addrs: Vec<(usize, usize, usize)> = Vec::new();
            let mut tids: Vec<String> = Vec::new();
            let stages = cfg.stages.clone();
            let add = |scope: &mut BarrierScope<'static, _, _, u64>, k: usize, stage: &Vec<bool>,
                           cursor_addrs: &mut Vec<(usize, usize, usize)>, tids: &mut Vec<String>| {
                for (j, &m) in stage.iter().enumerate() {
                    if m {
                        let p = BatchEventProcessor::create_mut(HM { k, j, sched });
                        cursor_addrs.push((k, j, probe_addr(sched, &p.get_cursor())));
                        scope.handle_events_with(p);
                    } else {
                        let p = BatchEventProcessor::create(H { k, j, sched });
                        cursor_addrs.push((k, j, probe_addr(sched, &EventProcessorMut::get_cursor(&p))));
                        scope.handle_events_with(p);
                    }
                    tids.push(format!("H{k}.{j}"));
                }
            };
            let mut b3 = b2.with_barrier(|scope| add(scope, 0, &stages[0], &mut cursor_addrs, &mut tids));
            for k in 1..stages.len() {
                b3 = b3.with_barrier(|scope| add(scope, k, &stages[k], &mut cursor_addrs, &mut tids));
            }
            let (executor, producer) = b3.build_with_executor::<SchedExecutor<'static>>();
            for (k, j, a) in &cursor_addrs {
                header_out.push_str(&format!(" c{k}.{j}={a}"));
            }
            TOPO.with(|t| *t.borrow_mut() = (tids.clone(), Some(sched)));
            *HEADER.lock().unwrap() = header_out.clone();
            // ---- the managed part starts here
            sched.enter_main();
            let handle = executor.spawn();
            run_writers!($kind, producer, cfg, sched);
            handle.join();
            sched.log("joined".into());
        }};
    }
    // the facade types make `Producer` for the multi sequencer Sync; the single one is used on one thread only
    match (cfg.block, cfg.multi) {
        (false, false) => finish!(b0.with_spin_wait(), SingleProducerSequencer, SpinLoopWaitStrategy, single),
        (true, false) => finish!(b0.with_blocking_wait(), SingleProducerSequencer, BlockingWaitStrategy, single),
        (false, true) => finish!(b0.with_spin_wait(), MultiProducerSequencer, SpinLoopWaitStrategy, multi),
        (true, true) => finish!(b0.with_blocking_wait(), MultiProducerSequencer, BlockingWaitStrategy, multi),
    }
}

/// runs one case in this process and prints the trace; never returns
pub fn run_one(args: &[String]) -> ! {
    let refs: Vec<&str> = args.iter().map(|s| s.as_str()).collect();
    let cfg = parse_cfg(&refs);
    let sched: &'static Sched = Box::leak(Box::new(Sched::new(parse_strategy(&cfg.sched), cfg.budget)));
    verif_sync::set_hook(&sched::HOOK);
    *sched::CURRENT.lock().unwrap() = Some(sched);
    // a run that is over early (deadlock / budget / replay divergence) is reported from inside the scheduling point
    // of the main thread: unwinding it would run `Drop` of the sequencer, whose `signal()` is itself a scheduling
    // point (a panic inside a destructor during cleanup aborts the process and loses the trace)
    let _ = sched::ON_RUN_OVER.set(Box::new(move || {
        let status = sched.m.lock().unwrap().status.clone().unwrap_or_else(|| "panic".into());
        let header = HEADER.lock().unwrap().clone();
        report(sched, &header, status)
    }));
    let mut header = String::new();
    let res = std::panic::catch_unwind(std::panic::AssertUnwindSafe(|| {
        with_n!(cfg.n, run_pipeline, &cfg, sched, &mut header);
    }));
    let status = match (&res, &sched.m.lock().unwrap().status) {
        (Ok(()), _) => "ok".to_string(),
        (Err(e), Some(s)) if e.is::<RunOver>() => s.clone(),
        (Err(_), _) => "panic".to_string(),
    };
    report(sched, &header, status)
}

/// header tokens of the running case (probed addresses), for the early-exit report
static HEADER: std::sync::Mutex<String> = std::sync::Mutex::new(String::new());

/// prints the trace and the `end` line, then exits the process
fn report(sched: &'static Sched, header: &str, status: String) -> ! {
    let g = sched.m.lock().unwrap();
    let out = std::io::stdout();
    let mut o = std::io::BufWriter::new(out.lock());
    // addresses -> stable location names `L<k>` / `L<k>+<off>` (contiguous words of one allocation share a base)
    let mut bases: Vec<usize> = Vec::new();
    let mut norm = |tok: &str| -> String {
        match tok.parse::<usize>() {
            Ok(a) if a > (1usize << 20) => {
                for (k, b) in bases.iter().enumerate() {
                    if a >= *b && a - *b < 8192 && (a - *b) % 8 == 0 {
                        return if a == *b { format!("L{k}") } else { format!("L{k}+{}", a - *b) };
                    }
                }
                bases.push(a);
                format!("L{}", bases.len() - 1)
            }
            _ => tok.to_string(),
        }
    };
    let mut body: Vec<String> = Vec::new();
    for l in &g.trace {
        let is_sync = !l.en.is_empty();
        let text = if is_sync {
            let toks: Vec<&str> = l.text.split(' ').collect();
            toks.iter()
                .enumerate()
                .map(|(i, t)| if i == 1 || (i == 2 && toks[0] == "cvwait") { norm(t) } else { t.to_string() })
                .collect::<Vec<_>>()
                .join(" ")
        } else {
            l.text.clone()
        };
        body.push(Line { tid: l.tid.clone(), text, en: l.en.clone(), obs: l.obs }.render());
    }
    let header: String = header
        .split(' ')
        .map(|t| match t.split_once('=') {
            Some((k, v)) => format!("{k}={}", norm(v)),
            None => t.to_string(),
        })
        .collect::<Vec<_>>()
        .join(" ");
    writeln!(o, "HEADER{header}").unwrap();
    for l in &body {
        writeln!(o, "{l}").unwrap();
    }
    let sched_list: Vec<&str> = g.trace.iter().filter(|l| !l.en.is_empty()).map(|l| l.tid.as_str()).collect();
    writeln!(o, "end steps={} schedule={} => {}", g.steps, sched_list.join(","), status).unwrap();
    o.flush().unwrap();
    drop(o);
    std::process::exit(0)
}


// ------------------------------------------------------------------------------------------------
/// smoke run (`smoke=1`): the same pipeline through `build()` — the repository's own `ThreadedExecutor`, real OS threads,
/// no scheduler (no hook is registered, the facade passes straight through). The events are reported per thread (there is
/// no global order), so only per-handler delivery, payloads and termination are judged.
struct SmokeH {
    k: usize,
    j: usize,
    log: Arc<std::sync::Mutex<Vec<String>>>,
}
impl EventHandler<u64> for SmokeH {
    fn handle_event(&self, event: &u64, sequence: Sequence, eob: bool) {
        self.log.lock().unwrap().push(format!("H{}.{} handle {} {} {} {} {} => -", self.k, self.j, self.k, self.j, sequence, *event, eob as u8));
    }
}
struct SmokeHM {
    k: usize,
    j: usize,
    log: Arc<std::sync::Mutex<Vec<String>>>,
}
impl EventHandlerMut<u64> for SmokeHM {
    fn handle_event(&mut self, event: &mut u64, sequence: Sequence, eob: bool) {
        self.log.lock().unwrap().push(format!("H{}.{} handle {} {} {} {} {} => -", self.k, self.j, self.k, self.j, sequence, *event, eob as u8));
        *event = transform(*event, self.k, self.j);
    }
}

fn smoke_writer<P: EventProducer<'static, Item = u64>>(p: &P, w: usize, batches: &[usize], tid: &str, log: &Arc<std::sync::Mutex<Vec<String>>>) {
    let mut counter: u64 = 0;
    for &b in batches {
        let items: Vec<u64> = (0..b).map(|_| { counter += 1; ((w as u64 + 1) << 32) | counter }).collect();
        log.lock().unwrap().push(format!("{tid} wbegin {b} => -"));
        let mut mine: Vec<String> = Vec::new();
        let cell = std::cell::RefCell::new(&mut mine);
        p.write(items, |slot, seq, item| {
            cell.borrow_mut().push(format!("{tid} write {seq} {item} => -"));
            *slot = *item;
        });
        let mut l = log.lock().unwrap();
        l.extend(mine);
        l.push(format!("{tid} wend => -"));
    }
}

macro_rules! smoke_produce {
    (single, $producer:ident, $cfg:ident, $log:ident) => {{
        smoke_writer(&$producer, 0, &$cfg.writers[0], "M", $log);
        $log.lock().unwrap().push("M drain => -".into());
        $producer.drain();
        $log.lock().unwrap().push("M drained => -".into());
    }};
    (multi, $producer:ident, $cfg:ident, $log:ident) => {{
        let producer = Arc::new($producer);
        let hs: Vec<_> = $cfg
            .writers
            .iter()
            .cloned()
            .enumerate()
            .map(|(w, batches)| {
                let p = producer.clone();
                let log = $log.clone();
                std::thread::spawn(move || smoke_writer(&*p, w, &batches, &format!("W{w}"), &log))
            })
            .collect();
        for h in hs {
            let _ = h.join();
        }
        let producer = Arc::try_unwrap(producer).ok().expect("producer still shared");
        $log.lock().unwrap().push("M drain => -".into());
        producer.drain();
        $log.lock().unwrap().push("M drained => -".into());
    }};
}

fn smoke_pipeline<const N: usize>(cfg: &Cfg, log: &Arc<std::sync::Mutex<Vec<String>>>) {
    macro_rules! go {
        ($b1:expr, $mk:ident, $kind:ident) => {{
            let stages = cfg.stages.clone();
            let mk_stage = |scope: &mut BarrierScope<'static, _, _, u64>, k: usize, stage: &Vec<bool>| {
                for (j, &m) in stage.iter().enumerate() {
                    if m {
                        scope.handle_events_mut(SmokeHM { k, j, log: log.clone() });
                    } else {
                        scope.handle_events(SmokeH { k, j, log: log.clone() });
                    }
                }
            };
            let mut b3 = $b1.$mk().with_barrier(|scope| mk_stage(scope, 0, &stages[0]));
            for k in 1..stages.len() {
                b3 = b3.with_barrier(|scope| mk_stage(scope, k, &stages[k]));
            }
            let (executor, producer) = b3.build();
            let handle = executor.spawn();
            smoke_produce!($kind, producer, cfg, log);
            handle.join();
            log.lock().unwrap().push("M joined => -".into());
        }};
    }
    let b0 = RustDisruptorBuilder::with_ring_buffer::<u64, N>(N * cfg.capmul / cfg.capdiv);
    match (cfg.block, cfg.multi) {
        (false, false) => go!(b0.with_spin_wait(), with_single_producer, single),
        (true, false) => go!(b0.with_blocking_wait(), with_single_producer, single),
        (false, true) => go!(b0.with_spin_wait(), with_multi_producer, multi),
        (true, true) => go!(b0.with_blocking_wait(), with_multi_producer, multi),
    }
}

/// runs one smoke case in this process and prints its events; never returns (the parent's watchdog handles hangs)
pub fn run_smoke(args: &[String]) -> ! {
    let refs: Vec<&str> = args.iter().map(|s| s.as_str()).collect();
    let cfg = parse_cfg(&refs);
    let log: Arc<std::sync::Mutex<Vec<String>>> = Arc::new(std::sync::Mutex::new(Vec::new()));
    let res = std::panic::catch_unwind(std::panic::AssertUnwindSafe(|| {
        with_n!(cfg.n, smoke_pipeline, &cfg, &log);
    }));
    println!("HEADER smoke");
    for l in log.lock().unwrap().iter() {
        println!("{l}");
    }
    println!("end steps=0 schedule=- => {}", if res.is_ok() { "ok" } else { "panic" });
    std::process::exit(0)
}

// ------------------------------------------------------------------------------------------------
/// parent-side interpreter: every `case` line spawns a child process and forwards its trace
#[derive(Default)]
pub struct Ring {
    pub extra: Vec<String>,
}

/// runs one case in a child process; returns the header tokens and the trace lines (always closed by an `end` line)
fn run_child(tokens: &[String]) -> (String, Vec<String>) {
    let exe = std::env::current_exe().unwrap();
    let mode = if tokens.iter().any(|t| t == "smoke=1") { "--ring-smoke" } else { "--ring-one" };
    let mut child = std::process::Command::new(exe)
        .arg(mode)
        .args(tokens)
        .stdout(std::process::Stdio::piped())
        .stderr(std::process::Stdio::null())
        .spawn()
        .unwrap();
    let timeout = std::time::Duration::from_secs(
        std::env::var("VERIF_RING_TIMEOUT").ok().and_then(|v| v.parse().ok()).unwrap_or(20),
    );
    let start = std::time::Instant::now();
    let mut out = child.stdout.take().unwrap();
    let reader = std::thread::spawn(move || {
        let mut s = String::new();
        use std::io::Read;
        let _ = out.read_to_string(&mut s);
        s
    });
    let mut hung = false;
    loop {
        match child.try_wait() {
            Ok(Some(_)) => break,
            _ => {
                if start.elapsed() > timeout {
                    let _ = child.kill();
                    let _ = child.wait();
                    hung = true;
                    break;
                }
                std::thread::sleep(std::time::Duration::from_millis(1));
            }
        }
    }
    let text = reader.join().unwrap_or_default();
    let mut lines: Vec<String> = text.lines().map(|l| l.to_string()).collect();
    let header = if !lines.is_empty() && lines[0].starts_with("HEADER") {
        lines.remove(0)[6..].to_string()
    } else {
        String::new()
    };
    if hung {
        lines.push("end steps=0 schedule=- => hang".into());
    } else if !lines.last().map_or(false, |l| l.starts_with("end ")) {
        lines.push("end steps=0 schedule=- => crash".into());
    }
    (header, lines)
}

/// bounded-preemption search (`sched=dfs:<bound>:<maxruns>[:<yield_after>]`): breadth first over sets of at most `bound`
/// forced scheduling choices on top of the non-preemptive round-robin schedule; every *distinct* schedule found is one
/// `run` block of the answer (the driver starts a fresh model at each `run` line and judges each `end`)
fn dfs(tokens: &[String], spec: &str) -> Vec<String> {
    let parts: Vec<&str> = spec.split(':').collect();
    let bound: usize = parts.get(1).and_then(|x| x.parse().ok()).unwrap_or(1);
    let maxruns: usize = parts.get(2).and_then(|x| x.parse().ok()).unwrap_or(500);
    let ya: u32 = parts.get(3).and_then(|x| x.parse().ok()).unwrap_or(6);
    let mut queue: std::collections::VecDeque<Vec<(u64, String)>> = std::collections::VecDeque::new();
    queue.push_back(vec![]);
    let mut seen = std::collections::HashSet::new();
    let mut out = Vec::new();
    let (mut runs, mut distinct) = (0usize, 0usize);
    while let Some(forced) = queue.pop_front() {
        if runs >= maxruns {
            break;
        }
        runs += 1;
        let enc = if forced.is_empty() {
            "-".to_string()
        } else {
            forced.iter().map(|(s, t)| format!("{s}@{t}")).collect::<Vec<_>>().join("+")
        };
        let mut toks: Vec<String> = tokens.iter().filter(|t| !t.starts_with("sched=")).cloned().collect();
        toks.push(format!("sched=np:{enc}:{ya}"));
        let (header, lines) = run_child(&toks);
        // the scheduled steps: (tid, enabled set)
        let steps: Vec<(String, Vec<String>)> = lines
            .iter()
            .filter_map(|l| {
                let en = l.split(' ').find_map(|t| t.strip_prefix("en="))?;
                Some((l.split(' ').next()?.to_string(), en.split(',').map(|x| x.to_string()).collect()))
            })
            .collect();
        let key = steps.iter().map(|(t, _)| t.as_str()).collect::<Vec<_>>().join(",");
        if !seen.insert(key) {
            continue;
        }
        distinct += 1;
        out.push(format!("run {distinct} forced={enc} => ok{header}"));
        out.extend(lines);
        if forced.len() < bound {
            let from = forced.last().map(|x| x.0 as usize + 1).unwrap_or(0);
            for (i, (tid, en)) in steps.iter().enumerate().skip(from) {
                for u in en {
                    if u != tid {
                        let mut f = forced.clone();
                        f.push((i as u64, u.clone()));
                        queue.push_back(f);
                    }
                }
            }
        }
    }
    out.push(format!("dfs-summary runs={runs} distinct={distinct} exhausted={} => -", queue.is_empty() as u8));
    out
}

impl Interp for Ring {
    fn case(&mut self, a: &[&str]) -> String {
        // a[0] = case id, rest = header tokens
        let tokens: Vec<String> = a[1..].iter().map(|x| x.to_string()).collect();
        if let Some(spec) = tokens.iter().find_map(|t| t.strip_prefix("sched=dfs")) {
            let spec = format!("dfs{spec}");
            self.extra = dfs(&tokens, &spec);
            return "ok dfs".into();
        }
        let (header, lines) = run_child(&tokens);
        self.extra = lines;
        format!("ok{header}")
    }
    fn op(&mut self, _op: &str, _a: &[&str]) -> String {
        "bad-op".into()
    }
    fn extra_lines(&mut self) -> Vec<String> {
        std::mem::take(&mut self.extra)
    }
}
