//! C19: BitMap + log2, the real ones.
use crate::{p, Interp};
use dcl_data_structures::ring_buffer::prelude::*;
use std::num::NonZeroUsize;

#[derive(Default)]
pub struct C19 {
    bm: Option<BitMap>,
}

impl Interp for C19 {
    fn case(&mut self, a: &[&str]) -> String {
        // case <n> cap <c>
        let cap: usize = p(a[2]);
        self.bm = Some(BitMap::new(NonZeroUsize::new(cap).unwrap()));
        "ok".into()
    }
    fn op(&mut self, op: &str, a: &[&str]) -> String {
        match op {
            "log2" => log2(p::<u64>(a[0])).to_string(),
            _ => {
                let bm = self.bm.as_ref().unwrap();
                let s: u64 = p(a[0]);
                match op {
                    "set" => {
                        bm.set(s);
                        "ok".into()
                    }
                    "unset" => {
                        bm.unset(s);
                        "ok".into()
                    }
                    "isset" => (bm.is_set(s) as u8).to_string(),
                    _ => "bad-op".into(),
                }
            }
        }
    }
}
