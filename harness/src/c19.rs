//! C19: BitMap + log2, the real ones.
use crate::{p, Interp};
use dcl_data_structures::ring_buffer::prelude::*;
use std::num::NonZeroUsize;

#[derive(Default)]
pub struct C19 {
    bm: Option<BitMap>,
    /// concurrent case (`case <n> conc cap <c> sched=<…>`): calls are queued and run by `go` in a child process under
    /// the deterministic scheduler
    conc: Option<(usize, String)>,
    queued: Vec<String>,
}

impl Interp for C19 {
    fn case(&mut self, a: &[&str]) -> String {
        // case <n> cap <c>   |   case <n> conc cap <c> sched=<spec>
        self.conc = None;
        self.queued.clear();
        if a[1] == "conc" {
            let cap: usize = p(a[3]);
            let sched = a.iter().find_map(|t| t.strip_prefix("sched=")).unwrap_or("random:1:64").to_string();
            self.conc = Some((cap, sched));
            return "ok".into();
        }
        let cap: usize = p(a[2]);
        self.bm = Some(BitMap::new(NonZeroUsize::new(cap).unwrap()));
        "ok".into()
    }
    fn op(&mut self, op: &str, a: &[&str]) -> String {
        match op {
            "log2" => log2(p::<u64>(a[0])).to_string(),
            "t" if self.conc.is_some() => {
                self.queued.push(format!("{}:{}:{}", a[0], a[1], a[2]));
                "queued".into()
            }
            "go" if self.conc.is_some() => {
                let (cap, sched) = self.conc.clone().unwrap();
                let out = std::process::Command::new(std::env::current_exe().unwrap())
                    .arg("--bm-one")
                    .arg(cap.to_string())
                    .arg(sched)
                    .arg("20000")
                    .args(&self.queued)
                    .stderr(std::process::Stdio::null())
                    .output();
                match out {
                    Ok(o) => {
                        let t = String::from_utf8_lossy(&o.stdout).trim().to_string();
                        if t.is_empty() {
                            "events=- final=- status=crash".into()
                        } else {
                            t
                        }
                    }
                    Err(_) => "events=- final=- status=crash".into(),
                }
            }
            _ => {
                let bm = self.bm.as_ref().unwrap();
                let s: u64 = p(a[0]);
                match op {
                    "set" => {
                        bm.set(s);
                        "ok".into()
                    }
                    "unset" => {
                        bm.unset(s);
                        "ok".into()
                    }
                    "isset" => (bm.is_set(s) as u8).to_string(),
                    _ => "bad-op".into(),
                }
            }
        }
    }
}
