import DcVerif.Props.C19
import DcVerif.Props.C07
