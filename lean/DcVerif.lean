import DcVerif.Props.C19
