import DcVerif.Props.C19
import DcVerif.Props.C07
import DcVerif.Props.C04
import DcVerif.Props.C13
import DcVerif.Props.C14
