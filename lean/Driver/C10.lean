import Driver.C01
/-! Driver for C10 (shortest-path reasoning): the graph ops of C01 plus
`sp <start> <stop> <data> <idx> => <result>;<flags>;<log>;<path of get_shortest_path | ->`.
The path is the implementation's tie-break (external nondeterminism): the model replays the evaluation along *that* path,
the spec oracle accepts it only if it is a real start→stop path whose weight equals the Floyd–Warshall distance. -/
namespace Driver.C10
open Driver CausalGraph Driver.C01

def parsePath (s : String) : Option (Option (List Nat)) :=
  if s == "-" then some none
  else if s == "empty" then some (some [])
  else if s == "panic" then none
  else some (some (parseList s))

def showAnswer (g : CG) (flags : List Bool) (data : List Nat) (idx : Option (List (Nat × Nat)))
    (ev : Nat → Option Dfs.V) (res : Res) (log : List Nat) (path : String) : String :=
  let fl := applyLog ev flags log
  let obs := log.map fun v => (obsAt g data idx v).getD 0
  s!"{showRes res};{showFlags fl};{showList obs};{path}"

def onSp (s : St) (args : List String) (ans : String) : St × List String :=
  let arg (i : Nat) := args.getD i ""
  let (a, b, data, idx) := (natArg args 0, natArg args 1, parseList (arg 2), parseIdx (arg 3))
  let s := { s with tab := some s.table }
  let g := s.g
  match ans.splitOn ";" with
  | [_, fl, _, pathStr] =>
    match parsePath pathStr with
    | none => ({ s with flags := parseFlags fl }, [s!"MISMATCH impl={ans} model=get_shortest_path-does-not-panic"])
    | some path =>
      -- model: replay along the implementation's path
      let guard := nodeCount g = 0 || !contains g a || !contains g b || a == b
      let (res, log) := reasonShortest g a b data idx path
      let m := showAnswer g s.flags data idx (evalAt g data idx) res log (if guard then "-" else pathStr)
      -- spec
      let tab := s.table
      let ev := CausalSpec.verdictAt g data idx
      let sp : List String :=
        if CausalSpec.spErr g tab a b then
          let want := s!"err;{showFlags s.flags};-;-"
          if ans == want then [] else [s!"SPECFAIL impl={ans} spec={want}"]
        else
          match path with
          | none => [s!"SPECFAIL impl={ans} spec=a-path-exists dist={tab.get a b}"]
          | some p =>
            if !CausalSpec.isMinPath g tab a b p then
              [s!"SPECFAIL impl-path={pathStr} spec=minimum-weight-path dist={tab.get a b} weight={FW.checkPath (weight g) a b p}"]
            else
              match CausalSpec.conjAlong ev p with
              | none => []          -- a causaloid on the path has no observation: outside the statement
              | some r =>
                let want := showAnswer g s.flags data idx ev r (CausalSpec.evalPrefix ev p) pathStr
                if ans == want then [] else [s!"SPECFAIL impl={ans} spec={want}"]
      ({ s with flags := applyLog (evalAt g data idx) s.flags log }, mism ans m ++ sp)
  | _ => (s, [s!"MISMATCH impl={ans} model=result;flags;log;path"])

def handler : Handler St where
  init := {}
  onCase _ _ := ({}, [])
  onOp s op args ans := if op == "sp" then onSp s args ans else C01.onOp s op args ans

end Driver.C10
