import Driver.C02
/-! C11 shares protocol, model and replay with C02 (`Driver.C02.handlerFor`); in this mode the implementation's flags and
aggregates are judged by the activation laws (shared cells, wrapper = any member, frame, flag mirrors a direct evaluation,
aggregates = recount over the implementation's own member flags with the `f64` arithmetic re-done in `Float`). -/
namespace Driver.C11
def handler : Driver.Handler Driver.C02.St := Driver.C02.handlerFor .c11
end Driver.C11
