import Driver.Common
import DcVerif.Model.BitMap
namespace Driver.C19
open Driver

structure St where
  cap : Nat := 1
  pow2 : Bool := true
  bm : Option Gen.BitMap.BitMap := none      -- model (generated functions); none = out-of-bounds reached
  hist : List Spec.BitMap.Op := []            -- spec state, newest first
  conc : Bool := false                        -- concurrent case: calls are queued per thread and run by `go`
  thr : List (Nat × List Spec.BitMap.Op) := []   -- per thread, oldest first

def isPow2 (c : Nat) : Bool := c > 0 && (c &&& (c - 1)) == 0

def addOp (thr : List (Nat × List Spec.BitMap.Op)) (t : Nat) (o : Spec.BitMap.Op) : List (Nat × List Spec.BitMap.Op) :=
  if thr.any (·.1 == t) then thr.map (fun (t', l) => if t' == t then (t', l ++ [o]) else (t', l)) else thr ++ [(t, [o])]

/-- the merged call order of a concurrent run, reconstructed from the order of the threads' read-modify-write events:
the i-th event of thread `t` is its i-th call; `none` when a thread did not perform exactly one RMW of the expected kind
per call (`set` = one `for`, `unset` = one `fand`) -/
def merge (thr : List (Nat × List Spec.BitMap.Op)) (events : List (Nat × String)) : Option (List Spec.BitMap.Op) :=
  let rec go (rest : List (Nat × List Spec.BitMap.Op)) (evs : List (Nat × String)) (acc : List Spec.BitMap.Op) :
      Option (List Spec.BitMap.Op) :=
    match evs with
    | [] => if rest.all (·.2.isEmpty) then some acc.reverse else none
    | (t, kind) :: more =>
      match (rest.find? (·.1 == t)).map (·.2) with
      | some (o :: os) =>
        let want := match o with | .set _ => "for" | .unset _ => "fand"
        if kind == want then go (rest.map (fun (t', l) => if t' == t then (t', os) else (t', l))) more (o :: acc) else none
      | _ => none
  go thr events []

def parseEvents (s : String) : List (Nat × String) :=
  if s == "-" then [] else (s.splitOn ",").filterMap fun e =>
    match e.splitOn ":" with
    | [t, k] => (((t.drop 1).toString).toNat?).map (fun n => (n, k))
    | _ => none

def parseFinal (s : String) : List (Nat × Bool) :=
  if s == "-" then [] else (s.splitOn ",").filterMap fun e =>
    match e.splitOn ":" with
    | [q, v] => q.toNat?.map (fun n => (n, v == "1"))
    | _ => none

def field (ans : String) (k : String) : String :=
  (((ans.splitOn " ").filterMap fun t => if t.startsWith (k ++ "=") then some (t.drop (k.length + 1)).toString else none).head?).getD ""

def handler : Handler St where
  init := {}
  onCase args _ :=
    if args.head? == some "conc" then
      let c := natArg args 2
      ({ cap := c, pow2 := isPow2 c, bm := some (Gen.BitMap.build c), hist := [], conc := true, thr := [] }, [])
    else
      let c := natArg args 1
      ({ cap := c, pow2 := isPow2 c, bm := some (Gen.BitMap.build c), hist := [] }, [])
  onOp s op args ans :=
    let x := natArg args 0
    match op with
    | "log2" => (s, judge ans (some (toString (Gen.BitMap.log2 x))) (some (toString (Nat.log2 x))))
    | "t" =>
      -- `t <thread> set|unset <seq>`: queued, run by `go`
      let q := natArg args 2
      let o : Spec.BitMap.Op := if args.getD 1 "" == "set" then .set q else .unset q
      ({ s with thr := addOp s.thr x o }, judge ans (some "queued") none)
    | "go" =>
      let status := field ans "status"
      let events := parseEvents (field ans "events")
      let final := parseFinal (field ans "final")
      if status != "ok" then (s, [s!"SPECFAIL concurrent run ended with status {status}"]) else
      -- spec: the threads own disjoint residue classes, so every sequence answers as if its owner had run alone
      let specMsgs := final.filterMap fun (q, v) =>
        let owner := s.thr.find? (fun (_, l) => l.any (fun o => o.seq % s.cap == q % s.cap))
        match owner with
        | some (t, l) =>
          let want := Spec.BitMap.isSet s.cap l.reverse q
          if want == v then none else some s!"SPECFAIL concurrent calls on distinct residues: is_set({q})={boolStr v} but thread T{t} alone leaves {boolStr want}"
        | none => none
      -- model: each call is one atomic RMW; replay the merged order on the generated functions
      let modelMsgs := match merge s.thr events with
        | none => ["MISMATCH a call is not exactly one atomic read-modify-write of the expected kind (set = fetch_or, unset = fetch_and)"]
        | some m =>
          match Model.BitMap.run (Gen.BitMap.build s.cap) m with
          | none => ["MISMATCH model reaches an out-of-bounds index"]
          | some bm => final.filterMap fun (q, v) =>
              match Gen.BitMap.is_set bm q with
              | some b => if b == v then none else some s!"MISMATCH is_set({q}) impl={boolStr v} model={boolStr b} (merged order)"
              | none => some "MISMATCH model is_set out of bounds"
      (s, modelMsgs ++ (if s.pow2 then specMsgs else []))
    | "set" | "unset" =>
      let o : Spec.BitMap.Op := if op == "set" then .set x else .unset x
      let bm' := s.bm.bind (fun bm => Model.BitMap.apply bm o)
      let m := if bm'.isSome then "ok" else "ub"
      ({ s with bm := bm', hist := o :: s.hist }, judge ans (some m) (some "ok"))
    | "isset" =>
      let m := match s.bm.bind (fun bm => Gen.BitMap.is_set bm x) with
        | some b => boolStr b
        | none => "ub"
      let sp := if s.pow2 then some (boolStr (Spec.BitMap.isSet s.cap s.hist x)) else none
      (s, judge ans (some m) sp)
    | _ => (s, ["MISMATCH unknown-op"])

end Driver.C19
