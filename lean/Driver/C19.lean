import Driver.Common
import DcVerif.Model.BitMap
namespace Driver.C19
open Driver

structure St where
  cap : Nat := 1
  pow2 : Bool := true
  bm : Option Gen.BitMap.BitMap := none      -- model (generated functions); none = out-of-bounds reached
  hist : List Spec.BitMap.Op := []            -- spec state, newest first

def isPow2 (c : Nat) : Bool := c > 0 && (c &&& (c - 1)) == 0

def handler : Handler St where
  init := {}
  onCase args _ :=
    let c := natArg args 1
    ({ cap := c, pow2 := isPow2 c, bm := some (Gen.BitMap.build c), hist := [] }, [])
  onOp s op args ans :=
    let x := natArg args 0
    match op with
    | "log2" => (s, judge ans (some (toString (Gen.BitMap.log2 x))) (some (toString (Nat.log2 x))))
    | "set" | "unset" =>
      let o : Spec.BitMap.Op := if op == "set" then .set x else .unset x
      let bm' := s.bm.bind (fun bm => Model.BitMap.apply bm o)
      let m := if bm'.isSome then "ok" else "ub"
      ({ s with bm := bm', hist := o :: s.hist }, judge ans (some m) (some "ok"))
    | "isset" =>
      let m := match s.bm.bind (fun bm => Gen.BitMap.is_set bm x) with
        | some b => boolStr b
        | none => "ub"
      let sp := if s.pow2 then some (boolStr (Spec.BitMap.isSet s.cap s.hist x)) else none
      (s, judge ans (some m) sp)
    | _ => (s, ["MISMATCH unknown-op"])

end Driver.C19
