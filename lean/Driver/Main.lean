import Driver.C07
import Driver.C16
import Driver.C17
import Driver.C02
import Driver.C11
import Driver.C03
import Driver.C18
import Driver.C12
import Driver.C08
import Driver.C09
import Driver.C15
import Driver.C01
import Driver.C10
import Driver.C19
import Driver.Ring
open Driver

def main (args : List String) : IO UInt32 := do
  match args with
  | ["C07"] => run C07.handler
  | ["C16"] => run C16.handler
  | ["C17"] => run C17.handler
  | ["C02"] => run C02.handler
  | ["C11"] => run C11.handler
  | ["C03"] => run C03.handler
  | ["C18"] => run C18.handler
  | ["C12"] => run C12.handler
  | ["C08"] => run C08.handler
  | ["C09"] => run C09.handler
  | ["C15"] => run C15.handler
  | ["C01"] => run C01.handler
  | ["C10"] => run C10.handler
  | ["C19"] => run C19.handler
  | ["C04"] => run (Ring.handler "C04")
  | ["C05"] => run (Ring.handler "C05")
  | ["C06"] => run (Ring.handler "C06")
  | ["C13"] => run (Ring.handler "C13")
  | ["C14"] => run (Ring.handler "C14")
  | _ => do
    IO.eprintln "usage: dcv-driver <property id>   (annotated op lines on stdin)"
    return 2
