import Driver.C19
open Driver

def main (args : List String) : IO UInt32 := do
  match args with
  | ["C19"] => run C19.handler
  | _ => do
    IO.eprintln "usage: dcv-driver <property id>   (annotated op lines on stdin)"
    return 2
