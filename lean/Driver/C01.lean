import Driver.Common
import DcVerif.Spec.CausalGraph
/-! Driver for C01 (graph reasoning = conjunction over the reachable set); `Driver/C10.lean` adds the `sp` op.
Line format: see `harness/src/c01.rs`. -/
namespace Driver.C01
open Driver CausalGraph

structure St where
  g : CG := {}
  flags : List Bool := []          -- activation flag per node index
  tab : Option FW.Mat := none      -- cached all-pairs table of `g` (spec oracle), dropped when the graph changes

def St.table (s : St) : FW.Mat :=
  match s.tab with
  | some t => t
  | none => CausalSpec.table s.g

def fuel : Nat := 20000000

def parseList (s : String) : List Nat :=
  if s == "-" || s == "" then [] else (s.splitOn ",").map fun x => x.toNat?.getD 0

def parseIdx (s : String) : Option (List (Nat × Nat)) :=
  if s == "-" then none
  else if s == "e" then some []
  else some ((s.splitOn ",").map fun kv =>
    match kv.splitOn ":" with
    | [k, v] => (k.toNat?.getD 0, v.toNat?.getD 0)
    | _ => (0, 0))

def parseFn (s : String) : Fn :=
  if s == "p" then .plain else if s == "i" then .inv else .ctx ((s.drop 1).toString.toNat?.getD 0)

def showList (l : List Nat) : String := if l.isEmpty then "-" else ",".intercalate (l.map toString)
def showFlags (f : List Bool) : String := if f.isEmpty then "-" else String.ofList (f.map fun b => if b then '1' else '0')
def showRes : Res → String
  | .ok true => "t" | .ok false => "f" | .err => "err" | .panic => "panic"

def parseRes (s : String) : Option Res :=
  if s == "t" then some (.ok true) else if s == "f" then some (.ok false) else if s == "err" then some .err
  else if s == "panic" then some .panic else none

def parseFlags (s : String) : List Bool := if s == "-" then [] else s.toList.map (· == '1')

/-- model answer of a DFS reasoning call + new flags -/
def dfsAnswer (s : St) (data : List Nat) (idx : Option (List (Nat × Nat))) (r : Option (Res × List Nat)) :
    String × List Bool :=
  match r with
  | none => ("diverges", s.flags)
  | some (res, log) =>
    let fl := applyLog (evalAt s.g data idx) s.flags log
    let obs := log.map fun v => (obsAt s.g data idx v).getD 0
    (s!"{showRes res};{showFlags fl};{showList obs}", fl)

/-- spec judgement of a reasoning call from `start` (C01) -/
def specDfs (s : St) (start : Nat) (data : List Nat) (idx : Option (List (Nat × Nat))) (ans : String) : List String :=
  match ans.splitOn ";" with
  | [r, fl, _] =>
    match parseRes r with
    | none => [s!"SPECFAIL impl={r} spec=t|f|err"]
    | some res =>
      let tab := s.table
      let reach := CausalSpec.reachSet s.g tab start
      let verdicts := reach.map (CausalSpec.verdictAt s.g data idx)
      let after := parseFlags fl
      (if CausalSpec.allowed verdicts res then [] else
        [s!"SPECFAIL impl={r} spec=conjunction-over-reachable verdicts={verdicts.map fun v => match v with | some .t => "t" | some .f => "f" | some .e => "e" | none => "-"}"]) ++
      (if CausalSpec.flagsAllowed reach res s.flags after then [] else
        [s!"SPECFAIL impl-flags={fl} spec=only-reachable-evaluated before={showFlags s.flags}"])
  | _ => [s!"SPECFAIL impl={ans} spec=result;flags;log"]

/-- guard failures the code documents: error, nothing evaluated -/
def specGuard (s : St) (ans : String) : List String :=
  let want := s!"err;{showFlags s.flags};-"
  if ans == want then [] else [s!"SPECFAIL impl={ans} spec={want}"]

def mism (impl model : String) : List String := if impl == model then [] else [s!"MISMATCH impl={impl} model={model}"]

def onOp (s : St) (op : String) (args : List String) (ans : String) : St × List String :=
  let arg (i : Nat) := args.getD i ""
  match op with
  | "add" | "root" =>
    let nd : Node := { id := natArg args 0, fn := parseFn (arg 1) }
    let (g', i) := if op == "add" then addNode s.g nd else addRoot s.g nd
    ({ g := g', flags := s.flags ++ [false], tab := none }, judge ans (some (toString i)) (some (toString s.flags.length)))
  | "edge" | "wedge" =>
    let (a, b) := (natArg args 0, natArg args 1)
    let w := if op == "edge" then 0 else natArg args 2
    match addEdge s.g a b w with
    | some g' => ({ s with g := g', tab := none }, judge ans (some "ok") none)
    | none => (s, judge ans (some "err") none)
  | "info" =>
    let g := s.g
    let m := s!"{nodeCount g},{if nodeCount g = 0 then "e" else toString (lastIndex g)},{match g.root with | some r => toString r | none => "-"}"
    (s, judge ans (some m) none)
  | "all" =>
    let s := { s with tab := some s.table }
    let (data, idx) := (parseList (arg 0), parseIdx (arg 1))
    let (m, fl) := dfsAnswer s data idx (reasonAll fuel s.g data idx)
    let sp := match s.g.root with
      | none => specGuard s ans
      | some r => if data.isEmpty then specGuard s ans else specDfs s r data idx ans
    ({ s with flags := fl }, mism ans m ++ sp)
  | "sub" =>
    let s := { s with tab := some s.table }
    let (start, data, idx) := (natArg args 0, parseList (arg 1), parseIdx (arg 2))
    let (m, fl) := dfsAnswer s data idx (reasonSub fuel s.g start data idx)
    let sp := if data.isEmpty || !(start < s.g.upper) then specGuard s ans else specDfs s start data idx ans
    ({ s with flags := fl }, mism ans m ++ sp)
  | "single" =>
    let (i, data) := (natArg args 0, parseList (arg 1))
    let (res, obs) := reasonSingle s.g i data
    let fl := match getNode s.g i with
      | some nd => obs.foldl (fun fl o => applyVerdict fl i (nd.fn.apply o)) s.flags
      | none => s.flags
    let m := s!"{showRes res};{showFlags fl};{showList obs}"
    -- `reason_single_cause` is outside C01's statement: model only
    ({ s with flags := fl }, mism ans m)
  | _ => (s, ["MISMATCH unknown-op"])

def handler : Handler St where
  init := {}
  onCase _ _ := ({}, [])
  onOp := onOp

end Driver.C01
