import Driver.Common
import DcVerif.Model.Reasoning
/-! Float plumbing and answer rendering shared by the C18 and C12 drivers: the member predicates of the Rust code
on real `f64` values (execution only — no theorem mentions `Float`), and the canonical dump strings of
harness/src/c18.rs computed once through `Model.Reasoning` and once through `Spec.Reasoning`. -/
namespace Driver.Reasoning
open Driver Spec.Reasoning Model.Reasoning

def hexDigit (c : Char) : Nat := if c.isDigit then c.toNat - 48 else c.toNat - 87

/-- 16 hex digits (or `nan`) → bit pattern -/
def parseBits (s : String) : UInt64 :=
  if s == "nan" then 0x7ff8000000000000 else (s.toList.foldl (fun acc c => acc * 16 + hexDigit c) 0).toUInt64

def hex16 (n : UInt64) : String :=
  let d := Nat.toDigits 16 n.toNat
  String.ofList (List.replicate (16 - d.length) '0' ++ d)

/-- harness `hx` -/
def hx (f : Float) : String := if f.isNaN then "nan" else hex16 f.toBits

def fb (b : UInt64) : Float := Float.ofBits b

/-- `f64::trunc` -/
def trunc (x : Float) : Float := if x < 0 then x.ceil else x.floor

/-- `approx_equal(a, b, 4)`: `factor = 10f64.powi(4); (a*factor).trunc() == (b*factor).trunc()` -/
def approxEqual (a b : UInt64) : Bool :=
  let factor : Float := 10000.0
  trunc (fb a * factor) == trunc (fb b * factor)

/-- `f64::total_cmp` on the raw patterns -/
def cmpBits (a b : UInt64) : Ordering := totalCmp a.toNat b.toNat
def geBits (a b : UInt64) : Bool := decide (fb a ≥ fb b)
def eqBits (a b : UInt64) : Bool := fb a == fb b

/-- `abs_num` -/
def absNumF (v : Float) : Float := if v > 0.0 then v else -1.0 * v

/-- exact value of a finite pattern -/
def ratOfBits (b : UInt64) : Option Rat :=
  let n : Nat := b.toNat
  let sign : Rat := if n ≥ 2 ^ 63 then -1 else 1
  let e : Nat := (n / 2 ^ 52) % 2048
  let m : Nat := n % 2 ^ 52
  let mant : Nat := 2 ^ 52 + m
  if e == 2047 then none
  else if e == 0 then some (sign * (m : Rat) / (2 : Rat) ^ (1074 : Nat))
  else some (sign * (mant : Rat) * (2 : Rat) ^ ((e : Int) - 1075))

/-- is the float `f` the rational `r` up to a few roundings (absolute `scale`·2^-50)? ties the exact
percentages of the theorems to the floats the implementation printed -/
def closeTo (f : Float) (r : Rat) (scale : Rat := 100) : Bool :=
  match ratOfBits f.toBits with
  | none => false
  | some q =>
    let d := if q - r < 0 then r - q else q - r
    d ≤ scale / (2 : Rat) ^ 50

def bitsStr (l : List Bool) : String := if l.isEmpty then "-" else String.ofList (l.map (fun b => if b then '1' else '0'))
def idsStr (l : List Nat) : String := if l.isEmpty then "-" else ",".intercalate (l.map toString)
def b01 (b : Bool) : String := if b then "1" else "0"

def pctF (k n : Nat) : Float := (Float.ofNat k / Float.ofNat n) * 100.0

/-! ## assumptions: members are `(id, tested, valid)` in iteration order -/

abbrev AMem := Nat × Bool × Bool

def dumpAssumableModel (ms : List AMem) : String × List String :=
  let tested : AMem → Bool := fun m => m.2.1
  let valid : AMem → Bool := fun m => m.2.2
  let nv := numberValid valid ms
  let pv := pctF nv ms.length
  let s := s!"ord={idsStr (ms.map (·.1))};t={bitsStr (ms.map tested)};v={bitsStr (ms.map valid)};" ++
    s!"at={b01 (allTested tested ms)};av={b01 (allValid valid ms)};nv={hx (Float.ofNat nv)};pv={hx pv};" ++
    s!"inv={idsStr ((getAllInvalid valid ms).map (·.1))};val={idsStr ((getAllValid valid ms).map (·.1))};" ++
    s!"tes={idsStr ((getAllTested tested ms).map (·.1))};unt={idsStr ((getAllUntested tested ms).map (·.1))};" ++
    s!"len={ms.length};e={b01 ms.isEmpty}"
  (s, if ms.isEmpty || closeTo pv (percentValid valid ms) then [] else ["MISMATCH rational-percentage-differs-from-float"])

def dumpAssumableSpec (ms : List AMem) : String :=
  let tested : AMem → Bool := fun m => m.2.1
  let valid : AMem → Bool := fun m => m.2.2
  let k := count valid ms
  s!"ord={idsStr (ms.map (·.1))};t={bitsStr (ms.map tested)};v={bitsStr (ms.map valid)};" ++
    s!"at={b01 (ms.all tested)};av={b01 (ms.all valid)};nv={hx (Float.ofNat k)};pv={hx (pctF k ms.length)};" ++
    s!"inv={idsStr ((ms.filter (fun m => !valid m)).map (·.1))};val={idsStr ((ms.filter valid).map (·.1))};" ++
    s!"tes={idsStr ((ms.filter tested).map (·.1))};unt={idsStr ((ms.filter (fun m => !tested m)).map (·.1))};" ++
    s!"len={ms.length};e={b01 (ms.length == 0)}"

/-! ## inferences: members are `(id, inference over bit patterns)` -/

abbrev IMem := Nat × Inference UInt64

def isInf (m : IMem) : Bool := isInferable cmpBits approxEqual m.2
def isInv (m : IMem) : Bool := isInverseInferable cmpBits approxEqual m.2

def itemConjointDelta (i : Inference UInt64) : Float := absNumF (1.0 - fb i.obs)

def collConjointDeltaF (n non : Nat) : Float :=
  let total := Float.ofNat n
  let cum := total - Float.ofNat non
  absNumF (1.0 - (cum / total))

def dumpInferableModel (ms : List IMem) : String × List String :=
  let items := ms.map (·.2)
  -- ids of `items.filter p` (a filter keeps order, so it commutes with forgetting the ids)
  let idOf := fun (p : Inference UInt64 → Bool) => (ms.filter (fun m => p m.2)).map (·.1)
  let pI := isInferable cmpBits approxEqual
  let pV := isInverseInferable cmpBits approxEqual
  let pN := isNonInferable cmpBits approxEqual
  let ni := numberInferable cmpBits approxEqual items
  let nv := numberInverseInferable cmpBits approxEqual items
  let nn := numberNonInferable cmpBits approxEqual items
  let n := items.length
  let s := s!"ord={idsStr (ms.map (·.1))};mi={bitsStr (items.map pI)};mv={bitsStr (items.map pV)};" ++
    s!"mc={if items.isEmpty then "-" else ",".intercalate (items.map (fun i => hx (itemConjointDelta i)))};" ++
    s!"inf={idsStr (idOf pI)};" ++
    s!"inv={idsStr (idOf pV)};" ++
    s!"non={idsStr (idOf pN)};" ++
    s!"ai={b01 (allInferable cmpBits approxEqual items)};av={b01 (allInverseInferable cmpBits approxEqual items)};" ++
    s!"an={b01 (allNonInferable cmpBits approxEqual items)};" ++
    s!"ni={hx (Float.ofNat ni)};nv={hx (Float.ofNat nv)};nn={hx (Float.ofNat nn)};" ++
    s!"pi={hx (pctF ni n)};pv={hx (pctF nv n)};pn={hx (pctF nn n)};cd={hx (collConjointDeltaF n nn)};" ++
    s!"len={n};e={b01 items.isEmpty}"
  let ok := items.isEmpty ||
    (closeTo (pctF ni n) (percentInferable cmpBits approxEqual items) &&
     closeTo (pctF nv n) (percentInverseInferable cmpBits approxEqual items) &&
     (percentNonInferable cmpBits approxEqual items == 0) && (conjointDelta cmpBits approxEqual items == 0) &&
     -- the filters really are what the id lists say
     (getAllInferable cmpBits approxEqual items).length == (idOf pI).length &&
     (getAllInverseInferable cmpBits approxEqual items).length == (idOf pV).length &&
     (getAllNonInferable cmpBits approxEqual items).length == (idOf pN).length)
  (s, if ok then [] else ["MISMATCH rational-percentage-differs-from-float"])

def dumpInferableSpec (ms : List IMem) : String :=
  let gt := fun (m : IMem) => cmpBits m.2.obs m.2.thr == .gt
  let lt := fun (m : IMem) => cmpBits m.2.obs m.2.thr == .lt
  let ap := fun (m : IMem) => approxEqual m.2.eff m.2.tgt
  let pI := fun m => gt m && ap m
  let pV := fun m => lt m && ap m
  let ni := count pI ms
  let nv := count pV ms
  let n := ms.length
  -- no member is both, so the whole `non_inferable` family is empty / zero
  s!"ord={idsStr (ms.map (·.1))};mi={bitsStr (ms.map pI)};mv={bitsStr (ms.map pV)};" ++
    s!"mc={if ms.isEmpty then "-" else ",".intercalate (ms.map (fun m => hx (itemConjointDelta m.2)))};" ++
    s!"inf={idsStr ((ms.filter pI).map (·.1))};inv={idsStr ((ms.filter pV).map (·.1))};non=-;" ++
    s!"ai={b01 (ms.all pI)};av={b01 (ms.all pV)};an=0;" ++
    s!"ni={hx (Float.ofNat ni)};nv={hx (Float.ofNat nv)};nn={hx (Float.ofNat 0)};" ++
    s!"pi={hx (pctF ni n)};pv={hx (pctF nv n)};pn={hx (pctF 0 n)};cd={hx (collConjointDeltaF n 0)};" ++
    s!"len={n};e={b01 (n == 0)}"

/-! ## observations -/

abbrev OMem := Nat × Observation UInt64

def dumpObservableModel (ms : List OMem) (thr e : UInt64) : String × List String :=
  let items := ms.map (·.2)
  let no := numberObservation geBits eqBits items thr e
  let n := items.length
  let po := Float.ofNat no / Float.ofNat n
  let nnI := numberNonObservation geBits eqBits items thr e
  let s := s!"ord={idsStr (ms.map (·.1))};m={bitsStr (items.map (effectObserved geBits eqBits thr e))};" ++
    s!"no={hx (Float.ofNat no)};nn={hx (Float.ofNat n - Float.ofNat no)};po={hx po};pn={hx (1.0 - po)};" ++
    s!"len={n};e={b01 items.isEmpty}"
  let ok := items.isEmpty ||
    (closeTo po (percentObservation geBits eqBits items thr e) 1 &&
     closeTo (1.0 - po) (percentNonObservation geBits eqBits items thr e) 1 &&
     Float.ofInt nnI == Float.ofNat n - Float.ofNat no)
  (s, if ok then [] else ["MISMATCH rational-percentage-differs-from-float"])

def dumpObservableSpec (ms : List OMem) (thr e : UInt64) : String :=
  let p := fun (m : OMem) => geBits m.2.obs thr && eqBits m.2.eff e
  let k := count p ms
  let n := ms.length
  let nonk := count (fun m => !p m) ms
  let po := Float.ofNat k / Float.ofNat n
  s!"ord={idsStr (ms.map (·.1))};m={bitsStr (ms.map p)};" ++
    s!"no={hx (Float.ofNat k)};nn={hx (Float.ofNat nonk)};po={hx po};pn={hx (1.0 - po)};" ++
    s!"len={n};e={b01 (n == 0)}"

end Driver.Reasoning
