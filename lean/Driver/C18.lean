import Driver.Reasoning
/-! Driver for C18: assumptions (flags under verification histories + aggregates), inferences, observations. -/
namespace Driver.C18
open Driver Driver.Reasoning Spec.Reasoning Model.Reasoning

/-- harness `AFNS[j]`: bit `j` of the integer data value -/
def afn (j : Nat) (d : Int) : Bool := (d / (2 ^ j : Int)) % 2 == 1

structure St where
  kind : String := ""
  -- assumptions: model members and, for the spec, every member's verdict history (newest first)
  asm : List (Assumption Int) := []
  kinds : List Nat := []
  hist : List (List Bool) := []
  inf : List (Inference UInt64) := []
  obs : List (Observation UInt64) := []

def amemsModel (s : St) : List AMem := s.asm.zipIdx.map (fun (a, i) => (i, a.flags.tested, a.flags.valid))
def amemsSpec (s : St) : List AMem := s.hist.zipIdx.map (fun (h, i) => (i, tested h, valid h))

def answerA (s : St) (pre : Option String) (spre : Option String) (ans : String) : List String :=
  let (m, extra) := dumpAssumableModel (amemsModel s)
  let sp := dumpAssumableSpec (amemsSpec s)
  let wrap := fun (p : Option String) (x : String) => match p with | some p => p ++ "|" ++ x | none => x
  judge ans (some (wrap pre m)) (some (wrap spre sp)) ++ extra

def handler : Handler St where
  init := {}
  onCase args _ :=
    let kind := args.getD 0 ""
    if kind == "assume" then
      let ks := if args.getD 1 "-" == "-" then [] else ((args.getD 1 "").splitOn ",").map (fun k => k.toNat?.getD 0)
      ({ kind := kind, kinds := ks, asm := ks.map (fun k => { fn := afn k }), hist := ks.map (fun _ => []) }, [])
    else ({ kind := kind }, [])
  onOp s op args ans :=
    match s.kind, op with
    | "assume", "q" => (s, answerA s none none ans)
    | "assume", "verify" =>
      let i := natArg args 0
      let d := (args.getD 1 "0").toInt?.getD 0
      let (asm', r) := verifyAt s.asm i d
      -- spec: the verdict is the function's verdict; the member's history grows by it
      let sv := (s.kinds[i]?).map (fun k => afn k d)
      let hist' := match sv with
        | some v => s.hist.modify i (fun h => v :: h)
        | none => s.hist
      let s' := { s with asm := asm', hist := hist' }
      let str := fun (o : Option Bool) => match o with | some b => b01 b | none => "panic"
      match r, sv with
      | some _, some _ => (s', answerA s' (some (str r)) (some (str sv)) ans)
      | _, _ => (s', judge ans (some "panic") (some "panic"))
    | "assume", "verifyall" =>
      let d := (args.getD 0 "0").toInt?.getD 0
      let s' := { s with asm := verifyAll s.asm d,
                         hist := (s.hist.zip s.kinds).map (fun (h, k) => afn k d :: h) }
      (s', answerA s' (some "ok") (some "ok") ans)
    | "infer", "push" =>
      let i : Inference UInt64 := ⟨parseBits (args.getD 0 ""), parseBits (args.getD 1 ""), parseBits (args.getD 2 ""),
        parseBits (args.getD 3 "")⟩
      let s' := { s with inf := s.inf ++ [i] }
      let ms : List IMem := s'.inf.zipIdx.map (fun (x, j) => (j, x))
      let (m, extra) := dumpInferableModel ms
      (s', judge ans (some m) (some (dumpInferableSpec ms)) ++ extra)
    | "infer", "q" =>
      let ms : List IMem := s.inf.zipIdx.map (fun (x, j) => (j, x))
      let (m, extra) := dumpInferableModel ms
      (s, judge ans (some m) (some (dumpInferableSpec ms)) ++ extra)
    | "observe", "push" =>
      let o : Observation UInt64 := ⟨parseBits (args.getD 0 ""), parseBits (args.getD 1 "")⟩
      ({ s with obs := s.obs ++ [o] }, judge ans (some "ok") (some "ok"))
    | "observe", "q" =>
      let ms : List OMem := s.obs.zipIdx.map (fun (x, j) => (j, x))
      let thr := parseBits (args.getD 0 "")
      let e := parseBits (args.getD 1 "")
      let (m, extra) := dumpObservableModel ms thr e
      (s, judge ans (some m) (some (dumpObservableSpec ms thr e)) ++ extra)
    | _, _ => (s, ["MISMATCH unknown-op"])

end Driver.C18
