import Driver.C08
import DcVerif.Model.Ctx
/-! C09 driver: replays `Context` op lines on `Model.Ctx` and judges the implementation's answers with the
executable specification `Spec.Context`. `snap n k` re-reads the base context, every extra context `1 … k+1`
(selecting each in turn — the last one does not exist — and restoring the selection) and both index maps. -/
namespace Driver.C09
open Driver Spec Spec.Context Model
open Spec.DiGraph (Out)

def parseOp (op : String) (a : List String) : Option Op :=
  let n := natArg a
  let flag := fun i => n i != 0
  match op with
  | "add" => some (.addNode (n 0))
  | "hasnode" => some (.containsNode (n 0))
  | "get" => some (.getNode (n 0))
  | "rmnode" => some (.removeNode (n 0))
  | "edge" => some (.addEdge (n 0) (n 1) (n 2 % 4))
  | "hasedge" => some (.containsEdge (n 0) (n 1))
  | "rmedge" => some (.removeEdge (n 0) (n 1))
  | "size" => some .size
  | "empty" => some .isEmpty
  | "nnodes" => some .nodeCount
  | "nedges" => some .edgeCount
  | "xnew" => some (.xAddNew (flag 1))
  | "xexists" => some (.xCheckExists (n 0))
  | "xcur" => some .xGetCurrent
  | "xset" => some (.xSetCurrent (n 0))
  | "xunset" => some .xUnset
  | "xadd" => some (.xAddNode (n 0))
  | "xhasnode" => some (.xContainsNode (n 0))
  | "xget" => some (.xGetNode (n 0))
  | "xrmnode" => some (.xRemoveNode (n 0))
  | "xedge" => some (.xAddEdge (n 0) (n 1) (n 2 % 4))
  | "xhasedge" => some (.xContainsEdge (n 0) (n 1))
  | "xrmedge" => some (.xRemoveEdge (n 0) (n 1))
  | "xsize" => some .xSize
  | "xempty" => some .xIsEmpty
  | "xnnodes" => some .xNodeCount
  | "xnedges" => some .xEdgeCount
  | "setidx" => some (.setIndex (n 0) (n 1) (flag 2))
  | "getidx" => some (.getIndex (n 0) (flag 1))
  | _ => none

/-- the implementation's answer as an `Out`, by the shape the operation's answers can have -/
def parseOut (op : Op) (ans : String) : Option Out :=
  let okErr : Option Out := if ans == "ok" then some .ok else if ans == "err" then some .err else none
  let bool : Option Out := if ans == "1" then some (.bool true) else if ans == "0" then some (.bool false) else none
  let orErr (f : String → Option Out) : Option Out := if ans == "err" then some .err else f ans
  match op with
  | .addNode _ => ans.toNat?.map .idx
  | .xAddNode _ => orErr (fun a => a.toNat?.map .idx)
  | .removeNode _ | .addEdge _ _ _ | .removeEdge _ _ | .xSetCurrent _ | .xUnset | .setIndex _ _ _
  | .xRemoveNode _ | .xAddEdge _ _ _ | .xRemoveEdge _ _ => okErr
  | .containsNode _ | .containsEdge _ _ | .isEmpty | .xCheckExists _ | .xContainsNode _ | .xContainsEdge _ _ => bool
  | .xIsEmpty => orErr (fun _ => bool)
  | .getNode _ | .getIndex _ _ => if ans == "none" then some (.optNat none) else ans.toNat?.map (fun v => .optNat (some v))
  | .xGetNode _ => orErr (fun a => a.toNat?.map (fun v => .optNat (some v)))
  | .size | .nodeCount | .edgeCount | .xAddNew _ | .xGetCurrent => ans.toNat?.map .nat
  | .xSize | .xNodeCount | .xEdgeCount => orErr (fun a => a.toNat?.map .nat)

/-- the harness's `snap n k`, generic in the machine answering the operations -/
def snapshot {σ : Type} (stepF : σ → Op → σ × Out) (s0 : σ) (n k : Nat) : σ × String :=
  let r := fun (s : σ) (op : Op) => C08.renderOut (stepF s op).2
  let idxs := List.range n
  let graph := fun (s : σ) (x : Bool) =>
    let cn := fun i => if x then Op.xContainsNode i else Op.containsNode i
    let gn := fun i => if x then Op.xGetNode i else Op.getNode i
    let ce := fun i j => if x then Op.xContainsEdge i j else Op.containsEdge i j
    let live := idxs.filterMap (fun i =>
      match (stepF s (cn i)).2, (stepF s (gn i)).2 with
      | .bool false, .optNat none => none
      | .bool false, .err => none
      | .bool true, .optNat (some v) => some s!"{i}={v}"
      | .bool true, _ => some s!"{i}=?"
      | .bool false, .optNat (some v) => some s!"{i}=!{v}"
      | _, _ => some s!"{i}=panic")
    let ces := idxs.flatMap (fun i => idxs.filterMap (fun j =>
      match (stepF s (ce i j)).2 with
      | .bool true => some s!"{i}:{j}"
      | .bool false => none
      | _ => some s!"{i}:{j}:panic"))
    let (o1, o2, o3, o4) := if x then (Op.xNodeCount, Op.xSize, Op.xIsEmpty, Op.xEdgeCount)
                            else (Op.nodeCount, Op.size, Op.isEmpty, Op.edgeCount)
    s!"n={r s o1};sz={r s o2};emp={r s o3};e={r s o4};live={C08.commaList live};ce={C08.commaList ces}"
  let cur := match (stepF s0 .xGetCurrent).2 with
    | .nat c => c
    | _ => 0
  let parts0 := [s!"cur={r s0 .xGetCurrent}", s!"B[{graph s0 false}]"]
  let (s1, parts1) := (List.range (k + 1)).foldl (fun (acc : σ × List String) j =>
    let x := j + 1
    let (s, parts) := acc
    let ex := r s (.xCheckExists x)
    let (s', o) := stepF s (.xSetCurrent x)
    if o == Out.ok then (s', parts ++ [s!"X{x}[ex={ex};{graph s' true}]"])
    else (s', parts ++ [s!"X{x}[ex={ex};refused;cur={r s' .xGetCurrent}]"])) (s0, parts0)
  let (s2, o) := stepF s1 (.xSetCurrent cur)
  let back := s!"back={boolStr (o == Out.ok)}/{r s2 .xGetCurrent}"
  let im := idxs.filterMap (fun key =>
    let f := fun (c : Bool) => match (stepF s2 (.getIndex key c)).2 with
      | .optNat (some v) => toString v
      | .optNat none => "_"
      | _ => "panic"
    let (x, y) := (f true, f false)
    if x != "_" || y != "_" then some s!"{key}:{x}/{y}" else none)
  (s2, ";".intercalate (parts1 ++ [back, s!"idx={C08.commaList im}"]))

structure St where
  c : Ctx := {}
  s : Option Context := some {}
  dead : Bool := false

def handler : Handler St where
  init := {}
  onCase _ _ := ({}, [])
  onOp st op args ans :=
    if st.dead then (st, []) else
    let st1 := if ans == "panic" then { st with dead := true } else st
    if op == "id" then (st1, judge ans (some "1") (some "1"))
    else if op == "name" then (st1, judge ans (some "base") (some "base"))
    else if op == "snap" then
      let (n, k) := (natArg args 0, natArg args 1)
      let (c', m) := snapshot Ctx.step st.c n k
      let sp := st.s.map (fun s => snapshot Context.det s n k)
      ({ st1 with c := c', s := sp.map (·.1) }, judge ans (some m) (sp.map (·.2)))
    else match parseOp op args with
      | none => (st1, ["MISMATCH unknown-op"])
      | some o =>
        let (c', mo) := Ctx.step st.c o
        let mism := if C08.renderOut mo == ans then [] else [s!"MISMATCH impl={ans} model={C08.renderOut mo}"]
        match st.s with
        | none => ({ st1 with c := c' }, mism)
        | some sp =>
          let expect := match o with
            | .addNode _ => "an-index-that-is-not-live"
            | .xAddNode _ => if sp.selected.isSome then "an-index-that-is-not-live" else "err"
            | _ => C08.renderOut (sp.det o).2
          match (parseOut o ans).bind (fun out => Context.step sp o out) with
          | some sp' => ({ st1 with c := c', s := some sp' }, mism)
          | none => ({ st1 with c := c', s := none }, mism ++ [s!"SPECFAIL impl={ans} spec={expect}"])

end Driver.C09
