import Driver.Common
import DcVerif.Model.Adjustable
/-! C16 driver. `case <id> <kind> <gridkind> <coords>`; ops `set <x,y,z,t> <v>`, `grid <x,y,z,t=v;…>` (fresh grid),
`node <coords>` (fresh node), `update`, `adjust`.
Model = the generated `Gen.Adjustable` functions (through `Model.Adjustable.Node.apply`) on the grid as a
function of the point; spec = the judgement `Spec.Adjustable.allowed` applied to what the implementation
answered. A k-dimensional grid looks only at the first k coordinates of a point (`project`). -/
namespace Driver.C16
open Driver Spec.Adjustable Model.Adjustable

abbrev Cell := Nat × Nat × Nat × Nat

structure St where
  kind : Kind := .data
  gdim : Nat := 4
  node : Option Node := none          -- model state
  cur : List Int := []                -- spec state: coordinates according to the implementation's answers
  grid : List (Cell × Int) := []      -- newest first

def parseKind : String → Option Kind
  | "data" => some .data
  | "time" => some .time
  | "space" => some .space
  | "spacetime" => some .spaceTime
  -- the same node kinds over `u64` (the model's values are integers either way; those cases hold no negative value)
  | "udata" => some .data
  | "utime" => some .time
  | "uspace" => some .space
  | "uspacetime" => some .spaceTime
  | _ => none

def ints (s : String) : List Int := (s.splitOn ",").filterMap String.toInt?
def nats (s : String) : List Nat := (s.splitOn ",").filterMap String.toNat?
def showInts (l : List Int) : String := ",".intercalate (l.map toString)

/-- the coordinates a k-dimensional storage looks at -/
def project (gdim : Nat) (c : Cell) : Cell :=
  match gdim with
  | 1 => (c.1, 0, 0, 0)
  | 2 => (c.1, c.2.1, 0, 0)
  | 3 => (c.1, c.2.1, c.2.2.1, 0)
  | _ => c

def lookup (g : List (Cell × Int)) (c : Cell) : Int :=
  match g.find? (fun e => e.1 == c) with
  | some e => e.2
  | none => 0

def gridFn (s : St) : Gen.Adjustable.Pt → Int := fun p => lookup s.grid (project s.gdim (p.x, p.y, p.z, p.t))

def fmt (ok : Bool) (l : List Int) : String := (if ok then "ok:" else "err:") ++ showInts l

def parseAns (a : String) : Option (Bool × List Int) :=
  match a.splitOn ":" with
  | ["ok", l] => some (true, ints l)
  | ["err", l] => some (false, ints l)
  | _ => none

def handler : Handler St where
  init := {}
  onCase args ans :=
    let kind := (parseKind (args.getD 0 "")).getD .data
    let gdim := match args.getD 1 "" with | "1d" => 1 | "2d" => 2 | "3d" => 3 | _ => 4
    let cur := ints (args.getD 2 "")
    let node := Node.ofCoords kind cur
    let m := match node with | some n => fmt true n.coords | none => "bad-case"
    ({ kind, gdim, node, cur, grid := [] }, judge ans (some m) (some (fmt true cur)))
  onOp s op args ans :=
    match op with
    | "set" =>
      match nats (args.getD 0 "") with
      | [x, y, z, t] =>
        let v := ((args.getD 1 "").toInt?).getD 0
        ({ s with grid := (project s.gdim (x, y, z, t), v) :: s.grid }, judge ans (some "ok") (some "ok"))
      | _ => (s, ["MISMATCH bad-set-line"])
    | "node" =>
      let cur := ints (args.getD 0 "")
      let node := Node.ofCoords s.kind cur
      let m := match node with | some n => fmt true n.coords | none => "bad-node"
      ({ s with node, cur }, judge ans (some m) (some (fmt true cur)))
    | "grid" =>
      let items := if args.getD 0 "-" == "-" then [] else (args.getD 0 "").splitOn ";"
      let g := items.foldl (fun (g : List (Cell × Int)) it =>
        match it.splitOn "=" with
        | [pt, v] => match nats pt with
          | [x, y, z, t] => (project s.gdim (x, y, z, t), (v.toInt?).getD 0) :: g
          | _ => g
        | _ => g) []
      ({ s with grid := g }, judge ans (some "ok") (some "ok"))
    | "update" | "adjust" =>
      let o : Op := if op == "update" then .update else .adjust
      -- model
      let (node', m) := match s.node with
        | some n => let r := n.apply o (gridFn s); (some r.1, fmt r.2 r.1.coords)
        | none => (none, "bad-case")
      -- spec: judge the implementation's own answer
      let new := (cells s.kind).map (fun c => lookup s.grid (project s.gdim c))
      let (sp, cur') := match parseAns ans with
        | some (ok, res) =>
          if allowed s.kind o s.cur new ok res then (ans, res)
          else
            let must := if mustFail s.kind o s.cur new then "err:" ++ showInts s.cur
              else if mustSucceed o s.cur new then "ok:" ++ showInts (target o s.cur new)
              else "ok:" ++ showInts (target o s.cur new) ++ "|err:" ++ showInts s.cur
            (must, res)
        | none => ("ok:…|err:…", s.cur)
      ({ s with node := node', cur := cur' }, judge ans (some m) (some sp))
    | _ => (s, ["MISMATCH unknown-op"])

end Driver.C16
