import Driver.Reasoning
import DcVerif.Model.Collections
import DcVerif.Model.CausalGraph
/-! Driver for C12. One model state per family (every container receives the same calls); for every container the
expected iteration order comes from `Model.Collections.items` (sequence order; ascending keys for the B-tree; for
the hash map the order the implementation itself reports, checked to be a permutation of the keys), and every
answer is recomputed from that list.

Spec oracle (relational — C12 does not say *what* the answers are, only that they do not depend on the holder):
 (a) a container whose iteration order equals the `Vec`'s gives exactly the `Vec`'s answer;
 (b) every container gives the `Vec`'s answer on the order-insensitive projection (per-member answers keyed by id,
     filters as sets, counts, percentages, "all" answers) whenever the members' state is the same;
 (c) a repeated call, a clone and a rebuilt twin give the same answer (`unstable`, `g/g2/c/t`). -/
namespace Driver.C12
open Driver Driver.Reasoning Spec.Reasoning Model.Reasoning Model.Collections

def names : List String := ["arr", "vec", "deq", "bt", "hm", "tw"]

/-- harness `decode` (pure kinds) -/
def evalKind (kind : Nat) (d : Int) : Option Bool :=
  let r := d.emod 3
  match kind with
  | 0 => if r == 1 then some true else if r == 0 then some false else none
  | 1 => if r == 0 then some true else if r == 1 then some false else none
  | 2 => some (r != 2)
  | _ => some true

structure St where
  fam : String := ""
  keys : List Nat := []
  n : Nat := 0
  -- assumptions (one state: all containers get the same calls)
  kinds : List Nat := []
  asm : List (Assumption Int) := []
  inf : List (Inference UInt64) := []
  obs : List (Observation UInt64) := []
  causes : List Cause := []
  /-- activation cells per container (they legitimately diverge: data is positional) -/
  cells : List Cells := []
  /-- causal graphs: the graph as `Model.CausalGraph` holds it (every node a plain singleton whose observation is the
      *verdict code* of the harness' causal function on its datum, see `encode`) -/
  cg : CausalGraph.CG := {}

def fieldsOf (dump : String) : List (String × String) :=
  (dump.splitOn ";").map (fun f => match f.splitOn "=" with
    | k :: rest => (k, "=".intercalate rest)
    | [] => ("", ""))

def field (fs : List (String × String)) (k : String) : String := (fs.lookup k).getD ""

def idList (s : String) : List Nat := if s == "-" || s == "" then [] else (s.splitOn ",").map (fun x => x.toNat?.getD 0)

/-- expected member order (ids) of a container; for `hm` from the order the implementation reported -/
def orderOf (s : St) (name : String) (implOrd : List Nat) : Option (List Nat) :=
  let idsSeq := List.range s.n
  let kvs : List (Nat × Nat) := s.keys.zip idsSeq
  match name with
  | "bt" => some (items (.btree kvs))
  | "hm" =>
    let orderKeys := implOrd.map (fun i => s.keys.getD i 0)
    if orderKeys.isPerm ((hashOf kvs).map (·.1)) then some (items (.hash kvs orderKeys)) else none
  | _ => some (items (.vec idsSeq))

def positional : List String := ["t", "v", "mi", "mv", "m", "act"]
def positionalCsv : List String := ["mc"]
def idSets : List String := ["inv", "val", "tes", "unt", "inf", "non", "aids", "iids", "tv", "ex", "ord"]

def sortNat (l : List Nat) : List Nat := l.mergeSort

/-- order-insensitive projection of a dump: per-member answers re-keyed by id, id lists as sets -/
def canon (dump : String) : String :=
  let fs := fieldsOf dump
  let ord := idList (field fs "ord")
  let rekey := fun (vals : List String) =>
    let ps := (ord.zip vals).mergeSort (fun a b => a.1 ≤ b.1)
    ",".intercalate (ps.map (fun p => s!"{p.1}:{p.2}"))
  ";".intercalate (fs.map (fun (k, v) =>
    if positional.contains k then s!"{k}={rekey (v.toList.map (fun c => String.singleton c))}"
    else if positionalCsv.contains k then s!"{k}={rekey (v.splitOn ",")}"
    else if idSets.contains k then
      (if v == "panic" then s!"{k}=panic" else s!"{k}={idsStr (sortNat (idList v))}")
    else s!"{k}={v}"))

def parseContainers (ans : String) : List (String × String) :=
  (ans.splitOn "|").map (fun e => match e.splitOn ":" with
    | k :: rest => (k, ":".intercalate rest)
    | [] => ("", ""))

/-- spec-level expectation of a holder's iteration order: sequences in sequence order, the B-tree in ascending key
order (plain sort of the keys), the hash map any permutation of the members -/
def orderOk (keys : List Nat) (n : Nat) (name : String) (ord : List Nat) : Bool :=
  match name with
  | "bt" => ord == (((keys.zip (List.range n)).mergeSort (fun a b => a.1 ≤ b.1)).map (·.2))
  | "hm" => ord.isPerm (List.range n)
  | _ => ord == List.range n

/-- relational checks (a) and (b) against the `Vec` entry; `sameState name` says whether the member state of `name`
is known to equal the `Vec`'s (always, except for causaloid cells after order-dependent reasoning) -/
def relational (keys : List Nat) (n : Nat) (cs : List (String × String)) (sameState : String → Bool) : List String :=
  let vecD := (cs.lookup "vec").getD ""
  let vecOrd := idList (field (fieldsOf vecD) "ord")
  cs.foldl (fun acc (name, d) =>
    if !names.contains name then acc else
    let ord := idList (field (fieldsOf d) "ord")
    let o := if orderOk keys n name ord then [] else
        [s!"SPECFAIL iteration-order: {name} does not enumerate its members in the documented order"]
    let a := if name != "vec" && ord == vecOrd && sameState name && d != vecD then
        [s!"SPECFAIL container-dependent: {name} iterates like vec but answers differently"] else []
    let b := if name != "vec" && sameState name && canon d != canon vecD then
        [s!"SPECFAIL container-dependent: {name} differs from vec on an order-insensitive answer"] else []
    acc ++ o ++ a ++ b) [] ++
  (if (cs.any (fun (_, d) => (d.splitOn "unstable").length > 1)) then
    ["SPECFAIL repeated-call-differs"] else [])

def amems (s : St) (order : List Nat) : List AMem :=
  order.filterMap (fun i => (s.asm[i]?).map (fun a => (i, a.flags.tested, a.flags.valid)))

def imems (s : St) (order : List Nat) : List IMem := order.filterMap (fun i => (s.inf[i]?).map (fun x => (i, x)))
def omems (s : St) (order : List Nat) : List OMem := order.filterMap (fun i => (s.obs[i]?).map (fun x => (i, x)))

def resStr : Res → String
  | .ok true => "ok1"
  | .ok false => "ok0"
  | .err => "err"
  | .panic => "panic"

def dumpCausable (cells : Cells) (l : List Cause) : String :=
  let n := l.length
  let na := numberActive cells l
  s!"ord={idsStr (l.map Cause.id)};act={bitsStr (l.map (isActive cells))};allt={b01 (allCausesTrue cells l)};" ++
  s!"aids={idsStr ((getAllActive cells l).map Cause.id)};iids={idsStr ((getAllInactive cells l).map Cause.id)};" ++
  s!"na={hx (Float.ofNat na)};pa={hx (pctF na n)};tv={idsStr (l.map Cause.id)};" ++
  s!"ex={match explainIds cells l with | some ids => idsStr ids | none => "panic"};len={n};e={b01 l.isEmpty}"

def parseCause (i : Nat) (desc : String) : Cause :=
  if desc.startsWith "s" then .single ⟨i, (desc.drop 1).toString.toNat?.getD 0⟩
  else
    let ks := ((desc.drop 1).toString.splitOn ".").filter (· ≠ "")
    .coll i (ks.zipIdx.map (fun (k, j) => ⟨100 * (i + 1) + j, k.toNat?.getD 0⟩))

def allCellIds (cs : List Cause) : List Nat :=
  cs.flatMap (fun c => match c with | .single s => [s.id] | .coll _ inner => inner.map (·.id))

/-- observation code `Model.CausalGraph.decode` maps to the verdict of kind `k` on datum `d` (0 true, 1 false, 2 error) -/
def encode (k : Nat) (d : Int) : Nat :=
  match evalKind k d with
  | some true => 0
  | some false => 1
  | none => 2

def intList (x : String) : List Int := if x == "-" || x == "" then [] else (x.splitOn ",").map (fun y => y.toInt?.getD 0)

def showRes : CausalGraph.Res → String
  | .ok true => "ok1"
  | .ok false => "ok0"
  | .err => "err"
  | .panic => "panic"

def buildCG (n : Nat) (edges : List (Nat × Nat × Nat)) : CausalGraph.CG :=
  let g0 := (List.range n).foldl (fun g i =>
    if i == 0 then (CausalGraph.addRoot g { id := i, fn := .plain }).1 else (CausalGraph.addNode g { id := i, fn := .plain }).1) {}
  edges.foldl (fun g e => (CausalGraph.addEdge g e.1 e.2.1 e.2.2).getD g) g0

/-- the verdict `Model.CausalGraph` gives for a graph op of the harness (`none`: not replayed — shortest-path ops, whose
    answer depends on which of several shortest paths `astar` picks) -/
def graphModel (s : St) (op : String) (args : List String) : Option String :=
  let fuel := 1000000
  let enc := fun (ds : List Int) => ds.zipIdx.map (fun (d, i) => encode (s.kinds.getD i 0) d)
  match op with
  | "gall" => some (match CausalGraph.reasonAll fuel s.cg (enc (intList (args.getD 0 "-"))) none with
      | some (r, _) => showRes r | none => "no-answer-within-fuel")
  | "gsub" => some (match CausalGraph.reasonSub fuel s.cg (natArg args 0) (enc (intList (args.getD 1 "-"))) none with
      | some (r, _) => showRes r | none => "no-answer-within-fuel")
  | "gone" =>
    let i := natArg args 0
    some (showRes (CausalGraph.reasonSingle s.cg i ((intList (args.getD 1 "-")).map (encode (s.kinds.getD i 0)))).1)
  | _ => none

/-- model answers for every container of the implementation's answer, through `f name order` -/
def perContainer (s : St) (ans : String) (f : String → List Nat → String) : String × List (String × String) :=
  let cs := parseContainers ans
  let parts := cs.map (fun (name, d) =>
    let implOrd := idList (field (fieldsOf (match d.splitOn "/" with | [_, _, x] => x | _ => d)) "ord")
    match orderOf s name implOrd with
    | some order => s!"{name}:{f name order}"
    | none => s!"{name}:not-a-permutation-of-the-members")
  ("|".intercalate parts, cs)

def handler : Handler St where
  init := {}
  onCase args _ :=
    let fam := args.getD 0 ""
    let lst := fun (x : String) => if x == "-" then [] else x.splitOn ","
    match fam with
    | "assume" =>
      let ks := (lst (args.getD 1 "-")).map (fun k => k.toNat?.getD 0)
      ({ fam := fam, kinds := ks, n := ks.length, keys := (lst (args.getD 2 "-")).map (fun k => k.toNat?.getD 0),
         asm := ks.map (fun k => { fn := fun d => (d / (2 ^ k : Int)) % 2 == 1 }) }, [])
    | "infer" =>
      let its := (lst (args.getD 2 "-")).map (fun x => match x.splitOn "/" with
        | [a, b, c, d] => (⟨parseBits a, parseBits b, parseBits c, parseBits d⟩ : Inference UInt64)
        | _ => ⟨0, 0, 0, 0⟩)
      ({ fam := fam, n := its.length, keys := (lst (args.getD 1 "-")).map (fun k => k.toNat?.getD 0), inf := its }, [])
    | "observe" =>
      let its := (lst (args.getD 2 "-")).map (fun x => match x.splitOn "/" with
        | [a, b] => (⟨parseBits a, parseBits b⟩ : Observation UInt64)
        | _ => ⟨0, 0⟩)
      ({ fam := fam, n := its.length, keys := (lst (args.getD 1 "-")).map (fun k => k.toNat?.getD 0), obs := its }, [])
    | "cause" =>
      let its := (lst (args.getD 2 "-")).zipIdx.map (fun (x, i) => parseCause i x)
      ({ fam := fam, n := its.length, keys := (lst (args.getD 1 "-")).map (fun k => k.toNat?.getD 0), causes := its,
         cells := names.map (fun _ => fun _ => false) }, [])
    | "graph" =>
      let ks := (lst (args.getD 1 "-")).map (fun k => k.toNat?.getD 0)
      let es := (lst (args.getD 2 "-")).filterMap (fun e => match e.splitOn "-" with
        | [a, bw] => (match bw.splitOn ":" with
          | [b, w] => some (a.toNat?.getD 0, b.toNat?.getD 0, w.toNat?.getD 0)
          | _ => some (a.toNat?.getD 0, bw.toNat?.getD 0, 0))
        | _ => none)
      ({ fam := fam, kinds := ks, n := ks.length, cg := buildCG ks.length es }, [])
    | _ => ({ fam := fam }, [])
  onOp s op args ans :=
    match s.fam, op with
    | "assume", "q" =>
      let (m, cs) := perContainer s ans (fun _ order => (dumpAssumableModel (amems s order)).1)
      (s, judge ans (some m) none ++ relational s.keys s.n cs (fun _ => true))
    | "assume", "verify" =>
      let i := natArg args 0
      let d := (args.getD 1 "0").toInt?.getD 0
      let (asm', r) := verifyAt s.asm i d
      let s' := { s with asm := asm' }
      let rs := match r with | some b => String.ofList (List.replicate 6 (if b then '1' else '0')) | none => "panic"
      match ans.splitOn "|" with
      | first :: rest =>
        let (m, cs) := perContainer s' ("|".intercalate rest) (fun _ order => (dumpAssumableModel (amems s' order)).1)
        let spec := if first == s!"r={rs}" then [] else
          [s!"SPECFAIL verify-verdict-depends-on-container impl={first} spec=r={rs}"]
        (s', judge ans (some (s!"r={rs}|" ++ m)) none ++ spec ++ relational s.keys s.n cs (fun _ => true))
      | [] => (s', ["MISMATCH unparsable"])
    | "assume", "verifyall" =>
      let d := (args.getD 0 "0").toInt?.getD 0
      let s' := { s with asm := verifyAll s.asm d }
      let (m, cs) := perContainer s' ans (fun _ order => (dumpAssumableModel (amems s' order)).1)
      (s', judge ans (some m) none ++ relational s.keys s.n cs (fun _ => true))
    | "infer", "q" =>
      let (m, cs) := perContainer s ans (fun _ order => (dumpInferableModel (imems s order)).1)
      (s, judge ans (some m) none ++ relational s.keys s.n cs (fun _ => true))
    | "observe", "q" =>
      let thr := parseBits (args.getD 0 "")
      let e := parseBits (args.getD 1 "")
      let (m, cs) := perContainer s ans (fun _ order => (dumpObservableModel (omems s order) thr e).1)
      (s, judge ans (some m) none ++ relational s.keys s.n cs (fun _ => true))
    | "cause", "q" =>
      let cellOf := fun (name : String) => (s.cells[names.idxOf name]?).getD (fun _ => false)
      let (m, cs) := perContainer s ans (fun name order =>
        dumpCausable (cellOf name) (order.filterMap (fun i => s.causes[i]?)))
      let ids := allCellIds s.causes
      let same := fun (name : String) => ids.all (fun j => cellOf name j == cellOf "vec" j)
      (s, judge ans (some m) none ++ relational s.keys s.n cs same)
    | "cause", "reason" =>
      let data := if args.getD 0 "-" == "-" then [] else ((args.getD 0 "").splitOn ",").map (fun x => x.toInt?.getD 0)
      let cellOf := fun (name : String) => (s.cells[names.idxOf name]?).getD (fun _ => false)
      -- run the model per container, in the container's order
      let cs0 := parseContainers ans
      let step := fun (name : String) (order : List Nat) =>
        let l := order.filterMap (fun i => s.causes[i]?)
        let r1 := reasonAll evalKind l data (cellOf name)
        let r2 := reasonAll evalKind l data r1.2
        (s!"{resStr r1.1}/{resStr r2.1}/{dumpCausable r2.2 l}", r2.2)
      let results := cs0.map (fun (name, d) =>
        let implOrd := idList (field (fieldsOf (match d.splitOn "/" with | [_, _, x] => x | _ => d)) "ord")
        match orderOf s name implOrd with
        | some order => let (str, c) := step name order; (name, s!"{name}:{str}", some c)
        | none => (name, s!"{name}:not-a-permutation-of-the-members", none))
      let m := "|".intercalate (results.map (fun r => r.2.1))
      let cells' := names.map (fun nm => match results.find? (fun r => r.1 == nm) with
        | some (_, _, some c) => c
        | _ => cellOf nm)
      let s' := { s with cells := cells' }
      let cellOf' := fun (name : String) => (cells'[names.idxOf name]?).getD (fun _ => false)
      let ids := allCellIds s.causes
      let same := fun (name : String) => ids.all (fun j => cellOf' name j == cellOf' "vec" j)
      -- relational check on the dumps (third component) and, for equal orders, on the verdicts
      let dumps := cs0.map (fun (name, d) => (name, match d.splitOn "/" with | [_, _, x] => x | _ => d))
      let verd := cs0.map (fun (name, d) => (name, match d.splitOn "/" with | [a, b, _] => (a, b) | _ => ("?", "??")))
      let rep := verd.filterMap (fun (name, (a, b)) =>
        if a != b then some s!"SPECFAIL repeated-call-differs: {name} {a} then {b}" else none)
      let vecV := (verd.lookup "vec").getD ("", "")
      let vecOrd := idList (field (fieldsOf ((dumps.lookup "vec").getD "")) "ord")
      let sameOrd := verd.filterMap (fun (name, v) =>
        let ord := idList (field (fieldsOf ((dumps.lookup name).getD "")) "ord")
        if ord == vecOrd && v != vecV then some s!"SPECFAIL container-dependent: verdict of {name} differs from vec" else none)
      (s', judge ans (some m) none ++ rep ++ sameOrd ++ relational s.keys s.n dumps same)
    | "graph", _ =>
      let fs := fieldsOf ans
      let g := field fs "g"
      let bad := (if field fs "g2" != g then ["SPECFAIL repeated-call-differs: graph"] else []) ++
        (if field fs "c" != g then ["SPECFAIL clone-differs: graph clone"] else []) ++
        (if field fs "t" != g then ["SPECFAIL twin-differs: rebuilt graph"] else []) ++
        (if field fs "ac" != field fs "ag" || field fs "at" != field fs "ag" then
          ["SPECFAIL clone-or-twin-aggregates-differ"] else [])
      -- the graph's own verdict, replayed on `Model.CausalGraph` (the model C01's theorems and C12Graph's twin theorems are about)
      let mm := match graphModel s op args with
        | some m => if m == g then [] else [s!"MISMATCH impl={g} model={m}"]
        | none => []
      (s, bad ++ mm)
    | _, _ => (s, ["MISMATCH unknown-op"])

end Driver.C12
