import Driver.Common
import DcVerif.Model.Grid
/-! C17 driver. `case <id> <safe|unsafe_impl> <kind> <W,H,D,C>`; ops `set <coords> <v>`, `get <coords>`.
Model = the generated `Gen.Grid.ArraySafeGrid` / `ArrayUnsafeGrid` (by the build named in the case header) through
`Model.Grid.step`; spec = the association-list oracle `Spec.Grid.judge` applied to what the implementation answered. -/
namespace Driver.C17
open Driver Gen.Grid Spec.Grid Model.Grid

inductive MSt where
  | safe (g : ArraySafeGrid)
  | unsafe_ (g : ArrayUnsafeGrid)
  | none

structure St where
  ext : Ext := ⟨1, 1, 1, 1⟩
  dim : Nat := 1
  m : MSt := .none
  spec : Spec.Grid.St := {}

def nats (s : String) : List Nat := (s.splitOn ",").filterMap String.toNat?

def showAns : Ans → String
  | .ok => "ok"
  | .val v => toString v
  | .panic => "panic"

def parseAns (op : String) (a : String) : Option Ans :=
  if a == "panic" then some .panic
  else if op == "set" then (if a == "ok" then some .ok else none)
  else a.toInt?.map .val

def mstep (e : Ext) (m : MSt) (op : Op) : MSt × Option Ans :=
  match m with
  | .safe g => let r := step safeImpl e g op; (.safe r.1, some r.2)
  | .unsafe_ g => let r := step unsafeImpl e g op; (.unsafe_ r.1, some r.2)
  | .none => (.none, none)

/-- what the oracle would have accepted, for the SPECFAIL message -/
def expected (dim : Nat) (exts : List Nat) (st : Spec.Grid.St) : Op → String
  | .set _ _ => "ok"
  | .get p => if inScope dim exts p then toString (Spec.Grid.read st.hist p) else "?"

def handler : Handler St where
  init := {}
  onCase args ans :=
    let kind? : Option Kind := match args.getD 1 "" with
      | "1d" => some .k1 | "2d" => some .k2 | "3d" => some .k3 | "4d" => some .k4 | _ => none
    match kind?, nats (args.getD 2 "") with
    | some k, [w, h, d, c] =>
      let e : Ext := ⟨w, h, d, c⟩
      let m : MSt := match args.getD 0 "" with
        | "safe" => .safe (ArraySafeGrid.new k)
        | "unsafe_impl" => .unsafe_ (ArrayUnsafeGrid.new k)
        | _ => .none
      ({ ext := e, dim := Model.Grid.dim k, m, spec := {} }, judge ans (some "ok") (some "ok"))
    | _, _ => ({}, ["MISMATCH bad-case-line"])
  onOp s op args ans :=
    let pt := nats (args.getD 0 "")
    let o? : Option Op := match op with
      | "set" => some (.set pt ((args.getD 1 "").toInt?.getD 0))
      | "get" => some (.get pt)
      | _ => none
    match o? with
    | none => (s, ["MISMATCH unknown-op"])
    | some o =>
      let (m', ma) := mstep s.ext s.m o
      let mism := Driver.judge ans (ma.map showAns) none
      match parseAns op ans with
      | some a =>
        let (acc, sp') := Spec.Grid.judge s.dim (exts s.ext) s.spec o a
        ({ s with m := m', spec := sp' },
          mism ++ (if acc then [] else [s!"SPECFAIL impl={ans} spec={expected s.dim (exts s.ext) s.spec o}"]))
      | none => ({ s with m := m' }, mism ++ [s!"SPECFAIL impl={ans} spec={expected s.dim (exts s.ext) s.spec o}"])

end Driver.C17
