import Driver.Common
import DcVerif.Model.Csm
/-! Driver for C03: replays every op line on `Model.Csm` (association list) and on `Spec.Csm` (the map as a
function), compares answers. The fixtures of the harness (verdict decoded from the data value, global fault
switch / mask) are mirrored here as the environment handed to model and spec. -/
namespace Driver.C03
open Driver Spec.Csm

/-- a pool state of the harness -/
structure SRef where
  idx : Nat
  sid : Nat
  data : Int
  kind : Nat
deriving DecidableEq, Repr, Inhabited

abbrev Ev' := Ev SRef Nat Int
abbrev Out' := Out SRef Nat Int

/-- `decode` of harness/src/c03.rs -/
def decode (kind : Nat) (switch : Bool) (d : Int) : Verdict :=
  let r := d.emod 3
  let plain : Verdict := if r == 1 then .okTrue else if r == 0 then .okFalse else .err
  match kind with
  | 0 => plain
  | 1 => if r == 0 then .okTrue else if r == 1 then .okFalse else .err
  | 2 => if switch then .err else plain
  | _ => if switch then .err else .okTrue

def mkEnv (switch : Bool) (mask : Nat) : Env SRef Nat Int :=
  { eval := fun s d => decode s.kind switch d, stored := fun s => s.data, fire := fun a => !mask.testBit a }

structure St where
  pool : Array SRef := #[]
  started : Bool := false
  table : Model.Csm.Table SRef Nat := []
  map : Map SRef Nat := Map.empty
  cands : List Nat := []
  switch : Bool := false
  mask : Nat := 0
  counts : List Nat := List.replicate 8 0
  scounts : List Nat := List.replicate 8 0

def renderEv : Ev' → String
  | .call s d => s!"c{s.kind}:{d}"
  | .fire a => s!"a{a}"

def renderOut (o : Out') : String :=
  (if o.ok then "ok" else "err") ++ ";" ++ (if o.log.isEmpty then "-" else ",".intercalate (o.log.map renderEv))

def parseState (j : Nat) (s : String) : SRef :=
  match s.splitOn "/" with
  | [a, b, c] => { idx := j, sid := a.toNat?.getD 0, data := b.toInt?.getD 0, kind := c.toNat?.getD 0 }
  | _ => { idx := j, sid := 0, data := 0, kind := 0 }

def parsePool (s : String) : Array SRef :=
  ((s.splitOn ",").zipIdx.map (fun (x, j) => parseState j x)).toArray

def parsePairs (pool : Array SRef) (s : String) : List (SRef × Nat) :=
  if s == "-" then [] else
  (s.splitOn ",").map (fun pr =>
    match pr.splitOn ":" with
    | [j, a] => (pool.getD (j.toNat?.getD 0) default, a.toNat?.getD 0)
    | _ => (default, 0))

/-- a visit as the implementation logged it: causal function kind, data value, action fired (if any) -/
structure Visit where
  kind : Nat
  data : Int
  fired : Option Nat

/-- `c<kind>:<data>` opens a visit, `a<i>` closes it; anything else is not a log of `eval_all_states` -/
def parseVisits (s : String) : Option (List Visit) :=
  if s == "-" then some [] else
  let rec go (toks : List String) (acc : List Visit) (open_ : Option Visit) : Option (List Visit) :=
    match toks with
    | [] => some (match open_ with | some v => (v :: acc).reverse | none => acc.reverse)
    | t :: rest =>
      if t.startsWith "c" then
        match (t.drop 1).toString.splitOn ":" with
        | [k, d] =>
          match k.toNat?, d.toInt? with
          | some k, some d =>
            let acc := match open_ with | some v => v :: acc | none => acc
            go rest acc (some { kind := k, data := d, fired := none })
          | _, _ => none
        | _ => none
      else if t.startsWith "a" then
        match open_, (t.drop 1).toString.toNat? with
        | some v, some a => go rest ({ v with fired := some a } :: acc) none
        | _, _ => none
      else none
  go (s.splitOn ",") [] none

/-- attribute the logged visits to registered ids: the first not yet visited id whose pair matches what was
logged (ids whose pairs are indistinguishable in the log are interchangeable) -/
def attributeVisits (lk : Nat → Option (SRef × Nat)) (cands : List Nat) (visits : List Visit) : Option (List Nat) :=
  let rec go (vs : List Visit) (used : List Nat) (acc : List Nat) : Option (List Nat) :=
    match vs with
    | [] => some acc.reverse
    | v :: rest =>
      let ok := fun k => !used.contains k && (match lk k with
        | some (s, a) => s.kind == v.kind && s.data == v.data && (match v.fired with | none => true | some f => f == a)
        | none => false)
      match cands.find? ok with
      | some k => go rest (k :: used) (k :: acc)
      | none => none
  go visits [] []

def bump (counts : List Nat) (fired : List Nat) : List Nat :=
  fired.foldl (fun c a => c.modify a (· + 1)) counts

def evalAllAnswers (s : St) (ans : String) : String × String × List Nat × List Nat :=
  let env := mkEnv s.switch s.mask
  let cands := dedup s.cands
  match ans.splitOn ";" with
  | [st, lg] =>
    let complete := st == "ok"
    match parseVisits lg with
    | none => ("unparsable-log", "unparsable-log", [], [])
    | some visits =>
      let modelAns :=
        match attributeVisits (Model.Csm.lookup s.table) cands visits with
        | none => ("visit-of-unregistered-pair", [])
        | some order =>
          if validOrder (fun k => Model.Csm.lookup s.table k) cands order complete then
            let o := Model.Csm.evalAll env s.table order
            (renderOut o, o.fired)
          else ("not-an-enumeration-of-the-registered-ids", [])
      let specAns :=
        match attributeVisits s.map cands visits with
        | none => ("visit-of-unregistered-pair", [])
        | some order =>
          if validOrder s.map cands order complete then
            let o := Spec.Csm.evalAll env (order.filterMap s.map)
            (renderOut o, o.fired)
          else ("not-an-enumeration-of-the-registered-ids", [])
      (modelAns.1, specAns.1, modelAns.2, specAns.2)
  | _ => ("unparsable-answer", "unparsable-answer", [], [])

def statusLen (ok : Bool) (n : Nat) : String := (if ok then "ok" else "err") ++ s!":{n}"

def handler : Handler St where
  init := {}
  onCase args _ :=
    ({ pool := parsePool (args.getD 1 "") }, [])
  onOp s op args ans :=
    let key : SRef → Nat := fun r => r.sid
    let env := mkEnv s.switch s.mask
    let specLen := fun (m : Map SRef Nat) (c : List Nat) => (domain m c).length
    let tableOp := fun (o : Op SRef Nat Int) (newCands : List Nat) =>
      let (t', mo) := Model.Csm.step key s.table o
      let (m', so) := Spec.Csm.step key s.map o
      let cands := newCands ++ s.cands
      ({ s with table := t', map := m', cands := cands, started := true },
        judge ans (some (statusLen mo.ok (Model.Csm.len t'))) (some (statusLen so.ok (specLen m' cands))))
    if !s.started && op != "new" && op != "fault" && op != "counts" then
      (s, judge ans (some "nocsm") (some "nocsm"))
    else
    match op with
    | "fault" =>
      let v := natArg args 1
      let s' := if args.getD 0 "" == "c" then { s with switch := v != 0 } else { s with mask := v }
      (s', judge ans (some "ok") (some "ok"))
    | "counts" =>
      (s, judge ans (some (",".intercalate (s.counts.map toString))) (some (",".intercalate (s.scounts.map toString))))
    | "new" =>
      let l := parsePairs s.pool (args.getD 0 "-")
      tableOp (.new l) (l.map (fun sa => key sa.1))
    | "updall" =>
      let l := parsePairs s.pool (args.getD 0 "-")
      tableOp (.updateAll l) (l.map (fun sa => key sa.1))
    | "add" => tableOp (.add (natArg args 0) (s.pool.getD (natArg args 1) default) (natArg args 2)) [natArg args 0]
    | "update" => tableOp (.update (natArg args 0) (s.pool.getD (natArg args 1) default) (natArg args 2)) [natArg args 0]
    | "remove" => tableOp (.remove (natArg args 0)) [natArg args 0]
    | "len" =>
      let n := Model.Csm.len s.table
      let sn := specLen s.map s.cands
      (s, judge ans (some s!"{n}:{boolStr (Model.Csm.isEmpty s.table)}") (some s!"{sn}:{boolStr (sn == 0)}"))
    | "evals" =>
      let k := natArg args 0
      -- `nan`/`inf`/`-inf`: the value the harness' causal functions decode (`obs as i64`: NaN ↦ 0, ±∞ saturate)
      let d : Int := match args.getD 1 "0" with
        | "nan" => 0
        | "inf" => 9223372036854775807
        | "-inf" => -9223372036854775808
        | x => x.toInt?.getD 0
      let mo := (Model.Csm.step key s.table (.evalSingle env k d)).2
      let so := (Spec.Csm.step key s.map (.evalSingle env k d)).2
      ({ s with counts := bump s.counts mo.fired, scounts := bump s.scounts so.fired }, judge ans (some (renderOut mo)) (some (renderOut so)))
    | "evalall" =>
      let (m, sp, fired, sfired) := evalAllAnswers s ans
      ({ s with counts := bump s.counts fired, scounts := bump s.scounts sfired }, judge ans (some m) (some sp))
    | _ => (s, ["MISMATCH unknown-op"])

end Driver.C03
