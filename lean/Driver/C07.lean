import Driver.Common
import DcVerif.Model.Window
import DcVerif.Model.WindowF1
/-! Driver for C07. Case header `<kind> <size> <cap|multiple> <ty>`; ops `push v` (answered with the whole
observation after the push), `obs`, the single accessors and `arr <width>`.
Every field of every answer is compared with the model (`MISMATCH`) — the definitions generated from the Rust source,
`Gen/Window.lean`, run at the element size of the case's type — and, on configurations the property speaks about, with
the spec `Spec.Window.observe size history` (`SPECFAIL`). -/
namespace Driver.C07
open Driver Model.Window

structure St where
  kind : Kind := .arr
  size : Nat := 0
  /-- `size_of::<T>()` of the case's element type -/
  tsz : Nat := 8
  /-- `vec` cases only: the frozen model of the vector storage as it was when F1 was recorded (`Model/WindowF1.lean`).
  An answer that differs from it is reported as `MISMATCH pinned=F1 …`, so that only the recorded behaviour counts as the
  known finding; `none` once that model has left `ok` or for other kinds -/
  pin : Option (Model.Window.St Nat) := none
  /-- model state; anything but `ok` means the model predicts that the case is over (panic / undefined behaviour) -/
  w : Out (Model.Window.St Nat) := .panic
  /-- push history, oldest first (spec state) -/
  hist : List Nat := []
  /-- the configuration satisfies the hypotheses of the property -/
  specOn : Bool := false
  /-- the implementation has panicked or the model has left `ok`: the remaining lines must be `skipped` -/
  dead : Bool := true

def kindOf : String → Option Kind
  | "arr" => some .arr
  | "vec" => some .vec          -- storage_vec.rs as it is in the repository (F1 not applied)
  | "vecfix" => some .vecFixed  -- same real storage, compared with storage_vec.rs after fixes/F1-window-vec.diff
  | "uarr" => some .uarr
  | "uvec" => some .uvec
  | _ => none

/-- element sizes of the harness' types (`w12` / `w24`: 12- and 24-byte structs) -/
def tyBytes : String → Nat
  | "u8" => 1
  | "u16" => 2
  | "w3" => 3
  | "u32" => 4
  | "u64" => 8
  | "w12" => 12
  | "w24" => 24
  | _ => 8

def admissible (k : Kind) (size c : Nat) : Bool :=
  decide (0 < size) &&
    (match k with
     | .arr | .uarr => decide (size < c)
     | .vec | .uvec | .vecFixed => decide (2 ≤ c))

def listStr (l : List Nat) : String :=
  if l.isEmpty then "-" else ",".intercalate (l.map toString)

def outStr {β : Type} (f : β → String) : Out β → String
  | .ok b => f b
  | .err => "err"
  | .panic => "panic"
  | .ub => "ub"

def optStr {β : Type} (f : β → String) : Option β → String
  | some b => f b
  | none => "err"

/-- the observation as (field, value) pairs, in the order the harness prints them -/
def modelFields (o : Model.Window.Obs Nat) : List (String × String) :=
  [("size", outStr toString o.size), ("empty", outStr boolStr o.empty), ("filled", outStr boolStr o.filled),
   ("first", outStr toString o.first), ("last", outStr toString o.last), ("slice", outStr listStr o.slice),
   ("vec", outStr listStr o.vec), ("arr", outStr listStr o.arr)]

def specFields (o : Spec.Window.Obs Nat) : List (String × String) :=
  [("size", toString o.size), ("empty", boolStr o.empty), ("filled", boolStr o.filled),
   ("first", optStr toString o.first), ("last", optStr toString o.last), ("slice", optStr listStr o.slice),
   ("vec", optStr listStr o.vec), ("arr", optStr listStr o.arr)]

/-- the harness evaluates the fields left to right inside one `catch_unwind`: a panicking accessor turns the whole
answer into `panic` -/
def joinFields (fs : List (String × String)) : String :=
  if fs.any (fun p => p.2 == "panic") then "panic"
  else if fs.any (fun p => p.2 == "ub") then "ub"
  else ";".intercalate (fs.map (fun p => p.1 ++ "=" ++ p.2))

def parseFields (ans : String) : List (String × String) :=
  (ans.splitOn ";").filterMap (fun kv =>
    match kv.splitOn "=" with
    | [k, v] => some (k, v)
    | _ => none)

/-- field-wise comparison; falls back to whole-answer comparison when the shapes differ -/
def judgeFields (tag : String) (impl : String) (want : List (String × String)) : List String :=
  let wantStr := joinFields want
  if impl == wantStr then []
  else
    let got := parseFields impl
    if got.length == want.length && wantStr != "panic" && wantStr != "ub" then
      (want.zip got).filterMap (fun (w, g) =>
        if w == g then none
        else some s!"{tag} field={w.1} impl={g.2} {if tag.startsWith "MISMATCH" then "model" else "spec"}={w.2}")
    else [s!"{tag} impl={impl} {if tag.startsWith "MISMATCH" then "model" else "spec"}={wantStr}"]

/-- the frozen F1 model's observation, reported with the same message shape under the tag `MISMATCH pinned=F1` -/
def judgePin (s : St) (ans : String) : List String :=
  match s.pin with
  | some p => judgeFields "MISMATCH pinned=F1" ans (modelFields (Model.WindowF1.observe p 0))
  | none => []

def judgeObs (s : St) (w : Model.Window.St Nat) (ans : String) : List String :=
  let spec := if s.specOn then judgeFields "SPECFAIL" ans (specFields (Spec.Window.observe s.size s.hist)) else []
  -- the frozen model only qualifies answers that violate the spec: is this the recorded finding or something else?
  judgeFields "MISMATCH" ans (modelFields (observe s.kind s.tsz w 0)) ++ (if spec.isEmpty then [] else judgePin s ans) ++ spec

/-- single accessor: same message shape as the field-wise comparison -/
def judge1 (field impl model : String) (spec : Option String) : List String :=
  (if model == impl then [] else [s!"MISMATCH field={field} impl={impl} model={model}"]) ++
  (match spec with
   | some sp => if sp == impl then [] else [s!"SPECFAIL field={field} impl={impl} spec={sp}"]
   | none => [])

/-- after a panic of the implementation the harness answers `skipped` for the rest of the case -/
def afterAnswer (s : St) (ans : String) : St :=
  if ans == "panic" || ans == "skipped" then { s with dead := true } else s

def single (s : St) (w : Model.Window.St Nat) (op : String) (args : List String) :
    Option (String × Option String) :=
  let sp := Spec.Window.observe s.size s.hist
  match op with
  | "size" => some (outStr toString (size s.kind s.tsz w), some (toString sp.size))
  | "empty" => some (outStr boolStr (empty s.kind s.tsz w), some (boolStr sp.empty))
  | "filled" => some (outStr boolStr (filled s.kind s.tsz w), some (boolStr sp.filled))
  | "first" => some (outStr toString (first s.kind s.tsz w), some (optStr toString sp.first))
  | "last" => some (outStr toString (last s.kind s.tsz w), some (optStr toString sp.last))
  | "slice" => some (outStr listStr (slice s.kind s.tsz w), some (optStr listStr sp.slice))
  | "vec" => some (outStr listStr (vec s.kind s.tsz w), some (optStr listStr sp.vec))
  | "arr" =>
    let k := natArg args 0
    -- the property speaks about the width `size` only; other widths are compared with the model alone
    some (outStr listStr (arr s.kind s.tsz w k 0), if k == s.size then some (optStr listStr sp.arr) else none)
  | _ => none

/-- single accessor against the frozen F1 model -/
def pinSingle (s : St) (op : String) (args : List String) (ans : String) : List String :=
  match s.pin with
  | none => []
  | some p =>
    let want : Option String :=
      if op == "arr" then some (outStr listStr (Model.WindowF1.vecArr p (natArg args 0) 0))
      else ((modelFields (Model.WindowF1.observe p 0)).find? (fun f => f.1 == op)).map (·.2)
    match want with
    | some m => if m == ans then [] else [s!"MISMATCH pinned=F1 field={op} impl={ans} model={m}"]
    | none => []

def handler : Handler St where
  init := {}
  onCase args ans :=
    let size := natArg args 1
    let c := natArg args 2
    match kindOf (args.getD 0 "") with
    | none => ({}, ["MISMATCH unknown-storage-kind"])
    | some k =>
      let w := new k size c (0 : Nat)
      let specOn := admissible k size c
      let m := match w with
        | .ok _ => "ok"
        | .err => "err"
        | .panic => "panic"
        | .ub => "ub"
      let pin := if args.getD 0 "" == "vec" then
          (match Model.WindowF1.vecNew size c (0 : Nat) with | .ok p => some p | _ => none) else none
      let s : St := { kind := k, size := size, tsz := tyBytes (args.getD 3 ""), pin := pin, w := w, hist := [], specOn := specOn, dead := m != "ok" }
      (afterAnswer s ans, judge ans (some m) (if specOn then some "ok" else none))
  onOp s op args ans :=
    if s.dead then
      (s, judge ans (some "skipped") none)
    else
      match s.w with
      | .ok w =>
        match op with
        | "push" =>
          let v := natArg args 0
          let s := { s with hist := s.hist ++ [v],
                            pin := s.pin.bind (fun p => match Model.WindowF1.vecPush p v with | .ok p' => some p' | _ => none) }
          match push s.kind s.tsz w v with
          | .ok w' =>
            let s := { s with w := .ok w' }
            (afterAnswer s ans, judgeObs s w' ans)
          | o =>
            -- the model predicts panic / undefined behaviour (malformed configurations only)
            let m := outStr (fun _ => "ok") o
            ({ s with w := o, dead := true },
             judge ans (some m) (if s.specOn then some (joinFields (specFields (Spec.Window.observe s.size s.hist))) else none))
        | "obs" => (afterAnswer s ans, judgeObs s w ans)
        | _ =>
          match single s w op args with
          | some (m, sp) =>
            let ls := judge1 op ans m (if s.specOn then sp else none)
            (afterAnswer s ans, ls ++ (if ls.any (·.startsWith "SPECFAIL") then pinSingle s op args ans else []))
          | none => (s, ["MISMATCH unknown-op"])
      | _ => ({ s with dead := true }, judge ans (some "skipped") none)

end Driver.C07
