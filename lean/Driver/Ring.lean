import Driver.Common
import DcVerif.Model.RingLabel
import DcVerif.Model.RingMulti
import DcVerif.Model.RingPay
import DcVerif.Model.RingMultiPay
/-!
Trace replay for the ring-buffer properties C04, C05, C06, C13, C14.

* MISMATCH channel: every trace line of a single-producer pipeline is replayed on `Ring` (the thread id selects the
  model thread; after its internal steps the model's next visible operation must be the same kind, location,
  value, ordering and observed value), every line of a multi-producer pipeline on `RingMulti`. Both carry their slot
  layer (`RingPay` / `RingMultiPay`): the payload of every `handle` line must be the content of the model's slot and the
  value of every `write` line the value the model's producer / writer thread stores.
* SPECFAIL channel: the properties' executable predicates are evaluated on the *implementation's* events
  (handler calls, slot accesses, cursor stores, orderings), independently of the model state.
-/
namespace Driver.Ring
open Driver

structure Ev where
  tid : String
  kind : String
  args : List String
  obs : String
  sync : Bool          -- a scheduling point (had an `en=` set)
deriving Repr, Inhabited

structure RCfg where
  n : Nat := 4
  multi : Bool := false
  block : Bool := false
  stages : List (List Bool) := [[false]]
  writers : List (List Nat) := [[1]]
  drain : Bool := true
  smoke : Bool := false      -- real ThreadedExecutor, real threads, no scheduler: events carry no global order
deriving Repr

/-- the harness' mutable handler: `event * 31 + (k*16 + j + 1)` (wrapping) -/
def transform (v k j : Nat) : Nat := (v * 31 + (k * 16 + j + 1)) % 2 ^ 64

/-- the model a trace is replayed on: single-producer or multi-producer pipeline -/
inductive AnyModel
  | single (c : RingPay.PCfg) (x : RingPay.PaySt)     -- system state + slot layer
  | multi (c : RingMultiPay.MPCfg) (x : RingMultiPay.MPaySt)   -- system state + slot layer, multi producer

inductive AnyTid
  | s (t : Ring.Tid)
  | m (t : RingMulti.MTid)

def AnyModel.tid (md : AnyModel) (t : String) : Option AnyTid :=
  let hnd : Option (Nat × Nat) :=
    if t.startsWith "H" then
      match (t.drop 1).toString.splitOn "." with
      | [a, b] => match a.toNat?, b.toNat? with
        | some k, some j => some (k, j)
        | _, _ => none
      | _ => none
    else none
  match md with
  | .single _ _ =>
    if t == "M" then some (.s .prod) else hnd.map (fun (k, j) => .s (.cons k j))
  | .multi _ _ =>
    if t == "M" then some (.m .drainer)
    else if t.startsWith "W" then ((t.drop 1).toString.toNat?).map (fun i => .m (.writer i))
    else hnd.map (fun (k, j) => .m (.cons k j))

def AnyModel.skip (md : AnyModel) (t : AnyTid) : AnyModel :=
  match md, t with
  | .single c x, .s t => .single c { x with x := Ring.skipInternal x.x t 16 }
  | .multi c x, .m t => .multi c { x with x := RingMulti.skipInternalM x.x t 16 }
  | md, _ => md

def AnyModel.label (md : AnyModel) (t : AnyTid) : Option Ring.Label :=
  match md, t with
  | .single _ x, .s t => Ring.label x.x t
  | .multi _ x, .m t => RingMulti.labelM x.x t
  | _, _ => none

def AnyModel.enabled (md : AnyModel) (t : AnyTid) : Bool :=
  match md, t with
  | .single _ x, .s t => Ring.enabled x.x t
  | .multi _ x, .m t => RingMulti.enabledM x.x t
  | _, _ => false

def AnyModel.step (md : AnyModel) (t : AnyTid) : AnyModel :=
  match md, t with
  | .single c x, .s t => .single c (RingPay.stepPay c x t)
  | .multi c x, .m t => .multi c (RingMultiPay.stepMPay c x t)
  | md, _ => md

/-- payload the model expects for the next `handle` / `write` of the thread: the content of the slot the handler is about to
read; the value the producer / the writer thread is about to store (multi producer: the writer's next item, `pay writer m w`
with `m` the number of events that writer has written so far) -/
def AnyModel.payload (md : AnyModel) (t : AnyTid) : Option Nat :=
  match md, t with
  | .single _ x, .s (.cons k j) => let cc := x.x.s.cons k j; some (x.slot (cc.i % x.x.s.n))
  | .single c x, .s .prod => some (c.pay x.x.p.w)
  | .multi _ x, .m (.cons k j) => let cc := x.x.s.cons k j; some (x.slot (cc.i % x.x.s.n))
  | .multi c x, .m (.writer i) => some (c.pay i (x.cnt i) (x.x.wr i).w)
  | _, _ => none

def AnyModel.compact : AnyModel → AnyModel
  | .single c x =>
    let arr := ((List.range x.x.s.n).map x.slot).toArray
    .single c { x := Ring.compact x.x, slot := fun i => arr.getD i 0, seen := fun _ _ => [] }
  | .multi c x => .multi c (RingMultiPay.compactMPay x)

structure St where
  prop : String
  cfg : RCfg := {}
  caseOk : Bool := false
  model : Option AnyModel := none
  modelLost : Bool := false
  bind : List (String × String) := []        -- model location name ↦ trace location
  locs : List (String × String) := []        -- header: role ↦ trace location (pc, c<k>.<j>)
  evs : Array Ev := #[]
  steps : Nat := 0

def parseCfg (args : List String) : RCfg :=
  args.foldl (fun c a =>
    match a.splitOn "=" with
    | ["n", v] => { c with n := v.toNat?.getD 4 }
    | ["prod", v] => { c with multi := v == "multi" }
    | ["wait", v] => { c with block := v == "block" }
    | ["drain", v] => { c with drain := v == "1" }
    | ["smoke", v] => { c with smoke := v == "1" }
    | ["stages", v] => { c with stages := (v.splitOn "/").map (fun g => g.toList.map (· == 'm')) }
    | ["writers", v] => { c with writers := (v.splitOn "|").map (fun w =>
        if w == "-" then [] else (w.splitOn ",").filterMap (·.toNat?)) }
    | _ => c) {}

def mkModel (c : RCfg) : AnyModel :=
  let hs := c.stages.map (·.length)
  let harr := hs.toArray
  let st := c.stages.toArray.map (·.toArray)
  if c.multi then
    let cfg : RingMultiPay.MPCfg :=
      { pay := fun w m _ => (w + 1) * 4294967296 + (m + 1),   -- the harness' writer `w` stores ((w+1) << 32) | counter, counter = its m-th event + 1
        mutH := fun k j => (st.getD k #[]).getD j false,
        tf := fun k j v => transform v k j }
    .multi cfg (RingMultiPay.mkMPay c.n c.stages.length (fun k => harr.getD k 0) c.block c.writers)
  else
    let cfg : RingPay.PCfg :=
      { pay := fun q => 4294967296 + q + 1,          -- what the harness' single writer stores: ((0+1) << 32) | (q+1)
        mutH := fun k j => (st.getD k #[]).getD j false,
        tf := fun k j v => transform v k j }
    .single cfg (RingPay.mkPay c.n c.stages.length (fun k => harr.getD k 0) c.block (c.writers.headD []))

def parseTid (t : String) : Option Ring.Tid :=
  if t == "M" then some .prod
  else if t.startsWith "H" then
    match (t.drop 1).toString.splitOn "." with
    | [a, b] => match a.toNat?, b.toNat? with
      | some k, some j => some (.cons k j)
      | _, _ => none
    | _ => none
  else none

def lookup (l : List (String × String)) (k : String) : Option String := (l.find? (·.1 == k)).map (·.2)
def rlookup (l : List (String × String)) (v : String) : Option String := (l.find? (·.2 == v)).map (·.1)

/-- unify a model location with a trace location (injective both ways) -/
def unify (s : St) (mloc : String) (tloc : String) : St × Bool :=
  match lookup s.bind mloc, rlookup s.bind tloc with
  | some t, _ => (s, t == tloc)
  | none, some _ => (s, false)
  | none, none => ({ s with bind := (mloc, tloc) :: s.bind }, true)

def evOfLine (op : String) (args : List String) (ans : String) : Ev :=
  let sync := args.any (·.startsWith "en=")
  let a := args.filter (fun x => !x.startsWith "en=")
  { tid := op, kind := a.headD "", args := a.drop 1, obs := ans, sync := sync }

/-- replay one event on the model; returns new state and mismatch messages -/
def replay (s : St) (e : Ev) : St × List String :=
  match s.model with
  | none => (s, [])
  | some md =>
  match md.tid e.tid with
  | none => (s, [])
  | some t =>
    if s.modelLost then (s, []) else
    -- bookkeeping lines that are not model steps
    if e.kind ∈ ["start", "wbegin", "wend", "drain", "drained", "joined", "slot"] then (s, []) else
    let md := md.skip t
    match md.label t with
    | none => ({ s with modelLost := true }, [s!"MISMATCH model-thread-stuck-internal tid={e.tid}"])
    | some lab =>
      let fail (why : String) : St × List String :=
        ({ s with modelLost := true },
         [s!"MISMATCH {why} tid={e.tid} impl={e.kind} {" ".intercalate e.args}=>{e.obs} model={lab.kind} loc={(lab.loc.map Ring.Loc.name).getD "-"} val={lab.val.getD 0} ord={lab.ord} obs={lab.obs.getD 0}"])
      if e.kind == "join" then
        -- the final join on the handler threads is bookkeeping; the multi-producer drainer's join on the writers is a step
        if lab.kind == "join" then
          if md.enabled t then ({ s with model := some (md.step t) }, []) else fail "join-returned-but-model-writers-not-done"
        else (s, [])
      else if e.kind == "exit" then
        if lab.kind == "exit" || lab.kind == "panic" then ({ s with model := some md }, []) else fail "thread-exited-but-model-continues"
      else if e.kind == "panic" then
        if lab.kind == "panic" then ({ s with model := some md }, []) else fail "implementation-thread-panicked"
      else if e.kind != lab.kind then fail "operation-kind"
      else
        -- location
        let tloc := if e.kind ∈ ["handle", "write"] then none else e.args.head?
        let (s, okLoc) := match lab.loc, tloc with
          | some ml, some tl => unify s ml.name tl
          | _, _ => (s, true)
        if !okLoc then fail "location" else
        -- header-declared locations must agree with the unification
        let declOk := match lab.loc with
          | some ml => match lookup s.locs (if ml.name == "pcur" then "pc" else ml.name), lookup s.bind ml.name with
            | some d, some b => d == b
            | _, _ => true
          | none => true
        if !declOk then fail "location-vs-header" else
        -- value / ordering / observation
        let obsOk := match lab.obs with | some o => e.obs == toString o | none => true
        let okVal := match e.kind with
          | "st" | "stb" => e.args.getD 1 "" == toString (lab.val.getD 0) && e.args.getD 2 "" == lab.ord
          | "ld" | "ldb" => e.args.getD 1 "" == lab.ord && obsOk
          | "cas" => e.args.getD 2 "" == toString (lab.val.getD 0) && e.args.getD 3 "" == lab.ord && obsOk
          | "for" | "fand" => e.args.getD 2 "" == lab.ord && obsOk
          | "handle" => e.args.getD 2 "" == toString (lab.val.getD 0) && e.args.getD 4 "" == (if lab.eob then "1" else "0") &&
              (match md.payload t with | some v => e.args.getD 3 "" == toString v | none => true)
          | "write" => e.args.getD 0 "" == toString (lab.val.getD 0) &&
              (match md.payload t with | some v => e.args.getD 1 "" == toString v | none => true)
          | _ => true
        if !okVal then fail "value/ordering/observation" else
        if !md.enabled t then fail "model-thread-not-enabled" else
        let md' := md.step t
        let steps := s.steps + 1
        let md' := if steps % 200 == 0 then md'.compact else md'
        ({ s with model := some md', steps := steps }, [])

/-! ## oracles on the implementation's events -/

structure Handled where
  k : Nat
  j : Nat
  seq : Nat
  payload : Nat
  eob : Bool
  pos : Nat
deriving Repr

def natAt (l : List String) (i : Nat) : Nat := (l.getD i "").toNat?.getD 0

def handledOf (evs : Array Ev) : List Handled :=
  (evs.toList.zipIdx).filterMap fun (e, pos) =>
    if e.kind == "handle" then
      some { k := natAt e.args 0, j := natAt e.args 1, seq := natAt e.args 2, payload := natAt e.args 3,
             eob := e.args.getD 4 "" == "1", pos := pos }
    else none

/-- (seq, value, position, writer tid) -/
def writesOf (evs : Array Ev) : List (Nat × Nat × Nat × String) :=
  (evs.toList.zipIdx).filterMap fun (e, pos) =>
    if e.kind == "write" then some (natAt e.args 0, natAt e.args 1, pos, e.tid) else none


/-- expected payload seen by a handler of stage `k` for a written value: transformed by the mutable handlers of the
earlier stages in stage order (`none` when an earlier stage mixes a mutable handler with others: F9 topologies) -/
def expectedPayload (stages : List (List Bool)) (k : Nat) (v : Nat) : Option Nat :=
  (List.range k).foldl (fun acc k' =>
    match acc with
    | none => none
    | some v =>
      let st := stages.getD k' []
      let muts := (st.zipIdx).filter (·.1)
      match muts with
      | [] => some v
      | [(_, j)] => if st.length == 1 then some (transform v k' j) else none
      | _ => none) (some v)

def ascendingFrom (l : List Nat) (start : Nat) : Bool :=
  match l with
  | [] => true
  | a :: rest => a == start && ascendingFrom rest (start + 1)

/-- positions (in the trace) at which the producer cursor took each value: (value, pos) in trace order -/
def cursorUpdates (evs : Array Ev) (pc : String) : List (Nat × Nat) :=
  (evs.toList.zipIdx).filterMap fun (e, pos) =>
    if e.kind == "st" && e.args.head? == some pc then some (natAt e.args 1, pos)
    else if e.kind == "cas" && e.args.head? == some pc && e.obs == "1" then some (natAt e.args 2, pos)
    else none

/-- multi producer: did some writer store a smaller value into the low watermark than was stored there before? (the only plain
`st` a writer thread performs is `low_watermark.set`) -/
def lwRegressed (evs : Array Ev) : Bool := Id.run do
  let mut best : List (String × Nat) := []
  let mut bad := false
  for e in evs do
    if e.kind == "st" && e.tid.startsWith "W" then
      let l := e.args.headD ""
      let v := natAt e.args 1
      match best.find? (·.1 == l) with
      | some (_, m) => if v < m then bad := true else best := (l, v) :: best.filter (·.1 != l)
      | none => best := (l, v) :: best
  return bad

def specC04 (s : St) (status : String) : List String := Id.run do
  let evs := s.evs
  let hd := handledOf evs
  let ws := writesOf evs
  let mut out : List String := []
  let wseqs := (ws.map (·.1)).mergeSort (· ≤ ·)
  let pc := (lookup s.locs "pc").getD "?"
  let cups := cursorUpdates evs pc
  -- per handler: exactly the written sequences, increasing, gap-free, once (only judged for completed runs)
  for (stage, k) in s.cfg.stages.zipIdx do
    for (_, j) in stage.zipIdx do
      let mine := hd.filter (fun h => h.k == k && h.j == j)
      let seqs := mine.map (·.seq)
      -- order / duplicates are judged on every run, also incomplete ones
      let incr := (seqs.zip (seqs.drop 1)).all (fun (a, b) => a + 1 == b)
      if !incr then
        out := out ++ [s!"SPECFAIL C04 handler {k}.{j} sequence order/gap/duplicate: {seqs.take 12}"]
      if status == "ok" && s.cfg.drain then
        if seqs != wseqs then
          let missing := wseqs.filter (fun q => !seqs.contains q)
          let extra := seqs.filter (fun q => !wseqs.contains q)
          -- `stranded-tail`: exactly the written sequences above the last cursor value are missing (never released to the
          -- consumers — F8); published-but-undelivered sequences are something else
          let lastCur := (cups.getLast?.map (·.1)).getD 0
          let kind := if extra.isEmpty && !missing.isEmpty && missing == wseqs.filter (· > lastCur) then "stranded-tail"
                      else if extra.isEmpty && missing == [0] then "first-event" else "other"
          out := out ++ [s!"SPECFAIL C04 handler {k}.{j} delivered≠published kind={kind} missing={missing.take 8} extra={extra.take 8} producer={if s.cfg.multi then "multi" else "single"} lwRegressed={lwRegressed evs}"]
      -- payload (not judged for a handler that shares its stage with a mutable handler: within such a stage the order of the
      -- handlers is undefined — known finding F9, reported under C05)
      let mixed := stage.length ≥ 2 && stage.any id
      for h in (if mixed then [] else mine) do
        match ws.find? (fun w => w.1 == h.seq && w.2.2.1 < h.pos), expectedPayload s.cfg.stages k 0 with
        | some w, some _ =>
          -- latest write of that sequence before the handler call
          let w := ((ws.filter (fun w => w.1 == h.seq && w.2.2.1 < h.pos)).getLast?).getD w
          if expectedPayload s.cfg.stages k w.2.1 != some h.payload then
            out := out ++ [s!"SPECFAIL C04 handler {k}.{j} seq {h.seq} payload {h.payload} expected {expectedPayload s.cfg.stages k w.2.1}"]
        | none, _ => out := out ++ [s!"SPECFAIL C04 handler {k}.{j} invoked for seq {h.seq} which was never written before"]
        | _, none => pure ()
        -- not before publication: some cursor update ≥ seq precedes the call
        if !(cups.any (fun (v, p) => v ≥ h.seq && p < h.pos)) then
          out := out ++ [s!"SPECFAIL C04 handler {k}.{j} invoked for seq {h.seq} before it was published"]
  return out

def specC13 (s : St) : List String := Id.run do
  let hd := handledOf s.evs
  let mut out : List String := []
  for h in hd do
    if h.k > 0 then
      let prev := s.cfg.stages.getD (h.k - 1) []
      for (_, j') in prev.zipIdx do
        if !(hd.any (fun g => g.k == h.k - 1 && g.j == j' && g.seq == h.seq && g.pos < h.pos)) then
          out := out ++ [s!"SPECFAIL C13 handler {h.k}.{h.j} got seq {h.seq} before handler {h.k - 1}.{j'} finished it"]
  -- modifications of earlier stages are observed: same payload predicate as C04
  let ws := writesOf s.evs
  for h in hd do
    if h.k > 0 then
      match (ws.filter (fun w => w.1 == h.seq && w.2.2.1 < h.pos)).getLast? with
      | some w =>
        match expectedPayload s.cfg.stages h.k w.2.1 with
        | some v => if v != h.payload then
            out := out ++ [s!"SPECFAIL C13 handler {h.k}.{h.j} seq {h.seq} does not see the earlier stages' modifications: {h.payload} expected {v}"]
        | none => pure ()
      | none => pure ()
  return out

/-- C05, arithmetic part on implementation events: a slot is never written while a handler still has to read the
sequence stored there (write of `w` requires every handler to have finished `w - n`), and never read before/while written -/
def specC05slots (s : St) : List String := Id.run do
  let hd := handledOf s.evs
  let ws := writesOf s.evs
  let n := s.cfg.n
  let mut out : List String := []
  let first := ((ws.map (·.1)).foldl Nat.min (ws.headD (0, 0, 0, "")).1)
  for (w, _, pos, _) in ws do
    if w ≥ n + first then
      let old := w - n
      -- the single producer's sequence 0 is never delivered (F5): nothing to wait for
      if !(s.cfg.multi == false && old == 0) then
        for (stage, k) in s.cfg.stages.zipIdx do
          for (_, j) in stage.zipIdx do
            if !(hd.any (fun g => g.k == k && g.j == j && g.seq == old && g.pos < pos)) then
              out := out ++ [s!"SPECFAIL C05 slot {w % n} overwritten by seq {w} before handler {k}.{j} consumed seq {old}"]
  return out

/-- happens-before on implementation events: vector clocks recomputed from the orderings the facade reported.
Clock of a thread = for every thread u the number of u's slot accesses it knows of. -/
structure VC where
  m : List (String × Nat) := []
deriving Repr

def VC.get (v : VC) (t : String) : Nat := (lookup' v.m t).getD 0
where lookup' (l : List (String × Nat)) (k : String) : Option Nat := (l.find? (·.1 == k)).map (·.2)

def VC.set (v : VC) (t : String) (n : Nat) : VC := { m := (t, n) :: v.m.filter (·.1 != t) }
def VC.join (a b : VC) : VC := b.m.foldl (fun acc (t, n) => if acc.get t < n then acc.set t n else acc) a

def isRel (o : String) : Bool := o == "rel" || o == "acqrel" || o == "sc"
def isAcq (o : String) : Bool := o == "acq" || o == "acqrel" || o == "sc"

structure HB where
  thr : List (String × VC) := []          -- thread clocks
  loc : List (String × VC) := []          -- clock attached to each location's last release
  acc : List (Nat × String × Nat × Bool) := []   -- slot accesses: (slot, tid, own access number, isWrite)
  out : List String := []

def getVC (l : List (String × VC)) (k : String) : VC := ((l.find? (·.1 == k)).map (·.2)).getD {}
def setVC (l : List (String × VC)) (k : String) (v : VC) : List (String × VC) := (k, v) :: l.filter (·.1 != k)

def specC05hb (s : St) : List String :=
  let n := s.cfg.n
  let mutOf (tid : String) : Bool := match parseTid tid with
    | some (.cons k j) => (s.cfg.stages.getD k []).getD j false
    | _ => true
  let step (h : HB) (e : Ev) : HB :=
    let me := getVC h.thr e.tid
    match e.kind with
    | "start" =>
      -- spawn edge: the child knows what the spawner (main thread) knew
      { h with thr := setVC h.thr e.tid (me.join (getVC h.thr "M")) }
    | "join" =>
      let ts := (e.args.headD "").splitOn ","
      { h with thr := setVC h.thr e.tid (ts.foldl (fun acc t => acc.join (getVC h.thr t)) me) }
    | "st" | "stb" =>
      let o := e.args.getD 2 ""
      if isRel o then { h with loc := setVC h.loc (e.args.headD "") me } else { h with loc := setVC h.loc (e.args.headD "") {} }
    | "ld" | "ldb" =>
      if isAcq (e.args.getD 1 "") then { h with thr := setVC h.thr e.tid (me.join (getVC h.loc (e.args.headD ""))) } else h
    | "cas" =>
      let l := e.args.headD ""
      if e.obs == "1" then
        let me' := if isAcq (e.args.getD 3 "") then me.join (getVC h.loc l) else me
        { h with thr := setVC h.thr e.tid me', loc := if isRel (e.args.getD 3 "") then setVC h.loc l (me'.join (getVC h.loc l)) else h.loc }
      else if isAcq (e.args.getD 4 "") then { h with thr := setVC h.thr e.tid (me.join (getVC h.loc l)) } else h
    | "for" | "fand" | "fadd" =>
      let l := e.args.headD ""
      let o := e.args.getD 2 ""
      let me' := if isAcq o then me.join (getVC h.loc l) else me
      { h with thr := setVC h.thr e.tid me', loc := if isRel o then setVC h.loc l (me'.join (getVC h.loc l)) else h.loc }
    | "unlock" | "cvwait" =>
      { h with loc := setVC h.loc (if e.kind == "cvwait" then e.args.getD 1 "" else e.args.headD "") ((getVC h.loc (if e.kind == "cvwait" then e.args.getD 1 "" else e.args.headD "")).join me) }
    | "lock" | "relock" =>
      { h with thr := setVC h.thr e.tid (me.join (getVC h.loc (e.args.headD ""))) }
    | "slot" =>
      let seq := natAt e.args 1
      let slot := seq % n
      let isW := e.args.headD "" == "mut" && mutOf e.tid
      -- every earlier conflicting access of this slot by another thread must be known to `me`
      let bad := h.acc.filter (fun (sl, t, num, w) => sl == slot && t != e.tid && (w || isW) && me.get t < num)
      let own := me.get e.tid + 1
      let me' := me.set e.tid own
      { h with thr := setVC h.thr e.tid me', acc := (slot, e.tid, own, isW) :: h.acc,
               out := h.out ++ bad.map (fun (sl, t, num, w) =>
                 s!"SPECFAIL C05 unordered conflicting accesses to slot {sl}: {e.tid} seq {seq} ({if isW then "write" else "read"}) vs access #{num} of {t} ({if w then "write" else "read"})") }
    | _ => h
  (s.evs.foldl step {}).out

/-- sequences whose `write` call has returned: every `write <seq>` of a thread that is followed by a `wend` of the same
thread -/
def completedWrites (evs : Array Ev) : List Nat := Id.run do
  let mut open_ : List (String × List Nat) := []
  let mut done : List Nat := []
  for e in evs do
    if e.kind == "wbegin" then open_ := (e.tid, []) :: open_.filter (·.1 != e.tid)
    else if e.kind == "write" then
      open_ := open_.map (fun (t, l) => if t == e.tid then (t, l ++ [natAt e.args 0]) else (t, l))
    else if e.kind == "wend" then
      match open_.find? (·.1 == e.tid) with
      | some (_, l) => done := done ++ l; open_ := open_.filter (·.1 != e.tid)
      | none => pure ()
  return done

/-- C06 on the implementation's events: the run must end with every managed thread finished (`ok`), `drain`, join and
every `write` call must have returned. A run that does not end (`deadlock` / `budget` / `hang` / `panic` / `crash`) is a
violation; for the multi producer it is classified `kind=multi-stranded` (known finding F11) when some sequence was
written and its `write` call returned although the producer cursor never reached it (out-of-order publication
strands it, and every later claim then waits for ever on the gate / `drain` on the cursor). -/
def specC06 (s : St) (status : String) : List String :=
  let has (k : String) := s.evs.any (fun e => e.kind == k)
  let pc := (lookup s.locs "pc").getD "?"
  let last := ((cursorUpdates s.evs pc).getLast?.map (·.1)).getD 0
  let stranded := (completedWrites s.evs).filter (fun q => q > last)
  let prod := if s.cfg.multi then "multi" else "single"
  let kind := if s.cfg.multi && !stranded.isEmpty then "multi-stranded" else "other"
  (if status != "ok" then
     [s!"SPECFAIL C06 run ended with status {status} kind={kind} producer={prod} cursor={last} stranded={stranded.take 4}"]
   else []) ++
  ((s.evs.toList.filter (fun e => e.kind == "panic")).map (fun e => s!"SPECFAIL C06 thread {e.tid} panicked instead of returning")) ++
  (if status == "ok" && s.cfg.drain && !(has "drained") then ["SPECFAIL C06 drain did not return"] else []) ++
  (if status == "ok" && !(has "joined") then ["SPECFAIL C06 join did not return"] else []) ++
  -- `drain` returns only after the last-stage handlers have caught up with everything published
  (match (s.evs.toList.zipIdx.find? (fun (e, _) => e.kind == "drained")).map (·.2) with
   | some dpos =>
     let pc := (lookup s.locs "pc").getD "?"
     let published := ((cursorUpdates s.evs pc).filter (fun (_, p) => p < dpos)).foldl (fun m (v, _) => Nat.max m v) 0
     let hd := handledOf s.evs
     let lastK := s.cfg.stages.length - 1
     (((s.cfg.stages.getD lastK []).zipIdx).filterMap fun (_, j) =>
        if published ≥ 1 && !(hd.any (fun g => g.k == lastK && g.j == j && g.seq == published && g.pos < dpos)) then
          some s!"SPECFAIL C06 drain returned before last-stage handler {lastK}.{j} had caught up with sequence {published}"
        else none)
   | none => []) ++
  (let wb := (s.evs.filter (fun e => e.kind == "wbegin")).size
   let we := (s.evs.filter (fun e => e.kind == "wend")).size
   if status == "ok" && wb != we then [s!"SPECFAIL C06 {wb - we} write call(s) did not return"] else [])

/-- has thread `tid`, which wrote a slot at position `wpos`, entered `publish` of that write call by position `upto`
(inclusive)? i.e. is there an event of `tid` in `(wpos, upto]` that is neither a slot access nor a slot write — the first thing
`Producer::write` does after its last slot write is `sequencer.publish(..)` -/
def publishBegun (evs : Array Ev) (tid : String) (wpos upto : Nat) : Bool := Id.run do
  let mut i := wpos + 1
  let mut found := false
  while i ≤ upto && i < evs.size && !found do
    let e := evs[i]!
    if e.tid == tid && e.kind != "write" && e.kind != "slot" then found := true
    i := i + 1
  return found

def specC14 (s : St) (status : String) : List String := Id.run do
  let evs := s.evs
  let ws := writesOf evs
  let pc := (lookup s.locs "pc").getD "?"
  let cups := cursorUpdates evs pc
  let mut out : List String := []
  -- claims: group write lines per write call (wbegin … wend of one thread)
  let mut claims : List (Nat × Nat × Nat × String) := []   -- (lo, hi, requested, tid)
  let mut open_ : List (String × Nat × List Nat) := []
  for e in evs do
    if e.kind == "wbegin" then open_ := (e.tid, natAt e.args 0, []) :: open_.filter (·.1 != e.tid)
    else if e.kind == "write" then
      open_ := open_.map (fun (t, b, l) => if t == e.tid then (t, b, l ++ [natAt e.args 0]) else (t, b, l))
    else if e.kind == "wend" then
      match open_.find? (·.1 == e.tid) with
      | some (t, b, l) =>
        claims := claims ++ [(l.headD 0, l.getLastD 0, b, t)]
        if l.length != b || !(ascendingFrom l (l.headD 0)) then
          out := out ++ [s!"SPECFAIL C14 claim of {t} is not a contiguous range of the requested length {b}: {l}"]
        open_ := open_.filter (·.1 != e.tid)
      | none => pure ()
  -- disjoint and gap-free
  let sorted := claims.mergeSort (fun a b => a.1 ≤ b.1)
  for (a, b) in sorted.zip (sorted.drop 1) do
    if a.2.1 + 1 != b.1 then
      out := out ++ [s!"SPECFAIL C14 claimed ranges overlap or leave a gap: [{a.1},{a.2.1}] then [{b.1},{b.2.1}]"]
  -- cursor monotone
  for ((v1, _), (v2, _)) in cups.zip (cups.drop 1) do
    if v2 < v1 then out := out ++ [s!"SPECFAIL C14 cursor decreased from {v1} to {v2}"]
  -- cursor never passes an unpublished sequence: every seq ≤ v that is ever claimed was written before the update
  let first := (sorted.headD (0, 0, 0, "")).1
  for (v, pos) in cups do
    for q in List.range (v + 1 - first) do
      let sq := first + q
      if (ws.any (fun w => w.1 == sq)) || sq ≤ (sorted.getLastD (0, 0, 0, "")).2.1 then
        if !(ws.any (fun w => w.1 == sq && w.2.2.1 < pos)) then
          out := out ++ [s!"SPECFAIL C14 cursor moved to {v} past unpublished sequence {sq}"]
        else if !(ws.any (fun w => w.1 == sq && w.2.2.1 < pos && publishBegun evs w.2.2.2 w.2.2.1 pos)) then
          -- written, but its claimant has not entered `publish` yet (no operation of that thread after the last slot write of
          -- the call): the cursor is not a *published* prefix
          out := out ++ [s!"SPECFAIL C14 cursor moved to {v} past sequence {sq} whose claimant has not begun to publish it"]
  -- once all claimants have published, cursor = highest claimed
  if status == "ok" && !claims.isEmpty && open_.isEmpty then
    let hi := claims.foldl (fun m c => Nat.max m c.2.1) 0
    let last := (cups.getLast?.map (·.1)).getD 0
    if last != hi then
      out := out ++ [s!"SPECFAIL C14 all claimants published but cursor={last} highest-claimed={hi} producer={if s.cfg.multi then "multi" else "single"} lwRegressed={lwRegressed evs}"]
  return out

/-- smoke runs (no global order of events): per-handler delivery and payloads only -/
def specSmoke (s : St) (status : String) : List String := Id.run do
  let hd := handledOf s.evs
  let ws := writesOf s.evs
  let wseqs := (ws.map (·.1)).mergeSort (· ≤ ·)
  let mut out : List String := []
  for (stage, k) in s.cfg.stages.zipIdx do
    for (_, j) in stage.zipIdx do
      let mine := hd.filter (fun h => h.k == k && h.j == j)
      let seqs := mine.map (·.seq)
      if !((seqs.zip (seqs.drop 1)).all (fun (a, b) => a + 1 == b)) then
        out := out ++ [s!"SPECFAIL C04 smoke: handler {k}.{j} sequence order/gap/duplicate: {seqs.take 12}"]
      if status == "ok" then
        let expected := if s.cfg.multi then wseqs else wseqs.filter (· ≠ 0)     -- F5: sequence 0 is never delivered
        -- the multi producer may strand a tail (F7/F8/F13): a prefix of the written sequences is the most that can be judged
        let okDelivered := if s.cfg.multi then seqs == expected.take seqs.length else seqs == expected
        if !okDelivered then
          out := out ++ [s!"SPECFAIL C04 smoke: handler {k}.{j} delivered {seqs.take 8}… of published {expected.take 8}…"]
      let mixed := stage.length ≥ 2 && stage.any id
      for h in (if mixed then [] else mine) do
        match ws.find? (fun w => w.1 == h.seq), expectedPayload s.cfg.stages k 0 with
        | some w, some _ =>
          if expectedPayload s.cfg.stages k w.2.1 != some h.payload then
            out := out ++ [s!"SPECFAIL C04 smoke: handler {k}.{j} seq {h.seq} payload {h.payload} expected {expectedPayload s.cfg.stages k w.2.1}"]
        | none, _ => out := out ++ [s!"SPECFAIL C04 smoke: handler {k}.{j} invoked for seq {h.seq} which was never written"]
        | _, none => pure ()
  return out

def dedup (l : List String) : List String := l.foldl (fun acc x => if acc.contains x then acc else acc ++ [x]) []

def finish (s : St) (status : String) : List String :=
  let spec := if s.cfg.smoke then
      (match s.prop with
       | "C04" => specSmoke s status
       -- a producer that laps a handler shows at the handler as a payload that belongs to a later sequence
       | "C05" => ((specSmoke s status).filter (fun l => (l.splitOn "payload").length > 1 || (l.splitOn "never written").length > 1)).map
           (fun l => l.replace "C04 smoke" "C05 smoke (slot overwritten before it was consumed)")
       | "C06" => if s.cfg.multi && status != "ok" then [] else specC06 s status   -- a stranded multi-producer run may hang for real
       | _ => [])
    else match s.prop with
    | "C04" => specC04 s status
    | "C05" => specC05slots s ++ specC05hb s
    | "C06" => specC06 s status
    | "C13" => specC13 s
    | "C14" => specC14 s status
    | _ => []
  let modelEnd := match s.model, s.modelLost, status with
    | some (.single _ px), false, "ok" =>
      -- at the end every model thread must have terminated as well
      let x := Ring.skipInternal px.x .prod 16
      if x.p.pc != .done then [s!"MISMATCH run complete but model producer is at {repr x.p.pc}"] else []
    | some (.multi _ px), false, "ok" =>
      if px.x.dr.pc != .done then [s!"MISMATCH run complete but model drainer is at {repr px.x.dr.pc}"] else []
    | _, _, _ => []
  (dedup spec).take 6 ++ modelEnd

def handler (prop : String) : Handler St where
  init := { prop := prop }
  onCase args ans :=
    let cfg := parseCfg args
    let toks := (ans.splitOn " ").filter (· ≠ "")
    let locs := (toks.drop 1).filterMap (fun t => match t.splitOn "=" with | [a, b] => some (a, b) | _ => none)
    ({ prop := prop, cfg := cfg, caseOk := toks.head? == some "ok", locs := locs,
       model := if cfg.smoke then none else some (mkModel cfg) },
     if toks.head? == some "ok" then [] else [s!"MISMATCH harness could not start the case: {ans}"])
  onOp s op args ans :=
    if op == "run" then
      -- bounded-preemption search: every `run` block is a fresh execution of the same configuration
      let toks := (ans.splitOn " ").filter (· ≠ "")
      let locs := (toks.drop 1).filterMap (fun t => match t.splitOn "=" with | [a, b] => some (a, b) | _ => none)
      ({ prop := s.prop, cfg := s.cfg, caseOk := true, locs := locs, model := some (mkModel s.cfg) }, [])
    else if op == "dfs-summary" then (s, [])
    else if op == "end" then
      let msgs := finish s ans
      ({ s with caseOk := false }, msgs)
    else
      let e := evOfLine op args ans
      let s := { s with evs := s.evs.push e }
      replay s e
  onEnd _ := []

end Driver.Ring
