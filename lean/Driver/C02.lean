import Driver.Common
import DcVerif.Model.Causaloid
import DcVerif.Spec.Causaloid
/-! Driver for C02 and C11 (same line protocol, see harness/src/c02.rs): replays build / evaluation / query lines on
`Model/Causaloid.lean`, judges the implementation's verdicts by the conjunction oracle `Spec.Nest.conj ∘ contained` and by
"wrapped = direct" (C02), and its flags and aggregates by the activation laws of `Spec.Nest` (C11). -/
namespace Driver.C02
open Driver Causal Dfs

inductive Mode | c02 | c11 deriving DecidableEq

structure St where
  markers : Array Nat := #[]
  arena : Array Causaloid := #[]
  cells : Cells := Cells.init            -- model
  implFlags : String := ""               -- flags last printed by the implementation
  last : Option (List String × String) := none   -- args and implementation verdict of the last `va`

def fuel : Nat := 1000000

def parseList (s : String) : List Nat := if s == "-" then [] else (s.splitOn ",").map (·.toNat?.getD 0)

def parsePairs (sep : String) (s : String) : List (Nat × Nat) :=
  if s == "-" then [] else (s.splitOn ",").map (fun kv => match kv.splitOn sep with
    | [a, b] => (a.toNat?.getD 0, b.toNat?.getD 0)
    | _ => (0, 0))

def parseIdx (s : String) : Idx := if s == "-" then none else if s == "e" then some [] else some (parsePairs ":" s)

def vStr : Option V → String
  | some .t => "t"
  | some .f => "f"
  | some .e => "err"
  | none => "panic"

def parseV (s : String) : Option (Option V) :=
  match s with
  | "t" => some (some .t)
  | "f" => some (some .f)
  | "err" => some (some .e)
  | "panic" => some none
  | _ => none

def flagsOf (s : Cells) (arena : Array Causaloid) : String :=
  if arena.isEmpty then "-" else String.ofList (arena.toList.map (fun c => if isActive s c then '1' else '0'))

def mkFn (st : St) : Nat → Nat := fun c => st.markers.getD c 0

def parseFn (st : St) (s : String) : Option Fn :=
  if s == "p" then some .plain
  else if s == "i" then some .inv
  else if s == "xn" then some (.ctx none)
  else if s.startsWith "x" then
    match (s.drop 1).toString.toNat? with
    | some k => if k < st.markers.size then some (.ctx (some k)) else none
    | none => none
  else none

def getHandles (st : St) (s : String) : Option (List Causaloid) := (parseList s).mapM (st.arena[·]?)

def ctxOk (st : St) (args : List String) (i : Nat) : Bool :=
  match args[i]? with
  | none => true
  | some k => match k.toNat? with
    | some k => k < st.markers.size
    | none => false

def push (st : St) (c : Causaloid) : St × String := ({ st with arena := st.arena.push c }, toString st.arena.size)

/-- the implementation's flags as an activation of cells: the flag of cell `k` is printed at handle `k` (where it was created) -/
def implCells (flags : String) : Nat → Bool := fun k => flags.toList.getD k '0' == '1'

def hexDigit (n : Nat) : Char := if n < 10 then Char.ofNat (48 + n) else Char.ofNat (87 + n)

def hex16 (n : Nat) : String := String.ofList ((List.range 16).map (fun i => hexDigit ((n >>> (4 * (15 - i))) % 16)))

def bits (x : Float) : String := if x.isNaN then "nan" else hex16 x.toBits.toNat

def idList (l : List Causaloid) : String := if l.isEmpty then "-" else ",".intercalate (l.map (fun c => toString c.id))

/-- the answer of `agg`: `k` active of `n` members (`number_active`, `percent_active` redone in `f64`, all-active flag) -/
def aggFmt (isColl : Bool) (k n : Nat) (all : Bool) (act inact : List Causaloid) : String :=
  let number := bits (Float.ofNat k)
  let percent := bits (Float.ofNat k / Float.ofNat n * 100.0)
  if isColl then s!"{number};{percent};{boolStr all};{idList act};{idList inact}"
  else s!"{number};{percent};{boolStr all};{n}"

/-- model: the functions the theorems of C11 are about -/
def aggModel (isColl : Bool) (s : Cells) (members : List Causaloid) : String :=
  aggFmt isColl (countActive s members) members.length (allActive s members)
    (members.filter (isActive s)) (members.filter (fun c => !isActive s c))

/-- spec: recount over the members, their activation read off the implementation's own flags -/
def aggSpec (isColl : Bool) (ic : Nat → Bool) (members : List Causaloid) : String :=
  let act := members.filter (Spec.Nest.activeBy ic)
  aggFmt isColl act.length members.length (act.length == members.length) act
    (members.filter (fun c => !Spec.Nest.activeBy ic c))

def splitAns (ans : String) : String × String :=
  match ans.splitOn ":" with
  | [v, f] => (v, f)
  | _ => (ans, "")

/-- C11 laws that can be read off the implementation's own output: clones share the cell and a wrapper is active iff a
    member is (both: `flags[h] = activeBy implCells arena[h]`); frame: cells outside the evaluated tree keep their flag -/
def flagLaws (st : St) (tree : Option Causaloid) (flags : String) : List String :=
  let ic := implCells flags
  let bad := (List.range st.arena.size).filter (fun h =>
    (flags.toList.getD h '?' == '1') != Spec.Nest.activeBy ic (st.arena.getD h default))
  let old := implCells st.implFlags
  let touched := match tree with
    | some t => Spec.Nest.leafCells t
    | none => []
  let isCell (k : Nat) : Bool := match st.arena.getD k default with
    | .single cell _ _ => cell == k
    | _ => false
  let moved := (List.range st.arena.size).filter (fun k => isCell k && ic k != old k && !touched.contains k)
  (if bad.isEmpty then [] else [s!"SPECFAIL impl={flags} spec=flag-of-handle-{bad.head!}-is-not-any-member/shared-cell"]) ++
  (if tree.isNone || moved.isEmpty then [] else [s!"SPECFAIL impl={flags} spec=frame:cell-{moved.head!}-not-evaluated-but-changed"])

def evalOp (mode : Mode) (st : St) (ans : String) (tree : Option Causaloid) (verdict : Option V) (log : List Event)
    (contained : Option (List (Option V))) (direct : Option (List String)) (args : List String) : St × List String :=
  let cells' := applyLog st.cells log
  let model := s!"{vStr verdict}:{flagsOf cells' st.arena}"
  let (iv, ifl) := splitAns ans
  let mism := if model == ans then [] else [s!"MISMATCH impl={ans} model={model}"]
  let spec02 := if mode != .c02 then [] else
    (match contained, parseV iv with
     | some L, some a => if Spec.Nest.conj L a then [] else [s!"SPECFAIL impl={iv} spec=conjunction-of-contained-verdicts"]
     | some _, none => [s!"SPECFAIL impl={iv} spec=a-verdict"]
     | none, _ => []) ++
    (match direct, st.last with
     | some key, some (k, v) => if k.take key.length == key && v != iv then [s!"SPECFAIL impl={iv} spec=wrapped-verdict-{v}"] else []
     | _, _ => [])
  let spec11 := if mode != .c11 then [] else
    (if ifl.length == st.arena.size then flagLaws st tree ifl else [s!"SPECFAIL impl={ans} spec=one-flag-per-handle"]) ++
    -- a direct singleton evaluation: Ok(b) stores b, Err/panic stores nothing
    (match tree, contained with
     | some (.single cell _ _), none =>
       let want := match parseV iv with
         | some (some .t) => true
         | some (some .f) => false
         | _ => implCells st.implFlags cell
       if implCells ifl cell == want then [] else [s!"SPECFAIL impl={ans} spec=flag-mirrors-evaluation"]
     | _, _ => [])
  let last := match direct with
    | none => some (args, iv)     -- a `va` line
    | some _ => st.last
  ({ st with cells := cells', implFlags := if ifl.length == st.arena.size then ifl else st.implFlags, last := last },
   mism ++ spec02 ++ spec11)

def handlerFor (mode : Mode) : Handler St where
  init := {}
  onCase args ans :=
    ({ markers := (parseList (args.getD 1 "-")).toArray }, judge ans (some "ok") none)
  onOp st op args ans :=
    let mk := mkFn st
    let a (i : Nat) : String := args.getD i "-"
    let bad : St × List String := (st, judge ans (some "bad") none)
    let built (r : St × String) : St × List String := (r.1, judge ans (some r.2) none)
    match op with
    | "s" =>
      match parseFn st (a 1) with
      | some fn => built (push st (.single st.arena.size (natArg args 0) fn))
      | none => bad
    | "c" =>
      match getHandles st (a 1), ctxOk st args 2 with
      | some items, true => built (push st (.coll (natArg args 0) items))
      | _, _ => bad
    | "g" =>
      match getHandles st (a 1), ctxOk st args 4 with
      | some nodes, true =>
        let n := nodes.length
        let edges := parsePairs "-" (a 2)
        let okEdges := edges.all (fun e => e.1 < n && e.2 < n) && edges.eraseDups.length == edges.length
        let root := match (a 3).toNat? with
          | some r => if r < n then some r else none
          | none => none
        if okEdges then built (push st (.graph (natArg args 0) nodes edges root)) else bad
      | _, _ => bad
    | "clone" =>
      match st.arena[natArg args 0]? with
      | some c => built (push st c)
      | none => bad
    | "vs" =>
      match st.arena[natArg args 0]? with
      | some c =>
        let obs := natArg args 1
        evalOp mode st ans (some c) (verifySingle mk c obs) (singleLog mk c obs) none none args
      | none => (st, judge ans (some "panic") none)
    | "va" =>
      match st.arena[natArg args 0]? with
      | some c =>
        let (d, ix) := (parseList (a 1), parseIdx (a 2))
        evalOp mode st ans (some c) (verifyAll mk fuel c d ix) (logAll mk fuel c d ix) (some (Spec.Nest.contained mk c d ix)) none args
      | none => (st, judge ans (some "panic") none)
    | "rc" =>
      match st.arena[natArg args 0]? with
      | some (.coll id items) =>
        let d := parseList (a 1)
        evalOp mode st ans (some (.coll id items)) (reasonColl mk fuel items d) (logColl mk fuel items d)
          (some (Spec.Nest.contained mk (.coll id items) d none)) (some [a 0, a 1]) args
      | _ => bad
    | "rg" =>
      match st.arena[natArg args 0]? with
      | some (.graph id nodes edges root) =>
        let (d, ix) := (parseList (a 1), parseIdx (a 2))
        evalOp mode st ans (some (.graph id nodes edges root)) (reasonAllGraph mk fuel nodes edges root d ix)
          (logAllGraph mk fuel nodes edges root d ix) (some (Spec.Nest.contained mk (.graph id nodes edges root) d ix))
          (some [a 0, a 1, a 2]) args
      | _ => bad
    | "act" =>
      (if ans.length == st.arena.size then { st with implFlags := ans } else st,
       judge ans (some (flagsOf st.cells st.arena)) none ++
         (if mode == .c11 && ans.length == st.arena.size then flagLaws st none ans else []))
    | "agg" =>
      match st.arena[natArg args 0]? with
      | some (.coll _ items) =>
        (st, judge ans (some (aggModel true st.cells items))
          (if mode == .c11 then some (aggSpec true (implCells st.implFlags) items) else none))
      | some (.graph _ nodes _ _) =>
        (st, judge ans (some (aggModel false st.cells nodes))
          (if mode == .c11 then some (aggSpec false (implCells st.implFlags) nodes) else none))
      | _ => bad
    | _ => (st, ["MISMATCH unknown-op"])

def handler : Handler St := handlerFor .c02

end Driver.C02
