import Driver.Common
import DcVerif.Model.UGraph
/-! C08 driver: replays `UltraGraph` op lines on `Model.UGraph` (repaired version) and judges the
implementation's answers with the executable specification `Spec.DiGraph`. Also used by C15 and C09. -/
namespace Driver.C08
open Driver Spec Spec.DiGraph Model Model.UGraph

def commaList (l : List String) : String := if l.isEmpty then "-" else ",".intercalate l

def renderOut : Out → String
  | .idx i => toString i
  | .ok => "ok"
  | .err => "err"
  | .bool b => boolStr b
  | .nat n => toString n
  | .optNat none => "none"
  | .optNat (some v) => toString v
  | .nats l => commaList (l.map toString)
  | .pairs l => commaList (l.map (fun p => s!"{p.1}:{p.2}"))
  | .panic => "panic"

def parseOp (op : String) (a : List String) : Option Op :=
  let n := natArg a
  match op with
  | "add" => some (.addNode (n 0))
  | "addroot" => some (.addRoot (n 0))
  | "rmnode" => some (.removeNode (n 0))
  | "edge" => some (.addEdge (n 0) (n 1))
  | "edgew" => some (.addEdgeW (n 0) (n 1) (n 2))
  | "rmedge" => some (.removeEdge (n 0) (n 1))
  | "clear" => some .clear
  | "hasnode" => some (.containsNode (n 0))
  | "get" => some (.getNode (n 0))
  | "hasedge" => some (.containsEdge (n 0) (n 1))
  | "size" => some .size
  | "empty" => some .isEmpty
  | "nnodes" => some .numNodes
  | "nedges" => some .numEdges
  | "nodes" => some .allNodes
  | "edges" => some .allEdges
  | "out" => some (.outgoing (n 0))
  | "hasroot" => some .containsRoot
  | "rootnode" => some .getRootNode
  | "rootidx" => some .getRootIndex
  | "lastidx" => some .getLastIndex
  | _ => none

def parseNats (s : String) : Option (List Nat) :=
  if s == "-" then some [] else (s.splitOn ",").mapM String.toNat?

def parsePair (s : String) : Option (Nat × Nat) :=
  match s.splitOn ":" with
  | [a, b] => do let x ← a.toNat?; let y ← b.toNat?; pure (x, y)
  | _ => none

/-- the implementation's answer as an `Out`, by the kind of the operation (`none` = not even well-formed,
e.g. `panic`) -/
def parseOut (op : Op) (ans : String) : Option Out :=
  match op with
  | .addNode _ | .addRoot _ => ans.toNat?.map .idx
  | .removeNode _ | .addEdge _ _ | .addEdgeW _ _ _ | .removeEdge _ _ | .clear =>
    if ans == "ok" then some .ok else if ans == "err" then some .err else none
  | .containsNode _ | .containsEdge _ _ | .isEmpty | .containsRoot =>
    if ans == "1" then some (.bool true) else if ans == "0" then some (.bool false) else none
  | .getNode _ | .getRootNode | .getRootIndex =>
    if ans == "none" then some (.optNat none) else ans.toNat?.map (fun v => .optNat (some v))
  | .size | .numNodes | .numEdges => ans.toNat?.map .nat
  | .allNodes => (parseNats ans).map .nats
  | .allEdges => if ans == "-" then some (.pairs []) else ((ans.splitOn ",").mapM parsePair).map .pairs
  -- the order of an outgoing list is not part of the property: canonicalised for the spec
  | .outgoing _ => if ans == "err" then some .err else (parseNats ans).map (fun l => .nats (sortNat l))
  | .getLastIndex => if ans == "err" then some .err else ans.toNat?.map .nat

/-- every observer over `[0, n)` in the harness's `snap` format; `obs` answers an observer op -/
def snapshot (obs : Op → Out) (n : Nat) : String :=
  let r := fun op => renderOut (obs op)
  let idxs := List.range n
  let live := idxs.filterMap (fun i =>
    match obs (.containsNode i), obs (.getNode i) with
    | .bool false, .optNat none => none
    | .bool true, .optNat (some v) => some s!"{i}={v}"
    | .bool true, .optNat none => some s!"{i}=?"
    | .bool false, .optNat (some v) => some s!"{i}=!{v}"
    | _, _ => some s!"{i}=panic")
  let ce := idxs.flatMap (fun i => idxs.filterMap (fun j =>
    match obs (.containsEdge i j) with
    | .bool true => some s!"{i}:{j}"
    | .bool false => none
    | _ => some s!"{i}:{j}:panic"))
  let out := idxs.filterMap (fun i =>
    match obs (.outgoing i) with
    | .err => none
    | .nats l => some (s!"{i}>" ++ (if l.isEmpty then "-" else "+".intercalate ((sortNat l).map toString)))
    | _ => some s!"{i}>panic")
  s!"n={r .numNodes};sz={r .size};emp={r .isEmpty};e={r .numEdges};live={commaList live};ce={commaList ce};" ++
  s!"all={r .allEdges};vals={r .allNodes};out={commaList out};root={r .containsRoot}/{r .getRootIndex}/{r .getRootNode};" ++
  s!"last={r .getLastIndex}"

structure St where
  g : UGraph := {}
  s : Option DiGraph := some {}     -- none: the spec rejected an earlier answer of this case
  dead : Bool := false              -- the implementation panicked: its state is unknown from here on

/-- one graph op line on (model, spec); returns the new states and the verdicts -/
def graphOp (g : UGraph) (s : Option DiGraph) (op : Op) (ans : String) : UGraph × Option DiGraph × List String :=
  let (g', mo) := Model.UGraph.step .repaired g op
  let mism := if renderOut mo == ans then [] else [s!"MISMATCH impl={ans} model={renderOut mo}"]
  match s with
  | none => (g', none, mism)
  | some sp =>
    let expect := match op with
      | .addNode _ | .addRoot _ => "an-index-that-is-not-live"
      | _ => renderOut (sp.det op).2
    match (parseOut op ans).bind (fun o => Spec.DiGraph.step sp op o) with
    | some sp' => (g', some sp', mism)
    | none => (g', none, mism ++ [s!"SPECFAIL impl={ans} spec={expect}"])

def handler : Handler St where
  init := {}
  onCase _ _ := ({}, [])
  onOp st op args ans :=
    if st.dead then (st, []) else
    let st1 := if ans == "panic" then { st with dead := true } else st
    if op == "addmany" then
      -- index-width boundary (model indices are unbounded naturals; the bound is the translator fact
      -- `Gen.UGraphTypes.indexBits`): judged by counting only, the case ends here
      let n := natArg args 0
      let field (k : String) : Nat := (((ans.splitOn " ").filterMap fun t =>
        if t.startsWith (k ++ "=") then (t.drop (k.length + 1)).toString.toNat? else none).head?).getD 0
      let ok := field "distinct" == n && field "after" == field "before" + n && field "listed" == field "after"
      ({ st1 with dead := true },
       if ok then [] else [s!"SPECFAIL addmany {n}: every add must return a fresh index and the counts must agree: {ans}"])
    else if op == "snap" then
      let n := natArg args 0
      let m := snapshot (fun o => (Model.UGraph.step .repaired st.g o).2) n
      let sp := st.s.map (fun s => snapshot (fun o => (s.det o).2) n)
      (st1, judge ans (some m) sp)
    else match parseOp op args with
      | none => (st1, ["MISMATCH unknown-op"])
      | some o =>
        let (g', s', msgs) := graphOp st.g st.s o ans
        ({ st1 with g := g', s := s' }, msgs)

end Driver.C08
