/-! Line-protocol framework shared by all per-property drivers.

Input lines: `case <id> <args…> => <impl answer>` starts a fresh case, every other line is
`<op> <args…> => <impl answer>`. A handler replays the line on the Lean model and on the spec oracle
and returns verdict messages:
  `MISMATCH …`  model and implementation differ  (the model no longer mirrors the code)
  `SPECFAIL …`  the implementation's answer violates the property's executable specification
Both are reported with case id and line number; the summary line closes the stream. -/
namespace Driver

structure Handler (σ : Type) where
  init : σ
  /-- args, impl answer -/
  onCase : List String → String → σ × List String
  /-- state, op, args, impl answer -/
  onOp : σ → String → List String → String → σ × List String
  /-- end of a case (also called before the next `case` line and at end of input) -/
  onEnd : σ → List String := fun _ => []

structure Stats where
  cases : Nat := 0
  lines : Nat := 0
  mism : Nat := 0
  spec : Nat := 0

def splitAnswer (line : String) : List String × String :=
  match line.splitOn " => " with
  | [l, r] => ((l.splitOn " ").filter (· ≠ ""), r.trimAscii.toString)
  | [l] => ((l.splitOn " ").filter (· ≠ ""), "")
  | l :: rest => ((l.splitOn " ").filter (· ≠ ""), (" => ".intercalate rest).trimAscii.toString)
  | [] => ([], "")

def countMsgs (st : Stats) (msgs : List String) : Stats :=
  msgs.foldl (fun st m =>
    if m.startsWith "MISMATCH" then { st with mism := st.mism + 1 }
    else if m.startsWith "SPECFAIL" then { st with spec := st.spec + 1 } else st) st

partial def loop {σ : Type} (h : Handler σ) (inp : IO.FS.Stream) (out : IO.FS.Stream)
    (s : σ) (caseId : String) (open_ : Bool) (lineNo : Nat) (st : Stats) : IO Stats := do
  let line ← inp.getLine
  if line.isEmpty then
    let msgs := if open_ then h.onEnd s else []
    for m in msgs do out.putStrLn s!"{m} case={caseId} line=end"
    return countMsgs st msgs
  let l := line.trimAscii.toString
  if l.isEmpty || l.startsWith "#" then
    loop h inp out s caseId open_ (lineNo + 1) st
  else
    let (toks, ans) := splitAnswer l
    match toks with
    | "case" :: id :: args =>
      let endMsgs := if open_ then h.onEnd s else []
      for m in endMsgs do out.putStrLn s!"{m} case={caseId} line=end"
      let (s', msgs) := h.onCase args ans
      for m in msgs do out.putStrLn s!"{m} case={id} line={lineNo} :: {(l.take 240).toString}"
      let st := countMsgs (countMsgs st endMsgs) msgs
      loop h inp out s' id true (lineNo + 1) { st with cases := st.cases + 1, lines := st.lines + 1 }
    | op :: args =>
      let (s', msgs) := h.onOp s op args ans
      for m in msgs do out.putStrLn s!"{m} case={caseId} line={lineNo} :: {(l.take 240).toString}"
      loop h inp out s' caseId open_ (lineNo + 1) { (countMsgs st msgs) with lines := st.lines + 1 }
    | [] => loop h inp out s caseId open_ (lineNo + 1) st

def run {σ : Type} (h : Handler σ) : IO UInt32 := do
  let inp ← IO.getStdin
  let out ← IO.getStdout
  let st ← loop h inp out h.init "-" false 1 {}
  out.putStrLn s!"SUMMARY cases={st.cases} lines={st.lines} mismatches={st.mism} specfails={st.spec}"
  return 0

/-- compare an implementation answer with model and spec answers -/
def judge (impl : String) (model : Option String) (spec : Option String) : List String :=
  (match model with
   | some m => if m == impl then [] else [s!"MISMATCH impl={impl} model={m}"]
   | none => []) ++
  (match spec with
   | some sp => if sp == impl then [] else [s!"SPECFAIL impl={impl} spec={sp}"]
   | none => [])

def natArg (args : List String) (i : Nat) : Nat := (args.getD i "").toNat?.getD 0
def boolStr (b : Bool) : String := if b then "1" else "0"

end Driver
