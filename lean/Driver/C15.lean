import Driver.C08
import DcVerif.Spec.ShortestPath
/-! C15 driver: graph op lines are replayed exactly as for C08 (model + spec state); every `sp a b` / `spall n`
answer of the real `shortest_path` is (a) compared with the model where the model is deterministic — the two
`contains_node` guards — and (b) judged by the proved oracle `Spec.ShortestPath.judgeWith` (real path, minimum
weight, `none` iff absent/unreachable): translation validation of petgraph's `astar`, up to ties. -/
namespace Driver.C15
open Driver Spec Spec.DiGraph Spec.ShortestPath Model Model.UGraph

structure St where
  base : C08.St := {}
  dist : Option Mat := none      -- distance table of the current spec state (recomputed after a mutator)

def parsePath (s : String) (sep : String) : Option (Option (List Nat)) :=
  if s == "none" then some none
  else if s == "-" then some (some [])
  else ((s.splitOn sep).mapM String.toNat?).map some

def showDist (s : DiGraph) (d : Mat) (a b : Nat) : String :=
  if !(s.live a && s.live b) then "absent" else
  match minDistWith d a b with
  | none => "unreachable"
  | some c => s!"min={c}"

/-- verdicts for one query -/
def query (g : UGraph) (s : Option DiGraph) (d : Mat) (a b : Nat) (ans : String) (sep : String) : List String :=
  let guardFails := !g.containsNode a || !g.containsNode b
  -- the model is deterministic where `astar` has no choice: failed guards (none), start = stop (the one-node path)
  let mism :=
    if guardFails then (if ans != "none" then [s!"MISMATCH impl={a}>{b}={ans} model=none"] else [])
    else if a == b && ans != toString a then [s!"MISMATCH impl={a}>{b}={ans} model={a}"] else []
  match s with
  | none => mism
  | some sp =>
    match parsePath ans sep with
    | none => mism ++ [s!"SPECFAIL impl={a}>{b}={ans} spec={showDist sp d a b}"]
    | some r =>
      if judgeWith d sp a b r then mism
      else mism ++ [s!"SPECFAIL impl={a}>{b}={ans} spec={showDist sp d a b}"]

def parseEntry (e : String) : Option (Nat × Nat × String) :=
  match e.splitOn "=" with
  | [ab, r] => match ab.splitOn ">" with
    | [a, b] => do let x ← a.toNat?; let y ← b.toNat?; pure (x, y, r)
    | _ => none
  | _ => none

def handler : Handler St where
  init := {}
  onCase _ _ := ({}, [])
  onOp st op args ans :=
    if st.base.dead then (st, []) else
    if op == "sp" || op == "spall" then
      if ans == "panic" then
        ({ st with base := { st.base with dead := true } }, [s!"SPECFAIL impl=panic spec=returns"])
      else
      let d := match st.dist, st.base.s with
        | some d, _ => d
        | none, some sp => distMat sp
        | none, none => #[]
      let st := { st with dist := some d }
      if op == "sp" then
        (st, query st.base.g st.base.s d (natArg args 0) (natArg args 1) ans ",")
      else
        let n := natArg args 0
        let entries := if ans == "-" then [] else ans.splitOn ","
        let msgs := entries.foldl (fun acc e =>
          if acc.length ≥ 2 then acc else
          match parseEntry e with
          | none => acc ++ [s!"SPECFAIL impl={e} spec=well-formed-entry"]
          | some (a, b, r) => acc ++ query st.base.g st.base.s d a b r "+") []
        let msgs := if entries.length == n * n then msgs else msgs ++ [s!"MISMATCH impl=entries:{entries.length} model=entries:{n * n}"]
        (st, msgs)
    else
      let (b', msgs) := C08.handler.onOp st.base op args ans
      let mut? := match C08.parseOp op args with
        | some o => o.isMutator
        | none => false
      ({ base := b', dist := if mut? then none else st.dist }, msgs)

end Driver.C15
