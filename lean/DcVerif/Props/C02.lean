import DcVerif.Lemmas.Causaloid
/-!
# C02 — nested causal structures evaluate like the conjunction of what they contain

Model: `Model/Causaloid.lean` (`verifyAll` = `Causable::verify_all_causes`, `reasonColl` / `reasonAllGraph` = reasoning directly
over a collection / graph, `Option V` with `none` = panic or — cyclic graphs only — no answer within `fuel`).
Spec: `Spec/Causaloid.lean` (`contained` = the verdicts of every singleton a nested model can reach, each on the observation the
code routes to it; `conj` = their conjunction; `Acyclic` = every graph of the nesting tree is acyclic).

All statements hold for every nesting tree (depth and fan-out unbounded), every observation vector, every data index, every
assignment of contexts and every `fuel`; proofs are by structural induction over the nesting tree (`Causaloid.induct2`) with
the stack-machine lemmas of `Lemmas/GraphDfs.lean` at every graph level.

Quirks of the code that the statements carry as hypotheses:
* a wrapper in *root* position of a graph panics (`verify_single_cause` finds no `causal_fn`): `root_wrapper_panics`;
* a wrapper that is a non-root node of a graph still needs an observation for its own id (`get_obs` runs before the
  singleton/wrapper dispatch and panics when the id has no slot), although that observation is discarded:
  `wrapper_eq_direct_in_graph` (hypothesis `getObs … = some o`) and `wrapper_in_graph_needs_own_slot`.
-/
namespace C02
open Causal Dfs Spec.Nest

/-- reasoning directly over the structure a wrapper encapsulates -/
def direct (mk : Nat → Nat) (fuel : Nat) : Causaloid → List Nat → Idx → Option V
  | .single .., _, _ => some .e
  | .coll _ items, data, _ => reasonColl mk fuel items data
  | .graph _ nodes edges root, data, idx => reasonAllGraph mk fuel nodes edges root data idx

/-! ## a wrapper gives the verdict of reasoning directly over what it wraps, wherever it is placed -/

/-- alone: `verify_all_causes(data, idx)` on the wrapper = reasoning over the wrapped collection (positional data, index
    ignored) / the wrapped graph (same data, same index) -/
theorem wrapper_eq_direct_alone (mk : Nat → Nat) (fuel : Nat) (w : Causaloid) (data : List Nat) (idx : Idx) :
    verifyAll mk fuel w data idx = direct mk fuel w data idx := by
  cases w <;> simp [verifyAll, direct, reasonColl, reasonAllGraph]

theorem reasonFrom_append (mk : Nat → Nat) (fuel : Nat) (rest : List Causaloid) (data : List Nat) :
    ∀ (pre : List Causaloid) (i : Nat), reasonFrom mk fuel (pre ++ rest) data i =
      match reasonFrom mk fuel pre data i with
      | some .t => reasonFrom mk fuel rest data (i + pre.length)
      | x => x := by
  intro pre
  induction pre with
  | nil => intro i; simp [reasonFrom]
  | cons c cs ih =>
    intro i
    simp only [List.cons_append, reasonFrom]
    cases hd : dispatch mk c data[i]? (verifyAll mk fuel c data none) with
    | none => rfl
    | some x =>
      cases x with
      | e => rfl
      | f => rfl
      | t =>
        simp only [ih (i + 1), List.length_cons]
        have : i + 1 + cs.length = i + (cs.length + 1) := by omega
        rw [this]

/-- as item of a collection (at any position, after items that evaluated true): the item's contribution is the direct
    verdict over the wrapped structure on the *whole* data without index; non-true stops the collection with that verdict -/
theorem wrapper_eq_direct_in_collection (mk : Nat → Nat) (fuel : Nat) (pre post : List Causaloid) (w : Causaloid)
    (data : List Nat) (i : Nat) (hw : w.isSingleton = false) (hpre : reasonFrom mk fuel pre data i = some .t) :
    reasonFrom mk fuel (pre ++ w :: post) data i =
      match direct mk fuel w data none with
      | some .t => reasonFrom mk fuel post data (i + pre.length + 1)
      | x => x := by
  rw [reasonFrom_append, hpre]
  simp only [reasonFrom]
  have hd : dispatch mk w data[i + pre.length]? (verifyAll mk fuel w data none) = direct mk fuel w data none := by
    rw [← wrapper_eq_direct_alone]
    cases w with
    | single => simp [Causaloid.isSingleton] at hw
    | coll => rfl
    | graph => rfl
  rw [hd]
  cases direct mk fuel w data none with
  | none => rfl
  | some x => cases x <;> rfl

theorem nodeTable_getElem (mk : Nat → Nat) (fuel : Nat) (data : List Nat) (idx : Idx) :
    ∀ (nodes : List Causaloid) (v : Nat), (nodeTable mk fuel nodes data idx)[v]? =
      (nodes[v]?).map (fun c => match getObs c.id data idx with
        | none => none
        | some o => dispatch mk c (some o) (verifyAll mk fuel c data idx)) := by
  intro nodes
  induction nodes with
  | nil => intro v; simp [nodeTable]
  | cons c cs ih =>
    intro v
    cases v with
    | zero => simp only [nodeTable, List.getElem?_cons_zero, Option.map_some]; rfl
    | succ v => simp only [nodeTable, List.getElem?_cons_succ, ih v]

/-- as non-root node `v` of a graph: the verdict the traversal uses for `v` is the direct verdict over the wrapped structure
    on the same data and the same data index — provided the wrapper's own id has an observation slot -/
theorem wrapper_eq_direct_in_graph (mk : Nat → Nat) (fuel : Nat) (nodes : List Causaloid) (v : Nat) (w : Causaloid)
    (data : List Nat) (idx : Idx) (o : Nat) (hv : nodes[v]? = some w) (hw : w.isSingleton = false)
    (hobs : getObs w.id data idx = some o) :
    ((nodeTable mk fuel nodes data idx)[v]?).bind id = direct mk fuel w data idx := by
  rw [nodeTable_getElem, hv]
  simp only [Option.map_some, Option.bind_some, id, hobs]
  rw [← wrapper_eq_direct_alone]
  cases w with
  | single => simp [Causaloid.isSingleton] at hw
  | coll => rfl
  | graph => rfl

/-- the three placements in one statement: alone, as item of a collection, as non-root node of a graph — always the direct
    verdict over the wrapped structure, with the data routed as the code routes it (whole data; no index inside a collection,
    the caller's index inside a graph) -/
theorem wrapper_eq_direct (mk : Nat → Nat) (fuel : Nat) (w : Causaloid) (hw : w.isSingleton = false) (data : List Nat) :
    (∀ idx, verifyAll mk fuel w data idx = direct mk fuel w data idx) ∧
    (∀ pre post i, reasonFrom mk fuel pre data i = some .t →
      reasonFrom mk fuel (pre ++ w :: post) data i =
        match direct mk fuel w data none with
        | some .t => reasonFrom mk fuel post data (i + pre.length + 1)
        | x => x) ∧
    (∀ nodes (v : Nat) idx o, nodes[v]? = some w → getObs w.id data idx = some o →
      ((nodeTable mk fuel nodes data idx)[v]?).bind id = direct mk fuel w data idx) :=
  ⟨fun idx => wrapper_eq_direct_alone mk fuel w data idx,
   fun pre post i hpre => wrapper_eq_direct_in_collection mk fuel pre post w data i hw hpre,
   fun nodes v idx o hv hobs => wrapper_eq_direct_in_graph mk fuel nodes v w data idx o hv hw hobs⟩

/-- … and without such a slot the code panics before it looks at the wrapped structure -/
theorem wrapper_in_graph_needs_own_slot (mk : Nat → Nat) (fuel : Nat) (nodes : List Causaloid) (v : Nat) (w : Causaloid)
    (data : List Nat) (idx : Idx) (hv : nodes[v]? = some w) (hobs : getObs w.id data idx = none) :
    ((nodeTable mk fuel nodes data idx)[v]?).bind id = none := by
  rw [nodeTable_getElem, hv]
  simp [hobs]

/-- a wrapper in root position: the start node always goes through `verify_single_cause`, which panics on a wrapper -/
theorem root_wrapper_panics (mk : Nat → Nat) (fuel : Nat) (gid : Nat) (nodes : List Causaloid) (edges : List (Nat × Nat))
    (r : Nat) (w : Causaloid) (data : List Nat) (idx : Idx) (hr : nodes[r]? = some w) (hw : w.isSingleton = false)
    (hdata : data ≠ []) : verifyAll mk fuel (.graph gid nodes edges (some r)) data idx = none := by
  have hlt : r < nodes.length := by
    rcases Nat.lt_or_ge r nodes.length with h | h
    · exact h
    · rw [List.getElem?_eq_none h] at hr; cases hr
  have hd : data.isEmpty = false := by cases data <;> simp_all
  have hsv : startVerdict mk w data idx = none := by
    cases w with
    | single => simp [Causaloid.isSingleton] at hw
    | coll => simp only [startVerdict]; cases getObs _ data idx <;> simp [verifySingle]
    | graph => simp only [startVerdict]; cases getObs _ data idx <;> simp [verifySingle]
  simp only [verifyAll, reasonGraph, hd, Option.bind_some, hr, hsv]
  simp [Nat.not_le.2 hlt]

/-! ## the verdict of a nested model is the conjunction of everything it contains -/

/-- verdict `true` ⇔ every singleton the nested model reaches evaluates to `true` on the observation routed to it
    (and no structural fault: empty collection, missing root, empty data, failed lookup) -/
theorem nested_true_iff (mk : Nat → Nat) (fuel : Nat) (m : Causaloid) (data : List Nat) (idx : Idx) (r : V)
    (hac : Acyclic m) (h : verifyAll mk fuel m data idx = some r) :
    r = .t ↔ ∀ l ∈ contained mk m data idx, l = some .t :=
  ((verdict_agrees mk fuel).1 m data idx r hac h).1

/-- a `false` verdict is the verdict of a contained singleton -/
theorem nested_false_cause (mk : Nat → Nat) (fuel : Nat) (m : Causaloid) (data : List Nat) (idx : Idx)
    (hac : Acyclic m) (h : verifyAll mk fuel m data idx = some .f) : some .f ∈ contained mk m data idx :=
  ((verdict_agrees mk fuel).1 m data idx .f hac h).2 (by decide)

/-- an error verdict is the error of a contained singleton (or a structural fault) -/
theorem nested_err_cause (mk : Nat → Nat) (fuel : Nat) (m : Causaloid) (data : List Nat) (idx : Idx)
    (hac : Acyclic m) (h : verifyAll mk fuel m data idx = some .e) : some .e ∈ contained mk m data idx :=
  ((verdict_agrees mk fuel).1 m data idx .e hac h).2 (by decide)

/-- nothing contained errs or panics and something is false ⇒ the verdict is `false` -/
theorem nested_false (mk : Nat → Nat) (fuel : Nat) (m : Causaloid) (data : List Nat) (idx : Idx) (r : V)
    (hac : Acyclic m) (h : verifyAll mk fuel m data idx = some r)
    (hne : ∀ l ∈ contained mk m data idx, l = some .t ∨ l = some .f) (hf : some .f ∈ contained mk m data idx) :
    r = .f := by
  have hag := (verdict_agrees mk fuel).1 m data idx r hac h
  cases r with
  | f => rfl
  | t => have := hag.1.1 rfl _ hf; cases this
  | e => rcases hne _ (hag.2 (by decide)) with h | h <;> cases h

/-- if anything contained is not `true` (false, error, panic) the verdict is never `true` -/
theorem nested_err_never_true (mk : Nat → Nat) (fuel : Nat) (m : Causaloid) (data : List Nat) (idx : Idx) (r : V)
    (hac : Acyclic m) (h : verifyAll mk fuel m data idx = some r)
    (hex : ∃ l ∈ contained mk m data idx, l ≠ some .t) : r ≠ .t := by
  intro hr
  obtain ⟨l, hl, hne⟩ := hex
  exact hne ((nested_true_iff mk fuel m data idx r hac h).1 hr l hl)

/-- the executable oracle the driver applies to the implementation's answers accepts every answer of the model -/
theorem verdict_is_conjunction (mk : Nat → Nat) (fuel : Nat) (m : Causaloid) (data : List Nat) (idx : Idx) (r : V)
    (hac : Acyclic m) (h : verifyAll mk fuel m data idx = some r) :
    conj (contained mk m data idx) (some r) = true := by
  have hag := (verdict_agrees mk fuel).1 m data idx r hac h
  unfold conj
  by_cases h1 : (contained mk m data idx).all (· == some .t) = true
  · simp only [h1, if_true]
    have : r = .t := hag.1.2 (fun l hl => by simpa using List.all_eq_true.1 h1 l hl)
    subst this; rfl
  · simp only [h1]
    have hrt : r ≠ .t := by
      intro hr; apply h1; rw [List.all_eq_true]; intro l hl; simp [hag.1.1 hr l hl]
    by_cases h2 : (contained mk m data idx).all (fun l => l == some .t || l == some .f) = true
    · simp only [h2, if_true]
      have := List.all_eq_true.1 h2 _ (hag.2 hrt)
      cases r <;> simp_all
    · simp only [h2]
      cases r <;> simp_all

/-! ## contexts -/

/-- a contextual causaloid evaluates its function against exactly the context it was built with -/
theorem contextual_uses_own_ctx (mk : Nat → Nat) (cell cid k obs : Nat) :
    verifySingle mk (.single cell cid (.ctx (some k))) obs = some (decode (obs + mk k)) := rfl

/-- … and against nothing else: changing every other context changes no verdict -/
theorem contextual_ignores_other_ctx (mk mk' : Nat → Nat) (cell cid k obs : Nat) (h : mk k = mk' k) :
    verifySingle mk (.single cell cid (.ctx (some k))) obs = verifySingle mk' (.single cell cid (.ctx (some k))) obs := by
  simp [verifySingle, Fn.apply, h]

/-- at nested level: the verdict of a whole model depends on the environment of contexts only through the contexts its own
    singletons were built with -/
theorem nested_uses_own_ctxs (mk mk' : Nat → Nat) (fuel : Nat) (m : Causaloid) (data : List Nat) (idx : Idx)
    (h : ∀ k ∈ ctxsOf m, mk k = mk' k) : verifyAll mk fuel m data idx = verifyAll mk' fuel m data idx :=
  (((verdict_congr_ctx mk mk' fuel).1 m) h).1 data idx

/-! ## the singletons that are transitively *evaluated* (the evaluation log) -/

/-- verdict `true` ⇒ every singleton that was evaluated on the way returned `true` (and, by `nested_true_iff`, these are all
    singletons the model contains) -/
theorem true_all_evaluated_true (mk : Nat → Nat) (fuel : Nat) (m : Causaloid) (data : List Nat) (idx : Idx)
    (h : verifyAll mk fuel m data idx = some .t) : ∀ e ∈ logAll mk fuel m data idx, e.2 = .t :=
  ((log_ok mk fuel).1 m data idx).allTrue h

/-- verdict `false` ⇒ some evaluated singleton returned `false` -/
theorem false_some_evaluated_false (mk : Nat → Nat) (fuel : Nat) (m : Causaloid) (data : List Nat) (idx : Idx)
    (h : verifyAll mk fuel m data idx = some .f) : ∃ e ∈ logAll mk fuel m data idx, e.2 = .f :=
  ((log_ok mk fuel).1 m data idx).someFalse h

/-! ## answers do not depend on the fuel, and acyclic models always answer (unless something contained panics) -/

theorem verdict_fuel_independent (mk : Nat → Nat) (m : Causaloid) (data : List Nat) (idx : Idx) (f f' : Nat) (r r' : V)
    (h : verifyAll mk f m data idx = some r) (h' : verifyAll mk f' m data idx = some r') : r = r' := by
  rcases Nat.le_total f f' with hle | hle
  · have := (verdict_mono mk).1 m data idx r f f' hle h
    rw [h'] at this; exact (Option.some.inj this).symm
  · have := (verdict_mono mk).1 m data idx r' f' f hle h'
    rw [h] at this; exact Option.some.inj this

theorem nested_terminates (mk : Nat → Nat) (m : Causaloid) (data : List Nat) (idx : Idx) (hac : Acyclic m)
    (hdef : ∀ l ∈ contained mk m data idx, l ≠ none) : ∃ fuel r, verifyAll mk fuel m data idx = some r :=
  (verdict_terminates mk).1 m data idx hac hdef

/-- total form of `nested_true_iff`: everything contained evaluates true ⇒ (with enough fuel) the verdict is `true` -/
theorem nested_true_total (mk : Nat → Nat) (m : Causaloid) (data : List Nat) (idx : Idx) (hac : Acyclic m)
    (hall : ∀ l ∈ contained mk m data idx, l = some .t) : ∃ fuel, verifyAll mk fuel m data idx = some .t := by
  obtain ⟨fuel, r, hr⟩ := nested_terminates mk m data idx hac (fun l hl => by rw [hall l hl]; simp)
  have := (nested_true_iff mk fuel m data idx r hac hr).2 hall
  subst this
  exact ⟨fuel, hr⟩

/-- total form of `nested_false`: no error or panic inside and something false ⇒ the verdict is `false` -/
theorem nested_false_total (mk : Nat → Nat) (m : Causaloid) (data : List Nat) (idx : Idx) (hac : Acyclic m)
    (hne : ∀ l ∈ contained mk m data idx, l = some .t ∨ l = some .f) (hf : some .f ∈ contained mk m data idx) :
    ∃ fuel, verifyAll mk fuel m data idx = some .f := by
  obtain ⟨fuel, r, hr⟩ := nested_terminates mk m data idx hac
    (fun l hl => by rcases hne l hl with h | h <;> rw [h] <;> simp)
  have := nested_false mk fuel m data idx r hac hr hne hf
  subst this
  exact ⟨fuel, hr⟩

/-! ## the hypotheses are met by concrete non-trivial models -/

/-- contexts: marker 1 in context 0, marker 2 in context 1 -/
def mk0 : Nat → Nat := fun k => if k = 0 then 1 else 2
/-- depth 3: a graph with a diamond whose interior node wraps a collection that wraps a graph -/
def inner : Causaloid := .graph 2 [.single 0 0 .plain, .single 1 1 .inv] [(0, 1)] (some 0)
def mid : Causaloid := .coll 3 [.single 2 0 .plain, inner, .single 3 2 (.ctx (some 1))]
def top : Causaloid :=
  .graph 9 [.single 4 0 .plain, mid, .single 5 3 .plain, .single 6 1 .inv] [(0, 1), (0, 3), (1, 2), (3, 2)] (some 0)

theorem inner_acyclic : Acyclic inner :=
  ⟨⟨fun a => if a = 0 then 1 else 0, rank_of_edges _ _ _ (by decide), by intro a; dsimp only [inner]; split <;> simp⟩,
    trivial, trivial, trivial⟩

theorem top_acyclic : Acyclic top :=
  ⟨⟨fun a => if a = 0 then 2 else if a = 2 then 0 else 1, rank_of_edges _ _ _ (by decide),
      by intro a; dsimp only [top]; split <;> (try split) <;> simp⟩,
    trivial, ⟨trivial, inner_acyclic, trivial, trivial⟩, trivial, trivial, trivial⟩

example : verifyAll mk0 50 top [1, 3, 5, 1] none = some .t := by decide
example : ∀ l ∈ contained mk0 top [1, 3, 5, 1] none, l = some .t := by decide
example : verifyAll mk0 50 top [1, 3, 4, 1] none = some .f ∧ some .f ∈ contained mk0 top [1, 3, 4, 1] none := by decide
example : verifyAll mk0 50 top [1, 3, 3, 1] none = some .e ∧ some .e ∈ contained mk0 top [1, 3, 3, 1] none := by decide
-- the same wrapper alone, as item 1 of a collection, as interior node 1 of a graph: always the direct verdict
example : verifyAll mk0 50 mid [1, 3, 3, 1] none = direct mk0 50 mid [1, 3, 3, 1] none := by decide
example : reasonFrom mk0 50 [.single 7 0 .plain, mid, .single 8 0 .plain] [1, 3, 3, 1] 0 = direct mk0 50 mid [1, 3, 3, 1] none := by
  decide
-- a wrapper in root position panics; a wrapper whose own id has no observation slot panics
example : verifyAll mk0 50 (.graph 0 [mid, .single 7 0 .plain] [(0, 1)] (some 0)) [1, 3, 5, 1] none = none := by decide
example : verifyAll mk0 50 (.graph 0 [.single 7 0 .plain, mid] [(0, 1)] (some 0)) [1, 3, 5] none = none ∧
    direct mk0 50 mid [1, 3, 5] none = some .t := by decide
-- the two contexts give different verdicts on the same observation: the stored one is used
example : verifySingle mk0 (.single 0 0 (.ctx (some 0))) 3 = some .t ∧ verifySingle mk0 (.single 0 0 (.ctx (some 1))) 3 = some .e := by
  decide

end C02
