import DcVerif.Gen.Reasoning
import DcVerif.Props.C01
import DcVerif.Props.C10
/-!
# C01 / C10, tie to the source: what the translator read = the hand model

`Gen/Reasoning.lean` is regenerated on every run from the current Rust source of
`protocols/causable_graph/{graph_reasoning.rs, graph_reasoning_utils.rs, graph.rs}` (`tools/rs2lean_reasoning.py`: symbolic
execution, one definition per Rust function; the `while let Some(children) = stack.last_mut()` loop of `reason_from_to_cause`
becomes a fuel-indexed recursive definition over a list of lists whose transitions — which branch pushes, pops, returns what —
are derived from the parsed statements; `for` loops become structural recursions).
Every theorem `…_eq` below ties one generated definition to the function of `Model/CausalGraph.lean` the theorems of
`Props/C01.lean` / `Props/C10.lean` are about, **for all inputs**: every graph store `g` (well-formed or not), every fuel, start /
stop index, data vector, data index, every answer `sp` of the external `shortest_path`:

    get_obs = getObs      reason_from_to_cause = reasonFromTo   (loop: `from_to_loop_eq`, = `loopT` up to the order of the log)
    reason_all_causes = reasonAll      reason_subgraph_from_cause = reasonSub      reason_single_cause = reasonSingle
    get_shortest_path g sp s t = if s = t then none else sp s t      reason_shortest_path_between_causes = reasonShortest … (sp s t)

The generated definitions log one event `mk i o` per call of a causal function (`i` = the index the causaloid was fetched with,
`o` = the observation); the hand model logs the index (graph traversals) resp. the observation (`reason_single_cause`), so the
equalities are stated at `mk := fun i _ => i` resp. `fun _ o => o`.
Hence every theorem of `Props/C01.lean` and `Props/C10.lean` is a statement about what the translator read; the corollaries
`c01gen_*` / `c10gen_*` at the end spell the headline laws out on the generated definitions themselves.

The proofs case-split on what the *model* inspects (shape of the stack, `getNode`, `getObs`, the verdict) and let `simp` / `grind`
close the generated decision tree in each case; they depend on the names and parameter lists of the generated definitions, not
on the text of their bodies, so meaning-preserving edits of the Rust source regenerate a different file that still checks.
-/
set_option linter.unusedSimpArgs false   -- the simp sets cover spellings the current source does not use
namespace C01Gen
open CausalGraph
open Dfs (V)

theorem get_obs_eq (id : Nat) (data : List Nat) (idx : Option (List (Nat × Nat))) :
    Gen.Reasoning.get_obs id data idx = getObs id data idx := by
  unfold Gen.Reasoning.get_obs getObs
  grind

theorem get_shortest_path_eq (g : CG) (sp : Nat → Nat → Option (List Nat)) (s t : Nat) :
    Gen.Reasoning.get_shortest_path g sp s t = if s = t then none else sp s t := by
  unfold Gen.Reasoning.get_shortest_path
  grind

theorem from_to_loop_eq (g : CG) (sp : Nat → Nat → Option (List Nat)) (s stop : Nat) (data : List Nat)
    (idx : Option (List (Nat × Nat))) (f0 : Nat) :
    ∀ (fl : Nat) (stack : List (List Nat)) (lg : List Nat),
      Gen.Reasoning.reason_from_to_cause.loop1 (fun i _ => i) f0 g sp s stop data idx fl lg stack =
        (loopT (out g) (evalAt g data idx) stop fl stack lg.reverse).map fun p => (p.1, p.2.reverse) := by
  intro fl
  induction fl with
  | zero => intro stack lg; simp [Gen.Reasoning.reason_from_to_cause.loop1, loopT]
  | succ n ih =>
    intro stack lg
    match stack with
    | [] => simp [Gen.Reasoning.reason_from_to_cause.loop1, loopT]
    | [] :: rest => simp [Gen.Reasoning.reason_from_to_cause.loop1, loopT, ih]
    | (c :: cs) :: rest =>
      simp only [Gen.Reasoning.reason_from_to_cause.loop1, loopT, evalAt, get_obs_eq, Node.isSingleton]
      cases hn : getNode g c with
      | none => simp [hn] <;> grind
      | some nd =>
        have ho := outEdges_of_getNode g c nd hn
        cases hob : getObs nd.id data idx with
        | none => simp [hn, hob] <;> grind
        | some o =>
          cases hv : nd.fn.apply o <;> simp [hn, hob, hv, ho, ih] <;> grind

theorem reason_from_to_cause_eq (fuel : Nat) (g : CG) (sp : Nat → Nat → Option (List Nat)) (s t : Nat) (data : List Nat)
    (idx : Option (List (Nat × Nat))) :
    Gen.Reasoning.reason_from_to_cause (fun i _ => i) fuel g sp s t data idx = reasonFromTo fuel g s t data idx := by
  unfold Gen.Reasoning.reason_from_to_cause reasonFromTo
  simp only [from_to_loop_eq, get_obs_eq, evalAt]
  by_cases hc : contains g s = true
  · have ho := outEdges_of_contains g s hc
    cases hn : getNode g s with
    | none => simp [hc, hn] <;> grind
    | some nd =>
      cases hob : getObs nd.id data idx with
      | none => simp [hc, hn, hob] <;> grind
      | some o => cases hv : nd.fn.apply o <;> simp [hc, ho, hn, hob, hv] <;> grind
  · simp [hc] <;> grind

theorem reason_all_causes_eq (fuel : Nat) (g : CG) (sp : Nat → Nat → Option (List Nat)) (data : List Nat)
    (idx : Option (List (Nat × Nat))) :
    Gen.Reasoning.reason_all_causes (fun i _ => i) fuel g sp data idx = reasonAll fuel g data idx := by
  unfold Gen.Reasoning.reason_all_causes reasonAll lastIndexR
  simp only [reason_from_to_cause_eq]
  grind

theorem reason_subgraph_from_cause_eq (fuel : Nat) (g : CG) (sp : Nat → Nat → Option (List Nat)) (start : Nat)
    (data : List Nat) (idx : Option (List (Nat × Nat))) :
    Gen.Reasoning.reason_subgraph_from_cause (fun i _ => i) fuel g sp start data idx = reasonSub fuel g start data idx := by
  unfold Gen.Reasoning.reason_subgraph_from_cause reasonSub lastIndexR
  simp only [reason_from_to_cause_eq]
  grind

theorem single_loop_eq (g : CG) (sp : Nat → Nat → Option (List Nat)) (i : Nat) (data : List Nat) (nd : Node) :
    ∀ (os lg : List Nat),
      Gen.Reasoning.reason_single_cause.loop1 (fun _ o => o) g sp i data nd lg os =
        ((singleLoop nd.fn os).1, lg ++ (singleLoop nd.fn os).2) := by
  intro os
  induction os with
  | nil => intro lg; simp [Gen.Reasoning.reason_single_cause.loop1, singleLoop]
  | cons o os ih =>
    intro lg
    simp only [Gen.Reasoning.reason_single_cause.loop1, singleLoop]
    cases hv : nd.fn.apply o <;> simp [ih] <;> grind

theorem reason_single_cause_eq (g : CG) (sp : Nat → Nat → Option (List Nat)) (i : Nat) (data : List Nat) :
    Gen.Reasoning.reason_single_cause (fun _ o => o) g sp i data = reasonSingle g i data := by
  unfold Gen.Reasoning.reason_single_cause reasonSingle
  simp only [single_loop_eq]
  match data with
  | [] => simp
  | [o] => cases getNode g i <;> simp <;> grind
  | o :: o' :: os => cases getNode g i <;> simp <;> grind

theorem path_loop_eq (g : CG) (sp : Nat → Nat → Option (List Nat)) (s t : Nat) (data : List Nat)
    (idx : Option (List (Nat × Nat))) :
    ∀ (p lg : List Nat),
      Gen.Reasoning.reason_shortest_path_between_causes.loop1 (fun i _ => i) g sp s t data idx lg p =
        ((pathEval (evalAt g data idx) p).1, lg ++ (pathEval (evalAt g data idx) p).2) := by
  intro p
  induction p with
  | nil => intro lg; simp [Gen.Reasoning.reason_shortest_path_between_causes.loop1, pathEval]
  | cons c cs ih =>
    intro lg
    simp only [Gen.Reasoning.reason_shortest_path_between_causes.loop1, pathEval, evalAt, get_obs_eq]
    cases hn : getNode g c with
    | none => simp [hn] <;> grind
    | some nd =>
      cases hob : getObs nd.id data idx with
      | none => simp [hn, hob] <;> grind
      | some o => cases hv : nd.fn.apply o <;> simp [hn, hob, hv, ih] <;> grind

theorem reason_shortest_path_eq (g : CG) (sp : Nat → Nat → Option (List Nat)) (s t : Nat) (data : List Nat)
    (idx : Option (List (Nat × Nat))) :
    Gen.Reasoning.reason_shortest_path_between_causes (fun i _ => i) g sp s t data idx =
      reasonShortest g s t data idx (sp s t) := by
  unfold Gen.Reasoning.reason_shortest_path_between_causes reasonShortest
  simp only [path_loop_eq, get_shortest_path_eq]
  grind

/-! ## the headline laws of C01 / C10, stated on the generated definitions themselves -/

/-- C01, true case, on what the translator read from `reason_from_to_cause` -/
theorem c01gen_reason_true_iff (ops : List Op) (hac : Acyclic (build ops)) (sp : Nat → Nat → Option (List Nat)) (start : Nat)
    (data : List Nat) (idx : Option (List (Nat × Nat))) :
    (∃ fuel log, Gen.Reasoning.reason_from_to_cause (fun i _ => i) fuel (build ops) sp start (lastIndex (build ops)) data idx
        = some (.ok true, log)) ↔
      (data ≠ [] ∧ contains (build ops) start = true ∧
        ∀ v, Reach (build ops) start v → evalAt (build ops) data idx v = some .t) := by
  simp only [reason_from_to_cause_eq]
  exact C01.reason_true_iff ops hac start data idx

/-- C01, false case -/
theorem c01gen_reason_false (ops : List Op) (sp : Nat → Nat → Option (List Nat)) (start : Nat) (data : List Nat)
    (idx : Option (List (Nat × Nat))) (hd : data ≠ []) (hc : contains (build ops) start = true)
    (hne : ∀ v, Reach (build ops) start v →
      evalAt (build ops) data idx v = some .t ∨ evalAt (build ops) data idx v = some .f)
    (hex : ∃ v, Reach (build ops) start v ∧ evalAt (build ops) data idx v = some .f) :
    ∀ fuel r log, Gen.Reasoning.reason_from_to_cause (fun i _ => i) fuel (build ops) sp start (lastIndex (build ops)) data idx
      = some (r, log) → r = .ok false := by
  simp only [reason_from_to_cause_eq]
  exact (C01.reason_false ops start data idx hd hc hne hex).1

/-- C01, error case: a reachable causaloid that is not true never yields `Ok(true)` -/
theorem c01gen_reason_err_never_true (ops : List Op) (sp : Nat → Nat → Option (List Nat)) (start : Nat) (data : List Nat)
    (idx : Option (List (Nat × Nat))) (v : Nat) (hv : Reach (build ops) start v)
    (he : evalAt (build ops) data idx v ≠ some .t) :
    ∀ fuel log, Gen.Reasoning.reason_from_to_cause (fun i _ => i) fuel (build ops) sp start (lastIndex (build ops)) data idx
      ≠ some (.ok true, log) := by
  simp only [reason_from_to_cause_eq]
  exact C01.reason_err_never_true ops start data idx v hv he

/-- termination on acyclic graphs -/
theorem c01gen_reason_terminates (g : CG) (hac : Acyclic g) (sp : Nat → Nat → Option (List Nat)) (start stop : Nat)
    (data : List Nat) (idx : Option (List (Nat × Nat))) :
    ∃ fuel r, Gen.Reasoning.reason_from_to_cause (fun i _ => i) fuel g sp start stop data idx = some r := by
  simp only [reason_from_to_cause_eq]
  exact C01.reason_terminates g hac start stop data idx

/-- `reason_all_causes` / `reason_subgraph_from_cause` on add-only graphs are the traversal from the root / the given start -/
theorem c01gen_entry_points (ops : List Op) (sp : Nat → Nat → Option (List Nat)) (fuel start : Nat) (data : List Nat)
    (idx : Option (List (Nat × Nat))) :
    Gen.Reasoning.reason_all_causes (fun i _ => i) fuel (build ops) sp data idx =
      (match (build ops).root with
       | none => some (.err, [])
       | some r => Gen.Reasoning.reason_from_to_cause (fun i _ => i) fuel (build ops) sp r (lastIndex (build ops)) data idx) ∧
    Gen.Reasoning.reason_subgraph_from_cause (fun i _ => i) fuel (build ops) sp start data idx =
      Gen.Reasoning.reason_from_to_cause (fun i _ => i) fuel (build ops) sp start (lastIndex (build ops)) data idx := by
  simp only [reason_all_causes_eq, reason_subgraph_from_cause_eq, reason_from_to_cause_eq]
  exact ⟨C01.reasonAll_eq ops fuel data idx, C01.reasonSub_eq ops fuel start data idx⟩

/-- every answer of the generated `reason_from_to_cause` is accepted by the oracle the driver judges the real code with -/
theorem c01gen_allowed (ops : List Op) (sp : Nat → Nat → Option (List Nat)) (start : Nat) (data : List Nat)
    (idx : Option (List (Nat × Nat))) (hd : data ≠ []) (hc : contains (build ops) start = true) (fuel : Nat) (r : Res)
    (log : List Nat)
    (h : Gen.Reasoning.reason_from_to_cause (fun i _ => i) fuel (build ops) sp start (lastIndex (build ops)) data idx
      = some (r, log)) :
    CausalSpec.allowed ((CausalSpec.reachSet (build ops) (CausalSpec.table (build ops)) start).map
      (CausalSpec.verdictAt (build ops) data idx)) r = true := by
  rw [reason_from_to_cause_eq] at h
  exact C01.model_allowed ops start data idx hd hc fuel r log h

/-- C10 on what the translator read from `reason_shortest_path_between_causes`: outside the statement's error condition the
    call evaluates exactly the prefix of the path `shortest_path` reported, up to the first non-true causaloid, and answers
    the conjunction along it -/
theorem c10gen_evaluates_one_path (ops : List Op) (sp : Nat → Nat → Option (List Nat)) (s t : Nat) (data : List Nat)
    (idx : Option (List (Nat × Nat))) (p : List Nat) (hp : sp s t = some p)
    (h : CausalSpec.spErr (build ops) (CausalSpec.table (build ops)) s t = false) (r : Res)
    (hr : CausalSpec.conjAlong (CausalSpec.verdictAt (build ops) data idx) p = some r) :
    Gen.Reasoning.reason_shortest_path_between_causes (fun i _ => i) (build ops) sp s t data idx =
      (r, CausalSpec.evalPrefix (CausalSpec.verdictAt (build ops) data idx) p) := by
  rw [reason_shortest_path_eq, hp]
  exact C10.model_sp_spec ops s t data idx p h r hr

/-- C10, error side -/
theorem c10gen_error (ops : List Op) (sp : Nat → Nat → Option (List Nat)) (s t : Nat) (data : List Nat)
    (idx : Option (List (Nat × Nat)))
    (hacc : CausalSpec.pathAccepted (build ops) (CausalSpec.table (build ops)) s t (sp s t) = true)
    (h : CausalSpec.spErr (build ops) (CausalSpec.table (build ops)) s t = true) :
    Gen.Reasoning.reason_shortest_path_between_causes (fun i _ => i) (build ops) sp s t data idx = (.err, []) := by
  rw [reason_shortest_path_eq]
  exact C10.model_sp_error ops s t data idx (sp s t) hacc h

end C01Gen
