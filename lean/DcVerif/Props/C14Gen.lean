import DcVerif.Gen.SpSeq
import DcVerif.Model.Ring
/-!
# The single-producer sequencer's arithmetic, tied to the source (C14; used by C04 / C05 / C06)

`Gen/SpSeq.lean` is regenerated on every run by `tools/rs2lean_spseq.py` from `producer/single_producer.rs` (`next`, `publish`, `drain`,
`Drop`, `Producer::write`, symbolically executed). Here: (1) the steps of the producer of `Model/Ring.lean` compute exactly these
expressions and branch on exactly these conditions; (2) C14 for the single producer directly on the generated arithmetic: the ranges
handed out by consecutive `next` calls are gap-free, disjoint and of the requested lengths, and `publish` moves the cursor to the end of
the range.
-/
namespace C14Gen
open Gen.SpSeq Ring

/-- `next`, entry: the model's `.start` step takes the range, the first minimum and the count from the generated expressions -/
theorem model_start_is_generated (x : PSt) (b : Nat) (rest : List Nat) (hpc : x.p.pc = .start) (ht : x.p.todo = b :: rest) :
    let y := stepProd x
    (y.p.start, y.p.stop) = sp_next_result x.p.nextWrite b ∧ y.p.min = sp_next_first_min x.p.cached ∧
    y.p.count = b ∧ y.p.pc = .gateCheck := by
  simp [stepProd, hpc, ht, sp_next_result, sp_next_first_min]

/-- the range the model has computed is the generated one for the `nextWrite` / `count` it started from -/
def RangeOk (p : Prod) : Prop := (p.start, p.stop) = sp_next_result p.start p.count

/-- `next`, the wait loop and the exit: `.gateCheck` branches on the generated condition and commits the generated values -/
theorem model_gateCheck_is_generated (x : PSt) (hpc : x.p.pc = .gateCheck) (hr : RangeOk x.p) :
    let y := stepProd x
    (sp_next_blocked x.p.min x.s.n x.p.start x.p.count = true → y.p.pc = .gateLoad ∧ y.p.nextWrite = x.p.nextWrite) ∧
    (sp_next_blocked x.p.min x.s.n x.p.start x.p.count = false →
      (y.p.cached, y.p.nextWrite) = sp_next_commit x.p.min x.p.start x.p.count ∧ y.p.w = x.p.start ∧ y.p.pc = .write) := by
  have hs : x.p.stop = x.p.start + (x.p.count - 1) := by
    have := hr; simp [RangeOk, sp_next_result] at this; exact this
  constructor
  · intro hb
    have : x.p.min + x.s.n < x.p.stop := by simpa [sp_next_blocked, hs] using hb
    simp [stepProd, hpc, this]
  · intro hb
    have : ¬ x.p.min + x.s.n < x.p.stop := by simpa [sp_next_blocked, hs] using hb
    simp only [stepProd, hpc, this, if_false]
    simp [sp_next_commit, hs]

/-- `publish`: the cursor becomes the generated value -/
theorem model_publish_is_generated (x : PSt) (hpc : x.p.pc = .publish) :
    (stepProd x).s.cursor = sp_publish_cursor x.p.start x.p.stop := by
  simp [stepProd, hpc, sp_publish_cursor]

/-- `write`: the slots written are `start + idx` for `idx = 0, 1, …` in order (the model's `w` runs from `start` to `stop`) -/
theorem model_write_is_generated (x : PSt) (hpc : x.p.pc = .write) (hw : x.p.w ≤ x.p.stop) (idx : Nat) (hi : x.p.w = sp_write_seq x.p.start idx) :
    (stepProd x).p.written = x.p.written ++ [sp_write_seq x.p.start idx] ∧ (stepProd x).p.w = sp_write_seq x.p.start (idx + 1) := by
  simp only [sp_write_seq] at hi ⊢
  have hw' : x.p.start + idx ≤ x.p.stop := by omega
  simp only [stepProd, hpc, hi, hw', if_true]
  refine ⟨trivial, ?_⟩
  omega

/-- `drain`: the target and the wait condition are the generated ones -/
theorem model_drain_is_generated (x : PSt) :
    (x.p.pc = .drainInit → (stepProd x).p.current = sp_drain_current x.p.nextWrite) ∧
    (x.p.pc = .drainCheck → x.s.blocking = false →
      (stepProd x).p.pc = if sp_drain_waiting x.p.min x.p.current then .drainLoad else .setDone) := by
  constructor
  · intro h; simp [stepProd, h, sp_drain_current]
  · intro h hb
    by_cases hm : x.p.min < x.p.current <;> simp [stepProd, h, hb, hm, sp_drain_waiting]

/-! ## C14 on the generated arithmetic -/

/-- **consecutive claims tile**: two `next` calls in a row (any counts ≥ 1, whatever minima were observed) return ranges of the
requested lengths, the second starting right after the first ends -/
theorem c14gen_claims_tile (nws c1 c2 m1 : Nat) (h1 : 1 ≤ c1) (h2 : 1 ≤ c2) :
    (sp_next_result nws c1).1 = nws ∧ (sp_next_result nws c1).2 + 1 = (sp_next_result nws c1).1 + c1 ∧
    (sp_next_result (sp_next_commit m1 nws c1).2 c2).1 = (sp_next_result nws c1).2 + 1 ∧
    (sp_next_result (sp_next_commit m1 nws c1).2 c2).2 + 1 = (sp_next_result (sp_next_commit m1 nws c1).2 c2).1 + c2 := by
  simp [sp_next_result, sp_next_commit]
  omega

/-- the claims of a whole history of `next` calls partition `[nws, nws + Σ counts)` into consecutive ranges -/
def claimsFrom : Nat → List Nat → List (Nat × Nat)
  | _, [] => []
  | nws, c :: cs => sp_next_result nws c :: claimsFrom (sp_next_commit 0 nws c).2 cs

theorem c14gen_history_tiles (cs : List Nat) (hpos : ∀ c ∈ cs, 1 ≤ c) :
    ∀ nws, (claimsFrom nws cs).map (fun r => r.2 + 1 - r.1) = cs ∧
      List.Pairwise (fun a b => a.2 < b.1) (claimsFrom nws cs) ∧ ∀ r ∈ claimsFrom nws cs, nws ≤ r.1 ∧ r.1 ≤ r.2 := by
  induction cs with
  | nil => intro nws; simp [claimsFrom]
  | cons c cs ih =>
    intro nws
    have hc : 1 ≤ c := hpos c (by simp)
    obtain ⟨h1, h2, h3⟩ := ih (fun c' hc' => hpos c' (by simp [hc'])) (sp_next_commit 0 nws c).2
    simp only [claimsFrom, List.map_cons, List.pairwise_cons, List.mem_cons]
    refine ⟨?_, ⟨?_, h2⟩, ?_⟩
    · rw [h1]; simp [sp_next_result]; omega
    · intro b hb
      have := (h3 b hb).1
      simp only [sp_next_result, sp_next_commit] at this ⊢
      omega
    · rintro r (rfl | hr)
      · simp [sp_next_result]
      · have := h3 r hr
        simp only [sp_next_commit] at this
        omega

/-- `publish(start, end)` right after `next` moves the cursor to the highest claimed sequence -/
theorem c14gen_cursor_eq_highest_claimed (nws c : Nat) :
    sp_publish_cursor (sp_next_result nws c).1 (sp_next_result nws c).2 = (sp_next_result nws c).2 := rfl

/-- the producer never claims past what the slowest gating handler allows: when `next` stops waiting, `end ≤ min + buffer_size` -/
theorem c14gen_next_respects_gating (min bs nws c : Nat) (h : sp_next_blocked min bs nws c = false) :
    (sp_next_result nws c).2 ≤ min + bs := by
  simp [sp_next_blocked, sp_next_result] at h ⊢; omega

example : claimsFrom 0 [3, 1, 2] = [(0, 2), (3, 3), (4, 5)] ∧ sp_next_blocked 0 4 0 6 = true ∧ sp_next_blocked 2 4 0 6 = false ∧
    sp_drain_current 0 = 0 := by decide

end C14Gen
