import DcVerif.Model.Grid
/-!
# C17 — ArrayGrid obeys the store/load law in every dimension

Theorems about the definitions that `tools/rs2lean.py grid` regenerates on every run from
`dcl_data_structures/src/grid_type/{mod,grid,grid_safe,grid_unsafe,point,storage_array_1d…4d}.rs` (`Gen.Grid`):
the address maps `getAddr` / `setAddr` (point ↦ index list, separately for `get` and `set` of each storage), the
array nesting `nest` (which const parameter bounds which index position), the two `Grid` wrappers and the
`ArrayGrid` dispatch for the build without and with feature `unsafe`. What is *assumed* is the meaning of nested
array indexing (`Cells`, `inb`, `readAt`, `writeAt` in the generated file's fixed prelude) and that a `RefCell`
borrow / a raw-pointer write through `&self` behave like plain accesses in sequential code.

Proved from the generated definitions, for every kind (1-D … 4-D), all extents `W H D C : Nat` (no bound) and
both builds:

* `getAddr_eq_setAddr`, `addr_injective`  get and set address the same cell; distinct points of the grid's
  dimension never share a cell (this is what the permuted 3-D/4-D index order could break)
* `inb_of_small`                          a point whose coordinates are all below every extent the variant uses
                                          (in particular below the smallest of `W H D C`: `small_of_below_min`) is in bounds
* `c17_*_default_before_store`, `c17_*_get_set_same`, `c17_*_get_set_other`   the law, single steps, in every
                                          state reachable by in-scope stores
* `c17_*_store_load`                      after any sequence of in-scope stores none panics and a read returns the
                                          most recent value stored at that very point, else the default
* `c17_*_meets_spec`                      for *arbitrary* op sequences (any points, in or out of bounds) every
                                          model answer is accepted by the oracle `Spec.Grid.judge` that the
                                          correspondence run applies to the real code
* `c17_safe_unsafe_agree`                 the two implementations give the same answers (values and panics) on
                                          every op sequence; the unsafe grid's `initialized` flag is invariantly true.

The proofs go through a small interface (`View`) that both implementations are shown to satisfy, so a
consistent change of the axis order in `get` *and* `set` survives regeneration, while a disagreement between them,
a non-injective map or a wrong bound does not.
-/
namespace C17
open Gen.Grid Spec.Grid Model.Grid

theorem getAddr_eq_setAddr (k : Kind) (p : Pt) : getAddr k p = setAddr k p := by
  cases k <;> rfl

theorem key_cases (k : Kind) (c : Key) (h : c.length = dim k) :
    (k = .k1 ∧ ∃ x, c = [x]) ∨ (k = .k2 ∧ ∃ x y, c = [x, y]) ∨ (k = .k3 ∧ ∃ x y z, c = [x, y, z]) ∨
    (k = .k4 ∧ ∃ x y z t, c = [x, y, z, t]) := by
  match c with
  | [] => cases k <;> simp [dim] at h
  | [_] => cases k <;> simp [dim] at h <;> simp
  | [_, _] => cases k <;> simp [dim] at h <;> simp
  | [_, _, _] => cases k <;> simp [dim] at h <;> simp
  | [_, _, _, _] => cases k <;> simp [dim] at h <;> simp
  | _ :: _ :: _ :: _ :: _ :: _ => cases k <;> simp [dim] at h

theorem addr_injective (k : Kind) (c c' : Key) (h : c.length = dim k) (h' : c'.length = dim k)
    (heq : getAddr k (ptOf c) = getAddr k (ptOf c')) : c = c' := by
  rcases key_cases k c h with ⟨rfl, x, rfl⟩ | ⟨rfl, x, y, rfl⟩ | ⟨rfl, x, y, z, rfl⟩ | ⟨rfl, x, y, z, t, rfl⟩ <;>
  rcases key_cases _ c' h' with ⟨hk, x', rfl⟩ | ⟨hk, x', y', rfl⟩ | ⟨hk, x', y', z', rfl⟩ | ⟨hk, x', y', z', t', rfl⟩ <;>
  simp at hk <;>
  simp [getAddr, ptOf, Pt.new1d, Pt.new2d, Pt.new3d, Pt.new4d] at heq ⊢ <;> omega

def Small (k : Kind) (e : Ext) (c : Key) : Prop := c.length = dim k ∧ ∀ x ∈ c, ∀ n ∈ nest k e, x < n

theorem inb_of_small (k : Kind) (e : Ext) (c : Key) (h : Small k e c) :
    inb (getAddr k (ptOf c)) (nest k e) = true := by
  obtain ⟨hl, hs⟩ := h
  rcases key_cases k c hl with ⟨rfl, x, rfl⟩ | ⟨rfl, x, y, rfl⟩ | ⟨rfl, x, y, z, rfl⟩ | ⟨rfl, x, y, z, t, rfl⟩ <;>
  simp [nest] at hs <;>
  simp [getAddr, ptOf, Pt.new1d, Pt.new2d, Pt.new3d, Pt.new4d, nest, inb] <;> omega

theorem small_of_inScope (k : Kind) (e : Ext) (c : Key) (h : inScope (dim k) (exts e) c = true) : Small k e c := by
  simp [inScope, exts] at h
  refine ⟨h.1, ?_⟩
  intro x hx n hn
  have := h.2 x hx
  cases k <;> simp [nest] at hn <;> omega

/-- what the proofs need to know about an implementation: it is a storage of cells behind `readAt`/`writeAt`
at the generated addresses -/
structure View {σ : Type} (I : Impl σ) where
  wf : σ → Prop
  kind : σ → Kind
  cells : σ → Cells
  new_wf : ∀ k, wf (I.new k)
  new_kind : ∀ k, kind (I.new k) = k
  new_cells : ∀ k, cells (I.new k) = defaultCells
  get_nf : ∀ e g p, wf g → I.get e g p = readAt (nest (kind g) e) (cells g) (getAddr (kind g) p)
  set_some : ∀ e g p v s, wf g → writeAt (nest (kind g) e) (cells g) (setAddr (kind g) p) v = some s →
    ∃ g', I.set e g p v = some g' ∧ wf g' ∧ kind g' = kind g ∧ cells g' = s
  set_none : ∀ e g p v, wf g → writeAt (nest (kind g) e) (cells g) (setAddr (kind g) p) v = none → I.set e g p v = none

def safeView : View safeImpl where
  wf := fun _ => True
  kind := fun g => g.kind
  cells := fun g => g.grid.storage
  new_wf := fun _ => trivial
  new_kind := fun _ => rfl
  new_cells := fun _ => rfl
  get_nf := by
    intro e g p _
    simp only [safeImpl, ArraySafeGrid.get, SafeGrid.get, Storage.get] <;>
      (cases readAt (nest g.kind e) g.grid.storage (getAddr g.kind p) <;> rfl)
  set_some := by
    intro e g p v s _ h
    simp only [safeImpl, ArraySafeGrid.set, SafeGrid.set, Storage.set, h, Option.map]
    exact ⟨_, rfl, trivial, rfl, rfl⟩
  set_none := by
    intro e g p v _ h
    simp only [safeImpl, ArraySafeGrid.set, SafeGrid.set, Storage.set, h, Option.map]

def unsafeView : View unsafeImpl where
  wf := fun g => g.grid.initialized = true
  kind := fun g => g.kind
  cells := fun g => g.grid.storage
  new_wf := fun _ => rfl
  new_kind := fun _ => rfl
  new_cells := fun _ => rfl
  get_nf := by
    intro e g p h
    simp only [unsafeImpl, ArrayUnsafeGrid.get, UnsafeGrid.get, Storage.get, h, if_true] <;>
      (cases readAt (nest g.kind e) g.grid.storage (getAddr g.kind p) <;> rfl)
  set_some := by
    intro e g p v s hw h
    simp only [unsafeImpl, ArrayUnsafeGrid.set, UnsafeGrid.set, Storage.set, h, Option.map]
    exact ⟨_, rfl, hw, rfl, rfl⟩
  set_none := by
    intro e g p v _ h
    simp only [unsafeImpl, ArrayUnsafeGrid.set, UnsafeGrid.set, Storage.set, h, Option.map]

/-! ## the representation invariant -/

/-- every in-bounds point of the grid's dimension holds what the spec's association list says -/
def Rep {σ : Type} {I : Impl σ} (V : View I) (k : Kind) (e : Ext) (g : σ) (hist : List (Key × Int)) : Prop :=
  V.wf g ∧ V.kind g = k ∧
  ∀ c : Key, c.length = dim k → inb (getAddr k (ptOf c)) (nest k e) = true →
    V.cells g (getAddr k (ptOf c)) = read hist c

theorem rep_new {σ : Type} {I : Impl σ} (V : View I) (k : Kind) (e : Ext) : Rep V k e (I.new k) [] := by
  refine ⟨V.new_wf k, V.new_kind k, ?_⟩
  intro c _ _
  rw [V.new_cells]; rfl

/-- reading an in-bounds point of the grid's dimension -/
theorem rep_get {σ : Type} {I : Impl σ} (V : View I) {k : Kind} {e : Ext} {g : σ} {hist : List (Key × Int)}
    (h : Rep V k e g hist) (c : Key) (hc : c.length = dim k) (hb : inb (getAddr k (ptOf c)) (nest k e) = true) :
    I.get e g (ptOf c) = some (read hist c) := by
  obtain ⟨hw, hk, hcells⟩ := h
  rw [V.get_nf e g _ hw, hk]
  simp [readAt, hb, hcells c hc hb]

/-- storing at a point of the grid's dimension: in bounds ⇒ succeeds and the invariant holds for the
extended history; out of bounds ⇒ panics (and nothing changes) -/
theorem rep_set {σ : Type} {I : Impl σ} (V : View I) {k : Kind} {e : Ext} {g : σ} {hist : List (Key × Int)}
    (h : Rep V k e g hist) (q : Key) (v : Int) (hq : q.length = dim k) :
    (inb (getAddr k (ptOf q)) (nest k e) = true ∧ ∃ g', I.set e g (ptOf q) v = some g' ∧ Rep V k e g' ((q, v) :: hist)) ∨
    (inb (getAddr k (ptOf q)) (nest k e) = false ∧ I.set e g (ptOf q) v = none) := by
  obtain ⟨hw, hk, hcells⟩ := h
  cases hb : inb (getAddr k (ptOf q)) (nest k e)
  · right
    refine ⟨rfl, V.set_none e g _ v hw ?_⟩
    rw [hk, ← getAddr_eq_setAddr]; simp [writeAt, hb]
  · left
    refine ⟨rfl, ?_⟩
    have hwr : writeAt (nest (V.kind g) e) (V.cells g) (setAddr (V.kind g) (ptOf q)) v
        = some (fun b => if b = getAddr k (ptOf q) then v else V.cells g b) := by
      rw [hk, ← getAddr_eq_setAddr]; simp [writeAt, hb]
    obtain ⟨g', hset, hw', hk', hc'⟩ := V.set_some e g _ v _ hw hwr
    refine ⟨g', hset, hw', hk'.trans hk, ?_⟩
    intro c hc hcb
    rw [hc']
    by_cases hcq : q = c
    · subst hcq; simp [Spec.Grid.read]
    · have hne : getAddr k (ptOf c) ≠ getAddr k (ptOf q) := fun hh => hcq (addr_injective k c q hc hq hh).symm
      simp [Spec.Grid.read, hcq, hne, hcells c hc hcb]

/-! ## the store/load law, single steps (for any implementation with a `View`) -/

theorem view_default_before_store {σ : Type} {I : Impl σ} (V : View I) (k : Kind) (e : Ext) (p : Key)
    (hp : Small k e p) : I.get e (I.new k) (ptOf p) = some 0 :=
  rep_get V (rep_new V k e) p hp.1 (inb_of_small k e p hp)

theorem view_get_set_same {σ : Type} {I : Impl σ} (V : View I) {k : Kind} {e : Ext} {g : σ} {hist : List (Key × Int)}
    (h : Rep V k e g hist) (p : Key) (v : Int) (hp : Small k e p) :
    ∃ g', I.set e g (ptOf p) v = some g' ∧ I.get e g' (ptOf p) = some v := by
  rcases rep_set V h p v hp.1 with ⟨_, g', hs, hr⟩ | ⟨hb, _⟩
  · exact ⟨g', hs, by rw [rep_get V hr p hp.1 (inb_of_small k e p hp)]; simp [Spec.Grid.read]⟩
  · rw [inb_of_small k e p hp] at hb; cases hb

theorem view_get_set_other {σ : Type} {I : Impl σ} (V : View I) {k : Kind} {e : Ext} {g : σ} {hist : List (Key × Int)}
    (h : Rep V k e g hist) (p q : Key) (v : Int) (hp : Small k e p) (hq : Small k e q) (hne : p ≠ q) :
    ∃ g', I.set e g (ptOf p) v = some g' ∧ I.get e g' (ptOf q) = I.get e g (ptOf q) := by
  rcases rep_set V h p v hp.1 with ⟨_, g', hs, hr⟩ | ⟨hb, _⟩
  · refine ⟨g', hs, ?_⟩
    rw [rep_get V hr q hq.1 (inb_of_small k e q hq), rep_get V h q hq.1 (inb_of_small k e q hq)]
    simp [Spec.Grid.read, hne]
  · rw [inb_of_small k e p hp] at hb; cases hb

/-! ## store sequences -/

/-- all stores of a list, oldest first; `none` if one of them panics -/
def storeAll {σ : Type} (I : Impl σ) (e : Ext) (g : σ) : List (Key × Int) → Option σ
  | [] => some g
  | (p, v) :: rest => match I.set e g (ptOf p) v with
    | some g' => storeAll I e g' rest
    | none => none

theorem view_store_load_from {σ : Type} {I : Impl σ} (V : View I) (k : Kind) (e : Ext) (stores : List (Key × Int))
    (hs : ∀ s ∈ stores, Small k e s.1) (g : σ) (hist : List (Key × Int)) (h : Rep V k e g hist) :
    ∃ g', storeAll I e g stores = some g' ∧ Rep V k e g' (stores.reverse ++ hist) := by
  induction stores generalizing g hist with
  | nil => exact ⟨g, rfl, by simpa using h⟩
  | cons s rest ih =>
    obtain ⟨p, v⟩ := s
    have hp : Small k e p := hs (p, v) (by simp)
    rcases rep_set V h p v hp.1 with ⟨_, g1, hs1, hr1⟩ | ⟨hb, _⟩
    · obtain ⟨g', hg', hr'⟩ := ih (fun s hs' => hs s (by simp [hs'])) g1 ((p, v) :: hist) hr1
      refine ⟨g', ?_, ?_⟩
      · simp only [storeAll, hs1]; exact hg'
      · simpa using hr'
    · rw [inb_of_small k e p hp] at hb; cases hb

/-- **store/load law over arbitrary store sequences**: starting from a fresh grid of any kind and extents,
after any sequence of stores at points in scope (none of which panics), reading a point in scope returns the
value most recently stored at that very point, the default if there was none. -/
theorem view_store_load {σ : Type} {I : Impl σ} (V : View I) (k : Kind) (e : Ext) (stores : List (Key × Int))
    (hs : ∀ s ∈ stores, Small k e s.1) (p : Key) (hp : Small k e p) :
    ∃ g, storeAll I e (I.new k) stores = some g ∧ I.get e g (ptOf p) = some (read stores.reverse p) := by
  obtain ⟨g, hg, hr⟩ := view_store_load_from V k e stores hs (I.new k) [] (rep_new V k e)
  exact ⟨g, hg, by simpa using rep_get V hr p hp.1 (inb_of_small k e p hp)⟩

/-! ## arbitrary op sequences against the oracle of the correspondence run -/

theorem view_meets_spec_from {σ : Type} {I : Impl σ} (V : View I) (k : Kind) (e : Ext) (ops : List Op)
    (g : σ) (st : St) (h : st.tainted = false → Rep V k e g st.hist) :
    accepted (dim k) (exts e) st (ops.zip (run I e g ops).2) = true := by
  induction ops generalizing g st with
  | nil => rfl
  | cons op rest ih =>
    simp only [run, List.zip_cons_cons, accepted, Bool.and_eq_true]
    cases ht : st.tainted
    · -- not tainted: the invariant holds
      have hr := h ht
      cases op with
      | get p =>
        have hg : (step I e g (.get p)).1 = g := by simp only [step]; split <;> rfl
        by_cases hsc : inScope (dim k) (exts e) p = true
        · have hp := small_of_inScope k e p hsc
          have hans : (step I e g (.get p)).2 = .val (Spec.Grid.read st.hist p) := by
            simp [step, rep_get V hr p hp.1 (inb_of_small k e p hp)]
          rw [hans, hg]
          simp only [judge, ht, hsc, Bool.not_false, Bool.and_self, if_true, beq_self_eq_true, true_and]
          exact ih g st h
        · simp only [judge, ht, hsc, Bool.not_false, Bool.true_and, hg]
          simp only [Bool.false_eq_true, if_false, true_and]
          exact ih g st h
      | set p v =>
        by_cases hsc : inScope (dim k) (exts e) p = true
        · have hp := small_of_inScope k e p hsc
          rcases rep_set V hr p v hp.1 with ⟨_, g', hs, hr'⟩ | ⟨hb, _⟩
          · have hstep : step I e g (.set p v) = (g', .ok) := by simp [step, hs]
            rw [hstep]
            simp only [judge, ht, hsc, if_true, Bool.false_eq_true, if_false, beq_self_eq_true, true_and]
            exact ih g' _ (fun _ => hr')
          · rw [inb_of_small k e p hp] at hb; cases hb
        · by_cases hl : p.length = dim k
          · rcases rep_set V hr p v hl with ⟨_, g', hs, hr'⟩ | ⟨_, hs⟩
            · have hstep : step I e g (.set p v) = (g', .ok) := by simp [step, hs]
              rw [hstep]
              simp only [judge, ht, hsc, hl, Bool.false_eq_true, if_false, beq_self_eq_true, if_true, true_and]
              exact ih g' _ (fun _ => hr')
            · have hstep : step I e g (.set p v) = (g, .panic) := by simp [step, hs]
              rw [hstep]
              simp only [judge, ht, hsc, hl, Bool.false_eq_true, if_false, beq_self_eq_true, if_true, true_and]
              exact ih g st h
          · have hl' : (p.length == dim k) = false := by simpa using hl
            simp only [judge, ht, hsc, hl', Bool.false_eq_true, if_false, true_and]
            exact ih _ _ (fun hh => by simp at hh)
    · -- tainted: nothing is judged any more
      have hj : ∀ a, judge (dim k) (exts e) st op a = (true, st) := by
        intro a; cases op <;> simp [judge, ht]
      rw [hj]
      exact ⟨rfl, ih _ st (fun hh => by rw [ht] at hh; cases hh)⟩

/-- every answer the generated model gives on any sequence of `set`/`get` lines — points of any dimension,
in or out of bounds — is accepted by the oracle `Spec.Grid.judge` -/
theorem view_meets_spec {σ : Type} {I : Impl σ} (V : View I) (k : Kind) (e : Ext) (ops : List Op) :
    accepted (dim k) (exts e) {} (ops.zip (run I e (I.new k) ops).2) = true :=
  view_meets_spec_from V k e ops (I.new k) {} (fun _ => rep_new V k e)

/-! ## the safe and the unsafe implementation agree, on every op sequence (no in-bounds assumption) -/

def Sim (gs : ArraySafeGrid) (gu : ArrayUnsafeGrid) : Prop :=
  gs.kind = gu.kind ∧ gs.grid.storage = gu.grid.storage ∧ gu.grid.initialized = true

theorem sim_step (e : Ext) (gs : ArraySafeGrid) (gu : ArrayUnsafeGrid) (h : Sim gs gu) (op : Op) :
    (step safeImpl e gs op).2 = (step unsafeImpl e gu op).2 ∧ Sim (step safeImpl e gs op).1 (step unsafeImpl e gu op).1 := by
  obtain ⟨hk, hs, hi⟩ := h
  cases op with
  | get p =>
    have h1 := safeView.get_nf e gs (ptOf p) trivial
    have h2 := unsafeView.get_nf e gu (ptOf p) hi
    simp only [safeView, unsafeView] at h1 h2
    rw [hk, hs] at h1
    simp only [step, h1, h2]
    cases readAt (nest gu.kind e) gu.grid.storage (getAddr gu.kind (ptOf p)) <;> exact ⟨rfl, hk, hs, hi⟩
  | set p v =>
    cases hw : writeAt (nest gu.kind e) gu.grid.storage (setAddr gu.kind (ptOf p)) v with
    | none =>
      have h1 := safeView.set_none e gs (ptOf p) v trivial (by simp only [safeView]; rw [hk, hs]; exact hw)
      have h2 := unsafeView.set_none e gu (ptOf p) v hi hw
      simp only [step, h1, h2]
      exact ⟨trivial, hk, hs, hi⟩
    | some s =>
      obtain ⟨gs', h1, _, hk1, hc1⟩ := safeView.set_some e gs (ptOf p) v s trivial (by simp only [safeView]; rw [hk, hs]; exact hw)
      obtain ⟨gu', h2, hw2, hk2, hc2⟩ := unsafeView.set_some e gu (ptOf p) v s hi hw
      simp only [step, h1, h2]
      simp only [safeView, unsafeView] at hk1 hc1 hk2 hc2 hw2
      exact ⟨trivial, by rw [hk1, hk2, hk], by rw [hc1, hc2], hw2⟩

theorem sim_run (e : Ext) (ops : List Op) (gs : ArraySafeGrid) (gu : ArrayUnsafeGrid) (h : Sim gs gu) :
    (run safeImpl e gs ops).2 = (run unsafeImpl e gu ops).2 := by
  induction ops generalizing gs gu with
  | nil => rfl
  | cons op rest ih =>
    obtain ⟨ha, hs⟩ := sim_step e gs gu h op
    simp only [run, ha, ih _ _ hs]

/-- below the smallest of the four const parameters ⇒ in scope for every kind -/
theorem small_of_below_min (k : Kind) (e : Ext) (c : Key) (hl : c.length = dim k)
    (h : ∀ x ∈ c, x < e.W ∧ x < e.H ∧ x < e.D ∧ x < e.C) : Small k e c := by
  refine ⟨hl, ?_⟩
  intro x hx n hn
  have := h x hx
  cases k <;> simp [nest] at hn <;> omega

/-- states reached from a fresh grid by in-scope stores satisfy the invariant -/
theorem view_reach_rep {σ : Type} {I : Impl σ} (V : View I) (k : Kind) (e : Ext) (stores : List (Key × Int))
    (hs : ∀ s ∈ stores, Small k e s.1) (g : σ) (hg : storeAll I e (I.new k) stores = some g) :
    Rep V k e g (stores.reverse ++ []) := by
  obtain ⟨g', hg', hr⟩ := view_store_load_from V k e stores hs (I.new k) [] (rep_new V k e)
  rw [hg] at hg'; cases hg'; exact hr

/-! ## the property, for the build without feature `unsafe` (grid_safe.rs) -/

theorem c17_safe_default_before_store (k : Kind) (e : Ext) (p : Key) (hp : Small k e p) :
    (ArraySafeGrid.new k).get e (ptOf p) = some 0 :=
  view_default_before_store safeView k e p hp

theorem c17_safe_get_set_same (k : Kind) (e : Ext) (stores : List (Key × Int)) (hs : ∀ s ∈ stores, Small k e s.1)
    (g : ArraySafeGrid) (hg : storeAll safeImpl e (ArraySafeGrid.new k) stores = some g)
    (p : Key) (v : Int) (hp : Small k e p) :
    ∃ g', g.set e (ptOf p) v = some g' ∧ g'.get e (ptOf p) = some v :=
  view_get_set_same safeView (view_reach_rep safeView k e stores hs g hg) p v hp

theorem c17_safe_get_set_other (k : Kind) (e : Ext) (stores : List (Key × Int)) (hs : ∀ s ∈ stores, Small k e s.1)
    (g : ArraySafeGrid) (hg : storeAll safeImpl e (ArraySafeGrid.new k) stores = some g)
    (p q : Key) (v : Int) (hp : Small k e p) (hq : Small k e q) (hne : p ≠ q) :
    ∃ g', g.set e (ptOf p) v = some g' ∧ g'.get e (ptOf q) = g.get e (ptOf q) :=
  view_get_set_other safeView (view_reach_rep safeView k e stores hs g hg) p q v hp hq hne

theorem c17_safe_store_load (k : Kind) (e : Ext) (stores : List (Key × Int)) (hs : ∀ s ∈ stores, Small k e s.1)
    (p : Key) (hp : Small k e p) :
    ∃ g, storeAll safeImpl e (ArraySafeGrid.new k) stores = some g ∧
      g.get e (ptOf p) = some (Spec.Grid.read stores.reverse p) :=
  view_store_load safeView k e stores hs p hp

theorem c17_safe_meets_spec (k : Kind) (e : Ext) (ops : List Op) :
    accepted (dim k) (exts e) {} (ops.zip (run safeImpl e (ArraySafeGrid.new k) ops).2) = true :=
  view_meets_spec safeView k e ops

/-! ## the property, for the build with feature `unsafe` (grid_unsafe.rs) -/

theorem c17_unsafe_default_before_store (k : Kind) (e : Ext) (p : Key) (hp : Small k e p) :
    (ArrayUnsafeGrid.new k).get e (ptOf p) = some 0 :=
  view_default_before_store unsafeView k e p hp

theorem c17_unsafe_get_set_same (k : Kind) (e : Ext) (stores : List (Key × Int)) (hs : ∀ s ∈ stores, Small k e s.1)
    (g : ArrayUnsafeGrid) (hg : storeAll unsafeImpl e (ArrayUnsafeGrid.new k) stores = some g)
    (p : Key) (v : Int) (hp : Small k e p) :
    ∃ g', g.set e (ptOf p) v = some g' ∧ g'.get e (ptOf p) = some v :=
  view_get_set_same unsafeView (view_reach_rep unsafeView k e stores hs g hg) p v hp

theorem c17_unsafe_get_set_other (k : Kind) (e : Ext) (stores : List (Key × Int)) (hs : ∀ s ∈ stores, Small k e s.1)
    (g : ArrayUnsafeGrid) (hg : storeAll unsafeImpl e (ArrayUnsafeGrid.new k) stores = some g)
    (p q : Key) (v : Int) (hp : Small k e p) (hq : Small k e q) (hne : p ≠ q) :
    ∃ g', g.set e (ptOf p) v = some g' ∧ g'.get e (ptOf q) = g.get e (ptOf q) :=
  view_get_set_other unsafeView (view_reach_rep unsafeView k e stores hs g hg) p q v hp hq hne

theorem c17_unsafe_store_load (k : Kind) (e : Ext) (stores : List (Key × Int)) (hs : ∀ s ∈ stores, Small k e s.1)
    (p : Key) (hp : Small k e p) :
    ∃ g, storeAll unsafeImpl e (ArrayUnsafeGrid.new k) stores = some g ∧
      g.get e (ptOf p) = some (Spec.Grid.read stores.reverse p) :=
  view_store_load unsafeView k e stores hs p hp

theorem c17_unsafe_meets_spec (k : Kind) (e : Ext) (ops : List Op) :
    accepted (dim k) (exts e) {} (ops.zip (run unsafeImpl e (ArrayUnsafeGrid.new k) ops).2) = true :=
  view_meets_spec unsafeView k e ops

/-! ## both builds -/

/-- The safe and the unsafe grid give the same answers — values and panics — on every sequence of `set`/`get`
lines, for every kind and all extents; no in-bounds assumption. -/
theorem c17_safe_unsafe_agree (k : Kind) (e : Ext) (ops : List Op) :
    (run safeImpl e (ArraySafeGrid.new k) ops).2 = (run unsafeImpl e (ArrayUnsafeGrid.new k) ops).2 :=
  sim_run e ops _ _ ⟨rfl, rfl, rfl⟩

/-! ## non-vacuity
(The examples use only points below the smallest extent and a point that is out of bounds under every axis
convention, so they do not depend on the axis order the source happens to use.) -/

/-- a non-cubic 3-D grid `[[[T; 2]; 3]; 4]`: the points with all coordinates below 2 are in scope -/
example : Small .k3 ⟨2, 3, 4, 1⟩ [1, 0, 1] := by simp [Small, dim, nest]
example : Small .k4 ⟨3, 2, 4, 2⟩ [1, 0, 1, 1] := by simp [Small, dim, nest]
/-- hypotheses of `get_set_other` are met (distinct in-scope points), and the model really runs: store, read back,
read a neighbour and a coordinate permutation, overwrite, default, and a panic that leaves the grid intact -/
example : (run safeImpl ⟨2, 3, 4, 1⟩ (ArraySafeGrid.new .k3)
    [.set [1, 0, 1] 5, .get [1, 0, 1], .get [0, 1, 1], .set [0, 1, 1] 7, .get [1, 0, 1], .get [0, 1, 1],
     .get [1, 1, 0], .set [1, 0, 1] 6, .get [1, 0, 1], .set [9, 9, 9] 9, .get [1, 0, 1], .get [9, 9, 9]]).2
    = [.ok, .val 5, .val 0, .ok, .val 5, .val 7, .val 0, .ok, .val 6, .panic, .val 6, .panic] := by decide
example : (run unsafeImpl ⟨2, 3, 4, 2⟩ (ArrayUnsafeGrid.new .k4)
    [.set [1, 0, 1, 0] 5, .get [1, 0, 1, 0], .get [0, 1, 0, 1], .set [9, 9, 9, 9] 9, .get [1, 0, 1, 0]]).2
    = [.ok, .val 5, .val 0, .panic, .val 5] := by decide

/-! ## what the obligations rule out
If `set` of a 3-D storage used another axis order than `get`, `getAddr_eq_setAddr` has a concrete countermodel (and
`rep_set`, which rests on it, cannot be proved); a map that drops a coordinate is not injective. -/
example : ∃ p : Pt, ([p.y, p.x, p.z] : List Nat) ≠ [p.x, p.y, p.z] := ⟨Pt.new3d 1 0 0, by decide⟩
example : ∃ p q : Pt, p ≠ q ∧ ([p.y, p.x, p.x] : List Nat) = [q.y, q.x, q.x] :=
  ⟨Pt.new3d 0 0 1, Pt.new3d 0 0 0, by decide⟩

end C17
