import DcVerif.Lemmas.CausalSpec
/-!
# C10 — shortest-path reasoning evaluates exactly one minimum-weight path

Model: `CausalGraph.reasonShortest g s t data idx path` (`Model/CausalGraph.lean`), a transcription of
`reason_shortest_path_between_causes` + `get_shortest_path`; `path` is what `UltraGraph::shortest_path` (petgraph `astar`,
not translated) answered — the tie-break between equally short paths is external nondeterminism. The driver accepts a
reported path only through `CausalSpec.pathAccepted` (a real `s → t` path whose weight equals the Floyd–Warshall distance;
"no path" only if the distance is `none`), which is sound by `accepted_path_minimal` / `FW.dist_correct`.

Proved here, for every add-only graph of singleton causaloids (cycles, self-loops, zero weights allowed), every pair
`s, t`, every data vector / data index, every assignment of causal functions and every admissible `path`:
* `evaluated_eq_prefix`, `evalPrefix_all_true`, `evalPrefix_first_nontrue`, `evalPrefix_is_prefix` — the causaloids evaluated
  are exactly the path up to and including the first non-true one, in path order;
* `verdict_true_iff`, `verdict_first_nontrue`, `verdict_eq_conj` — the result is the conjunction along the path: `Ok(true)` iff
  all are true, otherwise the verdict of the first non-true causaloid (`Ok(false)` / `Err`; `panic` if it has no observation);
* `nothing_else_evaluated`, `flags_off_prefix` — causaloids off the evaluated prefix are not evaluated, their flags unchanged;
* `errors_iff` — the call reports an error *without evaluating anything* iff the graph is empty, an endpoint is absent,
  `s = t`, or `t` is unreachable from `s`; `spErr_iff` — that is the condition the driver computes;
* `accepted_path_minimal` — an accepted path is a real path of minimum weight over **all** walks `s → t`;
* `model_sp_error`, `model_sp_spec` — the model's answer is the one the executable statement (`CausalSpec`) expects.
Note (quirk, mirrored): unlike `reason_from_to_cause`, this function does not reject empty `data`; it panics in `get_obs`.
-/
namespace C10
open CausalGraph CausalSpec
open Dfs (V)

/-! ## evaluation along a path -/

/-- the evaluated prefix is a prefix of the path: evaluation happens in path order and never skips a causaloid -/
theorem evalPrefix_is_prefix (ev : Nat → Option V) : ∀ p, ∃ r, p = evalPrefix ev p ++ r := by
  intro p
  induction p with
  | nil => exact ⟨[], rfl⟩
  | cons c cs ih =>
    simp only [evalPrefix]
    split
    · obtain ⟨r, hr⟩ := ih; exact ⟨r, by rw [List.cons_append, ← hr]⟩
    · exact ⟨cs, rfl⟩

theorem evalPrefix_all_true (ev : Nat → Option V) : ∀ p, (∀ c, c ∈ p → ev c = some .t) → evalPrefix ev p = p := by
  intro p
  induction p with
  | nil => intro _; rfl
  | cons c cs ih =>
    intro h
    simp only [evalPrefix, h c (by simp), if_true]
    rw [ih (fun x hx => h x (by simp [hx]))]

/-- "up to and including the first non-true" -/
theorem evalPrefix_first_nontrue (ev : Nat → Option V) : ∀ (l : List Nat) (c : Nat) (r : List Nat),
    (∀ x, x ∈ l → ev x = some .t) → ev c ≠ some .t → evalPrefix ev (l ++ c :: r) = l ++ [c] := by
  intro l
  induction l with
  | nil => intro c r _ hc; simp [evalPrefix, hc]
  | cons a as ih =>
    intro c r hl hc
    simp only [List.cons_append, evalPrefix, hl a (by simp), if_true]
    rw [ih c r (fun x hx => hl x (by simp [hx])) hc]

/-- **the model's loop = the spec**: if no causaloid met before the stop lacks an observation, the loop returns the
    conjunction `conjAlong` and has evaluated exactly `evalPrefix` -/
theorem evaluated_eq_prefix (ev : Nat → Option V) : ∀ p r, conjAlong ev p = some r → pathEval ev p = (r, evalPrefix ev p) := by
  intro p
  induction p with
  | nil => intro r h; simp [conjAlong] at h; subst h; rfl
  | cons c cs ih =>
    intro r h
    simp only [conjAlong] at h
    simp only [pathEval, evalPrefix]
    cases hev : ev c with
    | none => rw [hev] at h; simp at h
    | some x =>
      rw [hev] at h
      cases x with
      | e => simp at h; subst h; simp
      | f => simp at h; subst h; simp
      | t => simp only at h; rw [ih r h]; simp

/-- a missing observation before the stop is a panic (`get_obs`), after evaluating the true causaloids before it -/
theorem pathEval_panic (ev : Nat → Option V) : ∀ p, conjAlong ev p = none → (pathEval ev p).1 = .panic := by
  intro p
  induction p with
  | nil => intro h; simp [conjAlong] at h
  | cons c cs ih =>
    intro h
    simp only [conjAlong] at h
    simp only [pathEval]
    cases hev : ev c with
    | none => rfl
    | some x =>
      rw [hev] at h
      cases x with
      | e => simp at h
      | f => simp at h
      | t => simp only at h; simp only; rw [← ih h]

/-- whatever happens, only causaloids of the evaluated prefix are evaluated -/
theorem nothing_else_evaluated (ev : Nat → Option V) : ∀ p v, v ∈ (pathEval ev p).2 → v ∈ evalPrefix ev p := by
  intro p
  induction p with
  | nil => intro v h; simp [pathEval] at h
  | cons c cs ih =>
    intro v h
    simp only [pathEval] at h
    simp only [evalPrefix]
    cases hev : ev c with
    | none => rw [hev] at h; simp at h
    | some x =>
      rw [hev] at h
      cases x with
      | e => simp at h; simp [h]
      | f => simp at h; simp [h]
      | t =>
        simp only [if_true] at h ⊢
        simp only [List.mem_cons] at h ⊢
        rcases h with h | h
        · exact Or.inl h
        · exact Or.inr (ih v h)

/-- activation flags of everything off the evaluated prefix (in particular off the path) are unchanged -/
theorem flags_off_prefix (ev : Nat → Option V) (p : List Nat) (flags : List Bool) (v : Nat) (hv : v ∉ evalPrefix ev p) :
    (applyLog ev flags (pathEval ev p).2)[v]? = flags[v]? :=
  applyLog_not_mem ev v _ flags (fun h => hv (nothing_else_evaluated ev p v h))

/-- `Ok(true)` iff every causaloid of the path is true -/
theorem verdict_true_iff (ev : Nat → Option V) : ∀ p, (pathEval ev p).1 = .ok true ↔ ∀ c, c ∈ p → ev c = some .t := by
  intro p
  induction p with
  | nil => simp [pathEval]
  | cons c cs ih =>
    simp only [pathEval]
    cases hev : ev c with
    | none => simp [hev]
    | some x =>
      cases x with
      | e => simp [hev]
      | f => simp [hev]
      | t =>
        simp only [List.mem_cons, forall_eq_or_imp, hev, true_and]
        exact ih

/-- otherwise the result is the verdict of the first non-true causaloid -/
theorem verdict_first_nontrue (ev : Nat → Option V) : ∀ (l : List Nat) (c : Nat) (r : List Nat),
    (∀ x, x ∈ l → ev x = some .t) → ev c ≠ some .t →
    (pathEval ev (l ++ c :: r)).1 = match ev c with | some .f => .ok false | some .e => .err | _ => .panic := by
  intro l
  induction l with
  | nil =>
    intro c r _ hc
    simp only [List.nil_append, pathEval]
    cases hev : ev c with
    | none => rfl
    | some x => cases x <;> simp_all
  | cons a as ih =>
    intro c r hl hc
    simp only [List.cons_append, pathEval, hl a (by simp)]
    exact ih c r (fun x hx => hl x (by simp [hx])) hc

/-- the result is the conjunction of the verdicts along the path, stopping at the first false / error -/
theorem verdict_eq_conj (ev : Nat → Option V) (p : List Nat) (r : Res) (h : conjAlong ev p = some r) :
    (pathEval ev p).1 = r := by rw [evaluated_eq_prefix ev p r h]

/-! ## the error condition -/

/-- what the driver demands of the externally chosen path -/
def Admissible (g : CG) (s t : Nat) (path : Option (List Nat)) : Prop :=
  (path = none → ¬ ∃ is c, FW.Walk (weight g) s t is c) ∧
  (∀ p, path = some p → ∃ is c, p = s :: is ++ [t] ∧ FW.Walk (weight g) s t is c)

/-- **errors iff**: the call returns `Err` without having evaluated anything exactly when the graph is empty, an endpoint
    is absent, start = stop, or stop is unreachable from start. (An `Err` *with* evaluations is a causal function's error.) -/
theorem errors_iff (g : CG) (s t : Nat) (data : List Nat) (idx : Option (List (Nat × Nat))) (path : Option (List Nat))
    (hadm : Admissible g s t path) :
    reasonShortest g s t data idx path = (.err, []) ↔
      (nodeCount g = 0 ∨ contains g s = false ∨ contains g t = false ∨ s = t ∨ ¬ ∃ is c, FW.Walk (weight g) s t is c) := by
  unfold reasonShortest
  by_cases h0 : nodeCount g = 0
  · simp [h0]
  by_cases hs : contains g s = true
  · by_cases ht : contains g t = true
    · by_cases hst : s = t
      · simp [h0, ht, hst]
      · simp only [h0, hs, ht, hst, if_false, Bool.not_true, Bool.false_eq_true, false_or]
        cases path with
        | none => simp [hadm.1 rfl]
        | some p =>
          obtain ⟨is, c, hp, hwalk⟩ := hadm.2 p rfl
          have hw : ∃ is c, FW.Walk (weight g) s t is c := ⟨is, c, hwalk⟩
          simp only [hw, not_true_eq_false]
          subst hp
          simp only [List.cons_append, pathEval]
          cases evalAt g data idx s with
          | none => simp
          | some x => cases x <;> simp
    · simp [h0, hs, ht]
  · simp [h0, hs]

theorem get_table (g : CG) (s t : Nat) : (CausalSpec.table g).get s t = FW.dist (weight g) g.upper s t := rfl

/-- the error condition the driver computes (`CausalSpec.spErr`) is the one of `errors_iff` -/
theorem spErr_iff (g : CG) (hw : WF g) (s t : Nat) :
    spErr g (CausalSpec.table g) s t = true ↔
      (nodeCount g = 0 ∨ contains g s = false ∨ contains g t = false ∨ s = t ∨ ¬ ∃ is c, FW.Walk (weight g) s t is c) := by
  have hd := (FW.dist_correct (weight g) g.upper s t (weight_bounded g hw)).2
  have hcs : contains g s = false ↔ ¬ s < g.upper := by
    rw [← hw.idx s]; cases contains g s <;> simp
  have hct : contains g t = false ↔ ¬ t < g.upper := by
    rw [← hw.idx t]; cases contains g t <;> simp
  unfold spErr
  rw [get_table, hcs, hct, ← hd]
  simp only [Bool.or_eq_true, beq_iff_eq, Bool.not_eq_true', decide_eq_false_iff_not, Option.isNone_iff_eq_none, nodeCount]
  constructor
  · rintro ((((h | h) | h) | h) | h) <;> simp [h]
  · rintro (h | h | h | h | h) <;> simp [h]

/-! ## the accepted path is a minimum-weight path -/

/-- a path accepted by the driver is a real `s → t` path (`p = s :: intermediates ++ [t]`, every step an edge) whose weight
    is minimal among **all** walks from `s` to `t` — by `FW.fw_correct` -/
theorem accepted_path_minimal (g : CG) (hw : WF g) (s t : Nat) (p : List Nat)
    (h : isMinPath g (CausalSpec.table g) s t p = true) :
    ∃ is c, p = s :: is ++ [t] ∧ FW.Walk (weight g) s t is c ∧ ∀ is' c', FW.Walk (weight g) s t is' c' → c ≤ c' := by
  unfold isMinPath at h
  cases hc : FW.checkPath (weight g) s t p with
  | none => rw [hc] at h; simp at h
  | some c =>
    rw [hc, get_table] at h
    simp only [beq_iff_eq] at h
    obtain ⟨⟨is, hp, hwalk⟩, hmin⟩ := FW.checkPath_minimal (weight g) g.upper s t (weight_bounded g hw) p c hc h
    exact ⟨is, c, hp, hwalk, hmin⟩

/-- **ties**: two paths the driver accepts for one query have the same total weight — which of several minimum-weight paths
    the external search reports is the only freedom left, and the statement "exactly one minimum-weight path" holds for each -/
theorem accepted_paths_same_weight (g : CG) (hw : WF g) (s t : Nat) (p q : List Nat)
    (hp : isMinPath g (CausalSpec.table g) s t p = true) (hq : isMinPath g (CausalSpec.table g) s t q = true) :
    ∃ is js c, p = s :: is ++ [t] ∧ q = s :: js ++ [t] ∧ FW.Walk (weight g) s t is c ∧ FW.Walk (weight g) s t js c := by
  obtain ⟨is, c, hp1, hp2, hpmin⟩ := accepted_path_minimal g hw s t p hp
  obtain ⟨js, c', hq1, hq2, hqmin⟩ := accepted_path_minimal g hw s t q hq
  have : c = c' := Nat.le_antisymm (hpmin js c' hq2) (hqmin is c hp2)
  subst this
  exact ⟨is, js, c, hp1, hq1, hp2, hq2⟩

/-- an accepted answer of `get_shortest_path` is admissible -/
theorem accepted_admissible (g : CG) (hw : WF g) (s t : Nat) (path : Option (List Nat))
    (h : pathAccepted g (CausalSpec.table g) s t path = true) : Admissible g s t path := by
  constructor
  · intro hp; subst hp
    simp only [pathAccepted, get_table, Option.isNone_iff_eq_none] at h
    exact ((FW.dist_correct (weight g) g.upper s t (weight_bounded g hw)).2).1 h
  · intro p hp; subst hp
    obtain ⟨is, c, h1, h2, _⟩ := accepted_path_minimal g hw s t p h
    exact ⟨is, c, h1, h2⟩

/-! ## the model's answers are the ones the executable statement expects -/

/-- error side: when the statement's error condition holds, the model answers `Err`, nothing evaluated -/
theorem model_sp_error (ops : List Op) (s t : Nat) (data : List Nat) (idx : Option (List (Nat × Nat)))
    (path : Option (List Nat)) (hacc : pathAccepted (build ops) (CausalSpec.table (build ops)) s t path = true)
    (h : spErr (build ops) (CausalSpec.table (build ops)) s t = true) :
    reasonShortest (build ops) s t data idx path = (.err, []) :=
  (errors_iff _ s t data idx path (accepted_admissible _ (wf_build ops) s t path hacc)).2
    ((spErr_iff _ (wf_build ops) s t).1 h)

/-- success side: otherwise the model evaluates exactly `evalPrefix` of the reported path and answers `conjAlong` -/
theorem model_sp_spec (ops : List Op) (s t : Nat) (data : List Nat) (idx : Option (List (Nat × Nat))) (p : List Nat)
    (h : spErr (build ops) (CausalSpec.table (build ops)) s t = false) (r : Res)
    (hr : conjAlong (verdictAt (build ops) data idx) p = some r) :
    reasonShortest (build ops) s t data idx (some p) = (r, evalPrefix (verdictAt (build ops) data idx) p) := by
  have hw := wf_build ops
  have hev : verdictAt (build ops) data idx = evalAt (build ops) data idx := funext (verdictAt_eq_evalAt _ hw data idx)
  rw [hev] at hr ⊢
  have hne : ¬ (spErr (build ops) (CausalSpec.table (build ops)) s t = true) := by rw [h]; simp
  rw [spErr_iff _ hw] at hne
  simp only [not_or] at hne
  obtain ⟨h0, hs, ht, hst, _⟩ := hne
  have hs' : contains (build ops) s = true := by simpa using hs
  have ht' : contains (build ops) t = true := by simpa using ht
  unfold reasonShortest
  simp only [h0, hs', ht', hst, if_false, Bool.not_true, Bool.false_eq_true]
  exact evaluated_eq_prefix _ p r hr

/-! ## non-vacuity: direct edge 0→1 of weight 5 against the chain 0→2→3→1 of weight 3; node 4 off the route -/

def detour : List Op :=
  [.add ⟨0, .plain⟩, .add ⟨1, .plain⟩, .add ⟨2, .inv⟩, .add ⟨3, .plain⟩, .add ⟨4, .plain⟩,
   .edge 0 1 5, .edge 0 2 1, .edge 2 3 1, .edge 3 1 1, .edge 0 4 0, .edge 4 0 0]

/-- the chain is accepted, the direct edge is not -/
example : isMinPath (build detour) (CausalSpec.table (build detour)) 0 1 [0, 2, 3, 1] = true ∧
    isMinPath (build detour) (CausalSpec.table (build detour)) 0 1 [0, 1] = false ∧
    spErr (build detour) (CausalSpec.table (build detour)) 0 1 = false ∧
    spErr (build detour) (CausalSpec.table (build detour)) 1 0 = true := by decide

example : ∃ is c, [0, 2, 3, 1] = 0 :: is ++ [1] ∧ FW.Walk (weight (build detour)) 0 1 is c ∧
    ∀ is' c', FW.Walk (weight (build detour)) 0 1 is' c' → c ≤ c' :=
  accepted_path_minimal _ (wf_build detour) 0 1 _ (by decide)

example : reasonShortest (build detour) 0 1 [0, 3, 7, 10, 14] none (some [0, 2, 3, 1]) =
    (.ok false, evalPrefix (verdictAt (build detour) [0, 3, 7, 10, 14] none) [0, 2, 3, 1]) :=
  model_sp_spec detour 0 1 _ none _ (by decide) _ (by decide)

/-- node 3 false: evaluated 0, 2, 3 — not 1 (behind the false one), not 4 (off the path, although it errs) -/
example : reasonShortest (build detour) 0 1 [0, 3, 7, 10, 14] none (some [0, 2, 3, 1]) = (.ok false, [0, 2, 3]) := by decide

end C10
