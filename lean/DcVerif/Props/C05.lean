import DcVerif.Lemmas.RingHB
import DcVerif.Lemmas.RingMultiSafe
import DcVerif.Lemmas.RingMultiHBW
/-!
# C05 — ring buffer slots: no overwrite before consumption, conflicting slot accesses ordered by happens-before,
a producer a full ring ahead blocks (single-producer pipelines)

Everything below holds for **every** ring size `n`, stage/handler topology (`K ≥ 1` stages, `h k ≥ 1` handlers), list of
batch sizes (each ≥ 1), wait strategy (spin *and* blocking) and **every schedule** (`Ring.Reachable` / `HReachable`).

* (a) `c05_no_lap_reachable` — arithmetic core: while the producer is about to write sequence `w` and any handler of any
  stage is handling `i`: `i < w < i + n`, hence `w % n ≠ i % n` — they never touch the same slot.
* (b) `c05_full_ring_blocks` / `c05_full_ring_blocks_run` — while the slowest last-stage cursor `c` has `c + n < end`, no
  step of any thread moves the producer out of its gate loop (`gateCheck`/`gateLoad`) and nothing is written, along
  every schedule; conversely `c05_gate_opens`: once every last-stage cursor has `end ≤ c + n`, the producer reaches its
  first slot write after at most `ngate + 3` of its own steps.
* (c) `c05_race_free_reachable` — happens-before (vector clocks of `Model/RingHB.lean`, DESIGN.md §5.4) with the memory
  orderings **taken from the source** (`Gen.Orderings.seqSet` for every cursor store, `Gen.Orderings.seqGet` for every
  cursor load, regenerated from `atomic_sequence_ordered.rs` on every run): before every slot access the obligations
  R1–R4 hold. The two facts the proof needs about the orderings are `c05_orderings_used` (checked by evaluation): a
  weakened ordering in the source breaks that theorem.
* (d) `c05_relaxed_store_races`, `c05_relaxed_load_races` — the ordering table is load-bearing: with a `Relaxed` cursor
  store (or load) a concrete schedule reaches a state in which the reader obligation fails.
* (e) `c05_same_stage_unordered` — **topology hypothesis / known finding F9**: handlers of the *same* stage are not
  ordered with each other (no sequence counter connects them within one lap). `RaceFree.reader` therefore claims
  ordering against the producer (R1), against every handler of every *earlier* stage (R2) and against everybody's
  access one lap earlier (R4) — not against same-stage handlers of the current lap. That is exactly property C05 when a
  stage that contains a mutable handler contains no other handler: then every conflicting pair (write/write,
  write/read, mutable-handler/any) is a pair covered by R1–R4. The safe builder API also accepts stages holding a
  mutable handler *and* others; for those the pair (mutable handler, same-stage handler) on the same sequence is
  conflicting and unordered — F9, exhibited by `c05_same_stage_unordered` in the model and by the driver's clock oracle
  on the implementation's own events.

* (f) multi-producer sequencer (`Model/RingMulti.lean`, any number of writer threads, every schedule): the capacity side —
  `c05_multi_no_overwrite` (a writer about to write `w` has `w < cur + n` for the published cursor `cur` of *every* handler of
  *every* stage, and the previous occupant `w − n` of the slot is in every handler's log), `c05_multi_no_lap` (`i < w < i + n`
  against every handler that is handling `i`), `c05_multi_writers_distinct_slots` (two writers never write the same slot at
  the same time).
* (g) multi-producer sequencer, happens-before (`Model/RingMultiHB.lean`: vector clocks with one entry per writer thread and
  per handler; thread clocks for writers, draining thread, handlers; location clocks for the cursor, both watermarks, every
  handler cursor and every bitmap **word**; plain stores / loads / RMWs with the orderings of `Gen.Orderings`): every ring
  size `2^e`, topology, wait strategy, number of writers, batch lists, **every schedule** — `c05_multi_race_free_reachable`
  (R1, R2, R4 before every handler access, R3 and writer/writer-across-laps before every slot write),
  `c05_multi_reader_knows`, `c05_multi_writer_knows`, `c05_multi_writer_knows_slot_history` /
  `c05_multi_reader_knows_slot_history` (every conflicting access already made to the slot, according to the ghost access
  logs, is known to the thread about to access it), `c05_multi_orderings_used` (the five facts about the source's orderings the
  proof needs), `c05_multi_relaxed_cas_races` / `c05_multi_relaxed_fetch_or_races` (the table is load-bearing).

Partial: happens-before over an interleaving semantics stands in for the C11 memory model; the mutex / condvar / `is_done` /
spawn / join edges are deliberately not used (fewer edges ⇒ harder to prove ⇒ sound); ordering between two handlers of one
stage is not claimed (F9); for the multi-producer sequencer the ring size is a power of two (as the bitmap requires).
-/
namespace C05
open Ring RingHB Gen.Orderings

/-! ## (a) no lap -/

theorem mod_ne_of_window {i w n : Nat} (h1 : i < w) (h2 : w < i + n) : w % n ≠ i % n := by
  intro he
  have h0 : (w - i) % n = 0 := Nat.sub_mod_eq_zero_of_mod_eq he
  have hd : n ∣ w - i := Nat.dvd_of_mod_eq_zero h0
  have := Nat.le_of_dvd (by omega) hd
  omega

/-- **C05 (a)**: in every reachable state, if the producer is about to write sequence `w` (`pc = write`, `w ≤ stop`) and a
handler of any stage is about to handle / handling sequence `i` (`pc = handle`, `i ≤ avail`), then `i < w < i + n`; so
the slot written (`w % n`) is not the slot read (`i % n`): no event is overwritten before every handler consumed it and no
handler reads a slot while it is written. -/
theorem c05_no_lap_reachable {x : PSt} (hr : Reachable x) (hw : x.p.pc = .write) (hww : x.p.w ≤ x.p.stop)
    (k j : Nat) (hk : k < x.s.K) (hj : j < x.s.h k)
    (hc : (x.s.cons k j).pc = .handle) (hi : (x.s.cons k j).i ≤ (x.s.cons k j).avail) :
    (x.s.cons k j).i < x.p.w ∧ x.p.w < (x.s.cons k j).i + x.s.n ∧ x.p.w % x.s.n ≠ (x.s.cons k j).i % x.s.n := by
  have := no_lap x (reachable_inv hr) hw hww k j hk hj hc hi
  exact ⟨this.1, this.2, mod_ne_of_window this.1 this.2⟩

/-- non-vacuity of (a): ring of 4, two batches; the producer is writing sequence 4 (second lap, slot 0) while the handler
is handling sequence 1 (slot 1) -/
def demoLap : PSt := runX (mk 4 1 (fun _ => 1) false [4, 1])
  (List.replicate 8 Tid.prod ++ List.replicate 4 (Tid.cons 0 0) ++ List.replicate 2 Tid.prod)

example : demoLap.p.pc = .write ∧ demoLap.p.w = 4 ∧ demoLap.p.stop = 4 ∧ (demoLap.s.cons 0 0).pc = .handle ∧
    (demoLap.s.cons 0 0).i = 1 ∧ (demoLap.s.cons 0 0).avail = 3 := by decide +kernel

/-! ## (b) a producer a full ring ahead blocks -/

/-- one step of any thread: while some last-stage cursor `c` has `c + n < end` (`end` = `stop`, the highest sequence of the
claim being made), the producer stays in the gate loop of `next`, writes nothing and publishes nothing -/
theorem c05_full_ring_blocks {x : PSt} (hr : Reachable x) (hpc : x.p.pc = .gateCheck ∨ x.p.pc = .gateLoad)
    (d : Nat) (hd : d < ngate x.s) (hfull : gate x.s d + x.s.n < x.p.stop) (t : Tid) :
    ((stepX x t).p.pc = .gateCheck ∨ (stepX x t).p.pc = .gateLoad) ∧ (stepX x t).p.pc ≠ .write ∧
    (stepX x t).p.written = x.p.written ∧ (stepX x t).p.stop = x.p.stop ∧ (stepX x t).s.cursor = x.s.cursor := by
  obtain ⟨hI, hK, hP, hb⟩ := reachable_inv hr
  have hmin := hP.minLe d hd
  cases t with
  | cons k j =>
    simp only [stepX]; split
    · rcases hpc with h | h <;> simp [h, stepC]
    · rcases hpc with h | h <;> simp [h]
  | prod =>
    simp only [stepX]
    rcases hpc with h | h
    · have hlt : x.p.min + x.s.n < x.p.stop := by omega
      simp [stepProd, h, hlt]
    · simp only [stepProd, h]; split <;> simp

/-- the same at the loop head, as a statement about the gate test itself: with a last-stage cursor a full ring behind, the
test `min_sequence + buffer_size < end` of `next` succeeds (whatever stale minimum the producer holds — it is never above
a real cursor), so the producer's step from `gateCheck` goes to `gateLoad` (re-read the gating sequences), never to `write` -/
theorem c05_full_ring_gate_fails {x : PSt} (hr : Reachable x) (hpc : x.p.pc = .gateCheck)
    (d : Nat) (hd : d < ngate x.s) (hfull : gate x.s d + x.s.n < x.p.stop) :
    x.p.min + x.s.n < x.p.stop ∧ (stepProd x).p.pc = .gateLoad ∧ (stepProd x).p.claims = x.p.claims := by
  obtain ⟨hI, hK, hP, hb⟩ := reachable_inv hr
  have hmin := hP.minLe d hd
  have hlt : x.p.min + x.s.n < x.p.stop := by omega
  exact ⟨hlt, by simp [stepProd, hpc, hlt], by simp [stepProd, hpc, hlt]⟩

theorem run_fixed (x : PSt) (sched : List Tid) (h : PInvAll x) :
    (runX x sched).s.K = x.s.K ∧ (runX x sched).s.h = x.s.h ∧ (runX x sched).s.n = x.s.n ∧
    ∀ d, gate x.s d ≤ gate (runX x sched).s d := by
  unfold runX
  induction sched generalizing x with
  | nil => exact ⟨rfl, rfl, rfl, fun _ => Nat.le_refl _⟩
  | cons t ts ih =>
    obtain ⟨i1, i2, i3, i4⟩ := ih (stepX x t) (inv_stepX x t h)
    simp only [List.foldl_cons]
    have hstep : (stepX x t).s.K = x.s.K ∧ (stepX x t).s.h = x.s.h ∧ (stepX x t).s.n = x.s.n ∧
        ∀ d, gate x.s d ≤ gate (stepX x t).s d := by
      cases t with
      | prod =>
        obtain ⟨ec, eK, eh, en, _⟩ := cons_same_prod x
        refine ⟨eK, eh, en, fun d => ?_⟩
        show (x.s.cons (x.s.K - 1) d).cur ≤ ((stepProd x).s.cons ((stepProd x).s.K - 1) d).cur
        rw [ec, eK]; exact Nat.le_refl _
      | cons k j =>
        simp only [stepX]; split
        · rename_i hkj
          exact ⟨rfl, rfl, rfl, fun d => gate_mono_stepC x.s k j hkj.1 hkj.2 h.1 d⟩
        · exact ⟨rfl, rfl, rfl, fun _ => Nat.le_refl _⟩
    obtain ⟨s1, s2, s3, s4⟩ := hstep
    exact ⟨i1.trans s1, i2.trans s2, i3.trans s3, fun d => Nat.le_trans (s4 d) (i4 d)⟩

/-- **C05 (b)**, along every schedule: if at the end of an arbitrary run some last-stage cursor `c` still has
`c + n < end`, the producer — which was in its gate loop at the beginning — is still in it: it has had no enabled write
step (nothing written, nothing published) during the whole run. A producer a full ring ahead blocks until the slowest
last-stage handler advances. -/
theorem c05_full_ring_blocks_run {x : PSt} (hr : Reachable x) (hpc : x.p.pc = .gateCheck ∨ x.p.pc = .gateLoad)
    (sched : List Tid) (d : Nat) (hd : d < ngate x.s) (hfull : gate (runX x sched).s d + x.s.n < x.p.stop) :
    ((runX x sched).p.pc = .gateCheck ∨ (runX x sched).p.pc = .gateLoad) ∧
    (runX x sched).p.written = x.p.written ∧ (runX x sched).s.cursor = x.s.cursor := by
  induction sched generalizing x with
  | nil => exact ⟨hpc, rfl, rfl⟩
  | cons t ts ih =>
    have hrun : runX x (t :: ts) = runX (stepX x t) ts := rfl
    rw [hrun] at hfull ⊢
    have hinv := reachable_inv hr
    obtain ⟨f1, f2, f3, f4⟩ := run_fixed (stepX x t) ts (inv_stepX x t hinv)
    obtain ⟨g1, g2, g3, g4⟩ := run_fixed x [t] hinv
    have hstep : runX x [t] = stepX x t := rfl
    rw [hstep] at g1 g2 g3 g4
    have hnow : gate x.s d + x.s.n < x.p.stop := by have := g4 d; have := f4 d; omega
    obtain ⟨b1, _, b3, b4, b5⟩ := c05_full_ring_blocks hr hpc d hd hnow t
    have hd' : d < ngate (stepX x t).s := by simpa [ngate, g1, g2] using hd
    have := ih (reachable_step hr t) b1 hd' (by rw [g3, b4]; exact hfull)
    exact ⟨this.1, this.2.1.trans b3, this.2.2.trans b5⟩

/-- the load loop of `get_min_cursor_sequence`, run by the producer alone -/
theorem gate_loop_solo (B : Nat) (r : Nat) : ∀ (x : PSt), x.p.pc = .gateLoad → x.p.idx + r = ngate x.s →
    (∀ d, d < ngate x.s → B ≤ gate x.s d) → (∀ m, x.p.acc = some m → B ≤ m) → (0 < x.p.idx → x.p.acc.isSome) →
    ∃ a', runX x (List.replicate r Tid.prod) = { x with p := { x.p with acc := a', idx := ngate x.s } } ∧
          (∀ m, a' = some m → B ≤ m) ∧ (0 < ngate x.s → a'.isSome) := by
  induction r with
  | zero =>
    intro x hpc hidx hg ha hs
    refine ⟨x.p.acc, ?_, ha, fun h => hs (by omega)⟩
    have hi : ngate x.s = x.p.idx := by omega
    simp only [List.replicate_zero, runX, List.foldl_nil]
    rw [hi]
  | succ r ih =>
    intro x hpc hidx hg ha hs
    have hlt : x.p.idx < ngate x.s := by omega
    have e : stepX x .prod = { x with p := { x.p with acc := minOpt x.p.acc (gate x.s x.p.idx), idx := x.p.idx + 1 } } := by
      simp [stepX, stepProd, hpc, hlt]
    have hrun : runX x (List.replicate (r + 1) Tid.prod) = runX (stepX x .prod) (List.replicate r Tid.prod) := rfl
    rw [hrun, e]
    obtain ⟨a', h1, h2, h3⟩ := ih { x with p := { x.p with acc := minOpt x.p.acc (gate x.s x.p.idx), idx := x.p.idx + 1 } }
      hpc (by simp only; omega) hg
      (by
        intro m hm
        cases hacc : x.p.acc with
        | none => simp [hacc, minOpt] at hm; subst hm; exact hg _ hlt
        | some m0 =>
          simp [hacc, minOpt] at hm; subst hm
          exact (Nat.le_min).2 ⟨ha m0 hacc, hg _ hlt⟩)
      (fun _ => minOpt_isSome _ _)
    exact ⟨a', h1, h2, h3⟩

/-- **C05 (b), converse**: once every last-stage cursor `c` satisfies `end ≤ c + n` (the slowest last-stage handler has
advanced far enough), the gate opens: running alone from the head of its gate loop the producer reaches the slot write
of the first sequence of its claim after at most `ngate + 3` steps (one failed check on the stale cached minimum, one load
per gating sequence, the minimum, the successful check). -/
theorem c05_gate_opens {x : PSt} (hr : Reachable x) (hpc : x.p.pc = .gateCheck)
    (hopen : ∀ d, d < ngate x.s → x.p.stop ≤ gate x.s d + x.s.n) :
    ∃ m, m ≤ ngate x.s + 3 ∧ (runX x (List.replicate m Tid.prod)).p.pc = .write ∧
      (runX x (List.replicate m Tid.prod)).p.w = x.p.start ∧ (runX x (List.replicate m Tid.prod)).p.stop = x.p.stop ∧
      (runX x (List.replicate m Tid.prod)).p.written = x.p.written := by
  obtain ⟨hI, hK, hP, hb⟩ := reachable_inv hr
  have hgpos := ngate_pos x.s hI.1 hK
  by_cases hlt : x.p.min + x.s.n < x.p.stop
  · -- the cached minimum is stale: reload the gating sequences
    let x1 : PSt := { x with p := { x.p with pc := .gateLoad, acc := none, idx := 0 } }
    have e1 : stepX x .prod = x1 := by simp [stepX, stepProd, hpc, hlt, x1]
    obtain ⟨a', h1, h2, h3⟩ := gate_loop_solo (x.p.stop - x.s.n) (ngate x.s) x1 rfl (by simp [x1, ngate])
      (fun d hd => by have := hopen d hd; show x.p.stop - x.s.n ≤ gate x.s d; omega) (by simp [x1]) (by simp [x1])
    have hsome := h3 hgpos
    obtain ⟨mv, hmv⟩ := Option.isSome_iff_exists.mp hsome
    have hB := h2 mv hmv
    refine ⟨1 + ngate x.s + 1 + 1, by omega, ?_⟩
    have hrun : runX x (List.replicate (1 + ngate x.s + 1 + 1) Tid.prod) =
        stepX (stepX (runX (stepX x .prod) (List.replicate (ngate x.s) Tid.prod)) .prod) .prod := by
      have hl : List.replicate (1 + ngate x.s + 1 + 1) Tid.prod =
          [Tid.prod] ++ List.replicate (ngate x.s) Tid.prod ++ [Tid.prod] ++ [Tid.prod] := by
        simp only [← List.replicate_append_replicate]; rfl
      rw [hl]
      simp only [runX, List.foldl_append, List.foldl_cons, List.foldl_nil]
    rw [hrun, e1, h1]
    have hge : ¬ (mv + x.s.n < x.p.stop) := by omega
    simp [stepX, stepProd, x1, ngate, hmv, hge]
  · exact ⟨1, by omega, by simp [runX, stepX, stepProd, hpc, hlt]⟩

/-- non-vacuity of (b): ring of 2, batches 1, 2, 1 and a handler that has not run yet: the third claim has `end = 3`, the only
gating cursor is 0 and `0 + 2 < 3` — the producer is in its gate loop -/
def demoFull : PSt := runX (mk 2 1 (fun _ => 1) false [1, 2, 1]) (List.replicate 13 Tid.prod)

example : (demoFull.p.pc = .gateLoad) ∧ demoFull.p.stop = 3 ∧ gate demoFull.s 0 + demoFull.s.n < demoFull.p.stop ∧
    0 < ngate demoFull.s := by decide +kernel

/-! ## (c) happens-before: every conflicting pair of slot accesses is ordered -/

/-- the two facts about the source's memory orderings the proof of (c) rests on: every store of a sequence counter
(`AtomicSequenceOrdered::set`) is at least `Release`, every load (`AtomicSequenceOrdered::get`) at least `Acquire`.
`Gen/Orderings.lean` is regenerated from `atomic_sequence_ordered.rs` on every run — weakening either ordering there
makes this theorem (and nothing else in the development) fail. -/
theorem c05_orderings_used : seqSet.isRelease = true ∧ seqGet.isAcquire = true := by decide

/-- a state (system + clocks) reachable in a well-formed single-producer pipeline with the orderings of the source: any
ring size, topology, wait strategy, batch list, **any schedule** -/
def HReachable (s : HSt) : Prop :=
  ∃ (n K : Nat) (h : Nat → Nat) (blocking : Bool) (batches : List Nat) (sched : List Tid),
    0 < K ∧ (∀ k, k < K → 0 < h k) ∧ (∀ b, b ∈ batches → 1 ≤ b) ∧ s = runSrc (mkH n K h blocking batches) sched

/-- the clocks are ghost state: the system component of a clocked run is the plain run of `Model/Ring.lean`, so
`HReachable` projects onto `Ring.Reachable` and every `Ring.Reachable` state is the projection of an `HReachable` one -/
theorem c05_clocks_are_ghost (n K : Nat) (h : Nat → Nat) (blocking : Bool) (batches : List Nat) (sched : List Tid) :
    (runSrc (mkH n K h blocking batches) sched).x = runX (mk n K h blocking batches) sched :=
  runH_x seqSet seqGet _ sched

theorem hreachable_x {s : HSt} (hr : HReachable s) : Reachable s.x := by
  obtain ⟨n, K, h, bl, bs, sched, hK, hh, hb, rfl⟩ := hr
  exact ⟨n, K, h, bl, bs, sched, hK, hh, hb, c05_clocks_are_ghost n K h bl bs sched⟩

theorem reachable_lifts {x : PSt} (hr : Reachable x) : ∃ s, HReachable s ∧ s.x = x := by
  obtain ⟨n, K, h, bl, bs, sched, hK, hh, hb, rfl⟩ := hr
  exact ⟨_, ⟨n, K, h, bl, bs, sched, hK, hh, hb, rfl⟩, c05_clocks_are_ghost n K h bl bs sched⟩

/-- the clock invariant holds in every reachable state -/
theorem c05_hb_invariant {s : HSt} (hr : HReachable s) : HGood s := by
  obtain ⟨n, K, h, bl, bs, sched, hK, hh, hb, rfl⟩ := hr
  exact hgood_run seqSet seqGet c05_orderings_used.1 c05_orderings_used.2 _ sched (hgood_init n K h bl bs hK hh hb)

/-- **C05 (c)**: for every ring size, topology, batch list, wait strategy and schedule, with the orderings the source
uses, the obligations R1–R4 hold before every slot access:
* reader (`RaceFree.reader`): a handler `(k,j)` about to handle sequence `i` knows the producer's write of `i`
  (R1: write → read), every access of `i` by every handler of every earlier stage (R2: earlier-stage access, possibly a
  mutation → later-stage access), and everybody's access of `i − n`, the previous occupant of the slot (R4);
* writer (`RaceFree.writer`): the producer about to write `w` knows everybody's access of `w − n` (R3: read → overwrite);
  write/write pairs are ordered by the producer's program order.
So every pair of conflicting accesses to one slot — except pairs inside one stage, see (e) — is ordered by the
happens-before relation the sequence counters establish. -/
theorem c05_race_free_reachable {s : HSt} (hr : HReachable s) : RaceFree s := by
  have := c05_hb_invariant hr
  exact raceFree_of_inv s this.1 this.2

/-- (c) spelled out for a handler: R1, R2, R4 as inequalities on its clock -/
theorem c05_reader_knows {s : HSt} (hr : HReachable s) (k j : Nat) (hk : k < s.x.s.K) (hj : j < s.x.s.h k)
    (hpc : (s.x.s.cons k j).pc = .handle) (hi : (s.x.s.cons k j).i ≤ (s.x.s.cons k j).avail) :
    (s.x.s.cons k j).i + 1 ≤ (s.vcC k j).pw ∧
    (∀ k' j', k' < k → j' < s.x.s.h k' → (s.x.s.cons k j).i ≤ (s.vcC k j).ha k' j') ∧
    (∀ k' j', k' < s.x.s.K → j' < s.x.s.h k' → (s.x.s.cons k j).i ≤ (s.vcC k j).ha k' j' + s.x.s.n) := by
  have hc := (c05_race_free_reachable hr).reader k j hk hj hpc hi
  have hinv := (c05_hb_invariant hr).1
  have hci := hinv.1.2 k j hk hj
  have h1 := hci.iGe hpc
  have h2 := hci.nextEq (by simp [hpc])
  exact ⟨hc.pw (by omega), fun k' j' hk' hj' => hc.prev k' j' hk' (by omega) hj', hc.old⟩

/-- non-vacuity of (c): two stages, ring of 2, the ring wraps: the second-stage handler is about to handle sequence 3
(slot 1, previously holding sequence 1) and the producer is about to write sequence 4 (slot 0, previously 2) -/
def demoHB : HSt := runSrc (mkH 2 2 (fun _ => 1) false [1, 1, 1, 1, 1])
  (List.replicate 10 Tid.prod ++ List.replicate 8 (Tid.cons 0 0) ++ List.replicate 8 (Tid.cons 1 0) ++
   List.replicate 10 Tid.prod ++ List.replicate 8 (Tid.cons 0 0) ++ List.replicate 8 (Tid.cons 1 0) ++
   List.replicate 8 Tid.prod ++ List.replicate 9 (Tid.cons 0 0) ++ List.replicate 6 (Tid.cons 1 0))

example : (demoHB.x.s.cons 1 0).pc = .handle ∧ (demoHB.x.s.cons 1 0).i = 3 ∧ (demoHB.x.s.cons 1 0).avail = 3 ∧
    (demoHB.vcC 1 0).pw = 4 ∧ (demoHB.vcC 1 0).ha 0 0 = 3 ∧ (demoHB.vcC 1 0).ha 1 0 = 2 ∧
    demoHB.x.p.pc = .write ∧ demoHB.x.p.w = 4 ∧ demoHB.x.p.stop = 4 ∧ demoHB.vcP.ha 1 0 = 2 ∧ demoHB.vcP.ha 0 0 = 2 := by
  decide +kernel

/-! ## (d) the ordering table is load-bearing -/

/-- the schedule "producer writes and publishes a batch of two, then the handler waits for it" with a **Relaxed** cursor
store (everything else as in the source) -/
def relaxedStoreRun : HSt :=
  runH .relaxed seqGet (mkH 4 1 (fun _ => 1) false [2]) (List.replicate 6 Tid.prod ++ List.replicate 4 (Tid.cons 0 0))

/-- **C05 (d)**: were `AtomicSequenceOrdered::set` a `Relaxed` store, the handler would be about to read slot 1 without
knowing the producer's write of it (its clock entry for the producer is 0): the reader obligation R1 fails on a concrete
schedule. This is also the replay the check produces when the ordering is weakened in the source. -/
theorem c05_relaxed_store_races : ¬ RaceFree relaxedStoreRun := by
  intro h
  have hk : 0 < relaxedStoreRun.x.s.K := by decide +kernel
  have hj : 0 < relaxedStoreRun.x.s.h 0 := by decide +kernel
  have hpc : (relaxedStoreRun.x.s.cons 0 0).pc = .handle := by decide +kernel
  have hi : (relaxedStoreRun.x.s.cons 0 0).i ≤ (relaxedStoreRun.x.s.cons 0 0).avail := by decide +kernel
  have h1 := (h.reader 0 0 hk hj hpc hi).pw (by decide +kernel)
  revert h1
  decide +kernel

/-- the same with a **Relaxed** cursor load (`AtomicSequenceOrdered::get`) -/
def relaxedLoadRun : HSt :=
  runH seqSet .relaxed (mkH 4 1 (fun _ => 1) false [2]) (List.replicate 6 Tid.prod ++ List.replicate 4 (Tid.cons 0 0))

theorem c05_relaxed_load_races : ¬ RaceFree relaxedLoadRun := by
  intro h
  have hk : 0 < relaxedLoadRun.x.s.K := by decide +kernel
  have hj : 0 < relaxedLoadRun.x.s.h 0 := by decide +kernel
  have hpc : (relaxedLoadRun.x.s.cons 0 0).pc = .handle := by decide +kernel
  have hi : (relaxedLoadRun.x.s.cons 0 0).i ≤ (relaxedLoadRun.x.s.cons 0 0).avail := by decide +kernel
  have h1 := (h.reader 0 0 hk hj hpc hi).pw (by decide +kernel)
  revert h1
  decide +kernel

/-- the same schedule with the orderings of the source: the handler knows both writes -/
def releaseRun : HSt :=
  runSrc (mkH 4 1 (fun _ => 1) false [2]) (List.replicate 6 Tid.prod ++ List.replicate 4 (Tid.cons 0 0))

example : (releaseRun.x.s.cons 0 0).pc = .handle ∧ (releaseRun.x.s.cons 0 0).i = 1 ∧ (releaseRun.vcC 0 0).pw = 2 ∧
    (relaxedStoreRun.x.s.cons 0 0).pc = .handle ∧ (relaxedStoreRun.x.s.cons 0 0).i = 1 ∧
    (relaxedStoreRun.x.s.cons 0 0).avail = 1 ∧ (relaxedStoreRun.vcC 0 0).pw = 0 ∧ (relaxedLoadRun.vcC 0 0).pw = 0 := by
  decide +kernel

/-! ## (e) topology hypothesis: same-stage handlers are unordered (F9) -/

/-- one stage with two handlers, ring of 4, one batch of two; handler `(0,1)` has handled sequence 1, handler `(0,0)` is
about to -/
def sameStageRun : HSt :=
  runSrc (mkH 4 1 (fun _ => 2) false [2])
    (List.replicate 6 Tid.prod ++ List.replicate 4 (Tid.cons 0 0) ++ List.replicate 5 (Tid.cons 0 1))

/-- **C05 (e), F9**: in a reachable state (orderings of the source) handler `(0,0)` is about to access the slot of
sequence 1, handler `(0,1)` of the same stage has already accessed it, and `(0,0)` does not know that access — nor the
other way round: the two accesses are not ordered by happens-before. If one of the two handlers is mutable this is a
data race on the slot (`BarrierScope::handle_events_mut` puts no sequence counter between handlers of one stage); if
both are immutable the accesses are two reads and do not conflict. Hence the topology hypothesis of C05: a stage that
contains a mutable handler contains only that handler. -/
theorem c05_same_stage_unordered :
    HReachable sameStageRun ∧
    (sameStageRun.x.s.cons 0 0).pc = .handle ∧ (sameStageRun.x.s.cons 0 0).i = 1 ∧ (sameStageRun.x.s.cons 0 0).avail = 1 ∧
    (sameStageRun.x.s.cons 0 1).log = [1] ∧ (sameStageRun.vcC 0 1).ha 0 1 = 1 ∧
    (sameStageRun.vcC 0 0).ha 0 1 = 0 ∧ (sameStageRun.vcC 0 1).ha 0 0 = 0 := by
  refine ⟨⟨4, 1, fun _ => 2, false, [2], _, by decide, fun _ _ => Nat.zero_lt_two, by decide, rfl⟩, ?_⟩
  decide +kernel

/-! ## (f) multi-producer sequencer: no overwrite before consumption -/
section Multi
open RingMulti

/-- **C05 (f), capacity side for the multi-producer sequencer** — every ring size, topology, wait strategy, number of writer
threads, batch lists, **every schedule**: whenever a writer thread is about to write sequence `w` of its claim (`pc = write`,
`w ≤ hi`), every handler `(k,j)` of every stage has already *published* a cursor `cur` with `w < cur + n` (so `w ≤ cur + n`,
the bound of the single producer, with one slot to spare: `has_capacity` is strict). Hence the previous occupant `w − n` of the
slot has been handed to — and finished by — every handler: it is in every log. `has_capacity` compares against a minimum of
last-stage cursors read *after* the high watermark and only the winner of the CAS on that same high watermark proceeds; cursors
only grow, so the fact survives every interleaving. -/
theorem c05_multi_no_overwrite {x : MSt} (hr : MReachableWF x) (i : Nat) (hi : i < x.P)
    (hpc : (x.wr i).pc = .write) (hw : (x.wr i).w ≤ (x.wr i).hi) (k j : Nat) (hk : k < x.s.K) (hj : j < x.s.h k) :
    (x.wr i).w < (x.s.cons k j).cur + x.s.n ∧
    ∀ q, 1 ≤ q → q + x.s.n ≤ (x.wr i).w → q ∈ (x.s.cons k j).log := by
  have hc := mreachableWF_cap hr
  have h1 := (hc.2 i hi).hiLt (Or.inl hpc)
  have h2 := minG_le_all x hc i hi k j hk hj
  refine ⟨by omega, fun q hq1 hq2 => ?_⟩
  exact mem_log_of_le_cur x.s hc.1.2.1 k j hk hj q hq1 (by omega)

/-- the same against a handler that is in the middle of a batch: the writer writing `w` and a handler handling `i` have
`i < w < i + n`, so they touch different slots (`n = 2^k`: the release-safety invariant is needed for `i < w`) -/
theorem c05_multi_no_lap {x : MSt} (hr : MReachableWF x) (e : Nat) (hn : x.s.n = 2 ^ e) (i : Nat) (hi : i < x.P)
    (hpc : (x.wr i).pc = .write) (hw : (x.wr i).w ≤ (x.wr i).hi) (k j : Nat) (hk : k < x.s.K) (hj : j < x.s.h k)
    (hc : (x.s.cons k j).pc = .handle) (hia : (x.s.cons k j).i ≤ (x.s.cons k j).avail) :
    (x.s.cons k j).i < (x.wr i).w ∧ (x.wr i).w < (x.s.cons k j).i + x.s.n ∧
    (x.wr i).w % x.s.n ≠ (x.s.cons k j).i % x.s.n := by
  have hs := mreachableWF_safe hr e hn
  have hI := hs.1.1.2.1
  have h1 := (writing_above_cursor x hs i hi hpc hw).1
  have h2 := avail_le_cursor x.s hI k j hk hj (by simp [hc])
  have h3 := (c05_multi_no_overwrite hr i hi hpc hw k j hk hj).1
  have hci := hI.2 k j hk hj
  have h4 := hci.nextEq (by simp [hc])
  have h5 := hci.iGe hc
  have a : (x.s.cons k j).i < (x.wr i).w := by omega
  have b : (x.wr i).w < (x.s.cons k j).i + x.s.n := by omega
  exact ⟨a, b, mod_ne_of_window a b⟩

/-- two writer threads that are both about to write a slot write different slots: their sequences differ (claims are
disjoint) and both lie in the window `(cursor, cursor + n)` -/
theorem c05_multi_writers_distinct_slots {x : MSt} (hr : MReachableWF x) (e : Nat) (hn : x.s.n = 2 ^ e) (a b : Nat)
    (ha : a < x.P) (hb : b < x.P) (hab : a ≠ b)
    (hpa : (x.wr a).pc = .write) (hwa : (x.wr a).w ≤ (x.wr a).hi)
    (hpb : (x.wr b).pc = .write) (hwb : (x.wr b).w ≤ (x.wr b).hi) :
    (x.wr a).w ≠ (x.wr b).w ∧ (x.wr a).w % x.s.n ≠ (x.wr b).w % x.s.n := by
  have hs := mreachableWF_safe hr e hn
  obtain ⟨a1, a2⟩ := writing_above_cursor x hs a ha hpa hwa
  obtain ⟨b1, b2⟩ := writing_above_cursor x hs b hb hpb hwb
  have hne : (x.wr a).w ≠ (x.wr b).w := by
    intro he
    have p1 : wpend (x.wr a) (x.wr a).w := Or.inl ⟨hpa, (hs.2.ws a ha).wGe hpa, hwa⟩
    have p2 : wpend (x.wr b) (x.wr a).w := by rw [he]; exact Or.inl ⟨hpb, (hs.2.ws b hb).wGe hpb, hwb⟩
    exact hab (hs.2.disj a b _ ha hb p1 p2)
  refine ⟨hne, fun hm => hne ?_⟩
  rcases Nat.le_total (x.wr a).w (x.wr b).w with hle | hle
  · exact eq_of_mod_eq_window hm hle (by omega)
  · exact (eq_of_mod_eq_window hm.symm hle (by omega)).symm

/-- non-vacuity of (f): ring of 4, one handler, the ring wraps: writer 0 is about to write sequence 5 (slot 1, previously
sequence 1) while the handler is handling sequence 3 of the batch 3…4 and has published cursor 2 -/
def demoMulti : MSt := runM (mkM 4 1 (fun _ => 1) false [[1, 1, 1, 1, 1], [1]])
  (List.replicate 40 (MTid.writer 0) ++ List.replicate 12 (MTid.cons 0 0) ++ List.replicate 40 (MTid.writer 0) ++
   List.replicate 4 (MTid.cons 0 0) ++ List.replicate 2 (MTid.writer 0))

example : (demoMulti.wr 0).pc = .write ∧ (demoMulti.wr 0).w = 5 ∧ (demoMulti.wr 0).hi = 5 ∧
    (demoMulti.s.cons 0 0).pc = .handle ∧ (demoMulti.s.cons 0 0).i = 3 ∧ (demoMulti.s.cons 0 0).avail = 4 ∧
    (demoMulti.s.cons 0 0).cur = 2 ∧ (demoMulti.s.cons 0 0).log = [1, 2] := by decide +kernel

theorem demoMulti_reachable : MReachableWF demoMulti :=
  ⟨4, 1, fun _ => 1, false, [[1, 1, 1, 1, 1], [1]], _, by decide, fun _ _ => Nat.one_pos, by decide, rfl⟩

/-- the theorems applied to that state -/
example : (demoMulti.s.cons 0 0).i < (demoMulti.wr 0).w ∧ (demoMulti.wr 0).w < (demoMulti.s.cons 0 0).i + demoMulti.s.n ∧
    (demoMulti.wr 0).w % demoMulti.s.n ≠ (demoMulti.s.cons 0 0).i % demoMulti.s.n :=
  c05_multi_no_lap (x := demoMulti) demoMulti_reachable 2 (by decide +kernel) 0 (by decide +kernel) (by decide +kernel)
    (by decide +kernel) 0 0 (by decide +kernel) (by decide +kernel) (by decide +kernel) (by decide +kernel)

/-- two writers holding the claims 1 and 2, both about to write -/
def demoTwoWriters : MSt := runM (mkM 4 1 (fun _ => 1) false [[1], [1]])
  (List.replicate 6 (MTid.writer 0) ++ List.replicate 6 (MTid.writer 1))

example : (demoTwoWriters.wr 0).pc = .write ∧ (demoTwoWriters.wr 0).w = 1 ∧ (demoTwoWriters.wr 1).pc = .write ∧
    (demoTwoWriters.wr 1).w = 2 := by decide +kernel

end Multi

/-! ## (g) multi-producer sequencer: happens-before -/
section MultiHB
open RingMulti
open RingMultiHB (HMSt Ords srcOrds OrdsOk RaceFreeM CoversM KnowsW wlog mkMH runMH HMGood)

/-- the facts about the source's memory orderings the proof of (g) rests on (`Gen/Orderings.lean` is regenerated from
`atomic_sequence_ordered.rs` and `bit_map.rs` on every run): sequence loads (`get`: handler cursors, cursor, low watermark)
are at least `Acquire`, sequence stores (`set`: handler cursors, low watermark) at least `Release`, the **successful
`compare_and_swap`** (cursor) at least `Release`, `BitMap::set`'s `fetch_or` at least `Release`, `BitMap::is_set`'s load at
least `Acquire`. Weakening any of them in the source makes this theorem — and with it `c05_multi_race_free_reachable` — fail.
Not needed (an RMW continues the release sequences it reads from whatever its own ordering, and the cursor, the high watermark
and the bitmap words are only ever modified by RMWs): the acquire side of the successful CAS, the failure ordering of the CAS,
the ordering of `BitMap::unset`'s `fetch_and`. -/
theorem c05_multi_orderings_used :
    seqGet.isAcquire = true ∧ seqSet.isRelease = true ∧ seqCasOk.isRelease = true ∧ bmOr.isRelease = true ∧
    bmLoad.isAcquire = true := by decide

theorem c05_multi_orderings_ok : OrdsOk srcOrds :=
  ⟨c05_multi_orderings_used.1, c05_multi_orderings_used.2.1, c05_multi_orderings_used.2.2.1,
   c05_multi_orderings_used.2.2.2.1, c05_multi_orderings_used.2.2.2.2⟩

/-- the three generated word-index functions of the bitmap are one function: the clocks of `set` / `is_set` / `unset` of one
sequence meet on the same word -/
theorem c05_multi_bitmap_word_index (b : Gen.BitMap.BitMap) (q : Nat) :
    Gen.BitMap.set_index b q = Gen.BitMap.is_set_index b q ∧ Gen.BitMap.unset_index b q = Gen.BitMap.is_set_index b q :=
  ⟨rfl, rfl⟩

/-- a state (system + clocks) reachable in a well-formed multi-producer pipeline with the orderings of the source: any ring
size `2^e`, topology, wait strategy, any number of writer threads with any batch lists, **any schedule** -/
def HMReachable (s : HMSt) : Prop :=
  ∃ (e K : Nat) (h : Nat → Nat) (blocking : Bool) (batches : List (List Nat)) (sched : List MTid),
    0 < K ∧ (∀ k, k < K → 0 < h k) ∧ (∀ l, l ∈ batches → ∀ b, b ∈ l → 1 ≤ b) ∧
    s = RingMultiHB.runSrc (mkMH (2 ^ e) K h blocking batches) sched

/-- the clocks are ghost state: the system component of a clocked run is the plain run of `Model/RingMulti.lean` -/
theorem c05_multi_clocks_are_ghost (n K : Nat) (h : Nat → Nat) (blocking : Bool) (batches : List (List Nat))
    (sched : List MTid) :
    (RingMultiHB.runSrc (mkMH n K h blocking batches) sched).x = runM (mkM n K h blocking batches) sched :=
  RingMultiHB.runMH_x srcOrds _ sched

theorem hmreachable_x {s : HMSt} (hr : HMReachable s) : MReachableWF s.x ∧ ∃ e, s.x.s.n = 2 ^ e := by
  obtain ⟨e, K, h, bl, bs, sched, hK, hh, hb, rfl⟩ := hr
  refine ⟨⟨2 ^ e, K, h, bl, bs, sched, hK, hh, hb, c05_multi_clocks_are_ghost _ K h bl bs sched⟩, e, ?_⟩
  rw [c05_multi_clocks_are_ghost, runM_n]; rfl

theorem mreachable_lifts {x : MSt} (hr : MReachableWF x) (e : Nat) (hn : x.s.n = 2 ^ e) : ∃ s, HMReachable s ∧ s.x = x := by
  obtain ⟨n, K, h, bl, bs, sched, hK, hh, hb, rfl⟩ := hr
  have : n = 2 ^ e := by rw [runM_n] at hn; exact hn
  subst this
  exact ⟨_, ⟨e, K, h, bl, bs, sched, hK, hh, hb, rfl⟩, c05_multi_clocks_are_ghost _ K h bl bs sched⟩

/-- the clock invariant (and the release-safety invariant of the underlying system) holds in every reachable state -/
theorem c05_multi_hb_invariant {s : HMSt} (hr : HMReachable s) : HMGood s := by
  obtain ⟨e, K, h, bl, bs, sched, hK, hh, hb, rfl⟩ := hr
  exact RingMultiHB.hmgood_run srcOrds c05_multi_orderings_ok _ sched (RingMultiHB.hmgood_init e K h bl bs hK hh hb)

/-- **C05 (g)**: for every ring size `2^e`, topology, wait strategy, number of writer threads, batch lists and **every
schedule**, with the orderings the source uses, before every slot access:
* reader (`RaceFreeM.reader`): a handler `(k,j)` about to handle sequence `i` knows the slot write of `i` by its claimant
  (R1 — through the claimant's `fetch_or` on the bitmap word, a publisher's scan of that word, that publisher's successful CAS
  on the cursor and the handler's acquire load of the cursor or of an earlier stage's cursor), indeed of every sequence `≤ i`,
  every access of `i` by every handler of every earlier stage (R2) and every handler's access of `i − n` (R4);
* writer (`RaceFreeM.writer`): a writer thread about to write `w` knows every handler's access of `w − n` (R3);
* writer / writer (`RaceFreeM.writerW`): it also knows the slot write of every sequence `≤ w − n`, whichever writer made it —
  the earlier writes to the same slot; two writers that are about to write at the same time write different slots
  (`c05_multi_writers_distinct_slots`).
So every pair of conflicting accesses to one slot — except pairs inside one stage, F9 — is ordered by happens-before. -/
theorem c05_multi_race_free_reachable {s : HMSt} (hr : HMReachable s) : RaceFreeM s :=
  RingMultiHB.raceFreeM_of_inv s (c05_multi_hb_invariant hr)

/-- (g) spelled out for a handler: R1 (the write of `i` is the `m`-th write of some writer `a`, and the handler knows more
than `m` writes of `a`), R2, R4 (the previous occupant `i − n`: its write and every handler's access) -/
theorem c05_multi_reader_knows {s : HMSt} (hr : HMReachable s) (k j : Nat) (hk : k < s.x.s.K) (hj : j < s.x.s.h k)
    (hpc : (s.x.s.cons k j).pc = .handle) (hi : (s.x.s.cons k j).i ≤ (s.x.s.cons k j).avail) :
    (∃ a m, (wlog s.x.written a)[m]? = some (s.x.s.cons k j).i ∧ m < (s.vcC k j).pw a) ∧
    (∀ k' j', k' < k → j' < s.x.s.h k' → (s.x.s.cons k j).i ≤ (s.vcC k j).ha k' j') ∧
    (∀ k' j', k' < s.x.s.K → j' < s.x.s.h k' → (s.x.s.cons k j).i ≤ (s.vcC k j).ha k' j' + s.x.s.n) ∧
    (s.x.s.n < (s.x.s.cons k j).i → KnowsW s.x.written (s.vcC k j) ((s.x.s.cons k j).i - s.x.s.n)) := by
  have hc := (c05_multi_race_free_reachable hr).reader k j hk hj hpc hi
  have hci := (c05_multi_hb_invariant hr).1.1.1.2.1.2 k j hk hj
  have h1 := hci.iGe hpc
  have h2 := hci.nextEq (by simp [hpc])
  exact ⟨hc.pw _ (by omega) (Nat.le_refl _), fun k' j' hk' hj' => hc.prev k' j' hk' (by omega) hj', hc.old,
    fun hn => hc.pw _ (by omega) (by omega)⟩

/-- (g) spelled out for a writer thread: R3 and writer/writer across laps -/
theorem c05_multi_writer_knows {s : HMSt} (hr : HMReachable s) (a : Nat) (ha : a < s.x.P)
    (hpc : (s.x.wr a).pc = .write) (hw : (s.x.wr a).w ≤ (s.x.wr a).hi) :
    (∀ k j, k < s.x.s.K → j < s.x.s.h k → (s.x.wr a).w ≤ (s.vcW a).ha k j + s.x.s.n) ∧
    (∀ q, 1 ≤ q → q + s.x.s.n ≤ (s.x.wr a).w → ∃ b m, (wlog s.x.written b)[m]? = some q ∧ m < (s.vcW a).pw b) :=
  ⟨(c05_multi_race_free_reachable hr).writer a ha hpc hw, (c05_multi_race_free_reachable hr).writerW a ha hpc hw⟩

/-- (g) against the ghost access logs — **every conflicting access already made to the slot is known**, for a writer thread
about to write `w`: every slot write in the log `written` that went to the same slot (`q ≡ w mod n`), whichever writer made it
(write / write), and every access in the log of any handler to that slot (read or mutation / overwrite). The logged accesses to
the slot are all at least one lap below `w` (each sequence is written once, all live sequences lie in a window of fewer than `n`
above the cursor, handlers are handed nothing above the cursor), so `RaceFreeM.writerW` and R3 cover them. -/
theorem c05_multi_writer_knows_slot_history {s : HMSt} (hr : HMReachable s) (b : Nat) (hb : b < s.x.P)
    (hpc : (s.x.wr b).pc = .write) (hw : (s.x.wr b).w ≤ (s.x.wr b).hi) :
    (∀ q a, (q, a) ∈ s.x.written → q % s.x.s.n = (s.x.wr b).w % s.x.s.n → KnowsW s.x.written (s.vcW b) q) ∧
    (∀ k j, k < s.x.s.K → j < s.x.s.h k → ∀ q, q ∈ (s.x.s.cons k j).log → q % s.x.s.n = (s.x.wr b).w % s.x.s.n →
      q ≤ (s.vcW b).ha k j) := by
  obtain ⟨hx, e, hn⟩ := hmreachable_x hr
  have hS := mreachableWF_safe hx e hn
  have hL := RingMultiHB.mreachableWF_log hx e hn
  have hrf := c05_multi_race_free_reachable hr
  refine ⟨fun q a hq hres => ?_, fun k j hk hj q hq hres => ?_⟩
  · obtain ⟨h1, h2⟩ := RingMultiHB.earlier_write_lap_below s.x hS hL b hb hpc hw q a hq hres
    exact hrf.writerW b hb hpc hw q h1 h2
  · have h1 := RingMultiHB.log_le_cursor s.x.s hS.1.1.2.1 k j hk hj q hq
    have h2 := (writing_above_cursor s.x hS b hb hpc hw).1
    have h3 := RingMultiHB.lap_of_mod_eq hres (by omega)
    have h4 := hrf.writer b hb hpc hw k j hk hj
    omega

/-- … and for a handler about to access the slot of `i`: every slot write in the log that went to the same slot is known to it
(write / read, write / mutation) — no sequence above `i` has been written to that slot, since a writer only writes `q` once every
handler has published a cursor above `q − n`. -/
theorem c05_multi_reader_knows_slot_history {s : HMSt} (hr : HMReachable s) (k j : Nat) (hk : k < s.x.s.K)
    (hj : j < s.x.s.h k) (hpc : (s.x.s.cons k j).pc = .handle) (hi : (s.x.s.cons k j).i ≤ (s.x.s.cons k j).avail) :
    ∀ q a, (q, a) ∈ s.x.written → q % s.x.s.n = (s.x.s.cons k j).i % s.x.s.n → KnowsW s.x.written (s.vcC k j) q := by
  obtain ⟨hx, e, hn⟩ := hmreachable_x hr
  have hS := mreachableWF_safe hx e hn
  have hL := RingMultiHB.mreachableWF_log hx e hn
  have hP := RingMultiHB.mreachableWF_past hx e hn
  intro q a hq hres
  obtain ⟨h1, h2⟩ := RingMultiHB.earlier_write_le_handled s.x hS hL hP k j hk hj hpc q a hq hres
  exact ((c05_multi_race_free_reachable hr).reader k j hk hj hpc hi).pw q h1 h2

/-- non-vacuity of (g): ring of 4, two stages, two writer threads. Writer 0 wrote 1, 2, 4, writer 1 wrote 3; now writer 1 is
about to write 5 (slot 1, previously sequence 1 of writer 0), writer 0 is about to write 6 (slot 2), the stage-0 handler is
about to handle 4 -/
def demoMultiSched : List MTid :=
  List.replicate 23 (MTid.writer 0) ++ List.replicate 19 (MTid.writer 1) ++ List.replicate 10 (MTid.cons 0 0) ++
  List.replicate 10 (MTid.cons 1 0) ++ List.replicate 19 (MTid.writer 0) ++ List.replicate 6 (MTid.writer 1) ++
  List.replicate 3 (MTid.cons 0 0) ++ List.replicate 6 (MTid.writer 0)

def demoMultiHB : HMSt := RingMultiHB.runSrc (mkMH (2 ^ 2) 2 (fun _ => 1) false [[2, 1, 1], [1, 1]]) demoMultiSched

theorem demoMultiHB_reachable : HMReachable demoMultiHB :=
  ⟨2, 2, fun _ => 1, false, [[2, 1, 1], [1, 1]], demoMultiSched, by decide, fun _ _ => Nat.one_pos, by decide, rfl⟩

example : (demoMultiHB.x.wr 0).pc = .write ∧ (demoMultiHB.x.wr 0).w = 6 ∧ (demoMultiHB.x.wr 0).hi = 6 ∧
    (demoMultiHB.x.wr 1).pc = .write ∧ (demoMultiHB.x.wr 1).w = 5 ∧ (demoMultiHB.x.wr 1).hi = 5 ∧
    demoMultiHB.x.written = [(1, 0), (2, 0), (3, 1), (4, 0)] ∧ demoMultiHB.x.s.cursor = 4 ∧
    (demoMultiHB.x.s.cons 0 0).pc = .handle ∧ (demoMultiHB.x.s.cons 0 0).i = 4 ∧ (demoMultiHB.x.s.cons 0 0).avail = 4 ∧
    -- the handler knows all three writes of writer 0 (sequence 4 is the third) and the one of writer 1
    (demoMultiHB.vcC 0 0).pw 0 = 3 ∧ (demoMultiHB.vcC 0 0).pw 1 = 1 ∧
    -- writer 1, about to overwrite sequence 1 (writer 0's first write), knows two writes of writer 0 and three accesses of
    -- either handler
    (demoMultiHB.vcW 1).pw 0 = 2 ∧ (demoMultiHB.vcW 1).ha 0 0 = 3 ∧ (demoMultiHB.vcW 1).ha 1 0 = 3 := by
  decide +kernel

/-- the theorems applied to that state -/
example : ∃ a m, (wlog demoMultiHB.x.written a)[m]? = some 4 ∧ m < (demoMultiHB.vcC 0 0).pw a := by
  have hi4 : (demoMultiHB.x.s.cons 0 0).i = 4 := by decide +kernel
  have := (c05_multi_reader_knows demoMultiHB_reachable 0 0 (by decide +kernel) (by decide +kernel) (by decide +kernel)
    (by decide +kernel)).1
  rw [hi4] at this
  exact this

/-- writer 1, about to overwrite slot 1, knows the only write made to that slot so far: sequence 1, writer 0's first write -/
example : KnowsW demoMultiHB.x.written (demoMultiHB.vcW 1) 1 := by
  have hw5 : (demoMultiHB.x.wr 1).w = 5 := by decide +kernel
  have hn : demoMultiHB.x.s.n = 4 := by decide +kernel
  have hmem : (1, 0) ∈ demoMultiHB.x.written := by decide +kernel
  exact (c05_multi_writer_knows_slot_history demoMultiHB_reachable 1 (by decide +kernel) (by decide +kernel)
    (by decide +kernel)).1 1 0 hmem (by rw [hw5, hn])

/-! ### the ordering table is load-bearing -/

/-- one writer claims, writes and publishes sequence 1, the handler waits for it -/
def casSched : List MTid := List.replicate 18 (MTid.writer 0) ++ List.replicate 4 (MTid.cons 0 0)

/-- a run in which the handler is about to handle sequence 1 (written by writer 0 only) while its clock knows no write of
writer 0 violates the reader obligation -/
theorem not_raceFree_of (r : HMSt) (W0 : List (Nat × Nat)) (hk : 0 < r.x.s.K) (hj : 0 < r.x.s.h 0)
    (hpc : (r.x.s.cons 0 0).pc = .handle) (h1 : 1 ≤ (r.x.s.cons 0 0).i) (hi : (r.x.s.cons 0 0).i ≤ (r.x.s.cons 0 0).avail)
    (hW : r.x.written = W0) (hmem : ∀ a, (1, a) ∈ W0 → a = 0) (hv : (r.vcC 0 0).pw 0 = 0) : ¬ RaceFreeM r := by
  intro h
  obtain ⟨a, ha, hpos⟩ := RingMultiHB.knowsW_mem ((h.reader 0 0 hk hj hpc hi).pw 1 (Nat.le_refl _) h1)
  rw [hW] at ha
  have := hmem a ha
  subst this
  omega

/-- the same schedule with the **success ordering of `compare_and_swap` weakened to `Acquire`** (everything else as in the
source) -/
def relaxedCasRun : HMSt := runMH { srcOrds with casOk := .acquire } (mkMH 4 1 (fun _ => 1) false [[1]]) casSched

/-- **C05 (g), the table is load-bearing**: were the successful CAS on the cursor `Acquire` only (or `Relaxed`), the handler
would be about to read slot 1 without knowing writer 0's write of it — the reader obligation R1 fails on a concrete schedule.
This is also what the check reports when the ordering is weakened in the source. -/
theorem c05_multi_relaxed_cas_races : ¬ RaceFreeM relaxedCasRun :=
  not_raceFree_of _ [(1, 0)] (by decide +kernel) (by decide +kernel) (by decide +kernel) (by decide +kernel)
    (by decide +kernel) (by decide +kernel) (by simp) (by decide +kernel)

/-- two writers: writer 0 claims 1, writer 1 claims 2; writer 0 writes its slot and sets its bit; writer 1 writes, sets its bit,
scans both bits and releases 1 … 2 with its CAS; the handler waits for the cursor and is about to handle 1 — writer 0's write
reaches it only through the bitmap word -/
def relaySched : List MTid :=
  List.replicate 6 (MTid.writer 0) ++ List.replicate 6 (MTid.writer 1) ++ List.replicate 3 (MTid.writer 0) ++
  List.replicate 14 (MTid.writer 1) ++ List.replicate 4 (MTid.cons 0 0)

/-- … with a `Relaxed` `fetch_or` in `BitMap::set` -/
def relaxedOrRun : HMSt := runMH { srcOrds with bOr := .relaxed } (mkMH 4 1 (fun _ => 1) false [[1], [1]]) relaySched

theorem c05_multi_relaxed_fetch_or_races : ¬ RaceFreeM relaxedOrRun :=
  not_raceFree_of _ [(1, 0), (2, 1)] (by decide +kernel) (by decide +kernel) (by decide +kernel) (by decide +kernel)
    (by decide +kernel) (by decide +kernel) (by simp) (by decide +kernel)

/-- … with the CAS weakened, on the relay schedule -/
def relaxedCasRelayRun : HMSt :=
  runMH { srcOrds with casOk := .acquire } (mkMH 4 1 (fun _ => 1) false [[1], [1]]) relaySched

theorem c05_multi_relaxed_cas_races_relay : ¬ RaceFreeM relaxedCasRelayRun :=
  not_raceFree_of _ [(1, 0), (2, 1)] (by decide +kernel) (by decide +kernel) (by decide +kernel) (by decide +kernel)
    (by decide +kernel) (by decide +kernel) (by simp) (by decide +kernel)

/-- the relay schedule with the orderings of the source, and with a `Relaxed` load in `BitMap::is_set`: in both the handler
knows writer 0's write. The proof of (g) uses the acquire side of the scan's load (`bmLoad`); the publisher's `fetch_and` on
the same words (`bmAnd`, before its CAS) would carry the same edge, so the scan's ordering alone is *not* load-bearing — a
weakened `bmLoad` breaks the proof obligation `c05_multi_orderings_used` although this model run stays ordered. -/
def relaySrcRun : HMSt := RingMultiHB.runSrc (mkMH 4 1 (fun _ => 1) false [[1], [1]]) relaySched
def relaxedScanRun : HMSt := runMH { srcOrds with bLoad := .relaxed } (mkMH 4 1 (fun _ => 1) false [[1], [1]]) relaySched

example : (relaySrcRun.x.s.cons 0 0).pc = .handle ∧ (relaySrcRun.x.s.cons 0 0).i = 1 ∧ (relaySrcRun.x.wr 0).pc = .setBit ∧
    relaySrcRun.x.s.cursor = 2 ∧ (relaySrcRun.vcC 0 0).pw 0 = 1 ∧ (relaySrcRun.vcC 0 0).pw 1 = 1 ∧
    (relaxedScanRun.vcC 0 0).pw 0 = 1 ∧ (relaxedOrRun.vcC 0 0).pw 0 = 0 ∧ (relaxedOrRun.vcC 0 0).pw 1 = 1 := by
  decide +kernel

/-- the same schedule with the orderings of the source: the handler knows the write -/
def sourceCasRun : HMSt := RingMultiHB.runSrc (mkMH 4 1 (fun _ => 1) false [[1]]) casSched

example : (sourceCasRun.x.s.cons 0 0).pc = .handle ∧ (sourceCasRun.x.s.cons 0 0).i = 1 ∧ (sourceCasRun.vcC 0 0).pw 0 = 1 ∧
    (relaxedCasRun.x.s.cons 0 0).pc = .handle ∧ (relaxedCasRun.x.s.cons 0 0).i = 1 ∧ (relaxedCasRun.vcC 0 0).pw 0 = 0 := by
  decide +kernel

end MultiHB

end C05
