import DcVerif.Model.Ring
namespace C05
theorem placeholder : True := trivial
end C05
