import DcVerif.Model.Csm
/-!
# C03 — the causal state machine fires an action iff its causal state evaluates true; the table is a map

Model: `Model.Csm` (association list with `HashMap` behaviour, the guard clauses of
`deep_causality/src/types/csm_types/mod.rs`). Spec: `Spec.Csm` (a function `Nat → Option (σ × α)`).

Everything below holds for every type of state/action references and data values, every history of calls,
every environment (what each causaloid answers on each data value, which actions fail — it may change from
call to call, so every pattern of failing causal functions and failing actions is covered) and every
iteration order the hash map may choose in `eval_all_states`.
-/
namespace C03
open Spec.Csm Model.Csm

variable {σ α δ : Type}

/-! ## the association list is a map -/

/-- abstraction function: the map an association list denotes -/
def abs (t : Table σ α) : Map σ α := fun k => lookup t k

theorem lookup_upsert (t : Table σ α) (k j : Nat) (v : σ × α) :
    lookup (upsert t k v) j = if j = k then some v else lookup t j := by
  induction t with
  | nil => simp only [upsert, lookup]; split <;> simp_all <;> omega
  | cons e r ih =>
    obtain ⟨i, w⟩ := e
    simp only [upsert]
    by_cases hik : i = k
    · simp only [hik, if_true, lookup]
      by_cases hjk : j = k
      · simp [hjk]
      · have : ¬ k = j := fun h => hjk h.symm
        simp [hjk, this]
    · simp only [hik, if_false, lookup, ih]
      by_cases hij : i = j
      · have : ¬ j = k := fun h => hik (hij.trans h)
        simp [hij, this]
      · simp [hij]

theorem lookup_delete (t : Table σ α) (k j : Nat) :
    lookup (delete t k) j = if j = k then none else lookup t j := by
  induction t with
  | nil => simp [delete, lookup]
  | cons e r ih =>
    obtain ⟨i, w⟩ := e
    simp only [delete]
    by_cases hik : i = k
    · simp only [hik, if_true, lookup, ih]
      by_cases hjk : j = k
      · simp [hjk]
      · have : ¬ k = j := fun h => hjk h.symm
        simp [hjk, this]
    · simp only [hik, if_false, lookup, ih]
      by_cases hij : i = j
      · have : ¬ j = k := fun h => hik (hij.trans h)
        simp [hij, this]
      · simp [hij]

theorem abs_upsert (t : Table σ α) (k : Nat) (v : σ × α) : abs (upsert t k v) = (abs t).set k v := by
  funext j; simp [abs, Map.set, lookup_upsert]

theorem abs_delete (t : Table σ α) (k : Nat) : abs (delete t k) = (abs t).unset k := by
  funext j; simp [abs, Map.unset, lookup_delete]

theorem abs_nil : abs ([] : Table σ α) = Map.empty := rfl

theorem abs_foldl (key : σ → Nat) (l : List (σ × α)) (t : Table σ α) :
    abs (l.foldl (fun t sa => upsert t (key sa.1) sa) t) =
      l.foldl (fun m sa => m.set (key sa.1) sa) (abs t) := by
  induction l generalizing t with
  | nil => rfl
  | cons x r ih => simp only [List.foldl_cons, ih, abs_upsert]

theorem abs_ofSlice (key : σ → Nat) (l : List (σ × α)) : abs (ofSlice key l) = Map.ofSlice key l := by
  simp only [ofSlice, Map.ofSlice, abs_foldl, abs_nil]

/-! ## evaluating one entry -/

theorem evalEntry_eq_evalPair (env : Env σ α δ) (s : σ) (a : α) (d : δ) :
    evalEntry env s a d = evalPair env (s, a) d := by
  unfold evalEntry evalPair
  cases h : env.eval s d <;> cases hf : env.fire a <;> simp

theorem fired_evalPair (env : Env σ α δ) (sa : σ × α) (d : δ) :
    (evalPair env sa d).log.filterMap Ev.fired? = if env.eval sa.1 d == .okTrue then [sa.2] else [] := by
  unfold evalPair
  split <;> simp_all [List.filterMap_cons, Ev.fired?]

theorem called_evalPair (env : Env σ α δ) (sa : σ × α) (d : δ) :
    (evalPair env sa d).log.filterMap Ev.called? = [(sa.1, d)] := by
  unfold evalPair
  split <;> simp_all [List.filterMap_cons, Ev.called?]

/-- the loop of `eval_all_states` over a list of pairs -/
def evalSeq (env : Env σ α δ) : List (σ × α) → Out σ α δ
  | [] => ⟨true, []⟩
  | sa :: rest =>
    let o := evalPair env sa (env.stored sa.1)
    if o.ok then
      let r := evalSeq env rest
      ⟨r.ok, o.log ++ r.log⟩
    else o

theorem evalAll_eq_evalSeq (env : Env σ α δ) (t : Table σ α) (order : List Nat) :
    Model.Csm.evalAll env t order = evalSeq env (order.filterMap (abs t)) := by
  induction order with
  | nil => rfl
  | cons k rest ih =>
    have habs : abs t k = lookup t k := rfl
    cases h : lookup t k with
    | none => simp only [Model.Csm.evalAll, List.filterMap_cons, habs, h]; exact ih
    | some sa =>
      obtain ⟨s, a⟩ := sa
      simp only [Model.Csm.evalAll, List.filterMap_cons, habs, h, evalSeq, evalEntry_eq_evalPair, ih]

theorem evalSeq_eq_spec (env : Env σ α δ) (pairs : List (σ × α)) :
    evalSeq env pairs = Spec.Csm.evalAll env pairs := by
  induction pairs with
  | nil => rfl
  | cons sa rest ih =>
    simp only [evalSeq]
    by_cases h : (evalPair env sa (env.stored sa.1)).ok = true
    · have hh : healthy env sa = true := h
      rw [if_pos h, ih]
      simp only [Spec.Csm.evalAll, List.dropWhile_cons, hh, if_true, List.takeWhile_cons]
      cases List.dropWhile (healthy env) rest with
      | nil => simp [logOf]
      | cons b r => simp [logOf]
    · have hh : healthy env sa = false := by simpa [healthy] using h
      rw [if_neg h]
      simp only [Spec.Csm.evalAll, List.dropWhile_cons, hh, List.takeWhile_cons, logOf]
      simp
      cases hh' : evalPair env sa (env.stored sa.1) with
      | mk ok log => simp [hh'] at h; simp [h]

/-! ## refinement: every call, every history -/

/-- one call: the new table denotes the map the spec prescribes, and the outcome (`Ok`/`Err` and the effect log)
is the prescribed one -/
theorem step_refines (key : σ → Nat) (t : Table σ α) (op : Op σ α δ) :
    abs (Model.Csm.step key t op).1 = (Spec.Csm.step key (abs t) op).1 ∧
    (Model.Csm.step key t op).2 = (Spec.Csm.step key (abs t) op).2 := by
  cases op with
  | new l => exact ⟨abs_ofSlice key l, rfl⟩
  | updateAll l => exact ⟨abs_ofSlice key l, rfl⟩
  | add k s a =>
    simp only [Model.Csm.step, Spec.Csm.step, addSingle, abs]
    split <;> simp_all [← abs_upsert]
  | remove k =>
    simp only [Model.Csm.step, Spec.Csm.step, removeSingle, abs]
    split <;> simp_all [← abs_delete]
  | update k s a =>
    simp only [Model.Csm.step, Spec.Csm.step, updateSingle, abs]
    split <;> simp_all [← abs_upsert]
  | evalSingle env k d =>
    refine ⟨rfl, ?_⟩
    simp only [Model.Csm.step, Spec.Csm.step, evalSingle, abs]
    cases lookup t k with
    | none => rfl
    | some sa => exact evalEntry_eq_evalPair env sa.1 sa.2 d
  | evalAll env order =>
    refine ⟨rfl, ?_⟩
    simp only [Model.Csm.step, Spec.Csm.step, evalAll_eq_evalSeq, evalSeq_eq_spec]

/-- **C03, the table is a map, for every history.** Running any history of calls (oldest first) on the model
yields a table denoting exactly the map obtained by running the same history on the map specification, and
the same outcome for every single call. -/
theorem c03_run_refines_map (key : σ → Nat) (ops : List (Op σ α δ)) (t : Table σ α) :
    abs (Model.Csm.run key t ops).1 = (Spec.Csm.run key (abs t) ops).1 ∧
    (Model.Csm.run key t ops).2 = (Spec.Csm.run key (abs t) ops).2 := by
  induction ops generalizing t with
  | nil => exact ⟨rfl, rfl⟩
  | cons op rest ih =>
    obtain ⟨h1, h2⟩ := step_refines key t op
    obtain ⟨i1, i2⟩ := ih (Model.Csm.step key t op).1
    simp only [Model.Csm.run, Spec.Csm.run]
    rw [h1] at i1 i2
    exact ⟨i1, by rw [h2, i2]⟩

/-- corollary for a machine built by `CSM::new` (any history starts with it): the table after the history *is*
the spec map after the history, and every call answered what the spec prescribes -/
theorem c03_history_is_map (key : σ → Nat) (ops : List (Op σ α δ)) :
    abs (Model.Csm.run key [] ops).1 = (Spec.Csm.run key Map.empty ops).1 ∧
    (Model.Csm.run key [] ops).2 = (Spec.Csm.run key Map.empty ops).2 :=
  c03_run_refines_map key ops []

/-! ## failures have no side effects -/

/-- a call that returns `Err` leaves the table as it was, evaluations never change the table, and table operations
never evaluate a causaloid or fire an action -/
theorem c03_failed_call_unchanged (key : σ → Nat) (t : Table σ α) (op : Op σ α δ) :
    ((Model.Csm.step key t op).2.ok = false → (Model.Csm.step key t op).1 = t) ∧
    (∀ env k d, op = .evalSingle env k d → (Model.Csm.step key t op).1 = t) ∧
    (∀ env order, op = .evalAll env order → (Model.Csm.step key t op).1 = t) ∧
    ((∀ env k d, op ≠ .evalSingle env k d) → (∀ env order, op ≠ .evalAll env order) →
      (Model.Csm.step key t op).2.log = []) := by
  cases op with
  | new l => simp [Model.Csm.step, Out.done]
  | updateAll l => simp [Model.Csm.step, Out.done]
  | add k s a => simp only [Model.Csm.step, addSingle]; split <;> simp [Out.done, Out.fail]
  | remove k => simp only [Model.Csm.step, removeSingle]; split <;> simp [Out.done, Out.fail]
  | update k s a => simp only [Model.Csm.step, updateSingle]; split <;> simp [Out.done, Out.fail]
  | evalSingle env k d => simp [Model.Csm.step]
  | evalAll env order => simp [Model.Csm.step]

/-- adding an id that is registered fails: table unchanged, nothing evaluated, nothing fired -/
theorem c03_add_existing_fails (key : σ → Nat) (t : Table σ α) (k : Nat) (s : σ) (a : α) (v : σ × α)
    (h : lookup t k = some v) :
    Model.Csm.step key t (.add k s a : Op σ α δ) = (t, ⟨false, []⟩) := by
  simp [Model.Csm.step, addSingle, h, Out.fail]

/-- removing, updating or evaluating an id that is not registered fails: table unchanged, nothing evaluated,
nothing fired -/
theorem c03_absent_fails (key : σ → Nat) (t : Table σ α) (k : Nat) (h : lookup t k = none) :
    Model.Csm.step key t (.remove k : Op σ α δ) = (t, ⟨false, []⟩) ∧
    (∀ s a, Model.Csm.step key t (.update k s a : Op σ α δ) = (t, ⟨false, []⟩)) ∧
    (∀ env d, Model.Csm.step key t (.evalSingle env k d : Op σ α δ) = (t, ⟨false, []⟩)) := by
  simp [Model.Csm.step, removeSingle, updateSingle, evalSingle, h, Out.fail]

/-- successful table operations do what a map does: afterwards the id holds the new pair (or nothing), every
other id is untouched -/
theorem c03_success_is_map_update (key : σ → Nat) (t : Table σ α) (k j : Nat) (s : σ) (a : α) :
    (lookup t k = none →
      lookup (Model.Csm.step key t (.add k s a : Op σ α δ)).1 j = if j = k then some (s, a) else lookup t j) ∧
    (lookup t k ≠ none →
      lookup (Model.Csm.step key t (.update k s a : Op σ α δ)).1 j = if j = k then some (s, a) else lookup t j) ∧
    (lookup t k ≠ none →
      lookup (Model.Csm.step key t (.remove k : Op σ α δ)).1 j = if j = k then none else lookup t j) := by
  refine ⟨fun h => ?_, fun h => ?_, fun h => ?_⟩
  · simp [Model.Csm.step, addSingle, h, lookup_upsert]
  · cases h' : lookup t k with
    | none => exact absurd h' h
    | some v => simp [Model.Csm.step, updateSingle, h', lookup_upsert]
  · cases h' : lookup t k with
    | none => exact absurd h' h
    | some v => simp [Model.Csm.step, removeSingle, h', lookup_delete]

/-! ## evaluating one state -/

/-- **C03, single evaluation.** If id `k` currently holds `(s, a)`: the causaloid of `s` is evaluated exactly once,
on the *supplied* data; the action list fired is exactly `[a]` when the verdict is `Ok(true)` and empty
otherwise (no other action fires, `a` never twice); the call succeeds iff the verdict is `Ok(false)`, or
`Ok(true)` and the action succeeded — evaluation errors and action errors surface. -/
theorem c03_evalSingle_fires_iff (env : Env σ α δ) (t : Table σ α) (k : Nat) (d : δ) (s : σ) (a : α)
    (h : lookup t k = some (s, a)) :
    (evalSingle env t k d).calls = [(s, d)] ∧
    (evalSingle env t k d).fired = (if env.eval s d = .okTrue then [a] else []) ∧
    ((evalSingle env t k d).ok = true ↔
      env.eval s d = .okFalse ∨ (env.eval s d = .okTrue ∧ env.fire a = true)) := by
  simp only [evalSingle, h, evalEntry_eq_evalPair, Out.calls, Out.fired, fired_evalPair, called_evalPair]
  refine ⟨trivial, by cases env.eval s d <;> simp, ?_⟩
  unfold evalPair
  cases env.eval s d <;> simp

/-- the same, read off the history: after any history, evaluating `k` behaves as prescribed for the pair the
*map* holds at `k` (the pair of the last successful add/update/new/update-all that wrote `k`, unless removed) -/
theorem c03_evalSingle_after_history (key : σ → Nat) (ops : List (Op σ α δ)) (env : Env σ α δ) (k : Nat) (d : δ) :
    evalSingle env (Model.Csm.run key [] ops).1 k d =
      match (Spec.Csm.run key Map.empty ops).1 k with
      | none => ⟨false, []⟩
      | some sa => evalPair env sa d := by
  have h := (c03_history_is_map key ops).1
  have hk : lookup (Model.Csm.run key [] ops).1 k = (Spec.Csm.run key Map.empty ops).1 k := congrFun h k
  simp only [evalSingle, hk]
  cases (Spec.Csm.run key Map.empty ops).1 k with
  | none => rfl
  | some sa => exact evalEntry_eq_evalPair env sa.1 sa.2 d

/-! ## evaluating all states -/

theorem takeWhile_all {β : Type} (p : β → Bool) (l : List β) : ∀ x ∈ l.takeWhile p, p x = true := by
  induction l with
  | nil => simp
  | cons a r ih =>
    intro x hx
    rw [List.takeWhile_cons] at hx
    by_cases ha : p a = true
    · rw [if_pos ha] at hx
      cases hx with
      | head => exact ha
      | tail _ h => exact ih x h
    · rw [if_neg ha] at hx; cases hx

theorem dropWhile_nil_all {β : Type} (p : β → Bool) (l : List β) (h : l.dropWhile p = []) :
    ∀ x ∈ l, p x = true := by
  have h2 := @List.takeWhile_append_dropWhile _ p l
  rw [h, List.append_nil] at h2
  intro x hx
  rw [← h2] at hx
  exact takeWhile_all p l x hx

theorem dropWhile_head {β : Type} (p : β → Bool) (l : List β) (b : β) (r : List β)
    (h : l.dropWhile p = b :: r) : p b = false := by
  have := List.head_dropWhile_not p (l := l) (by rw [h]; simp)
  simpa [h] using this

theorem filterMap_congr' {β γ : Type} (f g : β → Option γ) (l : List β) (h : ∀ x ∈ l, f x = g x) :
    l.filterMap f = l.filterMap g := by
  induction l with
  | nil => rfl
  | cons x r ih =>
    simp only [List.filterMap_cons, h x (by simp)]
    rw [ih (fun y hy => h y (by simp [hy]))]

theorem fired_logOf (env : Env σ α δ) (pairs : List (σ × α)) :
    (logOf env pairs).filterMap Ev.fired? = (pairs.filter (triggered env)).map (·.2) := by
  induction pairs with
  | nil => rfl
  | cons sa rest ih =>
    simp only [logOf, List.flatMap_cons, List.filterMap_append] at ih ⊢
    rw [ih, fired_evalPair]
    simp only [triggered, List.filter_cons]
    split <;> simp_all

theorem calls_logOf (env : Env σ α δ) (pairs : List (σ × α)) :
    (logOf env pairs).filterMap Ev.called? = pairs.map (fun sa => (sa.1, env.stored sa.1)) := by
  induction pairs with
  | nil => rfl
  | cons sa rest ih =>
    simp only [logOf, List.flatMap_cons, List.filterMap_append] at ih ⊢
    rw [ih, called_evalPair]
    simp

/-- the pairs of a table, enumerated through any duplicate-free enumeration of its ids, are its entries -/
theorem filterMap_keys (t : Table σ α) (hn : (keys t).Nodup) :
    (keys t).filterMap (abs t) = t.map (·.2) := by
  induction t with
  | nil => rfl
  | cons e r ih =>
    obtain ⟨j, v⟩ := e
    simp only [keys, List.map_cons, List.nodup_cons] at hn ⊢
    have h1 : abs ((j, v) :: r) j = some v := by simp [abs, lookup]
    simp only [List.filterMap_cons, h1]
    congr 1
    rw [← ih hn.2]
    apply filterMap_congr'
    intro k hk
    have : j ≠ k := fun e => hn.1 (e ▸ hk)
    simp [abs, lookup, this]

theorem pairs_perm (t : Table σ α) (order : List Nat) (hn : (keys t).Nodup) (hp : order.Perm (keys t)) :
    (order.filterMap (abs t)).Perm (t.map (·.2)) := by
  rw [← filterMap_keys t hn]
  exact hp.filterMap _

/-- **C03, `eval_all_states` succeeded.** For every order in which the hash map may enumerate the registered ids
(any permutation of them): if the call returns `Ok`, then every registered state was evaluated exactly once on
its stored data, no evaluation and no action failed, and the actions fired are exactly those of the registered
pairs whose verdict is `true` — each such pair once (as a multiset over the table), in enumeration order. -/
theorem c03_evalAll_ok_fires_exactly (env : Env σ α δ) (t : Table σ α) (order : List Nat)
    (hn : (keys t).Nodup) (hp : order.Perm (keys t))
    (hok : (Model.Csm.evalAll env t order).ok = true) :
    (∀ e ∈ t, healthy env e.2 = true) ∧
    (Model.Csm.evalAll env t order).fired =
      ((order.filterMap (abs t)).filter (triggered env)).map (·.2) ∧
    (Model.Csm.evalAll env t order).fired.Perm (((t.map (·.2)).filter (triggered env)).map (·.2)) ∧
    (Model.Csm.evalAll env t order).calls.Perm (t.map (fun e => (e.2.1, env.stored e.2.1))) := by
  rw [evalAll_eq_evalSeq, evalSeq_eq_spec] at hok ⊢
  have hperm := pairs_perm t order hn hp
  generalize order.filterMap (abs t) = pairs at hok hperm ⊢
  unfold Spec.Csm.evalAll at hok ⊢
  cases hd : pairs.dropWhile (healthy env) with
  | cons b r => rw [hd] at hok; exact absurd hok (by simp)
  | nil =>
    have hall : ∀ p ∈ pairs, healthy env p = true := by
      intro p hp'
      exact dropWhile_nil_all _ _ hd p hp'
    refine ⟨?_, ?_, ?_, ?_⟩
    · intro e he
      exact hall e.2 (hperm.mem_iff.2 (List.mem_map_of_mem he))
    · simp only [Out.fired, fired_logOf]
    · simp only [Out.fired, fired_logOf]
      exact (hperm.filter _).map _
    · simp only [Out.calls, calls_logOf]
      have := hperm.map (fun sa => (sa.1, env.stored sa.1))
      rw [List.map_map] at this
      exact this

/-- **C03, `eval_all_states` failed.** For every enumeration order: if the call returns `Err`, the pairs split as
`pre ++ bad :: post` in visiting order where every pair of `pre` evaluated and fired without error, `bad` is the
first whose evaluation or action failed, and nothing after it was touched; the actions fired are exactly those
of the triggered pairs among `pre ++ [bad]`, in order — hence a sub-list of what a successful pass would have
fired: only triggered states fired, none more often than it is registered. -/
theorem c03_evalAll_err_prefix (env : Env σ α δ) (t : Table σ α) (order : List Nat)
    (herr : (Model.Csm.evalAll env t order).ok = false) :
    ∃ pre bad post, order.filterMap (abs t) = pre ++ bad :: post ∧
      (∀ p ∈ pre, healthy env p = true) ∧ healthy env bad = false ∧
      (Model.Csm.evalAll env t order).log = logOf env (pre ++ [bad]) ∧
      (Model.Csm.evalAll env t order).fired = ((pre ++ [bad]).filter (triggered env)).map (·.2) ∧
      (Model.Csm.evalAll env t order).fired.Sublist
        (((order.filterMap (abs t)).filter (triggered env)).map (·.2)) := by
  rw [evalAll_eq_evalSeq, evalSeq_eq_spec] at herr ⊢
  generalize order.filterMap (abs t) = pairs at herr ⊢
  unfold Spec.Csm.evalAll at herr ⊢
  have hsplit := @List.takeWhile_append_dropWhile _ (healthy env) pairs
  cases hd : pairs.dropWhile (healthy env) with
  | nil => rw [hd] at herr; exact absurd herr (by simp)
  | cons b r =>
    rw [hd] at hsplit
    refine ⟨pairs.takeWhile (healthy env), b, r, hsplit.symm, ?_, ?_, rfl, ?_, ?_⟩
    · exact takeWhile_all _ _
    · exact dropWhile_head _ _ _ _ hd
    · simp only [Out.fired, fired_logOf]
    · simp only [Out.fired, fired_logOf]
      apply List.Sublist.map
      apply List.Sublist.filter
      conv => rhs; rw [← hsplit]
      exact List.Sublist.append (List.Sublist.refl _) (by simp)

/-! ## `len` counts the registered ids -/

theorem mem_keys_iff (t : Table σ α) (k : Nat) : k ∈ keys t ↔ (lookup t k).isSome = true := by
  induction t with
  | nil => simp [keys, lookup]
  | cons e r ih =>
    obtain ⟨j, v⟩ := e
    simp only [keys, List.map_cons, List.mem_cons, lookup] at ih ⊢
    by_cases h : j = k
    · simp [h]
    · have : ¬ k = j := fun e => h e.symm
      simp [h, this, ih]

theorem keys_upsert (t : Table σ α) (k : Nat) (v : σ × α) :
    keys (upsert t k v) = if k ∈ keys t then keys t else keys t ++ [k] := by
  induction t with
  | nil => simp [keys, upsert]
  | cons e r ih =>
    obtain ⟨j, w⟩ := e
    simp only [keys, List.map_cons, upsert, List.mem_cons] at ih ⊢
    by_cases h : j = k
    · simp [h]
    · have : ¬ k = j := fun e => h e.symm
      simp only [h, if_false, List.map_cons, ih, this, false_or]
      split <;> simp_all

theorem keys_delete (t : Table σ α) (k : Nat) : keys (delete t k) = (keys t).filter (fun j => j != k) := by
  induction t with
  | nil => rfl
  | cons e r ih =>
    obtain ⟨j, w⟩ := e
    simp only [keys, List.map_cons, delete, List.filter_cons] at ih ⊢
    by_cases h : j = k
    · simp [h, ih]
    · simp [h, ih]

theorem nodup_upsert (t : Table σ α) (k : Nat) (v : σ × α) (h : (keys t).Nodup) :
    (keys (upsert t k v)).Nodup := by
  rw [keys_upsert]
  split
  · exact h
  · rename_i hk
    rw [List.nodup_append]
    exact ⟨h, by simp, by intro a ha b hb; simp at hb; subst hb; intro e; exact hk (e ▸ ha)⟩

theorem nodup_delete (t : Table σ α) (k : Nat) (h : (keys t).Nodup) : (keys (delete t k)).Nodup := by
  rw [keys_delete]; exact h.sublist List.filter_sublist

theorem nodup_foldl (key : σ → Nat) (l : List (σ × α)) (t : Table σ α) (h : (keys t).Nodup) :
    (keys (l.foldl (fun t sa => upsert t (key sa.1) sa) t)).Nodup := by
  induction l generalizing t with
  | nil => exact h
  | cons x r ih => exact ih _ (nodup_upsert t _ _ h)

theorem step_nodup (key : σ → Nat) (t : Table σ α) (op : Op σ α δ) (h : (keys t).Nodup) :
    (keys (Model.Csm.step key t op).1).Nodup := by
  cases op with
  | new l => exact nodup_foldl key l [] (by simp [keys])
  | updateAll l => exact nodup_foldl key l [] (by simp [keys])
  | add k s a => simp only [Model.Csm.step, addSingle]; split; exact h; exact nodup_upsert _ _ _ h
  | remove k => simp only [Model.Csm.step, removeSingle]; split; exact h; exact nodup_delete _ _ h
  | update k s a => simp only [Model.Csm.step, updateSingle]; split; exact h; exact nodup_upsert _ _ _ h
  | evalSingle env k d => exact h
  | evalAll env order => exact h

theorem run_nodup (key : σ → Nat) (ops : List (Op σ α δ)) (t : Table σ α) (h : (keys t).Nodup) :
    (keys (Model.Csm.run key t ops).1).Nodup := by
  induction ops generalizing t with
  | nil => exact h
  | cons op rest ih => exact ih _ (step_nodup key t op h)

theorem dedup_nodup (l : List Nat) : (dedup l).Nodup ∧ ∀ k, k ∈ dedup l ↔ k ∈ l := by
  induction l with
  | nil => simp [dedup]
  | cons a r ih =>
    simp only [dedup]
    split
    · rename_i ha
      refine ⟨ih.1, fun k => ?_⟩
      rw [ih.2 k, List.mem_cons]
      constructor
      · exact Or.inr
      · rintro (rfl | h); exact ha; exact h
    · rename_i ha
      refine ⟨List.nodup_cons.2 ⟨fun h => ha ((ih.2 a).1 h), ih.1⟩, fun k => ?_⟩
      simp [List.mem_cons, ih.2 k]

/-- **C03, `len`.** After every history the table holds every registered id exactly once, so `CSM::len` is the
number of ids the map is defined on — computed by `Spec.Csm.domain` from any candidate list covering them. -/
theorem c03_len_counts_registered (key : σ → Nat) (ops : List (Op σ α δ)) :
    let t := (Model.Csm.run key [] ops).1
    let m := (Spec.Csm.run key Map.empty ops).1
    (keys t).Nodup ∧ (∀ k, k ∈ keys t ↔ (m k).isSome = true) ∧ len t = (keys t).length ∧
    ∀ cands : List Nat, (∀ k, (m k).isSome = true → k ∈ cands) → len t = (domain m cands).length := by
  intro t m
  have hn : (keys t).Nodup := run_nodup key ops [] (by simp [keys])
  have hm : ∀ k, k ∈ keys t ↔ (m k).isSome = true := by
    intro k
    rw [mem_keys_iff]
    have := congrFun (c03_history_is_map key ops).1 k
    simp only [abs] at this
    rw [this]
  refine ⟨hn, hm, by simp [len, keys], fun cands hc => ?_⟩
  have hd := dedup_nodup cands
  have hdn : (domain m cands).Nodup := hd.1.sublist List.filter_sublist
  have hperm : (keys t).Perm (domain m cands) := by
    rw [List.perm_ext_iff_of_nodup hn hdn]
    intro k
    rw [hm k]
    simp only [domain, List.mem_filter, hd.2 k]
    exact ⟨fun h => ⟨hc k h, h⟩, fun h => h.2⟩
  have := hperm.length_eq
  simpa [len, keys] using this

/-! ## non-vacuity: a concrete machine, with a failing causaloid and a failing action -/
section Examples

/-- states are numbers: verdict by residue of the data modulo 3 (`1` true, `0` false, `2` error); the state `s`
stores the data `s`; action `7` fails -/
def exEnv : Env Nat Nat Nat :=
  { eval := fun _ d => if d % 3 = 1 then .okTrue else if d % 3 = 0 then .okFalse else .err,
    stored := fun s => s,
    fire := fun a => a != 7 }

def exOps : List (Op Nat Nat Nat) :=
  [.new [(1, 10), (3, 30)], .add 4 4 40, .add 1 9 90, .update 3 7 70, .remove 1, .remove 1, .add 5 1 7]

-- table after the history: 3 ↦ (7,70), 4 ↦ (4,40), 5 ↦ (1,7); `add 1` and the second `remove 1` failed
example : (Model.Csm.run (fun s => s) [] exOps).2.map (·.ok) = [true, true, false, true, true, false, true] := by
  decide
example : keys (Model.Csm.run (fun s => s) [] exOps).1 = [3, 4, 5] := by decide
-- single evaluation: id 3 holds (7,70); data 4 ⇒ true ⇒ fires [70]; data 3 ⇒ false ⇒ nothing; data 5 ⇒ error
example : (evalSingle exEnv (Model.Csm.run (fun s => s) [] exOps).1 3 4).fired = [70] := by decide
example : evalSingle exEnv (Model.Csm.run (fun s => s) [] exOps).1 3 3 = ⟨true, [.call 7 3]⟩ := by decide
example : evalSingle exEnv (Model.Csm.run (fun s => s) [] exOps).1 3 5 = ⟨false, [.call 7 5]⟩ := by decide
-- id 5 holds (1, 7): verdict true, the action fails: fired once, error surfaces
example : evalSingle exEnv (Model.Csm.run (fun s => s) [] exOps).1 5 1 = ⟨false, [.call 1 1, .fire 7]⟩ := by decide
-- all states: order 4,3,5 hits the failing action last; order 5,… stops at once
example : Model.Csm.evalAll exEnv (Model.Csm.run (fun s => s) [] exOps).1 [4, 3, 5] =
    ⟨false, [.call 4 4, .fire 40, .call 7 7, .fire 70, .call 1 1, .fire 7]⟩ := by decide
example : Model.Csm.evalAll exEnv (Model.Csm.run (fun s => s) [] exOps).1 [5, 3, 4] =
    ⟨false, [.call 1 1, .fire 7]⟩ := by decide
-- a successful pass (hypotheses of `c03_evalAll_ok_fires_exactly`): table {3 ↦ (7,70), 4 ↦ (4,40), 6 ↦ (3,30)}
example : let t : Table Nat Nat := [(3, (7, 70)), (4, (4, 40)), (6, (3, 30))]
    (keys t).Nodup ∧ [6, 4, 3].Perm (keys t) ∧ (Model.Csm.evalAll exEnv t [6, 4, 3]).ok = true ∧
    (Model.Csm.evalAll exEnv t [6, 4, 3]).fired = [40, 70] := by decide

end Examples

end C03
