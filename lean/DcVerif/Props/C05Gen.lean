import DcVerif.Gen.RingSlots
/-!
# Slot addressing of the ring buffer, tied to the source (C05; used by C04 and C13)

The ring models address slots by `sequence % n` (`Model/RingPay.lean`, `Model/RingMultiPay.lean`; `Props/C05.lean`: `i < w < i + n`,
"hence different slots"). `Gen/RingSlots.lean` is regenerated on every run by `tools/rs2lean_ringslots.py` from
`ringbuffer/const_array_ring_buffer.rs`: the guard `RingBuffer::new` asserts, the mask it stores, and the index `get_mut` / `get`
pass to `get_unchecked`. Here: for **every** `N` the constructor accepts, that index is `sequence % N` — in bounds of `[_; N]`, the
same for readers and the writer — so the window theorem of C05 is about the slots the code touches.
-/
namespace C05Gen
open Gen.RingSlots

theorem testBit_of_range (m e : Nat) (h1 : 2 ^ e ≤ m) (h2 : m < 2 ^ (e + 1)) : m.testBit e = true := by
  rw [Nat.testBit_eq_decide_div_mod_eq]
  have : m / 2 ^ e = 1 := by
    apply Nat.div_eq_of_lt_le
    · simpa using h1
    · simpa [Nat.pow_succ, Nat.mul_comm] using h2
  simp [this]

/-- **the constructor accepts exactly the powers of two** -/
theorem guard_iff_pow2 (N : Nat) : new_guard N = true ↔ ∃ e, N = 2 ^ e := by
  constructor
  · intro h
    simp only [new_guard, Bool.and_eq_true, bne_iff_ne, ne_eq, beq_iff_eq] at h
    obtain ⟨h0, hand⟩ := h
    refine ⟨N.log2, ?_⟩
    refine Classical.byContradiction fun hne => ?_
    have hle : 2 ^ N.log2 ≤ N := Nat.log2_self_le h0
    have hlt : N < 2 ^ (N.log2 + 1) := Nat.lt_log2_self
    have b1 : N.testBit N.log2 = true := testBit_of_range N _ hle hlt
    have b2 : (N - 1).testBit N.log2 = true := testBit_of_range (N - 1) _ (by omega) (by omega)
    have : (N &&& (N - 1)).testBit N.log2 = true := by simp [Nat.testBit_and, b1, b2]
    rw [hand] at this
    simp at this
  · rintro ⟨e, rfl⟩
    have hpos : 0 < 2 ^ e := Nat.two_pow_pos e
    simp only [new_guard, Bool.and_eq_true, bne_iff_ne, ne_eq, beq_iff_eq]
    refine ⟨by omega, ?_⟩
    rw [Nat.and_two_pow_sub_one_eq_mod]
    exact Nat.mod_self _

/-- the `N - 1` of the mask never underflows on an accepted `N` -/
theorem mask_sub_safe (N : Nat) (h : new_guard N = true) : 1 ≤ N := by
  obtain ⟨e, rfl⟩ := (guard_iff_pow2 N).1 h
  exact Nat.two_pow_pos e

/-- **the slot of a sequence is `sequence % N`**, for the writer (`get_mut`) and the readers (`get`) alike -/
theorem index_eq_mod (N s : Nat) (h : new_guard N = true) :
    get_mut_index (mask N) s = s % N ∧ get_index (mask N) s = s % N := by
  obtain ⟨e, rfl⟩ := (guard_iff_pow2 N).1 h
  have hm : ∀ x, x &&& (2 ^ e - 1) = x % 2 ^ e := fun x => Nat.and_two_pow_sub_one_eq_mod x e
  have hm' : ∀ x, (2 ^ e - 1) &&& x = x % 2 ^ e := fun x => by rw [Nat.and_comm]; exact hm x
  simp [get_mut_index, get_index, mask, hm, hm']

/-- the unchecked access is in bounds of `[UnsafeCell<T>; N]` -/
theorem index_in_bounds (N s : Nat) (h : new_guard N = true) :
    get_mut_index (mask N) s < N ∧ get_index (mask N) s < N := by
  have hp := mask_sub_safe N h
  rw [(index_eq_mod N s h).1, (index_eq_mod N s h).2]
  exact ⟨Nat.mod_lt _ hp, Nat.mod_lt _ hp⟩

/-- **C05 (a) on the generated addressing**: a sequence being written and a sequence being read that lie less than a ring apart
never share a slot -/
theorem c05gen_distinct_slots (N i w : Nat) (h : new_guard N = true) (h1 : i < w) (h2 : w < i + N) :
    get_mut_index (mask N) w ≠ get_index (mask N) i := by
  rw [(index_eq_mod N w h).1, (index_eq_mod N i h).2]
  intro he
  have h0 : (w - i) % N = 0 := Nat.sub_mod_eq_zero_of_mod_eq he
  have hlt : w - i < N := by omega
  rw [Nat.mod_eq_of_lt hlt] at h0
  omega

/-- sequences exactly one ring apart do share a slot (the ring is reused: the window of C05 is tight) -/
theorem c05gen_same_slot_one_lap (N i : Nat) (h : new_guard N = true) :
    get_mut_index (mask N) (i + N) = get_index (mask N) i := by
  rw [(index_eq_mod N (i + N) h).1, (index_eq_mod N i h).2]
  simp

/-- the size the sequencers are built with is the ring size -/
theorem buffer_size_is_N (N : Nat) : buffer_size N = N ∧ capacity N = N := ⟨rfl, rfl⟩

example : new_guard 8 = true ∧ new_guard 12 = false ∧ new_guard 0 = false ∧ get_mut_index (mask 8) 19 = 3 := by decide

end C05Gen
