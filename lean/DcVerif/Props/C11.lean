import DcVerif.Lemmas.Causaloid
/-!
# C11 — activation state mirrors the latest evaluation and aggregate counts agree

Model: `Model/Causaloid.lean` — activation cells (`Cells`, one per `Arc<RwLock<bool>>`, shared by clones), the evaluation log
of every call (`opLog`: which singletons were evaluated, in order, with which outcome; the flag is written only after the
causal function returned `Ok`), histories (`run ops` = the cells after any sequence of `verify_single_cause`,
`verify_all_causes`, collection and graph `reason_all_causes` calls with arbitrary data), `is_active` (`isActive`: singleton =
its cell, wrapper = `number_active() > 0` over the wrapped members), the aggregates `countActive`, `percentActive`, `allActive`.
Spec: `Spec/Causaloid.lean` — `lastOutcome`, `activeSpec`, `recount`, `percent`, `opCells`.

All theorems hold for every history `ops` (any length, any mix of calls, any data), every model shape (nesting depth and
fan-out unbounded), every `fuel`.
-/
namespace C11
open Causal Dfs Spec.Nest

/-! ## singletons -/

theorem applyLog_eq_lastOutcome (log : List Event) : ∀ (s : Cells) (cell : Nat),
    applyLog s log cell = (lastOutcome cell log).getD (s cell) := by
  induction log with
  | nil => intro s cell; rfl
  | cons e rest ih =>
    intro s cell
    obtain ⟨c, v⟩ := e
    have hstep : applyLog s ((c, v) :: rest) = applyLog (applyEvent s (c, v)) rest := rfl
    rw [hstep, ih]
    simp only [lastOutcome]
    cases hl : lastOutcome cell rest with
    | some b => rfl
    | none =>
      simp only [Option.getD_none]
      by_cases hc : c = cell
      · subst hc; cases v <;> simp [applyEvent]
      · have hc' : ¬ cell = c := fun h => hc h.symm
        cases v <;> simp [applyEvent, hc, hc']

/-- a singleton is active exactly when its most recent evaluation that did not err returned true — after every history;
    in particular it is inactive before any evaluation, and an evaluation that errs changes nothing -/
theorem single_active_iff_last_ok_true (mk : Nat → Nat) (fuel : Nat) (ops : List Op) (cell cid : Nat) (fn : Fn) :
    isActive (run mk fuel ops) (.single cell cid fn) = true ↔ lastOutcome cell (events mk fuel ops) = some true := by
  simp only [isActive, run, applyLog_eq_lastOutcome, Cells.init]
  cases lastOutcome cell (events mk fuel ops) with
  | none => simp
  | some b => simp

theorem single_inactive_initially (mk : Nat → Nat) (fuel : Nat) (cell cid : Nat) (fn : Fn) :
    isActive (run mk fuel []) (.single cell cid fn) = false := rfl

theorem run_append (mk : Nat → Nat) (fuel : Nat) (ops : List Op) (op : Op) :
    run mk fuel (ops ++ [op]) = applyLog (run mk fuel ops) (opLog mk fuel op) := by
  simp [run, events, applyLog, List.flatMap_append, List.foldl_append]

/-- one more `verify_single_cause` on a singleton: `Ok(b)` makes its flag `b`; `Err` (and a panic) leaves every flag alone -/
theorem single_after_evaluation (mk : Nat → Nat) (fuel : Nat) (ops : List Op) (cell cid : Nat) (fn : Fn) (obs : Nat) :
    isActive (run mk fuel (ops ++ [.single (.single cell cid fn) obs])) (.single cell cid fn) =
      match fn.apply mk obs with
      | some .t => true
      | some .f => false
      | _ => isActive (run mk fuel ops) (.single cell cid fn) := by
  rw [run_append]
  simp only [opLog, singleLog, isActive]
  cases h : fn.apply mk obs with
  | none => rfl
  | some v => cases v <;> simp [applyLog, applyEvent]

theorem errored_evaluation_changes_nothing (mk : Nat → Nat) (fuel : Nat) (ops : List Op) (cell cid : Nat) (fn : Fn) (obs : Nat)
    (h : fn.apply mk obs = some .e) : run mk fuel (ops ++ [.single (.single cell cid fn) obs]) = run mk fuel ops := by
  rw [run_append]; simp [opLog, singleLog, h, applyLog, applyEvent]

/-- clones share the activation cell: singletons with the same cell always agree, whatever their id or function -/
theorem clones_share_activation (s : Cells) (cell cid cid' : Nat) (fn fn' : Fn) :
    isActive s (.single cell cid fn) = isActive s (.single cell cid' fn') := rfl

/-! ## wrappers -/

theorem countActive_pos_iff (s : Cells) : ∀ cs : List Causaloid, 0 < countActive s cs ↔ ∃ c ∈ cs, isActive s c = true := by
  intro cs
  induction cs with
  | nil => simp [countActive]
  | cons c cs ih =>
    simp only [countActive, List.mem_cons, exists_eq_or_imp]
    by_cases hc : isActive s c = true
    · simp [hc]; omega
    · simp only [hc, Bool.false_eq_true, if_false, Nat.zero_add, ih, false_or]

/-- a causaloid wrapping a collection or a graph is active exactly when at least one contained causaloid is -/
theorem wrapper_active_iff_exists_member (s : Cells) (w : Causaloid) (hw : w.isSingleton = false) :
    isActive s w = true ↔ ∃ c ∈ (match w with
      | .coll _ items => items
      | .graph _ nodes _ _ => nodes
      | .single .. => []), isActive s c = true := by
  cases w with
  | single => simp [Causaloid.isSingleton] at hw
  | coll cid items => simp only [isActive, decide_eq_true_eq]; exact countActive_pos_iff s items
  | graph gid nodes edges root => simp only [isActive, decide_eq_true_eq]; exact countActive_pos_iff s nodes

theorem isActive_eq_activeBy (s : Cells) :
    (∀ c : Causaloid, isActive s c = activeBy s c) ∧
    (∀ cs : List Causaloid, decide (0 < countActive s cs) = anyActive s cs) := by
  apply Causaloid.induct2
  · intro cell cid fn; rfl
  · intro cid items ih; simp only [isActive, activeBy]; exact ih
  · intro gid nodes edges root ih; simp only [isActive, activeBy]; exact ih
  · simp [countActive, anyActive]
  · intro c cs ihc ihcs
    simp only [countActive, anyActive, ← ihc, ← ihcs]
    by_cases hc : isActive s c = true
    · simp [hc]; omega
    · simp [hc]

/-- after every history, `is_active` of every causaloid (any nesting) is what the property says: a singleton mirrors the
    latest non-erring evaluation of its cell, a wrapper is active iff some member is -/
theorem active_eq_spec (mk : Nat → Nat) (fuel : Nat) (ops : List Op) (c : Causaloid) :
    isActive (run mk fuel ops) c = activeSpec (events mk fuel ops) c := by
  rw [(isActive_eq_activeBy _).1 c]
  unfold activeSpec
  congr 1
  funext cell
  simp only [run, applyLog_eq_lastOutcome, Cells.init]
  cases lastOutcome cell (events mk fuel ops) with
  | none => rfl
  | some b => cases b <;> rfl

/-! ## aggregates = recount over the members -/

theorem countActive_eq_filter (s : Cells) : ∀ cs : List Causaloid, countActive s cs = (cs.filter (isActive s)).length := by
  intro cs
  induction cs with
  | nil => rfl
  | cons c cs ih =>
    simp only [countActive, List.filter_cons, ih]
    by_cases hc : isActive s c = true
    · simp [hc]; omega
    · simp [hc]

/-- `number_active` (collections: `protocols/causable/mod.rs`, graphs: `causable_graph.rs`) = recount over the members -/
theorem number_active_eq_recount (mk : Nat → Nat) (fuel : Nat) (ops : List Op) (members : List Causaloid) :
    countActive (run mk fuel ops) members = recount (events mk fuel ops) members := by
  rw [countActive_eq_filter]
  unfold recount
  congr 1
  apply List.filter_congr
  intro c _
  exact active_eq_spec mk fuel ops c

/-- `percent_active = (number_active / total) * 100` is the exact rational `100·k/n` of the recount -/
theorem percent_active_eq_recount (mk : Nat → Nat) (fuel : Nat) (ops : List Op) (members : List Causaloid) :
    percentActive (run mk fuel ops) members = percent (events mk fuel ops) members := by
  unfold percentActive percent
  rw [number_active_eq_recount]
  grind

/-- `all_active` / `get_all_causes_true` ⇔ the recount equals the number of members -/
theorem all_active_iff_recount (mk : Nat → Nat) (fuel : Nat) (ops : List Op) (members : List Causaloid) :
    allActive (run mk fuel ops) members = true ↔ recount (events mk fuel ops) members = members.length := by
  rw [← number_active_eq_recount, countActive_eq_filter]
  unfold allActive
  rw [List.all_eq_true]
  exact List.length_filter_eq_length_iff.symm

/-- the active / inactive member lists partition the members -/
theorem active_inactive_partition (s : Cells) (members : List Causaloid) :
    (members.filter (isActive s)).length + (members.filter (fun c => !isActive s c)).length = members.length := by
  induction members with
  | nil => rfl
  | cons c cs ih =>
    simp only [List.filter_cons]
    by_cases hc : isActive s c = true
    · simp [hc]; omega
    · simp [hc]; omega

/-! ## frame: reasoning never changes the activation of a causaloid it did not evaluate -/

theorem applyLog_frame (log : List Event) : ∀ (s : Cells) (cell : Nat), (∀ e ∈ log, e.1 ≠ cell) →
    applyLog s log cell = s cell := by
  induction log with
  | nil => intro s cell _; rfl
  | cons e rest ih =>
    intro s cell h
    have hstep : applyLog s (e :: rest) = applyLog (applyEvent s e) rest := rfl
    rw [hstep, ih _ _ (fun e' he' => h e' (List.mem_cons_of_mem _ he'))]
    have he : e.1 ≠ cell := h e (by simp)
    have he' : ¬ cell = e.1 := fun h => he h.symm
    obtain ⟨c, v⟩ := e
    cases v <;> simp_all [applyEvent]

/-- every evaluation a call performs concerns a singleton of the structure the call was made on -/
theorem opLog_cells (mk : Nat → Nat) (fuel : Nat) (op : Op) : ∀ e ∈ opLog mk fuel op, e.1 ∈ opCells op := by
  cases op with
  | single c obs =>
    cases c with
    | single cell cid fn => exact (singleLog_ok mk cell cid fn obs).cells
    | coll => intro e he; simp [opLog, singleLog] at he
    | graph => intro e he; simp [opLog, singleLog] at he
  | all c data idx => exact ((log_ok mk fuel).1 c data idx).cells
  | coll items data => exact (((log_ok mk fuel).2 items).1 data 0).cells
  | graph nodes edges root data idx => exact ((log_ok mk fuel).1 (.graph 0 nodes edges root) data idx).cells

/-- a cell outside the evaluated structure keeps its value -/
theorem frame_cell (mk : Nat → Nat) (fuel : Nat) (ops : List Op) (op : Op) (cell : Nat) (h : cell ∉ opCells op) :
    run mk fuel (ops ++ [op]) cell = run mk fuel ops cell := by
  rw [run_append]
  apply applyLog_frame
  intro e he heq
  exact h (heq ▸ opLog_cells mk fuel op e he)

theorem isActive_congr (s s' : Cells) :
    (∀ c : Causaloid, (∀ x ∈ leafCells c, s x = s' x) → isActive s c = isActive s' c) ∧
    (∀ cs : List Causaloid, (∀ x ∈ leafCellsL cs, s x = s' x) → countActive s cs = countActive s' cs) := by
  apply Causaloid.induct2
  · intro cell cid fn h; exact h cell (by simp [leafCells])
  · intro cid items ih h; simp only [isActive, ih h]
  · intro gid nodes edges root ih h; simp only [isActive, ih h]
  · intro _; rfl
  · intro c cs ihc ihcs h
    simp only [countActive]
    rw [ihc (fun x hx => h x (by simp [leafCellsL, hx])), ihcs (fun x hx => h x (by simp [leafCellsL, hx]))]

/-- a causaloid (singleton or wrapper, any depth) that shares no cell with the evaluated structure keeps its activation,
    and so do all aggregates over such causaloids -/
theorem frame (mk : Nat → Nat) (fuel : Nat) (ops : List Op) (op : Op) (c : Causaloid)
    (h : ∀ x ∈ leafCells c, x ∉ opCells op) :
    isActive (run mk fuel (ops ++ [op])) c = isActive (run mk fuel ops) c :=
  (isActive_congr _ _).1 c (fun x hx => frame_cell mk fuel ops op x (h x hx))

theorem frame_aggregate (mk : Nat → Nat) (fuel : Nat) (ops : List Op) (op : Op) (members : List Causaloid)
    (h : ∀ x ∈ leafCellsL members, x ∉ opCells op) :
    countActive (run mk fuel (ops ++ [op])) members = countActive (run mk fuel ops) members :=
  (isActive_congr _ _).2 members (fun x hx => frame_cell mk fuel ops op x (h x hx))

/-- within the evaluated structure only singletons that were actually evaluated (they appear in the log) can change -/
theorem unevaluated_unchanged (mk : Nat → Nat) (fuel : Nat) (ops : List Op) (op : Op) (cell : Nat)
    (h : ∀ e ∈ opLog mk fuel op, e.1 ≠ cell) : run mk fuel (ops ++ [op]) cell = run mk fuel ops cell := by
  rw [run_append]; exact applyLog_frame _ _ _ h

/-! ## the hypotheses are met by concrete histories -/

def a : Causaloid := .single 0 0 .plain
def b : Causaloid := .single 1 1 .inv
def w : Causaloid := .coll 5 [a, b]
def g : Causaloid := .graph 6 [a, w, .single 2 2 .plain] [(0, 1), (1, 2)] (some 0)
def other : Causaloid := .single 3 0 .plain
/-- evaluate the graph (all true), then the collection with data that makes `a` err and then `b` … not evaluated -/
def hist : List Op := [.all g [1, 3, 1, 0, 0, 1] none, .single other 2, .coll [a, b] [2, 1], .single b 1]

example : (List.range 4).map (run (fun _ => 0) 20 hist) = [true, false, true, false] := by decide
example : lastOutcome 0 (events (fun _ => 0) 20 hist) = some true ∧ lastOutcome 3 (events (fun _ => 0) 20 hist) = none := by
  decide
example : isActive (run (fun _ => 0) 20 hist) w = true ∧ countActive (run (fun _ => 0) 20 hist) [a, w, b] = 2 := by decide
example : ∀ x ∈ leafCells other, x ∉ opCells (.all g [1, 3, 1, 0, 0, 1] none) := by decide

end C11
