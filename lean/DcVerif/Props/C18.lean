import DcVerif.Model.Reasoning
/-!
# C18 — collection reasoning aggregates obey their counting laws

Model: `Model.Reasoning` (the default methods of `AssumableReasoning`, `InferableReasoning`,
`ObservableReasoning` over `get_all_items()`, `Assumption::verify_assumption`). Spec: `Spec.Reasoning`
(`count`, `percent`, `tested`/`valid` over a verdict history, `totalCmp`).

All statements hold for every collection content and every member predicate: the comparisons on `f64`
(`total_cmp`, the truncating 4-decimal `approx_equal`, `>=`, `==`) enter only as arbitrary functions
`cmp : κ → κ → Ordering`, `approx/ge/eq : κ → κ → Bool` on an arbitrary key type `κ`; nothing about floats is assumed.
Percentages are exact rationals; the hypothesis `items ≠ []` is the property's "non-empty collection".
-/
namespace C18
open Spec.Reasoning Model.Reasoning

variable {ι κ δ : Type}

/-! ## counting, for an arbitrary member predicate -/

/-- a count is the length of the corresponding filter -/
theorem count_eq_filter_length (p : ι → Bool) (l : List ι) : count p l = (l.filter p).length := by
  induction l with
  | nil => rfl
  | cons a r ih => simp only [count, List.filter_cons, ih]; split <;> simp <;> omega

theorem count_le_length (p : ι → Bool) (l : List ι) : count p l ≤ l.length := by
  rw [count_eq_filter_length]; exact List.length_filter_le p l

/-- complementary filters partition the collection (as multisets; each keeps the collection's order) -/
theorem filter_partition (p : ι → Bool) (l : List ι) :
    (l.filter p ++ l.filter (fun a => !p a)).Perm l ∧
    (∀ a, a ∈ l.filter p → a ∉ l.filter (fun a => !p a)) ∧
    count p l + count (fun a => !p a) l = l.length := by
  refine ⟨List.filter_append_perm p l, ?_, ?_⟩
  · intro a h1 h2
    simp only [List.mem_filter] at h1 h2
    simp [h1.2] at h2
  · induction l with
    | nil => rfl
    | cons a r ih =>
      simp only [count, List.length_cons]
      by_cases hp : p a = true <;> simp [hp] <;> omega

/-- an early-return "all" loop answers the universally quantified statement -/
theorem all_loop_iff (p : ι → Bool) (loop : List ι → Bool) (hnil : loop [] = true)
    (hcons : ∀ a r, loop (a :: r) = if !p a then false else loop r) (l : List ι) :
    loop l = true ↔ ∀ a ∈ l, p a = true := by
  induction l with
  | nil => simp [hnil]
  | cons a r ih => rw [hcons]; cases h : p a <;> simp [h, ih]

/-- percentages: `k / n * scale`, exactly -/
theorem percent_mul (scale k n : Nat) (hn : n ≠ 0) : percent scale k n * (n : Rat) = (scale : Rat) * (k : Rat) := by
  have : (n : Rat) ≠ 0 := by exact_mod_cast hn
  unfold percent; grind

/-! ## assumptions -/

/-- **counts and "all" answers of `AssumableReasoning`**, for every collection and arbitrary flag readers -/
theorem c18_assumable_counts (tested valid : ι → Bool) (items : List ι) :
    numberValid valid items = count valid items ∧
    (allTested tested items = true ↔ ∀ a ∈ items, tested a = true) ∧
    (allValid valid items = true ↔ ∀ a ∈ items, valid a = true) ∧
    (getAllValid valid items).length = count valid items ∧
    (getAllInvalid valid items).length = count (fun a => !valid a) items ∧
    (getAllTested tested items).length = count tested items ∧
    (getAllUntested tested items).length = count (fun a => !tested a) items := by
  refine ⟨(count_eq_filter_length _ _).symm, ?_, ?_, ?_, ?_, ?_, ?_⟩
  · exact all_loop_iff tested (allTested tested) rfl (fun _ _ => rfl) items
  · exact all_loop_iff valid (allValid valid) rfl (fun _ _ => rfl) items
  all_goals simp only [getAllValid, getAllInvalid, getAllTested, getAllUntested, count_eq_filter_length]

/-- **complementary assumption filters partition the collection**: valid/invalid and tested/untested -/
theorem c18_assumable_partition (tested valid : ι → Bool) (items : List ι) :
    (getAllValid valid items ++ getAllInvalid valid items).Perm items ∧
    (getAllTested tested items ++ getAllUntested tested items).Perm items ∧
    (∀ a, a ∈ getAllValid valid items → a ∉ getAllInvalid valid items) ∧
    (∀ a, a ∈ getAllTested tested items → a ∉ getAllUntested tested items) ∧
    (getAllValid valid items).length + (getAllInvalid valid items).length = items.length ∧
    (getAllTested tested items).length + (getAllUntested tested items).length = items.length := by
  have hv := filter_partition valid items
  have ht := filter_partition tested items
  simp only [count_eq_filter_length] at hv ht
  exact ⟨hv.1, ht.1, hv.2.1, ht.2.1, hv.2.2, ht.2.2⟩

/-- **`percent_assumption_valid` = valid / size × 100**, exactly, for a non-empty collection -/
theorem c18_percent_assumption_valid (valid : ι → Bool) (items : List ι) (hne : items ≠ []) :
    percentValid valid items = percent 100 (count valid items) items.length ∧
    percentValid valid items * (items.length : Rat) = 100 * (count valid items : Rat) := by
  have h1 : percentValid valid items = percent 100 (count valid items) items.length := by
    simp only [percentValid, percent, numberValid, count_eq_filter_length]; rfl
  refine ⟨h1, ?_⟩
  rw [h1, percent_mul 100 _ _ (by simpa using hne)]; rfl

/-! ### flags over every verification history -/

/-- verdicts an assumption with function `fn` returns on a history of data (oldest first) -/
def verdicts (fn : δ → Bool) (ds : List δ) : List Bool := ds.map fn

/-- verifying one assumption along a history of data values -/
def verifyRun (a : Assumption δ) : List δ → Assumption δ × List Bool
  | [] => (a, [])
  | d :: rest =>
    let r := a.verify d
    let rr := verifyRun r.1 rest
    (rr.1, r.2 :: rr.2)

theorem verifyRun_spec (a : Assumption δ) (ds : List δ) :
    (verifyRun a ds).2 = verdicts a.fn ds ∧ (verifyRun a ds).1.fn = a.fn ∧
    (verifyRun a ds).1.flags.tested = (a.flags.tested || tested (verdicts a.fn ds)) ∧
    (verifyRun a ds).1.flags.valid = (a.flags.valid || valid (verdicts a.fn ds)) := by
  induction ds generalizing a with
  | nil => simp [verifyRun, verdicts, tested, valid]
  | cons d rest ih =>
    obtain ⟨h1, h2, h3, h4⟩ := ih (a.verify d).1
    have hfn : (a.verify d).1.fn = a.fn := rfl
    simp only [verifyRun, h1, h2, h3, h4, hfn]
    refine ⟨by simp [verdicts, Assumption.verify], trivial, ?_, ?_⟩
    · simp [Assumption.verify, tested, verdicts]
    · simp only [Assumption.verify, valid, verdicts, List.map_cons, List.any_cons, id]
      cases a.fn d <;> simp

/-- **`verify_assumption` returns the assumption function's verdict**, every time, and never changes the function -/
theorem c18_verify_returns_verdict (a : Assumption δ) (d : δ) :
    (a.verify d).2 = a.fn d ∧ (a.verify d).1.fn = a.fn := ⟨rfl, rfl⟩

/-- **tested from the first verification on**: a fresh assumption is untested; after any non-empty history
of verifications it is tested, whatever the verdicts were — and every verification answered the function's
verdict -/
theorem c18_tested_from_first_verify_on (fn : δ → Bool) (ds : List δ) :
    let a : Assumption δ := { fn := fn }
    (verifyRun a ds).1.flags.tested = tested (verdicts fn ds) ∧
    ((verifyRun a ds).1.flags.tested = true ↔ ds ≠ []) ∧
    (verifyRun a ds).2 = ds.map fn := by
  intro a
  obtain ⟨h1, _, h3, _⟩ := verifyRun_spec a ds
  refine ⟨by simpa [a] using h3, ?_, h1⟩
  rw [h3]; cases ds <;> simp [a, tested, verdicts]

/-- **never valid before a verification returned `true`**: after any history a fresh assumption is valid iff
some verification in that history returned `true` (so: not valid while all verdicts were `false`, valid from the
first `true` on, and it stays valid — the flag is never reset) -/
theorem c18_valid_only_after_true (fn : δ → Bool) (ds : List δ) :
    let a : Assumption δ := { fn := fn }
    (verifyRun a ds).1.flags.valid = valid (verdicts fn ds) ∧
    ((verifyRun a ds).1.flags.valid = true ↔ ∃ d ∈ ds, fn d = true) ∧
    ((verifyRun a ds).1.flags.valid = true → (verifyRun a ds).1.flags.tested = true) := by
  intro a
  obtain ⟨_, _, h3, h4⟩ := verifyRun_spec a ds
  have hv : (verifyRun a ds).1.flags.valid = valid (verdicts fn ds) := by simpa [a] using h4
  refine ⟨hv, ?_, ?_⟩
  · rw [hv]; simp [valid, verdicts]
  · rw [hv, h3]
    cases ds <;> simp [a, valid, tested, verdicts]

/-! ### the same inside a collection, under every history of `verify_all_assumptions` / member verifications -/

/-- the data values member `i` was verified on during a history of collection calls -/
def dataOf (i : Nat) : List (AOp δ) → List δ
  | [] => []
  | .verifyAll d :: rest => d :: dataOf i rest
  | .verifyAt j d :: rest => if j = i then d :: dataOf i rest else dataOf i rest

theorem verifyRun_append (a : Assumption δ) (xs ys : List δ) :
    (verifyRun a (xs ++ ys)).1 = (verifyRun (verifyRun a xs).1 ys).1 := by
  induction xs generalizing a with
  | nil => rfl
  | cons d rest ih => simp only [List.cons_append, verifyRun, ih]

theorem astep_getElem (items : List (Assumption δ)) (op : AOp δ) (i : Nat) :
    (astep items op)[i]? = (items[i]?).map (fun a => (verifyRun a (dataOf i [op])).1) := by
  cases op with
  | verifyAll d =>
    simp only [astep, verifyAll, List.getElem?_map, dataOf, verifyRun]
  | verifyAt j d =>
    simp only [astep, verifyAt, dataOf]
    cases hj : items[j]? with
    | none =>
      by_cases hji : j = i
      · subst hji; simp [hj]
      · simp [hji, verifyRun]
    | some a =>
      by_cases hji : j = i
      · subst hji
        simp [hj, verifyRun, List.getElem?_set]
        have : j < items.length := by
          cases h : decide (j < items.length) with
          | true => simpa using h
          | false =>
            have : items.length ≤ j := by simpa using h
            rw [List.getElem?_eq_none this] at hj; cases hj
        simp [this]
      · simp [hji, verifyRun]

/-- **every member of a collection, every history of collection calls**: the collection keeps its size, and
member `i` ends exactly as if it had been verified alone on the data of the calls that addressed it — so its flags
follow `c18_tested_from_first_verify_on` / `c18_valid_only_after_true` and no call on another member touches it -/
theorem c18_collection_member_history (items : List (Assumption δ)) (ops : List (AOp δ)) (i : Nat) :
    (arun items ops).length = items.length ∧
    (arun items ops)[i]? = (items[i]?).map (fun a => (verifyRun a (dataOf i ops)).1) := by
  induction ops generalizing items with
  | nil => simp [arun, dataOf, verifyRun]
  | cons op rest ih =>
    obtain ⟨h1, h2⟩ := ih (astep items op)
    have hlen : (astep items op).length = items.length := by
      cases op with
      | verifyAll d => simp [astep, verifyAll]
      | verifyAt j d => simp only [astep, verifyAt]; split <;> simp
    refine ⟨by simp only [arun, h1, hlen], ?_⟩
    simp only [arun, h2, astep_getElem, Option.map_map]
    congr 1
    funext a
    have : dataOf i (op :: rest) = dataOf i [op] ++ dataOf i rest := by
      cases op with
      | verifyAll d => simp [dataOf]
      | verifyAt j d => by_cases hji : j = i <;> simp [dataOf, hji]
    simp only [Function.comp, this, verifyRun_append]

/-! ## inferences -/

/-- **no member is both inferable and inverse-inferable** — whatever the comparison `cmp` returns and whatever the
approximate comparison answers: both verdicts are read off the *one* `Ordering` that `cmp observation threshold`
returns -/
theorem c18_not_both_inferable (cmp : κ → κ → Ordering) (approx : κ → κ → Bool) (i : Inference κ) :
    ¬ (isInferable cmp approx i = true ∧ isInverseInferable cmp approx i = true) ∧
    isNonInferable cmp approx i = false := by
  unfold isNonInferable isInferable isInverseInferable
  cases cmp i.obs i.thr <;> simp

/-- consequences for the `non_inferable` family: the filter is empty, the count and the percentage are zero,
`all_non_inferable` is `false`, and the collection's conjoint delta is `0` (non-empty collection) -/
theorem c18_non_inferable_family (cmp : κ → κ → Ordering) (approx : κ → κ → Bool) (items : List (Inference κ)) :
    getAllNonInferable cmp approx items = [] ∧
    numberNonInferable cmp approx items = 0 ∧
    allNonInferable cmp approx items = false ∧
    percentNonInferable cmp approx items = 0 ∧
    (items ≠ [] → conjointDelta cmp approx items = 0) := by
  have hnil : getAllNonInferable cmp approx items = [] := by
    simp [getAllNonInferable, List.filter_eq_nil_iff, (c18_not_both_inferable cmp approx _).2]
  have hnum : numberNonInferable cmp approx items = 0 := by
    have := congrArg List.length hnil
    simpa [getAllNonInferable, numberNonInferable] using this
  refine ⟨hnil, hnum, ?_, ?_, ?_⟩
  · induction items with
    | nil => rfl
    | cons e r ih =>
      have hr : numberNonInferable cmp approx r = 0 := by
        simp [numberNonInferable, List.filter_eq_nil_iff, (c18_not_both_inferable cmp approx _).2]
      have hr' : getAllNonInferable cmp approx r = [] := by
        simp [getAllNonInferable, List.filter_eq_nil_iff, (c18_not_both_inferable cmp approx _).2]
      have hb := (c18_not_both_inferable cmp approx e).1
      simp only [allNonInferable]
      rw [ih hr' hr]
      cases h1 : isInverseInferable cmp approx e <;> cases h2 : isInferable cmp approx e <;> simp_all
  · simp only [percentNonInferable, percentOf, hnum]; grind
  · intro hne
    have hlen : (items.length : Rat) ≠ 0 := by
      have : items.length ≠ 0 := by simpa using hne
      exact_mod_cast this
    simp only [conjointDelta, hnum, absNum]
    have : (1 : Rat) - ((items.length : Rat) - ((0 : Nat) : Rat)) / (items.length : Rat) = 0 := by grind
    rw [this]; simp

/-- **counts, "all" answers and percentages of `InferableReasoning`**, for every collection -/
theorem c18_inferable_counts (cmp : κ → κ → Ordering) (approx : κ → κ → Bool) (items : List (Inference κ)) :
    numberInferable cmp approx items = count (isInferable cmp approx) items ∧
    numberInverseInferable cmp approx items = count (isInverseInferable cmp approx) items ∧
    numberNonInferable cmp approx items = count (isNonInferable cmp approx) items ∧
    (getAllInferable cmp approx items).length = count (isInferable cmp approx) items ∧
    (getAllInverseInferable cmp approx items).length = count (isInverseInferable cmp approx) items ∧
    (allInferable cmp approx items = true ↔ ∀ e ∈ items, isInferable cmp approx e = true) ∧
    (allInverseInferable cmp approx items = true ↔ ∀ e ∈ items, isInverseInferable cmp approx e = true) ∧
    (∀ e, e ∈ getAllInferable cmp approx items → e ∉ getAllInverseInferable cmp approx items) ∧
    numberInferable cmp approx items + numberInverseInferable cmp approx items ≤ items.length := by
  refine ⟨(count_eq_filter_length _ _).symm, (count_eq_filter_length _ _).symm, (count_eq_filter_length _ _).symm,
    (count_eq_filter_length _ _).symm, (count_eq_filter_length _ _).symm, ?_, ?_, ?_, ?_⟩
  · exact all_loop_iff _ (allInferable cmp approx) rfl (fun _ _ => rfl) items
  · exact all_loop_iff _ (allInverseInferable cmp approx) rfl (fun _ _ => rfl) items
  · intro e h1 h2
    simp only [getAllInferable, getAllInverseInferable, List.mem_filter] at h1 h2
    exact (c18_not_both_inferable cmp approx e).1 ⟨h1.2, h2.2⟩
  · simp only [numberInferable, numberInverseInferable]
    induction items with
    | nil => simp
    | cons e r ih =>
      have hb := (c18_not_both_inferable cmp approx e).1
      simp only [List.filter_cons, List.length_cons]
      cases h1 : isInferable cmp approx e <;> cases h2 : isInverseInferable cmp approx e <;> simp_all <;> omega

/-- **inference percentages = count / size × 100**, exactly, for a non-empty collection -/
theorem c18_percent_inferable (cmp : κ → κ → Ordering) (approx : κ → κ → Bool) (items : List (Inference κ))
    (hne : items ≠ []) :
    percentInferable cmp approx items = percent 100 (count (isInferable cmp approx) items) items.length ∧
    percentInverseInferable cmp approx items =
      percent 100 (count (isInverseInferable cmp approx) items) items.length ∧
    percentNonInferable cmp approx items = percent 100 (count (isNonInferable cmp approx) items) items.length ∧
    percentInferable cmp approx items * (items.length : Rat) = 100 * (count (isInferable cmp approx) items : Rat) ∧
    percentInverseInferable cmp approx items * (items.length : Rat) =
      100 * (count (isInverseInferable cmp approx) items : Rat) := by
  have hn : items.length ≠ 0 := by simpa using hne
  have e1 : percentInferable cmp approx items = percent 100 (count (isInferable cmp approx) items) items.length := by
    simp only [percentInferable, percentOf, percent, numberInferable, count_eq_filter_length]; rfl
  have e2 : percentInverseInferable cmp approx items =
      percent 100 (count (isInverseInferable cmp approx) items) items.length := by
    simp only [percentInverseInferable, percentOf, percent, numberInverseInferable, count_eq_filter_length]; rfl
  have e3 : percentNonInferable cmp approx items =
      percent 100 (count (isNonInferable cmp approx) items) items.length := by
    simp only [percentNonInferable, percentOf, percent, numberNonInferable, count_eq_filter_length]; rfl
  refine ⟨e1, e2, e3, ?_, ?_⟩
  · rw [e1, percent_mul 100 _ _ hn]; rfl
  · rw [e2, percent_mul 100 _ _ hn]; rfl

/-! ### `f64::total_cmp` on bit patterns -/

/-- the key is injective on 64-bit patterns, so `totalCmp` is a total order on them: it answers `eq` exactly on
identical patterns (in particular `−0.0 < +0.0`, and a NaN compares like any other pattern), and swapping the
arguments swaps the answer -/
theorem c18_totalCmp_total_order (a b : Nat) (ha : a < 2 ^ 64) (hb : b < 2 ^ 64) :
    (totalCmp a b = .eq ↔ a = b) ∧ totalCmp b a = (totalCmp a b).swap ∧
    (totalCmp a b = .gt ↔ totalCmp b a = .lt) := by
  have hinj : totalKey a = totalKey b ↔ a = b := by
    unfold totalKey; split <;> split <;> omega
  refine ⟨?_, ?_, ?_⟩
  · simp only [totalCmp, Nat.compare_eq_eq, hinj]
  · simp only [totalCmp]; exact (Nat.compare_swap _ _).symm
  · simp only [totalCmp, Nat.compare_eq_gt, Nat.compare_eq_lt]

/-! ## observations -/

/-- **`number_observation` counts, `number_non_observation = len − number_observation` counts the complement** -/
theorem c18_number_observation (ge eq : κ → κ → Bool) (items : List (Observation κ)) (thr e : κ) :
    numberObservation ge eq items thr e = count (effectObserved ge eq thr e) items ∧
    numberNonObservation ge eq items thr e = (items.length : Int) - (numberObservation ge eq items thr e : Int) ∧
    numberNonObservation ge eq items thr e = (count (fun o => !effectObserved ge eq thr e o) items : Int) ∧
    numberObservation ge eq items thr e ≤ items.length := by
  have hc := (filter_partition (effectObserved ge eq thr e) items).2.2
  have h1 : numberObservation ge eq items thr e = count (effectObserved ge eq thr e) items :=
    (count_eq_filter_length _ _).symm
  refine ⟨h1, rfl, ?_, ?_⟩
  · simp only [numberNonObservation, h1]; omega
  · rw [h1]; exact count_le_length _ _

/-- **observation percentages on the scale 0…1**: `percent_observation = count / size`,
`percent_non_observation = 1 − count / size = (number of members not observed) / size`, for a non-empty collection -/
theorem c18_percent_observation (ge eq : κ → κ → Bool) (items : List (Observation κ)) (thr e : κ)
    (hne : items ≠ []) :
    percentObservation ge eq items thr e = percent 1 (count (effectObserved ge eq thr e) items) items.length ∧
    percentNonObservation ge eq items thr e =
      percent 1 (count (fun o => !effectObserved ge eq thr e o) items) items.length ∧
    percentObservation ge eq items thr e + percentNonObservation ge eq items thr e = 1 := by
  have hn : items.length ≠ 0 := by simpa using hne
  have hn' : (items.length : Rat) ≠ 0 := by exact_mod_cast hn
  have hc := (filter_partition (effectObserved ge eq thr e) items).2.2
  have hc' : (count (effectObserved ge eq thr e) items : Rat) +
      (count (fun o => !effectObserved ge eq thr e o) items : Rat) = (items.length : Rat) := by exact_mod_cast hc
  have h1 : numberObservation ge eq items thr e = count (effectObserved ge eq thr e) items :=
    (count_eq_filter_length _ _).symm
  refine ⟨?_, ?_, ?_⟩
  · simp only [percentObservation, percent, h1]; grind
  · simp only [percentNonObservation, percentObservation, percent, h1]; grind
  · simp only [percentNonObservation]; grind

/-! ## non-vacuity -/
section Examples

-- a fresh assumption verified on data [0, 0, 1, 0] with fn = (· = 1): verdicts as the function says, tested, valid
example : let a : Assumption Nat := { fn := fun d => d == 1 }
    (verifyRun a [0, 0, 1, 0]).2 = [false, false, true, false] ∧
    (verifyRun a [0, 0]).1.flags = ⟨true, false⟩ ∧ (verifyRun a [0, 0, 1, 0]).1.flags = ⟨true, true⟩ ∧
    (verifyRun a []).1.flags = ⟨false, false⟩ := by decide

-- a collection of three assumptions under verify-all / member verification
example : let items : List (Assumption Nat) := [{ fn := fun d => d % 2 == 1 }, { fn := fun d => d > 5 }, { fn := fun _ => false }]
    ((arun items [.verifyAt 1 9, .verifyAt 7 1]).map (·.flags)) = [⟨false, false⟩, ⟨true, true⟩, ⟨false, false⟩] ∧
    ((arun items [.verifyAll 3, .verifyAt 1 9]).map (·.flags)) = [⟨true, true⟩, ⟨true, true⟩, ⟨true, false⟩] := by
  decide

-- inferences over `Int` keys: inferable, inverse inferable, equal-to-threshold, effect ≠ target
def exInf : List (Inference Int) := [⟨5, 3, 1, 1⟩, ⟨2, 3, 1, 1⟩, ⟨3, 3, 1, 1⟩, ⟨5, 3, 0, 1⟩]
example : numberInferable compare (· == ·) exInf = 1 ∧ numberInverseInferable compare (· == ·) exInf = 1 ∧
    numberNonInferable compare (· == ·) exInf = 0 ∧ exInf ≠ [] := by decide
example : percentInferable compare (· == ·) exInf = percent 100 1 4 :=
  (c18_percent_inferable compare (· == ·) exInf (by decide)).1.trans
    (by rw [show count (isInferable compare (· == ·)) exInf = 1 from by decide]; rfl)

-- observations over `Int`: threshold 3, effect 1
def exObs : List (Observation Int) := [⟨5, 1⟩, ⟨3, 1⟩, ⟨2, 1⟩, ⟨9, 0⟩]
example : numberObservation (· ≥ ·) (· == ·) exObs 3 1 = 2 ∧ numberNonObservation (· ≥ ·) (· == ·) exObs 3 1 = 2 ∧
    exObs ≠ [] := by decide

-- total_cmp on patterns: −0.0 (0x8000…) < +0.0 (0); −NaN below −∞; +NaN above +∞
example : totalCmp 0x8000000000000000 0 = .lt ∧ totalCmp 0xFFF8000000000000 0xFFF0000000000000 = .lt ∧
    totalCmp 0x7FF8000000000000 0x7FF0000000000000 = .gt ∧ totalCmp 0x3FF0000000000000 0x3FF0000000000000 = .eq := by
  decide

end Examples

end C18
