import DcVerif.Gen.Consumer
import DcVerif.Model.Ring
/-!
# One pass of the handler loop, tied to the source (C04, C13; used by every ring property)

`Gen/Consumer.lean` is regenerated on every run by `tools/rs2lean_consumer.py` from `consumer/batch_event_processor.rs` (both `run`
twins must give the same text). Here: the consumer of `Model/Ring.lean` (shared by `RingMulti`) starts a pass at the generated `next`,
hands exactly the generated range to the handler, in ascending order, and then stores the generated value into its cursor — and what
that means for C04 directly on the generated arithmetic: consecutive passes hand over consecutive, gap-free, non-overlapping ranges.
-/
namespace C04Gen
open Gen.Consumer Ring

/-- top of a pass: the wanted sequence is the generated `c_next` of the own cursor, and it is what `wait_for` is asked for -/
theorem model_readOwn (s : St) (k j : Nat) (c : Cons) (h : c.pc = .readOwn) :
    (stepCons s k j c).next = c_next c.cur ∧ c_wait_for (c_next c.cur) = c_next c.cur := by
  cases hb : s.blocking <;> simp [stepCons, h, hb, c_next, c_wait_for]

/-- the batch starts at the generated lower end (`handle` is entered with `i := next`) … -/
theorem model_batch_start (s : St) (k j : Nat) (c : Cons) :
    (c.pc = .bUnlockGo → (stepCons s k j c).i = (c_batch c.next c.avail).1 ∧ (stepCons s k j c).pc = .handle) ∧
    (c.pc = .checkAvail → s.blocking = false → c.avail ≥ c.next →
      (stepCons s k j c).i = (c_batch c.next c.avail).1 ∧ (stepCons s k j c).pc = .handle) := by
  constructor
  · intro h; simp [stepCons, h, c_batch]
  · intro h hb ha; simp [stepCons, h, hb, ha, c_batch]

/-- … every step of `handle` hands over the next sequence while it is within the generated upper end, then the pass publishes -/
theorem model_batch_step (s : St) (k j : Nat) (c : Cons) (h : c.pc = .handle) :
    stepCons s k j c =
      if c.i ≤ (c_batch c.next c.avail).2 then { c with log := c.log ++ [c.i], i := c.i + 1 } else { c with pc := .publish } := by
  simp [stepCons, h, c_batch]

/-- the cursor store after the batch is the generated value -/
theorem model_publish (s : St) (k j : Nat) (c : Cons) (h : c.pc = .publish) :
    (stepCons s k j c).cur = c_publish c.next c.avail := by
  simp [stepCons, h, c_publish]

/-! ## C04 on the generated arithmetic -/

/-- the sequences a pass hands to the handler -/
def passSeqs (own available : Nat) : List Nat :=
  (List.range ((c_batch (c_next own) available).2 + 1 - (c_batch (c_next own) available).1)).map (· + (c_batch (c_next own) available).1)

/-- **consecutive passes hand over consecutive ranges**: a pass that found `available ≥ next` hands over exactly `own+1 … available`,
ascending, and leaves the cursor at `available`, so the next pass starts at `available + 1` — no sequence twice, none skipped -/
theorem c04gen_passes_tile (own a1 a2 : Nat) (h1 : c_next own ≤ a1) (h2 : c_next (c_publish (c_next own) a1) ≤ a2) :
    passSeqs own a1 ++ passSeqs (c_publish (c_next own) a1) a2 = (List.range (a2 - own)).map (· + (own + 1)) := by
  simp only [passSeqs, c_batch, c_next, c_publish] at *
  apply List.ext_getElem
  · simp; omega
  · intro n hn1 hn2
    simp only [List.length_append, List.length_map, List.length_range] at hn1
    by_cases hlt : n < a1 + 1 - (own + 1)
    · rw [List.getElem_append_left (by simpa using hlt)]; simp
    · rw [List.getElem_append_right (by simpa using hlt)]; simp; omega

/-- the end-of-batch flag is raised exactly on the last sequence of the pass -/
theorem c04gen_eob (i available : Nat) : c_eob i available = true ↔ i = available := by simp [c_eob]

example : passSeqs 4 7 = [5, 6, 7] ∧ passSeqs 7 7 = [] ∧ c_eob 7 7 = true ∧ c_eob 6 7 = false := by decide

end C04Gen
