import DcVerif.Props.C15
import DcVerif.Props.C08Gen
/-!
# C15 on the definitions generated from the source

`Gen/UGraphFns.lean` (regenerated on every run by `tools/rs2lean_ugraphfns.py`) contains `shortest_path` as read from
`graph_algorithms.rs` — the two `contains_node` guards, the call `astar(&self.graph, start, |finish| finish == stop, |e| *e.weight(),
|_| 0)` as the parameter `astar self start stop` (petgraph is outside /repo: its answer is external and judged per query by the
proved oracle), the copy of the path into the result — and every mutator of the graph. The statements of `Props/C15.lean` are
repeated here on those generated definitions: for every history *executed by the generated mutators* and every answer of `astar`.
-/
namespace C15Gen
open Spec Spec.DiGraph Spec.ShortestPath Model Model.UGraph Gen.UGraphFns

/-- the generated `shortest_path` never panics on a reachable graph and is the model's `shortestPath` applied to astar's path -/
theorem shortest_path_is_model (ops : List Op) (astar : UGraph → Nat → Nat → Option (Nat × List Nat)) (a b : Nat) :
    let g := (C08Gen.genRun init ops).1
    shortest_path astar g a b = some (g.shortestPath ((astar g a b).map (·.2)) a b) := by
  intro g
  have hwf : Model.UGraph.WF g := C08Gen.c08gen_reachable_wf ops
  exact C08Gen.shortest_path_eq astar hwf a b

/-- **the guards, on the generated definition**: an absent end point yields `None` whatever `astar` would say -/
theorem c15gen_guards (ops : List Op) (astar : UGraph → Nat → Nat → Option (Nat × List Nat)) (a b : Nat) :
    let g := (C08Gen.genRun init ops).1
    (g.containsNode a = false ∨ g.containsNode b = false) → shortest_path astar g a b = some none := by
  intro g h
  rw [shortest_path_is_model ops astar a b]
  exact congrArg some (C15.c15_guards g _ a b h)

/-- **C15, end statement, on the generated definitions.** On every graph reached by any history of generated
add / remove / clear operations, for every ordered pair and whatever `astar` contributes: the generated `shortest_path`
returns (does not panic), and if the oracle accepts its answer then the answer is right — a returned sequence is a real
path from start to stop of minimum total weight between two existing nodes, `None` means an end point is absent or the stop
node is unreachable; conversely every right answer is accepted. -/
theorem c15gen_shortest_path_judged_ok (ops : List Op) (astar : UGraph → Nat → Nat → Option (Nat × List Nat)) (a b : Nat) :
    let g := (C08Gen.genRun init ops).1
    ∃ r, shortest_path astar g a b = some r ∧
      (judge (abs g) a b r = true ↔
        match r with
        | some p => g.containsNode a = true ∧ g.containsNode b = true ∧
            ∃ c, Path (abs g) a b p c ∧ ∀ q c', Path (abs g) a b q c' → c ≤ c'
        | none => ¬ (g.containsNode a = true ∧ g.containsNode b = true) ∨ ∀ q c, ¬ Path (abs g) a b q c) := by
  intro g
  refine ⟨_, shortest_path_is_model ops astar a b, ?_⟩
  have hg : g = (run .repaired init ops).1 := by
    show (C08Gen.genRun init ops).1 = _
    rw [C08Gen.gen_run ops wf_init]
  have := C15.c15_shortest_path_judged_ok ops ((astar g a b).map (·.2)) a b
  simp only [← hg] at this
  exact this

/-- **the choice of `astar` among ties is irrelevant, on the generated definitions.** Two runs of the generated `shortest_path`
on the same reachable graph and query with two different external searches, both accepted by the oracle: both answer a path
or both answer `None`, and two paths have the same total weight. -/
theorem c15gen_astar_choice_irrelevant (ops : List Op) (astar₁ astar₂ : UGraph → Nat → Nat → Option (Nat × List Nat))
    (a b : Nat) (r₁ r₂ : Option (List Nat)) :
    let g := (C08Gen.genRun init ops).1
    shortest_path astar₁ g a b = some r₁ → shortest_path astar₂ g a b = some r₂ →
    judge (abs g) a b r₁ = true → judge (abs g) a b r₂ = true →
      match r₁, r₂ with
      | some p, some q => ∃ c, Path (abs g) a b p c ∧ Path (abs g) a b q c
      | none, none => True
      | _, _ => False := by
  intro g _ _ h₁ h₂
  have hwf : Model.UGraph.WF g := C08Gen.c08gen_reachable_wf ops
  have hs : Spec.DiGraph.WF (abs g) := ⟨hwf.keysNodup, hwf.edgesLive, hwf.edgesOk.nodup⟩
  cases r₁ with
  | none =>
    cases r₂ with
    | none => trivial
    | some q => have := C15.c15_some_none_exclusive (abs g) hs a b q h₂; rw [h₁] at this; cases this
  | some p =>
    cases r₂ with
    | none => have := C15.c15_some_none_exclusive (abs g) hs a b p h₁; rw [h₂] at this; cases this
    | some q => exact C15.c15_accepted_same_weight (abs g) hs a b p q h₁ h₂

/-- **an accepted answer only walks along edges the generated `contains_edge` reports** — on every graph reached by the generated
mutators (so after removals too: a path over a removed edge or through a removed node is never accepted) -/
theorem c15gen_accepted_steps_are_edges (ops : List Op) (a b : Nat) (p : List Nat) :
    let g := (C08Gen.genRun init ops).1
    judge (abs g) a b (some p) = true → ∀ u v, (u, v) ∈ p.zip p.tail → contains_edge g u v = some true := by
  intro g hj u v hm
  have hwf : Model.UGraph.WF g := C08Gen.c08gen_reachable_wf ops
  have hg : g = (run .repaired init ops).1 := by
    show (C08Gen.genRun init ops).1 = _
    rw [C08Gen.gen_run ops wf_init]
  rw [C08Gen.contains_edge_eq hwf]
  have := C15.c15_accepted_steps_are_api_edges ops a b p
  simp only [← hg] at this
  exact congrArg some (this hj u v hm)

/-- non-vacuity: a history with a removal executed by the generated mutators, then a query with an `astar` answer -/
example :
    let g := (C08Gen.genRun init [.addNode 1, .addNode 2, .addNode 3, .addEdgeW 0 1 5, .addEdgeW 1 2 0, .removeNode 1]).1
    shortest_path (fun _ _ _ => some (0, [0, 2])) g 0 1 = some none ∧
    shortest_path (fun _ _ _ => some (0, [0, 2])) g 0 2 = some (some [0, 2]) := by decide

end C15Gen
