import DcVerif.Gen.ReasoningN
import DcVerif.Model.Causaloid
import DcVerif.Props.C02
/-!
# C02 — the graph level of the nested model, tied to the source

`Gen/ReasoningN.lean` is the text of `Gen/Reasoning.lean` (regenerated from `graph_reasoning.rs` on every run) read against
`Model/ReasoningPrimN.lean`, where a node answers `is_singleton()` and `verify_all_causes(..)` itself. Here the nodes are the
causaloids of `Model/Causaloid.lean` (`toNode`: the recursive call into a wrapped collection / graph is the model's
`verifyAll`), and the theorems say that the generated `reason_all_causes` computes `Causal.reasonAllGraph` — the function
`verifyAll` uses for a graph wrapper and every theorem of `Props/C02.lean` speaks about.

Scope (hypotheses, each shown satisfiable below): no node evaluation panics (`Total`: every contextual singleton has its
context, every wrapped structure yields a verdict within the fuel) and the root is a singleton — the generated
definitions' vocabulary has total `verify_single_cause` / `verify_all_causes`; the panicking cases are theorems of
`Props/C02.lean` about the model (`root_wrapper_panics`, …) and are compared by the correspondence run.
-/
namespace C02Gen
open Causal
open Dfs (V)

variable {ε : Type}

/-- a causaloid of the nested model as the graph code sees it -/
def toNode (mk : Nat → Nat) (fuel : Nat) (c : Causaloid) : NestedGraph.Node :=
  { id := c.id, single := c.isSingleton,
    fn := ⟨fun o => (verifySingle mk c o).getD .e⟩,
    va := fun data idx => (verifyAll mk fuel c data idx).getD .e }

def toNG (mk : Nat → Nat) (fuel : Nat) (nodes : List Causaloid) (edges : List (Nat × Nat)) (root : Option Nat) :
    NestedGraph.CG :=
  { nodes := nodes.map (toNode mk fuel), edges := edges, root := root }

/-- a panic and an exhausted fuel are both "no verdict" in the nested model -/
def resV : Option (NestedGraph.Res × List ε) → Option V
  | none => none
  | some (.panic, _) => none
  | some (.err, _) => some .e
  | some (.ok true, _) => some .t
  | some (.ok false, _) => some .f

/-- no node evaluation panics -/
def Total (mk : Nat → Nat) (fuel : Nat) (nodes : List Causaloid) (data : List Nat) (idx : Idx) : Prop :=
  ∀ c ∈ nodes, (c.isSingleton = true → ∀ o, (verifySingle mk c o).isSome = true) ∧
    (c.isSingleton = false → (verifyAll mk fuel c data idx).isSome = true)

theorem get_obs_eq (id : Nat) (data : List Nat) (idx : Idx) : Gen.ReasoningN.get_obs id data idx = getObs id data idx := by
  unfold Gen.ReasoningN.get_obs getObs
  cases idx with
  | none => simp; cases data[id]? <;> rfl
  | some m =>
    simp only
    cases List.lookup id m with
    | none => rfl
    | some n => simp; cases data[n]? <;> rfl

theorem nodeTable_get (mk : Nat → Nat) (fuel : Nat) (nodes : List Causaloid) (data : List Nat) (idx : Idx) (v : Nat) :
    ((nodeTable mk fuel nodes data idx)[v]?).bind id =
      (nodes[v]?).bind (fun c => (getObs c.id data idx).bind (fun o => dispatch mk c (some o) (verifyAll mk fuel c data idx))) := by
  induction nodes generalizing v with
  | nil => simp [nodeTable]
  | cons c cs ih =>
    cases v with
    | zero =>
      simp only [nodeTable, List.getElem?_cons_zero, Option.bind_some, id]
      cases getObs c.id data idx <;> rfl
    | succ v => simpa [nodeTable] using ih v

theorem out_eq (mk : Nat → Nat) (fuel : Nat) (nodes : List Causaloid) (edges : List (Nat × Nat)) (root : Option Nat) (a : Nat) :
    NestedGraph.out (toNG mk fuel nodes edges root) a = outOf nodes.length edges a := by
  simp [NestedGraph.out, toNG, outOf]

/-- the verdict the generated code computes for a fetched node = the model's dispatch, when the evaluation does not panic -/
theorem node_verdict (mk : Nat → Nat) (fuel : Nat) (nodes : List Causaloid) (data : List Nat) (idx : Idx)
    (hT : Total mk fuel nodes data idx) (c : Causaloid) (hc : c ∈ nodes) (o : Nat) :
    dispatch mk c (some o) (verifyAll mk fuel c data idx) =
      some (if (toNode mk fuel c).isSingleton then (toNode mk fuel c).fn.apply o else (toNode mk fuel c).verifyAll data idx) := by
  have h := hT c hc
  cases c with
  | single cell id fn =>
    have := h.1 rfl o
    simp only [dispatch, toNode, NestedGraph.Node.isSingleton, Causaloid.isSingleton, verifySingle, Option.bind_some, if_true] at *
    cases hf : fn.apply mk o <;> simp_all
  | coll id items =>
    have := h.2 rfl
    simp only [dispatch, toNode, NestedGraph.Node.isSingleton, NestedGraph.Node.verifyAll, Causaloid.isSingleton] at *
    cases hv : verifyAll mk fuel (.coll id items) data idx <;> simp_all
  | graph id ns es r =>
    have := h.2 rfl
    simp only [dispatch, toNode, NestedGraph.Node.isSingleton, NestedGraph.Node.verifyAll, Causaloid.isSingleton] at *
    cases hv : verifyAll mk fuel (.graph id ns es r) data idx <;> simp_all

/-- **the generated `while let` loop is the model's `loopO`** — for every fuel, log and stack -/
theorem loop_eq (mkE : Nat → Nat → ε) (mk : Nat → Nat) (fuel : Nat) (nodes : List Causaloid) (edges : List (Nat × Nat))
    (root : Option Nat) (sp : Nat → Nat → Option (List Nat)) (s stop : Nat) (data : List Nat) (idx : Idx)
    (hT : Total mk fuel nodes data idx) :
    ∀ (fl : Nat) (lg : List ε) (stack : List (List Nat)),
      resV (Gen.ReasoningN.reason_from_to_cause.loop1 mkE fuel (toNG mk fuel nodes edges root) sp s stop data idx fl lg stack) =
        loopO (outOf nodes.length edges) (fun v => ((nodeTable mk fuel nodes data idx)[v]?).bind id) stop fl stack := by
  intro fl
  induction fl with
  | zero => intro lg stack; simp [Gen.ReasoningN.reason_from_to_cause.loop1, loopO, resV]
  | succ fl ih =>
    intro lg stack
    match stack with
    | [] => simp [Gen.ReasoningN.reason_from_to_cause.loop1, loopO, resV]
    | [] :: rest => simp only [Gen.ReasoningN.reason_from_to_cause.loop1, loopO]; exact ih lg rest
    | (c :: cs) :: rest =>
      simp only [Gen.ReasoningN.reason_from_to_cause.loop1, loopO, get_obs_eq]
      rw [nodeTable_get mk fuel nodes data idx c]
      cases hn : nodes[c]? with
      | none =>
        have : NestedGraph.getNode (toNG mk fuel nodes edges root) c = none := by simp [NestedGraph.getNode, toNG, hn]
        simp [this, resV]
      | some cz =>
        have hg : NestedGraph.getNode (toNG mk fuel nodes edges root) c = some (toNode mk fuel cz) := by
          simp [NestedGraph.getNode, toNG, hn]
        have hmem : cz ∈ nodes := List.mem_of_getElem? hn
        have hlt : c < nodes.length := by
          rcases List.getElem?_eq_some_iff.1 hn with ⟨h, _⟩; exact h
        have ho : NestedGraph.outEdges (toNG mk fuel nodes edges root) c = some (outOf nodes.length edges c) := by
          simp [NestedGraph.outEdges, NestedGraph.contains, toNG, hlt, ← out_eq mk fuel nodes edges root c]
        have hid : (toNode mk fuel cz).id = cz.id := rfl
        simp only [hg, hid, Option.bind_some]
        cases hob : getObs cz.id data idx with
        | none => simp [resV]
        | some o =>
          simp only [Option.bind_some, node_verdict mk fuel nodes data idx hT cz hmem o]
          by_cases hs : (toNode mk fuel cz).isSingleton = true
          · simp only [hs, if_true]
            cases hv : (toNode mk fuel cz).fn.apply o <;> simp only [ho] <;>
              (first
                | (by_cases hst : c = stop
                   · simp [hst, resV]
                   · simp only [beq_iff_eq, hst, ↓reduceIte]; exact ih _ _)
                | simp [resV])
          · simp only [hs, Bool.false_eq_true, if_false]
            cases hv : (toNode mk fuel cz).verifyAll data idx <;> simp only [ho] <;>
              (first
                | (by_cases hst : c = stop
                   · simp [hst, resV]
                   · simp only [beq_iff_eq, hst, ↓reduceIte]; exact ih _ _)
                | simp [resV])

/-- the model's `reasonGraph` from a given start node (`reason_all_causes` starts at the root) -/
def modelFrom (mk : Nat → Nat) (fuel : Nat) (nodes : List Causaloid) (edges : List (Nat × Nat)) (r : Nat) (data : List Nat)
    (idx : Idx) : Option V :=
  reasonGraph fuel nodes.length edges (some r) data ((nodes[r]?).bind (fun c => startVerdict mk c data idx))
    (nodeTable mk fuel nodes data idx)

/-- the generated `reason_from_to_cause` from `r` to the stop index `reason_all_causes` uses (`get_last_index()`) -/
theorem reason_from_to_cause_eq (mkE : Nat → Nat → ε) (mk : Nat → Nat) (fuel : Nat) (nodes : List Causaloid)
    (edges : List (Nat × Nat)) (root : Option Nat) (sp : Nat → Nat → Option (List Nat)) (r : Nat) (data : List Nat) (idx : Idx)
    (hT : Total mk fuel nodes data idx)
    (hsing : ∀ c, nodes[r]? = some c → c.isSingleton = true)
    (hn0 : nodes.length ≠ 0) :
    resV (Gen.ReasoningN.reason_from_to_cause mkE fuel (toNG mk fuel nodes edges root) sp r nodes.length data idx) =
      modelFrom mk fuel nodes edges r data idx := by
  unfold Gen.ReasoningN.reason_from_to_cause modelFrom reasonGraph
  have hc0 : (NestedGraph.nodeCount (toNG mk fuel nodes edges root) == 0) = false := by
    simp [NestedGraph.nodeCount, toNG, hn0]
  simp only [hc0, Bool.false_eq_true, if_false]
  by_cases hd : data.isEmpty = true
  · simp [hd, resV]
  · simp only [hd, Bool.false_eq_true, if_false]
    by_cases hlt : r < nodes.length
    · have hcont : NestedGraph.contains (toNG mk fuel nodes edges root) r = true := by
        simp [NestedGraph.contains, toNG, hlt]
      have hle : ¬ nodes.length ≤ r := by omega
      obtain ⟨cz, hn⟩ : ∃ cz, nodes[r]? = some cz := ⟨nodes[r], List.getElem?_eq_getElem hlt⟩
      have hg : NestedGraph.getNode (toNG mk fuel nodes edges root) r = some (toNode mk fuel cz) := by
        simp [NestedGraph.getNode, toNG, hn]
      have hmem : cz ∈ nodes := List.mem_of_getElem? hn
      have ho : NestedGraph.outEdges (toNG mk fuel nodes edges root) r = some (outOf nodes.length edges r) := by
        simp [NestedGraph.outEdges, NestedGraph.contains, toNG, hlt, ← out_eq mk fuel nodes edges root r]
      have hid : (toNode mk fuel cz).id = cz.id := rfl
      simp only [hcont, if_true, hle, if_false, hg, hid, get_obs_eq, hn, Option.bind_some, startVerdict]
      cases hob : getObs cz.id data idx with
      | none => simp [resV]
      | some o =>
        have hv := node_verdict mk fuel nodes data idx hT cz hmem o
        have hs' : (toNode mk fuel cz).isSingleton = true := hsing cz hn
        simp only [hs', if_true] at hv
        have hd' : dispatch mk cz (some o) (verifyAll mk fuel cz data idx) = verifySingle mk cz o := by
          have := hsing cz hn
          cases cz <;> simp_all [dispatch, verifySingle, Causaloid.isSingleton]
        rw [hd'] at hv
        simp only [Option.bind_some, hv, ho]
        cases (toNode mk fuel cz).fn.apply o <;> simp only [resV]
        exact loop_eq mkE mk fuel nodes edges root sp r nodes.length data idx hT fuel _ _
    · have hcont : NestedGraph.contains (toNG mk fuel nodes edges root) r = false := by
        simp [NestedGraph.contains, toNG]; omega
      have hle : nodes.length ≤ r := by omega
      simp [hcont, hle, resV]

/-- **`reason_all_causes` of `CausableGraphReasoning`, as generated from the source, computes the model's verdict for a graph
of nested causaloids** — for every graph (any number of nodes, any nesting below them), data set, data index and fuel, when
no node evaluation panics, the root is a singleton and a graph with a root has a node -/
theorem reason_all_causes_eq (mkE : Nat → Nat → ε) (mk : Nat → Nat) (fuel : Nat) (nodes : List Causaloid)
    (edges : List (Nat × Nat)) (root : Option Nat) (sp : Nat → Nat → Option (List Nat)) (data : List Nat) (idx : Idx)
    (hT : Total mk fuel nodes data idx)
    (hroot : ∀ r c, root = some r → nodes[r]? = some c → c.isSingleton = true)
    (hne : root ≠ none → nodes ≠ []) :
    resV (Gen.ReasoningN.reason_all_causes mkE fuel (toNG mk fuel nodes edges root) sp data idx) =
      reasonAllGraph mk fuel nodes edges root data idx := by
  cases root with
  | none => simp [Gen.ReasoningN.reason_all_causes, reasonAllGraph, reasonGraph, toNG, resV]
  | some r =>
    have hn0 : nodes.length ≠ 0 := by
      have := hne (by simp); cases nodes <;> simp_all
    have hl : NestedGraph.lastIndexR (toNG mk fuel nodes edges (some r)) = some nodes.length := by
      simp [NestedGraph.lastIndexR, NestedGraph.nodeCount, toNG, hn0]
    have hr : (toNG mk fuel nodes edges (some r)).root = some r := rfl
    have key := reason_from_to_cause_eq mkE mk fuel nodes edges (some r) sp r data idx hT (fun c hc => hroot r c rfl hc) hn0
    have hm : reasonAllGraph mk fuel nodes edges (some r) data idx = modelFrom mk fuel nodes edges r data idx := by
      simp [reasonAllGraph, modelFrom]
    rw [hm, ← key]
    unfold Gen.ReasoningN.reason_all_causes
    rw [hr]; simp only [hl]
    generalize Gen.ReasoningN.reason_from_to_cause mkE fuel (toNG mk fuel nodes edges (some r)) sp r nodes.length data idx = x
    rcases x with _ | ⟨res, q⟩
    · rfl
    · cases res <;> rfl

/-- hence **`verify_all_causes` of a causaloid that wraps a graph is the generated graph reasoning** over its nodes, whose own
`verify_all_causes` are the model's again: the recursion of the nested model closes through the code read from the source
(collections: `Props/C11Gen.lean`, `reason_all_causes_eq` there) -/
theorem verifyAll_graph_eq (mkE : Nat → Nat → ε) (mk : Nat → Nat) (fuel : Nat) (id : Nat) (nodes : List Causaloid)
    (edges : List (Nat × Nat)) (root : Option Nat) (sp : Nat → Nat → Option (List Nat)) (data : List Nat) (idx : Idx)
    (hT : Total mk fuel nodes data idx)
    (hroot : ∀ r c, root = some r → nodes[r]? = some c → c.isSingleton = true)
    (hne : root ≠ none → nodes ≠ []) :
    verifyAll mk fuel (.graph id nodes edges root) data idx =
      resV (Gen.ReasoningN.reason_all_causes mkE fuel (toNG mk fuel nodes edges root) sp data idx) := by
  rw [reason_all_causes_eq mkE mk fuel nodes edges root sp data idx hT hroot hne]
  simp [verifyAll, reasonAllGraph]

/-- **C02 on the generated definition**: the verdict the generated `reason_all_causes` returns for an acyclic graph of nested
causaloids is `true` exactly when every singleton the nested model contains (transitively, through collections and graphs
below its nodes) evaluates `true` on its routed observation -/
theorem c02gen_graph_true_iff (mkE : Nat → Nat → ε) (mk : Nat → Nat) (fuel : Nat) (id : Nat) (nodes : List Causaloid)
    (edges : List (Nat × Nat)) (root : Option Nat) (sp : Nat → Nat → Option (List Nat)) (data : List Nat) (idx : Idx)
    (hT : Total mk fuel nodes data idx)
    (hroot : ∀ r c, root = some r → nodes[r]? = some c → c.isSingleton = true)
    (hne : root ≠ none → nodes ≠ []) (hac : Spec.Nest.Acyclic (.graph id nodes edges root)) (r : V)
    (h : resV (Gen.ReasoningN.reason_all_causes mkE fuel (toNG mk fuel nodes edges root) sp data idx) = some r) :
    r = .t ↔ ∀ l ∈ Spec.Nest.contained mk (.graph id nodes edges root) data idx, l = some .t := by
  rw [← verifyAll_graph_eq mkE mk fuel id nodes edges root sp data idx hT hroot hne] at h
  exact C02.nested_true_iff mk fuel _ data idx r hac h

/-- … and it never answers `true` when something contained is not `true` -/
theorem c02gen_graph_err_never_true (mkE : Nat → Nat → ε) (mk : Nat → Nat) (fuel : Nat) (id : Nat) (nodes : List Causaloid)
    (edges : List (Nat × Nat)) (root : Option Nat) (sp : Nat → Nat → Option (List Nat)) (data : List Nat) (idx : Idx)
    (hT : Total mk fuel nodes data idx)
    (hroot : ∀ r c, root = some r → nodes[r]? = some c → c.isSingleton = true)
    (hne : root ≠ none → nodes ≠ []) (hac : Spec.Nest.Acyclic (.graph id nodes edges root)) (r : V)
    (h : resV (Gen.ReasoningN.reason_all_causes mkE fuel (toNG mk fuel nodes edges root) sp data idx) = some r)
    (hex : ∃ l ∈ Spec.Nest.contained mk (.graph id nodes edges root) data idx, l ≠ some .t) : r ≠ .t := by
  rw [← verifyAll_graph_eq mkE mk fuel id nodes edges root sp data idx hT hroot hne] at h
  exact C02.nested_err_never_true mk fuel _ data idx r hac h hex

/-! ## non-vacuity: a graph with a wrapper in non-root position, evaluated by the generated definitions -/

/-- root singleton → a collection wrapper of two singletons → a leaf singleton; diamond edge root → leaf -/
def exNodes : List Causaloid :=
  [.single 0 0 .plain, .coll 1 [.single 10 10 .plain, .single 11 11 .inv], .single 2 2 .plain]
def exEdges : List (Nat × Nat) := [(0, 1), (1, 2), (0, 2)]

example : resV (Gen.ReasoningN.reason_all_causes (fun i _ => i) 20 (toNG (fun _ => 0) 20 exNodes exEdges (some 0)) (fun _ _ => none)
    [1, 0, 1] none) = some .t := by decide
example : resV (Gen.ReasoningN.reason_all_causes (fun i _ => i) 20 (toNG (fun _ => 0) 20 exNodes exEdges (some 0)) (fun _ _ => none)
    [1, 1, 1] none) = some .f := by decide
example : reasonAllGraph (fun _ => 0) 20 exNodes exEdges (some 0) [1, 0, 1] none = some .t := by decide
/-- the hypotheses of the theorems above are met by this graph -/
example : Total (fun _ => 0) 20 exNodes [1, 0, 1] none ∧
    (∀ r c, (some 0 : Option Nat) = some r → exNodes[r]? = some c → c.isSingleton = true) := by
  refine ⟨?_, ?_⟩
  · intro c hc
    simp only [exNodes, List.mem_cons, List.not_mem_nil, or_false] at hc
    rcases hc with rfl | rfl | rfl <;> refine ⟨?_, ?_⟩ <;> intro h <;> (try cases h) <;> (try intro o) <;>
      first | (simp [verifySingle, Fn.apply]) | decide
  · intro r c hr hc
    cases hr
    simp [exNodes] at hc
    subst hc; rfl

end C02Gen
