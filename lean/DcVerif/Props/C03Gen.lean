import DcVerif.Gen.Csm
import DcVerif.Props.C03
/-!
# C03, tie to the source: what the translator read = the hand model

`Gen/Csm.lean` is regenerated on every run from the current Rust source of `csm_types/{mod.rs,csm_state.rs,csm_action.rs}`
(`tools/rs2lean_csm.py`: symbolic execution, one definition per Rust function, a `for` loop = an auxiliary recursive definition).
Every theorem `…_eq` / `…_sim` below ties one generated definition to the corresponding function of `Model/Csm.lean` **for all
inputs**: every type of state / action references and data values, every `key` (the id a state carries), every environment (what
each causaloid answers on each data value, which actions fail), every table, every enumeration order of the hash map.
The evaluations and getters are *equal* to the model's. The table operations are tied up to `Same`: run on tables that hold the same
pair under every id (and no id twice) the generated function and the model function answer the same and leave tables that again
hold the same pair under every id — all a `HashMap` lets anybody observe; the position of an entry in the association list is an
artefact of the model (so `remove` + `insert` instead of an in-place `insert` is the same function here). Hence
every theorem of `Props/C03.lean` is a statement about what the translator read; the corollaries `c03gen_*` at the end spell the
headline laws out on the generated definitions themselves.

The proofs unfold the generated decision trees and let `grind` / `simp` case-split on whatever the tree splits on, and go by
induction over the list a loop walks; they do not depend on the text of the generated file beyond the names and parameter lists of
the definitions, so meaning-preserving edits of the Rust source regenerate a different file that still checks.
-/
set_option linter.unusedSimpArgs false   -- the simp sets cover spellings the current source does not use
namespace C03Gen
open Spec.Csm Model.Csm

variable {σ α δ : Type}

/-! ## `CausalState::eval`, `eval_with_data`, `CausalAction::fire`: the environment's functions, one effect each -/

theorem state_eval_eq (key : σ → Nat) (env : Env σ α δ) (s : σ) :
    Gen.Csm.CausalState.eval key env s = (env.eval s (env.stored s), [Ev.call s (env.stored s)]) := by
  unfold Gen.Csm.CausalState.eval; grind

theorem state_eval_with_data_eq (key : σ → Nat) (env : Env σ α δ) (s : σ) (d : δ) :
    Gen.Csm.CausalState.eval_with_data key env s d = (env.eval s d, [Ev.call s d]) := by
  unfold Gen.Csm.CausalState.eval_with_data; grind

theorem action_fire_eq (key : σ → Nat) (env : Env σ α δ) (a : α) :
    Gen.Csm.CausalAction.fire key env a = (env.fire a, [Ev.fire a]) := by
  unfold Gen.Csm.CausalAction.fire; grind

/-! ## map facts the generated text may need (a `remove` whose result is inspected instead of a `get` before it, an `insert`
that is undone, …): handed to `grind` in every proof below -/

theorem delete_of_lookup_none (t : Table σ α) (k : Nat) (h : lookup t k = none) : delete t k = t := by
  induction t with
  | nil => rfl
  | cons e r ih =>
    obtain ⟨j, w⟩ := e
    simp only [lookup] at h
    by_cases hjk : j = k
    · simp [hjk] at h
    · simp only [hjk, if_false] at h
      simp [delete, hjk, ih h]

theorem upsert_of_lookup_some (t : Table σ α) (k : Nat) (v : σ × α) (h : lookup t k = some v) : upsert t k v = t := by
  induction t with
  | nil => simp [lookup] at h
  | cons e r ih =>
    obtain ⟨j, w⟩ := e
    simp only [lookup] at h
    by_cases hjk : j = k
    · simp only [hjk, if_true, Option.some.injEq] at h
      simp [upsert, hjk, h]
    · simp only [hjk, if_false] at h
      simp [upsert, hjk, ih h]

theorem upsert_upsert (t : Table σ α) (k : Nat) (v w : σ × α) : upsert (upsert t k v) k w = upsert t k w := by
  induction t with
  | nil => simp [upsert]
  | cons e r ih =>
    obtain ⟨j, u⟩ := e
    by_cases hjk : j = k
    · simp [upsert, hjk]
    · simp [upsert, hjk, ih]

theorem delete_upsert_of_lookup_none (t : Table σ α) (k : Nat) (v : σ × α) (h : lookup t k = none) :
    delete (upsert t k v) k = t := by
  induction t with
  | nil => simp [upsert, delete]
  | cons e r ih =>
    obtain ⟨j, w⟩ := e
    simp only [lookup] at h
    by_cases hjk : j = k
    · simp [hjk] at h
    · simp only [hjk, if_false] at h
      simp [upsert, delete, hjk, ih h]

/-- unfolds nothing itself: closes a goal about unfolded decision trees by case analysis, with the map facts at hand -/
local macro "csm_crush" : tactic =>
  `(tactic| grind [Out.done, Out.fail, C03.lookup_upsert, C03.lookup_delete, delete_of_lookup_none, upsert_of_lookup_some,
      upsert_upsert, delete_upsert_of_lookup_none])

/-! ## `Same`: what a hash map lets one observe of a table -/

/-- the same pair under every id, and no id twice in either list -/
def Same (t u : Table σ α) : Prop := (∀ j, lookup t j = lookup u j) ∧ (keys t).Nodup ∧ (keys u).Nodup

theorem Same.refl {t : Table σ α} (h : (keys t).Nodup) : Same t t := ⟨fun _ => rfl, h, h⟩

theorem Same.abs_eq {t u : Table σ α} (h : Same t u) : C03.abs t = C03.abs u := funext h.1

theorem Same.length_eq {t u : Table σ α} (h : Same t u) : t.length = u.length := by
  have hp : (keys t).Perm (keys u) := by
    rw [List.perm_ext_iff_of_nodup h.2.1 h.2.2]
    intro k
    rw [C03.mem_keys_iff, C03.mem_keys_iff, h.1 k]
  simpa [keys] using hp.length_eq

/-- closes `Same _ _ ∧ outcome = outcome` goals about unfolded decision trees: case analysis, `lookup` through `upsert` / `delete`,
duplicate-freeness through `upsert` / `delete` -/
local macro "same_crush" : tactic =>
  `(tactic| grind [Out.done, Out.fail, C03.lookup_upsert, C03.lookup_delete, C03.nodup_upsert, C03.nodup_delete])

/-! ## the table operations -/

theorem new_loop_sim (key : σ → Nat) (env : Env σ α δ) (l0 l : List (σ × α)) {m m' : Table σ α} (h : Same m m') :
    Same (Gen.Csm.new.loop1 key env l0 m l) (l.foldl (fun t sa => upsert t (key sa.1) sa) m') := by
  induction l generalizing m m' with
  | nil => simpa [Gen.Csm.new.loop1] using h
  | cons x r ih =>
    rw [Gen.Csm.new.loop1, List.foldl_cons]
    apply ih
    obtain ⟨hl, hn, hn'⟩ := h
    unfold Same
    same_crush

theorem new_sim (key : σ → Nat) (env : Env σ α δ) (l : List (σ × α)) :
    Same (Gen.Csm.new key env l) (ofSlice key l) := by
  unfold Gen.Csm.new ofSlice
  exact new_loop_sim key env l l (Same.refl (by simp [keys]))

theorem len_eq (key : σ → Nat) (env : Env σ α δ) (t : Table σ α) : Gen.Csm.len key env t = Model.Csm.len t := by
  simp [Gen.Csm.len, Model.Csm.len]

theorem is_empty_eq (key : σ → Nat) (env : Env σ α δ) (t : Table σ α) :
    Gen.Csm.is_empty key env t = Model.Csm.isEmpty t := by
  unfold Gen.Csm.is_empty Model.Csm.isEmpty
  cases t <;> simp [Gen.Csm.len]

theorem add_single_state_sim (key : σ → Nat) (env : Env σ α δ) {t u : Table σ α} (h : Same t u) (k : Nat) (v : σ × α) :
    Same (Gen.Csm.add_single_state key env t k v).1 (addSingle (δ := δ) u k v).1 ∧
    (Gen.Csm.add_single_state key env t k v).2 = (addSingle u k v).2 := by
  obtain ⟨hl, hn, hn'⟩ := h
  unfold Gen.Csm.add_single_state addSingle Same
  same_crush

theorem update_single_state_sim (key : σ → Nat) (env : Env σ α δ) {t u : Table σ α} (h : Same t u) (k : Nat) (v : σ × α) :
    Same (Gen.Csm.update_single_state key env t k v).1 (updateSingle (δ := δ) u k v).1 ∧
    (Gen.Csm.update_single_state key env t k v).2 = (updateSingle u k v).2 := by
  obtain ⟨hl, hn, hn'⟩ := h
  unfold Gen.Csm.update_single_state updateSingle Same
  same_crush

theorem remove_single_state_sim (key : σ → Nat) (env : Env σ α δ) {t u : Table σ α} (h : Same t u) (k : Nat) :
    Same (Gen.Csm.remove_single_state key env t k).1 (removeSingle (δ := δ) u k).1 ∧
    (Gen.Csm.remove_single_state key env t k).2 = (removeSingle u k).2 := by
  obtain ⟨hl, hn, hn'⟩ := h
  unfold Gen.Csm.remove_single_state removeSingle Same
  same_crush

theorem update_all_loop_sim (key : σ → Nat) (env : Env σ α δ) (t : Table σ α) (l0 l : List (σ × α)) {m m' : Table σ α}
    (h : Same m m') :
    Same (Gen.Csm.update_all_states.loop1 key env t l0 m l).1 (l.foldl (fun t sa => upsert t (key sa.1) sa) m') ∧
    (Gen.Csm.update_all_states.loop1 key env t l0 m l).2 = (Out.done : Out σ α δ) := by
  induction l generalizing m m' with
  | nil => simpa [Gen.Csm.update_all_states.loop1, Out.done] using h
  | cons x r ih =>
    rw [Gen.Csm.update_all_states.loop1, List.foldl_cons]
    apply ih
    obtain ⟨hl, hn, hn'⟩ := h
    unfold Same
    same_crush

theorem update_all_states_sim (key : σ → Nat) (env : Env σ α δ) (t : Table σ α) (l : List (σ × α)) :
    Same (Gen.Csm.update_all_states key env t l).1 (ofSlice key l) ∧
    (Gen.Csm.update_all_states key env t l).2 = (Out.done : Out σ α δ) := by
  unfold Gen.Csm.update_all_states ofSlice
  exact update_all_loop_sim key env t l l (Same.refl (by simp [keys]))

/-! ## the evaluations -/

theorem eval_single_state_eq (key : σ → Nat) (env : Env σ α δ) (t : Table σ α) (k : Nat) (d : δ) :
    Gen.Csm.eval_single_state key env t k d = (t, evalSingle env t k d) := by
  unfold Gen.Csm.eval_single_state evalSingle evalEntry
  csm_crush

/-- the loop of the hand model's `evalAll`, over the entries instead of over the ids -/
def evalEntries (env : Env σ α δ) : List (Nat × (σ × α)) → Out σ α δ
  | [] => ⟨true, []⟩
  | e :: rest =>
    let o := evalEntry env e.2.1 e.2.2 (env.stored e.2.1)
    if o.ok then
      let r := evalEntries env rest
      ⟨r.ok, o.log ++ r.log⟩
    else o

theorem evalAll_eq_evalEntries (env : Env σ α δ) (t : Table σ α) (order : List Nat) :
    Model.Csm.evalAll env t order = evalEntries env (entries t order) := by
  induction order with
  | nil => rfl
  | cons k rest ih =>
    cases h : lookup t k with
    | none => simp [Model.Csm.evalAll, entries, h] at ih ⊢; exact ih
    | some sa =>
      obtain ⟨s, a⟩ := sa
      simp [Model.Csm.evalAll, entries, h, evalEntries] at ih ⊢
      rw [ih]

theorem eval_all_loop_eq (key : σ → Nat) (env : Env σ α δ) (order : List Nat) (t : Table σ α)
    (lg : List (Ev σ α δ)) (l : List (Nat × (σ × α))) :
    Gen.Csm.eval_all_states.loop1 key env order t lg l =
      (t, ⟨(evalEntries env l).ok, lg ++ (evalEntries env l).log⟩) := by
  induction l generalizing lg with
  | nil => simp [Gen.Csm.eval_all_states.loop1, evalEntries]
  | cons x r ih =>
    unfold Gen.Csm.eval_all_states.loop1 evalEntries evalEntry
    grind

theorem eval_all_states_eq (key : σ → Nat) (env : Env σ α δ) (order : List Nat) (t : Table σ α) :
    Gen.Csm.eval_all_states key env order t = (t, Model.Csm.evalAll env t order) := by
  simp [Gen.Csm.eval_all_states, eval_all_loop_eq, evalAll_eq_evalEntries]

/-- the model's evaluations see the table through `lookup` only -/
theorem evalSingle_congr (env : Env σ α δ) {t u : Table σ α} (h : ∀ j, lookup t j = lookup u j) (k : Nat) (d : δ) :
    evalSingle env t k d = evalSingle env u k d := by
  unfold evalSingle; rw [h k]

theorem evalAll_congr (env : Env σ α δ) {t u : Table σ α} (h : ∀ j, lookup t j = lookup u j) (order : List Nat) :
    Model.Csm.evalAll env t order = Model.Csm.evalAll env u order := by
  induction order with
  | nil => rfl
  | cons k rest ih => simp only [Model.Csm.evalAll, h k, ih]

/-! ## the laws of `Props/C03.lean`, on the generated definitions -/

/-- one call, dispatched to the generated definitions (`env0`: the table operations take an environment and ignore it) -/
def genStep (key : σ → Nat) (env0 : Env σ α δ) (t : Table σ α) : Op σ α δ → Table σ α × Out σ α δ
  | .new l => (Gen.Csm.new key env0 l, .done)
  | .updateAll l => Gen.Csm.update_all_states key env0 t l
  | .add k s a => Gen.Csm.add_single_state key env0 t k (s, a)
  | .remove k => Gen.Csm.remove_single_state key env0 t k
  | .update k s a => Gen.Csm.update_single_state key env0 t k (s, a)
  | .evalSingle env k d => Gen.Csm.eval_single_state key env t k d
  | .evalAll env order => Gen.Csm.eval_all_states key env order t

/-- a history on the generated definitions, oldest call first -/
def genRun (key : σ → Nat) (env0 : Env σ α δ) (t : Table σ α) : List (Op σ α δ) → Table σ α × List (Out σ α δ)
  | [] => (t, [])
  | op :: rest =>
    let r := genStep key env0 t op
    let rr := genRun key env0 r.1 rest
    (rr.1, r.2 :: rr.2)

/-- every generated call answers what the model answers and keeps the tables `Same` -/
theorem genStep_sim (key : σ → Nat) (env0 : Env σ α δ) {t u : Table σ α} (h : Same t u) (op : Op σ α δ) :
    Same (genStep key env0 t op).1 (Model.Csm.step key u op).1 ∧
    (genStep key env0 t op).2 = (Model.Csm.step key u op).2 := by
  cases op with
  | new l => exact ⟨new_sim key env0 l, rfl⟩
  | updateAll l => exact update_all_states_sim key env0 t l
  | add k s a => exact add_single_state_sim key env0 h k (s, a)
  | remove k => exact remove_single_state_sim key env0 h k
  | update k s a => exact update_single_state_sim key env0 h k (s, a)
  | evalSingle env k d =>
    simp only [genStep, Model.Csm.step, eval_single_state_eq]
    exact ⟨h, evalSingle_congr env h.1 k d⟩
  | evalAll env order =>
    simp only [genStep, Model.Csm.step, eval_all_states_eq]
    exact ⟨h, evalAll_congr env h.1 order⟩

theorem genRun_sim (key : σ → Nat) (env0 : Env σ α δ) (ops : List (Op σ α δ)) {t u : Table σ α} (h : Same t u) :
    Same (genRun key env0 t ops).1 (Model.Csm.run key u ops).1 ∧
    (genRun key env0 t ops).2 = (Model.Csm.run key u ops).2 := by
  induction ops generalizing t u with
  | nil => exact ⟨h, rfl⟩
  | cons op rest ih =>
    obtain ⟨h1, h2⟩ := genStep_sim key env0 h op
    obtain ⟨i1, i2⟩ := ih h1
    exact ⟨i1, by simp only [genRun, Model.Csm.run, h2, i2]⟩

/-- **C03 on the generated definitions, the table is a map, every history**: the table the generated code ends with denotes
the map of the specification, and every call answered what the specification prescribes -/
theorem c03gen_run_refines_map (key : σ → Nat) (env0 : Env σ α δ) (ops : List (Op σ α δ)) (t : Table σ α)
    (hn : (keys t).Nodup) :
    C03.abs (genRun key env0 t ops).1 = (Spec.Csm.run key (C03.abs t) ops).1 ∧
    (genRun key env0 t ops).2 = (Spec.Csm.run key (C03.abs t) ops).2 := by
  obtain ⟨h1, h2⟩ := genRun_sim key env0 ops (Same.refl hn)
  rw [h1.abs_eq, h2]; exact C03.c03_run_refines_map key ops t

/-- a generated call that returns `Err` leaves every id as it was; the evaluations never change the table -/
theorem c03gen_failed_call_unchanged (key : σ → Nat) (env0 : Env σ α δ) (t : Table σ α) (hn : (keys t).Nodup)
    (op : Op σ α δ) :
    ((genStep key env0 t op).2.ok = false → Same (genStep key env0 t op).1 t) ∧
    (∀ (env : Env σ α δ) k d, (Gen.Csm.eval_single_state key env t k d).1 = t) ∧
    (∀ (env : Env σ α δ) order, (Gen.Csm.eval_all_states key env order t).1 = t) := by
  refine ⟨fun hf => ?_, fun env k d => by rw [eval_single_state_eq], fun env order => by rw [eval_all_states_eq]⟩
  obtain ⟨h1, h2⟩ := genStep_sim key env0 (Same.refl hn) op
  rw [h2] at hf
  rw [(C03.c03_failed_call_unchanged key t op).1 hf] at h1
  exact h1

/-- **single evaluation, generated**: if `k` holds `(s, a)`, the causaloid of `s` is evaluated exactly once on the supplied data, the
actions fired are `[a]` iff the verdict is `Ok(true)`, and the call succeeds iff the verdict is `Ok(false)` or the fired action succeeded -/
theorem c03gen_evalSingle_fires_iff (key : σ → Nat) (env : Env σ α δ) (t : Table σ α) (k : Nat) (d : δ) (s : σ) (a : α)
    (h : lookup t k = some (s, a)) :
    (Gen.Csm.eval_single_state key env t k d).2.calls = [(s, d)] ∧
    (Gen.Csm.eval_single_state key env t k d).2.fired = (if env.eval s d = .okTrue then [a] else []) ∧
    ((Gen.Csm.eval_single_state key env t k d).2.ok = true ↔
      env.eval s d = .okFalse ∨ (env.eval s d = .okTrue ∧ env.fire a = true)) := by
  rw [eval_single_state_eq]; exact C03.c03_evalSingle_fires_iff env t k d s a h

/-- **`eval_all_states` succeeded, generated**, for every enumeration order of the registered ids -/
theorem c03gen_evalAll_ok_fires_exactly (key : σ → Nat) (env : Env σ α δ) (t : Table σ α) (order : List Nat)
    (hn : (keys t).Nodup) (hp : order.Perm (keys t))
    (hok : (Gen.Csm.eval_all_states key env order t).2.ok = true) :
    (∀ e ∈ t, healthy env e.2 = true) ∧
    (Gen.Csm.eval_all_states key env order t).2.fired.Perm (((t.map (·.2)).filter (triggered env)).map (·.2)) ∧
    (Gen.Csm.eval_all_states key env order t).2.calls.Perm (t.map (fun e => (e.2.1, env.stored e.2.1))) := by
  rw [eval_all_states_eq] at hok ⊢
  have := C03.c03_evalAll_ok_fires_exactly env t order hn hp hok
  exact ⟨this.1, this.2.2.1, this.2.2.2⟩

/-- **`eval_all_states` failed, generated**: a healthy prefix, then the first pair whose evaluation or action failed, nothing after -/
theorem c03gen_evalAll_err_prefix (key : σ → Nat) (env : Env σ α δ) (t : Table σ α) (order : List Nat)
    (herr : (Gen.Csm.eval_all_states key env order t).2.ok = false) :
    ∃ pre bad post, order.filterMap (C03.abs t) = pre ++ bad :: post ∧
      (∀ p ∈ pre, healthy env p = true) ∧ healthy env bad = false ∧
      (Gen.Csm.eval_all_states key env order t).2.log = logOf env (pre ++ [bad]) := by
  rw [eval_all_states_eq] at herr ⊢
  obtain ⟨pre, bad, post, h1, h2, h3, h4, _⟩ := C03.c03_evalAll_err_prefix env t order herr
  exact ⟨pre, bad, post, h1, h2, h3, h4⟩

/-- **`len`, generated**: after every history of generated calls `len` is the number of ids the specification map is defined on -/
theorem c03gen_len_counts_registered (key : σ → Nat) (env0 : Env σ α δ) (ops : List (Op σ α δ)) (cands : List Nat)
    (hc : ∀ k, ((Spec.Csm.run key Map.empty ops).1 k).isSome = true → k ∈ cands) :
    Gen.Csm.len key env0 (genRun key env0 [] ops).1 = (domain (Spec.Csm.run key Map.empty ops).1 cands).length := by
  have hs := (genRun_sim key env0 ops (Same.refl (t := ([] : Table σ α)) (by simp [keys]))).1
  rw [len_eq, Model.Csm.len, hs.length_eq]
  exact (C03.c03_len_counts_registered key ops).2.2.2 cands hc

/-! ## non-vacuity: the generated definitions on the concrete machine of `Props/C03.lean` -/
example : (genRun (fun s => s) C03.exEnv [] C03.exOps).2.map (·.ok) = [true, true, false, true, true, false, true] := by
  decide
example : (Gen.Csm.eval_all_states (fun s => s) C03.exEnv [4, 3, 5] (genRun (fun s => s) C03.exEnv [] C03.exOps).1).2 =
    ⟨false, [.call 4 4, .fire 40, .call 7 7, .fire 70, .call 1 1, .fire 7]⟩ := by decide

end C03Gen
