import DcVerif.Model.Ring
namespace C13
theorem placeholder : True := trivial
end C13
