import DcVerif.Lemmas.Ring
import DcVerif.Props.C04
import DcVerif.Lemmas.RingMulti
import DcVerif.Lemmas.RingMultiPay
/-!
# C13 — a later barrier stage sees an event only after the previous stage finished it (single-producer pipelines)

For every ring size, topology, batch list, wait strategy and **every schedule** (`Reachable`):

* `c13_stage_order` — when a handler of stage `k+1` is about to be invoked for sequence `i`, every handler of stage `k` has
  already *published* a cursor ≥ `i`; a cursor is published only after the whole batch was handled, so `i` is in that
  handler's log (it has returned from handling `i`).
* `c13_chain` — handler cursors are ordered along the stages: stage `k+1` never runs ahead of stage `k`, stage 0 never
  ahead of the producer cursor.
* `c13_producer_gated_by_last_stage` / `c13_no_stage_lapped` — the producer only reads the last stage's cursors, yet while
  it writes sequence `w` *every* handler of *every* stage that is handling `i` satisfies `i < w < i + n`.

* `c13_sees_earlier_modifications` — on the slot layer (`Model/RingPay.lean`): what a handler of stage `k+1` is handed for a
  sequence is what stage `k` was handed, with stage `k`'s mutable handler (if it has one) applied — it observes all
  modifications of the previous stage. That the accesses are also *ordered* (happens-before) is R2 of C05.
* `c13_multi_sees_earlier_modifications`, `c13_multi_sees_previous_stage` — the same on the slot layer of the multi-producer
  pipeline (`Model/RingMultiPay.lean`; ring sizes `2^e`, any number of writer threads, every schedule); the second form does
  not mention the written value: stage `k+1` saw what every handler of stage `k` saw, with stage `k`'s mutable handler applied.
-/
namespace C13
open Ring

/-- consumer-side fact, independent of the kind of producer -/
theorem stage_order_of_inv (s : St) (hI : Ring.Inv s) (k j : Nat) (hk : k + 1 < s.K) (hj : j < s.h (k + 1))
    (hpc : (s.cons (k + 1) j).pc = .handle) (hi : (s.cons (k + 1) j).i ≤ (s.cons (k + 1) j).avail)
    (j' : Nat) (hj' : j' < s.h k) :
    (s.cons (k + 1) j).i ≤ (s.cons k j').cur ∧ (s.cons (k + 1) j).i ∈ (s.cons k j').log := by
  have hc := hI.2 (k + 1) j hk hj
  have hav := hc.availLe (by simp [hpc]) j' (by simpa [ndeps] using hj')
  simp only [dep, Nat.add_one_ne_zero, if_false, Nat.add_sub_cancel] at hav
  have hge := hc.iGe hpc
  have hne := hc.nextEq (by simp [hpc])
  have hle : (s.cons (k + 1) j).i ≤ (s.cons k j').cur := by omega
  refine ⟨hle, ?_⟩
  -- the earlier-stage handler's log contains 1 … (its progress) ⊇ 1 … cur
  have hc' := hI.2 k j' (by omega) hj'
  have hpos : 1 ≤ (s.cons (k + 1) j).i := by omega
  by_cases h1 : (s.cons k j').pc = .handle
  · rw [hc'.logH h1]
    have := (hc'.curAvail (by simp [h1])).1
    have := hc'.nextEq (by simp [h1])
    have := hc'.iGe h1
    simp only [List.mem_range'_1]; omega
  · by_cases h2 : (s.cons k j').pc = .publish
    · rw [hc'.logP h2]
      have := hc'.curAvail (by simp [h2])
      simp only [List.mem_range'_1]; omega
    · rw [hc'.logO h1 h2]
      simp only [List.mem_range'_1]; omega

theorem c13_stage_order {x : PSt} (hr : Reachable x) (k j : Nat) (hk : k + 1 < x.s.K) (hj : j < x.s.h (k + 1))
    (hpc : (x.s.cons (k + 1) j).pc = .handle) (hi : (x.s.cons (k + 1) j).i ≤ (x.s.cons (k + 1) j).avail)
    (j' : Nat) (hj' : j' < x.s.h k) :
    (x.s.cons (k + 1) j).i ≤ (x.s.cons k j').cur ∧ (x.s.cons (k + 1) j).i ∈ (x.s.cons k j').log :=
  stage_order_of_inv x.s (reachable_inv hr).1 k j hk hj hpc hi j' hj'

/-- the same for pipelines fed by the multi-producer sequencer (any number of writer threads, every schedule) -/
theorem c13_multi_stage_order {x : RingMulti.MSt} (hr : RingMulti.MReachableWF x) (k j : Nat) (hk : k + 1 < x.s.K)
    (hj : j < x.s.h (k + 1)) (hpc : (x.s.cons (k + 1) j).pc = .handle)
    (hi : (x.s.cons (k + 1) j).i ≤ (x.s.cons (k + 1) j).avail) (j' : Nat) (hj' : j' < x.s.h k) :
    (x.s.cons (k + 1) j).i ≤ (x.s.cons k j').cur ∧ (x.s.cons (k + 1) j).i ∈ (x.s.cons k j').log :=
  stage_order_of_inv x.s (RingMulti.mreachableWF_good hr).2.1 k j hk hj hpc hi j' hj'

theorem c13_chain {x : PSt} (hr : Reachable x) (k j j' : Nat) (hk : k + 1 < x.s.K) (hj : j < x.s.h (k + 1))
    (hj' : j' < x.s.h k) : (x.s.cons (k + 1) j).cur ≤ (x.s.cons k j').cur ∧ (x.s.cons k j').cur ≤ x.s.cursor := by
  obtain ⟨hI, hK, hP, hb⟩ := reachable_inv hr
  have := (hI.2 (k + 1) j hk hj).curDep j' (by simpa [ndeps] using hj')
  simp only [dep, Nat.add_one_ne_zero, if_false, Nat.add_sub_cancel] at this
  exact ⟨this, chain_up x.s hI k j' (by omega) hj'⟩

/-- the producer's gate reads the cursors of the last stage only (`ngate`/`gate` of the model are the builder's wiring) … -/
theorem c13_producer_gated_by_last_stage (s : St) (d : Nat) :
    gate s d = (s.cons (s.K - 1) d).cur ∧ ngate s = s.h (s.K - 1) := ⟨rfl, rfl⟩

/-- … and that suffices: no stage is ever lapped -/
theorem c13_no_stage_lapped {x : PSt} (hr : Reachable x) (hw : x.p.pc = .write) (hww : x.p.w ≤ x.p.stop)
    (k j : Nat) (hk : k < x.s.K) (hj : j < x.s.h k)
    (hc : (x.s.cons k j).pc = .handle) (hi : (x.s.cons k j).i ≤ (x.s.cons k j).avail) :
    (x.s.cons k j).i < x.p.w ∧ x.p.w < (x.s.cons k j).i + x.s.n :=
  no_lap x (reachable_inv hr) hw hww k j hk hj hc hi

/-- a handler of stage `k+1` observes exactly the modifications made by stage `k` (and, through it, by all earlier stages) -/
theorem c13_sees_earlier_modifications {c : RingPay.PCfg} {s : RingPay.PaySt} (hr : C04.PayReachable c s) (k j : Nat)
    (hk : k + 1 < s.x.s.K) (hj : j < s.x.s.h (k + 1)) (e : Nat × Nat) (he : e ∈ s.seen (k + 1) j) :
    e.2 = (if c.mutH k 0 then c.tf k 0 (RingPay.expectBelow c k (c.pay e.1)) else RingPay.expectBelow c k (c.pay e.1)) := by
  have := C04.c04_payload_intact hr (k + 1) j hk hj e he
  simpa [RingPay.expectBelow] using this

/-! non-vacuity: a two-stage pipeline in which the second stage is inside a batch -/
def demo : PSt := runX (mk 4 2 (fun _ => 1) false [2, 1])
  ((List.replicate 11 Tid.prod) ++ (List.replicate 8 (Tid.cons 0 0)) ++ (List.replicate 4 (Tid.cons 1 0)))

example : (demo.s.cons 1 0).pc = .handle ∧ (demo.s.cons 1 0).i = 1 ∧ (demo.s.cons 1 0).avail = 2 ∧
    (demo.s.cons 0 0).cur = 2 ∧ (demo.s.cons 0 0).log = [1, 2] := by decide +kernel

/-! ## observation of the earlier stages' modifications, multi-producer pipelines (slot layer `Model/RingMultiPay.lean`) -/
section MultiPayload
open RingMulti RingPay RingMultiPay

/-- a handler of stage `k+1` observes exactly the modifications made by stage `k` (and, through it, by all earlier stages) to
the value written for the sequence (`val`: the value of the one slot write of that sequence, `C04.c04_multi_written_once`) —
every ring size `2^e`, topology with mutable handlers alone in their stage, number of writers, batch lists, every schedule -/
theorem c13_multi_sees_earlier_modifications {c : MPCfg} {s : MPaySt} (hr : C04.MPayReachable c s) (k j : Nat)
    (hk : k + 1 < s.x.s.K) (hj : j < s.x.s.h (k + 1)) (e : Nat × Nat) (he : e ∈ s.seen (k + 1) j) :
    e.2 = (if c.mutH k 0 then c.tf k 0 (expectBelow c.hc k (s.val e.1)) else expectBelow c.hc k (s.val e.1)) := by
  have := C04.c04_multi_payload_intact_val hr (k + 1) j hk hj e he
  simp only [expectBelow, hc_mutH, hc_tf] at this
  exact this

/-- the same without reference to the written value: whatever a handler of stage `k+1` was handed for a sequence, *every*
handler of stage `k` was handed that sequence too, and the later stage saw what the earlier stage saw with the earlier stage's
mutable handler (if it has one) applied — nothing else happened to the event in between -/
theorem c13_multi_sees_previous_stage {c : MPCfg} {s : MPaySt} (hr : C04.MPayReachable c s) (k j : Nat)
    (hk : k + 1 < s.x.s.K) (hj : j < s.x.s.h (k + 1)) (e : Nat × Nat) (he : e ∈ s.seen (k + 1) j)
    (j' : Nat) (hj' : j' < s.x.s.h k) :
    ∃ v, (e.1, v) ∈ s.seen k j' ∧ e.2 = (if c.mutH k 0 then c.tf k 0 v else v) := by
  have hg := C04.mpayReachable_good hr
  have hI := hg.safe.1.1.1.2.1
  -- `e.1` is in the log of the later handler, hence at most its progress, hence at most the earlier handler's cursor
  have hlog : e.1 ∈ (s.x.s.cons (k + 1) j).log := by
    rw [← hg.seen (k + 1) j]; exact List.mem_map.2 ⟨e, he, rfl⟩
  obtain ⟨hpre, _⟩ := C04.log_prefix_of_inv s.x.s hI (k + 1) j hk hj
  rw [hpre, List.mem_range'_1] at hlog
  have hle := progress_le_earlier_cur s.x.s hI 0 (k + 1) k j j' (by omega) hk hj hj'
  have hmem : e.1 ∈ (s.x.s.cons k j').log :=
    mem_log_of_le_cur s.x.s hI k j' (by omega) hj' e.1 hlog.1 (by
      have : C04.progress (s.x.s.cons (k + 1) j) = RingPay.progress (s.x.s.cons (k + 1) j) := rfl
      omega)
  rw [← hg.seen k j'] at hmem
  obtain ⟨e', he', hfst⟩ := List.mem_map.1 hmem
  have h1 := C04.c04_multi_payload_intact_val hr k j' (by omega) hj' e' he'
  have h2 := c13_multi_sees_earlier_modifications hr k j hk hj e he
  refine ⟨e'.2, ?_, ?_⟩
  · rw [← hfst]; exact he'
  · rw [h2, h1, hfst]

/-- non-vacuity: the run of `C04.demoMPay` (two writers, interleaved writes, the ring wraps) -/
example : (5, 3006) ∈ C04.demoMPay.seen 1 0 ∧ (5, 1002) ∈ C04.demoMPay.seen 0 0 ∧
    C04.demoMCfg.mutH 0 0 = true ∧ C04.demoMCfg.tf 0 0 1002 = 3006 := by decide +kernel

end MultiPayload

end C13
