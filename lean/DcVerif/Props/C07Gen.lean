import DcVerif.Lemmas.Window
/-!
# C07, the tie to the source: what the *generated* storage functions do on a state that represents a history

`Gen/Window.lean` is regenerated from `dcl_data_structures/src/window_type/**` on every check run
(`tools/rs2lean_window.py`). The theorems below are about those generated definitions, for every state that satisfies
the representation invariant `Inv n c w xs` ("`w` is a window of size `n` in `c` cells after the pushes `xs`"), for every
element type and element size `tsz`:

* every `push` returns normally (no `.panic`, no `.ub`) with the canonical next state `next n c w xs v`
  (today's safe vector storage only while it has room: defect F1);
* every accessor returns the specification's answer for the history `xs`.

They are proved by case analysis over the generated decision trees (`grind` / `omega`), not by matching their text, so
that a rewrite of the Rust code that keeps the behaviour on represented states keeps them provable.
`Props/C07.lean` lifts them to all histories.
-/
namespace C07
open Spec.Window Model.Window Lemmas.Window Gen.Window

variable {α : Type}

/-- `get_slice` of the storage a `SlidingWindow` of kind `k` holds (not reachable through `SlidingWindow` itself) -/
def getSlice (k : Kind) (w : St α) : Out (List α) :=
  match k with
  | .arr => arrGetSlice w
  | .vec => vecGetSlice w
  | .uarr => uarrGetSlice w
  | .uvec => uvecGetSlice w
  | .vecFixed => vecFixedGetSlice w

/-- Unfold the dispatch functions and every generated storage function that can occur in them, and the
specification's answers. Only names that exist for *every* source the translator accepts are listed: the dispatch and,
per storage, the methods of `trait WindowStorage` (required ones and the instantiated default methods). Private
helpers of a storage (`rewind`, an inherent `filled`, whatever a refactoring extracts) are inlined by the translator
at their call sites, so no theorem has to know their names, and whether a function takes `tsz` (it does when its
body reaches `size_of::<T>()`) is invisible here because every statement is about the dispatch, which always does. -/
macro "unfold_gen" : tactic => `(tactic| simp only [
    Gen.Window.push, Gen.Window.first, Gen.Window.last, Gen.Window.size, Gen.Window.empty, Gen.Window.filled,
    Gen.Window.slice, Gen.Window.vec, Gen.Window.arr,
    arrPush, arrFirst, arrLast, arrTail, arrSize, arrGetSlice, arrFilled, arrEmpty, arrArr, arrSlice, arrVec,
    vecPush, vecFirst, vecLast, vecTail, vecSize, vecGetSlice, vecFilled, vecEmpty, vecArr, vecSlice, vecVec,
    uarrPush, uarrFirst, uarrLast, uarrTail, uarrSize, uarrGetSlice, uarrFilled, uarrEmpty, uarrArr, uarrSlice, uarrVec,
    uvecPush, uvecFirst, uvecLast, uvecTail, uvecSize, uvecGetSlice, uvecFilled, uvecEmpty, uvecArr, uvecSlice, uvecVec,
    vecFixedPush, vecFixedFirst, vecFixedLast, vecFixedTail, vecFixedSize, vecFixedGetSlice, vecFixedFilled,
    vecFixedEmpty, vecFixedArr, vecFixedSlice, vecFixedVec,
    getSlice, Spec.Window.empty, Spec.Window.filled, Spec.Window.first, Spec.Window.last, Spec.Window.view,
    Model.Window.ofSpec, next, appended, rewound])

/-! ## push

Stated about the dispatch `push k tsz`, i.e. about the *result* of the generated function on a represented state,
whatever the decision tree that computes it looks like (how the rewind computes its source index, in how many copies
it moves the window, whether `head` is updated by a branch, a saturating difference or a cast flag). -/

theorem gen_push_arr {n c : Nat} (tsz : Nat) (w : St α) (xs : List α) (v : α) (h : Inv n c w xs) :
    push .arr tsz w v = .ok (next n c w xs v) := by
  have ⟨hsz, hcp, h1, h2, h3, h4, h5, h6, h7⟩ := h
  have hf := inv_full_of_tail_cap h
  unfold_gen
  grind [memmove_length]

theorem gen_push_uarr {n c : Nat} (tsz : Nat) (w : St α) (xs : List α) (v : α) (h : Inv n c w xs) :
    push .uarr tsz w v = .ok (next n c w xs v) := by
  have ⟨hsz, hcp, h1, h2, h3, h4, h5, h6, h7⟩ := h
  have hf := inv_full_of_tail_cap h
  unfold_gen
  grind [memmove_length]

theorem gen_push_uvec {n c : Nat} (tsz : Nat) (w : St α) (xs : List α) (v : α) (h : Inv n c w xs) (h2n : 2 * n ≤ c) :
    push .uvec tsz w v = .ok (next n c w xs v) := by
  have ⟨hsz, hcp, h1, h2, h3, h4, h5, h6, h7⟩ := h
  have hf := inv_full_of_tail_cap h
  unfold_gen
  grind [memmove_length]

theorem gen_push_vecFixed {n c : Nat} (tsz : Nat) (w : St α) (xs : List α) (v : α) (h : Inv n c w xs) :
    push .vecFixed tsz w v = .ok (next n c w xs v) := by
  have ⟨hsz, hcp, h1, h2, h3, h4, h5, h6, h7⟩ := h
  have hf := inv_full_of_tail_cap h
  unfold_gen
  grind [memmove_length]

/-- today's safe vector storage agrees with the others as long as its fast path is taken -/
theorem gen_push_vec_room {n c : Nat} (tsz : Nat) (w : St α) (xs : List α) (v : α) (h : Inv n c w xs)
    (hroom : w.tail < c) :
    push .vec tsz w v = .ok (next n c w xs v) := by
  have ⟨hsz, hcp, h1, h2, h3, h4, h5, h6, h7⟩ := h
  unfold_gen
  grind [memmove_length]

/-! ## the accessors, for every storage kind

Every proof has the same shape: collect what the invariant says about the cells the accessors look at, unfold *all*
generated accessors (whatever they call among themselves) and the specification's answer, and let `grind` walk the
decision tree. -/

section
variable {n c : Nat} {w : St α} {xs : List α}

/-- what `Inv` says about the places the accessors read -/
theorem inv_facts (h : Inv n c w xs) :
    w.size = n ∧ w.buf.length = c ∧ n < c ∧ 0 < n ∧ w.tail ≤ c ∧ w.head ≤ w.tail ∧ w.tail - w.head = min xs.length n ∧
    (w.tail = 0 ↔ xs = []) ∧ (w.tail ≥ n ↔ n ≤ xs.length) ∧
    (w.buf.drop w.head).take (w.tail - w.head) = lastN n xs ∧ (lastN n xs).length = min xs.length n ∧
    (xs ≠ [] → w.buf[w.head]? = (lastN n xs).head? ∧ w.head < w.buf.length) ∧
    (n ≤ xs.length → w.buf[w.tail - 1]? = xs.getLast? ∧ w.tail - 1 < w.buf.length ∧ 0 < w.tail) := by
  have h0 := inv_tail_zero h
  have hg := inv_tail_ge h
  have hh := inv_head h
  have hn := inv_newest h
  have hl := lastN_length n xs
  obtain ⟨hsz, hcp, h1, h2, h3, h4, h5, h6, h7⟩ := h
  exact ⟨hsz, h1, h2, h3, h4, by omega, by omega, h0, hg, h7, hl, hh, hn⟩

theorem gen_size (k : Kind) (tsz : Nat) (h : Inv n c w xs) : size k tsz w = .ok n := by
  obtain ⟨hsz, _⟩ := inv_facts h
  cases k <;> unfold_gen <;> grind

theorem gen_empty (k : Kind) (tsz : Nat) (h : Inv n c w xs) : empty k tsz w = .ok (Spec.Window.empty xs) := by
  obtain ⟨hsz, hlen, hlt, hpos, htc, hht, hw, h0, hge, hv, hvl, hhd, hnw⟩ := inv_facts h
  cases k <;> unfold_gen <;> grind

theorem gen_filled (k : Kind) (tsz : Nat) (h : Inv n c w xs) : filled k tsz w = .ok (Spec.Window.filled n xs) := by
  obtain ⟨hsz, hlen, hlt, hpos, htc, hht, hw, h0, hge, hv, hvl, hhd, hnw⟩ := inv_facts h
  cases k <;> unfold_gen <;> grind

theorem gen_first (k : Kind) (tsz : Nat) (h : Inv n c w xs) : first k tsz w = ofSpec (Spec.Window.first n xs) := by
  obtain ⟨hsz, hlen, hlt, hpos, htc, hht, hw, h0, hge, hv, hvl, hhd, hnw⟩ := inv_facts h
  cases k <;> unfold_gen <;> grind

theorem gen_last (k : Kind) (tsz : Nat) (h : Inv n c w xs) : last k tsz w = ofSpec (Spec.Window.last n xs) := by
  obtain ⟨hsz, hlen, hlt, hpos, htc, hht, hw, h0, hge, hv, hvl, hhd, hnw⟩ := inv_facts h
  cases k <;> unfold_gen <;> grind

theorem gen_getSlice (k : Kind) (h : Inv n c w xs) : getSlice k w = .ok (lastN n xs) := by
  obtain ⟨hsz, hlen, hlt, hpos, htc, hht, hw, h0, hge, hv, hvl, hhd, hnw⟩ := inv_facts h
  rw [← hv]
  cases k <;> unfold_gen <;> grind

theorem gen_slice (k : Kind) (tsz : Nat) (h : Inv n c w xs) : slice k tsz w = ofSpec (Spec.Window.view n xs) := by
  obtain ⟨hsz, hlen, hlt, hpos, htc, hht, hw, h0, hge, hv, hvl, hhd, hnw⟩ := inv_facts h
  unfold Spec.Window.view
  rw [← hv]
  cases k <;> unfold_gen <;> grind

theorem gen_vec (k : Kind) (tsz : Nat) (h : Inv n c w xs) : vec k tsz w = ofSpec (Spec.Window.view n xs) := by
  obtain ⟨hsz, hlen, hlt, hpos, htc, hht, hw, h0, hge, hv, hvl, hhd, hnw⟩ := inv_facts h
  unfold Spec.Window.view
  rw [← hv]
  cases k <;> unfold_gen <;> grind

/-- `arr::<s>()` for any width `s`: too narrow panics, wider pads with the default value -/
theorem gen_arr_width (k : Kind) (tsz : Nat) (h : Inv n c w xs) (s : Nat) (d : α) :
    arr k tsz w s d = if n ≤ xs.length then (if s < n then .panic else .ok (lastN n xs ++ List.replicate (s - n) d))
                      else .err := by
  obtain ⟨hsz, hlen, hlt, hpos, htc, hht, hw, h0, hge, hv, hvl, hhd, hnw⟩ := inv_facts h
  rw [← hv] at hvl ⊢
  cases k <;> unfold_gen <;> grind

theorem gen_arr (k : Kind) (tsz : Nat) (h : Inv n c w xs) (d : α) :
    arr k tsz w w.size d = ofSpec (Spec.Window.view n xs) := by
  rw [gen_arr_width k tsz h, h.sz]
  unfold Spec.Window.view
  by_cases hf : n ≤ xs.length <;> simp [hf, ofSpec]

theorem gen_observe (k : Kind) (tsz : Nat) (h : Inv n c w xs) (d : α) :
    observe k tsz w d = Obs.ofSpec (Spec.Window.observe n xs) := by
  unfold Model.Window.observe Obs.ofSpec Spec.Window.observe
  simp only [gen_size k tsz h, gen_empty k tsz h, gen_filled k tsz h, gen_first k tsz h, gen_last k tsz h,
    gen_slice k tsz h, gen_vec k tsz h, gen_arr k tsz h d]
end

end C07
