import DcVerif.Gen.Executor
/-!
# The executor, tied to the source (C06: "every handler thread terminates so that joining the executor returns")

The liveness theorems of `Props/C06.lean` are about a system in which **every handler is a thread of its own** that the scheduler
eventually runs, and `join` returns once all of them have terminated. In the repository that is `ThreadedExecutor`
(`executor/thread_pool_executor.rs`), which the scheduled correspondence runs replace by the harness' own executor (the smoke runs use
it). `Gen/Executor.lean` is regenerated from it on every run (`tools/rs2lean_executor.py`); here: for every list of runnables the builder
hands over, `spawn` starts exactly one thread per runnable, in order, each running that runnable and nothing else; the handle keeps
every thread; `join` (= `drop`) waits for exactly those threads, each once.
-/
namespace C06Gen
open Gen.Executor

variable {ρ : Type}

theorem spawn_fold (rs : List ρ) (ts : List (Thread ρ)) (es : List (Ev ρ)) :
    List.foldl (fun (acc : List (Thread ρ) × List (Ev ρ)) r => (acc.1 ++ [⟨r⟩], acc.2 ++ [Ev.spawn r])) (ts, es) rs =
      (ts ++ rs.map Thread.mk, es ++ rs.map Ev.spawn) := by
  induction rs generalizing ts es with
  | nil => simp
  | cons r rs ih => simp [ih]

theorem join_fold (ts : List (Thread ρ)) (es : List (Ev ρ)) :
    List.foldl (fun (acc : List (Ev ρ)) t => acc ++ [Ev.join t]) es ts = es ++ ts.map Ev.join := by
  induction ts generalizing es with
  | nil => simp
  | cons t ts ih => simp [ih]

/-- **one thread per runnable**: `spawn` starts, in order, exactly one thread for every runnable it was given, and keeps its handle -/
theorem c06gen_spawn_one_thread_each (rs : List ρ) :
    (spawn (with_runnables rs)).2 = rs.map Ev.spawn ∧ (spawn (with_runnables rs)).1.threads = rs.map Thread.mk := by
  simp only [spawn, with_runnables, spawn_fold, List.nil_append, and_self]

/-- every thread runs the runnable it was started for (no runnable shares a thread with another) -/
theorem c06gen_thread_runs_its_runnable (rs : List ρ) :
    (spawn (with_runnables rs)).1.threads.map (·.runs) = rs := by
  simp only [spawn, with_runnables, spawn_fold, List.nil_append, List.map_map]
  induction rs with
  | nil => rfl
  | cons r rs ih => simp [ih]

/-- **`join` waits for every thread that was started**, each once, and for nothing else -/
theorem c06gen_join_waits_for_all (rs : List ρ) :
    join (spawn (with_runnables rs)).1 = (rs.map Thread.mk).map Ev.join := by
  simp only [join, drop, spawn, with_runnables, spawn_fold, join_fold, List.nil_append]

/-- a dropped handle has no thread left to wait for (a second `drop` joins nothing) -/
theorem c06gen_drop_idempotent (h : ThreadedExecutorHandle ρ) : (drop (drop h).1).2 = [] := by
  simp [drop]

example : (spawn (with_runnables [10, 20, 30])).2 = [Ev.spawn 10, Ev.spawn 20, Ev.spawn 30] ∧
    join (spawn (with_runnables [10, 20, 30])).1 = [Ev.join ⟨10⟩, Ev.join ⟨20⟩, Ev.join ⟨30⟩] := by
  exact ⟨rfl, rfl⟩

end C06Gen
