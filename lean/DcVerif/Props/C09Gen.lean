import DcVerif.Gen.Ctx
import DcVerif.Props.C09
/-!
# C09, tie to the source: what the translator read = the hand model

`Gen/Ctx.lean` is regenerated on every run from the current Rust source of `deep_causality::Context`
(`tools/rs2lean_context.py`): one definition per public function. Every theorem `<function>_eq` below says that the
generated definition, viewed through `toModel` (forget `id` and `name`) and rendered as the model's `Out`
(`genStep`), is the corresponding case of `Model.Ctx.step` — on **every** context that satisfies the reachable-state
invariant `Model.Ctx.Inv` (all graphs well-formed, extra contexts are exactly the ids `1 … count` with distinct
keys, `current ≤ count`), for all arguments. `genStep_eq` / `genRun_eq` put them together, `c09gen_*` restate the
headline theorems of `Props/C09.lean` on the generated definitions, started from the generated `with_capacity`.

The proofs do not follow the syntax of the generated definitions: they split on the *semantic* situation
(`SelCase`: no selection / selection beyond the counter / no map / entry absent / entry present; the three possible
outcomes of an `ultragraph` mutator; Boolean atoms) and let `simp` evaluate both sides.
-/
set_option linter.unusedSimpArgs false
set_option linter.unusedVariables false
namespace C09Gen
open Spec Spec.Context Model Model.Ctx
open Model.UGraph hiding Res Res.isOk Res.toOption Res.ok Res.err
open Spec.DiGraph (Out)
open Gen.Ctx (Exec Res mUpdate)

/-! ## views -/

/-- the generated context as the model's (forget `id`, `name`) -/
def toModel (s : Gen.Ctx.Context) : Ctx :=
  { base := s.base, extras := s.extras, count := s.count, current := s.current, curMap := s.curMap, prevMap := s.prevMap }

/-- the reachable-state invariant, on a generated context -/
abbrev GInv (s : Gen.Ctx.Context) : Prop := Inv (toModel s)

/-- a `Result` as the model's answer -/
def resOut {α : Type} (f : α → Out) : Res α → Out
  | .ok a => f a
  | .err => .err

/-- a `&mut self` call: new context and answer; a panic leaves the context as it was (the case ends there) -/
def liftM {α : Type} (s : Gen.Ctx.Context) (r : Exec (Gen.Ctx.Context × α)) (f : α → Out) : Gen.Ctx.Context × Out :=
  match r with
  | .val (s', a) => (s', f a)
  | .panic => (s, .panic)

/-- a `&self` call -/
def liftR {α : Type} (s : Gen.Ctx.Context) (r : Exec α) (f : α → Out) : Gen.Ctx.Context × Out :=
  match r with
  | .val a => (s, f a)
  | .panic => (s, .panic)

/-- one operation of the `Context` API on the generated definitions, answered in the model's vocabulary -/
def genStep (s : Gen.Ctx.Context) : Op → Gen.Ctx.Context × Out
  | .addNode v => liftM s (Gen.Ctx.add_node s v) .idx
  | .containsNode i => liftR s (Gen.Ctx.contains_node s i) .bool
  | .getNode i => liftR s (Gen.Ctx.get_node s i) .optNat
  | .removeNode i => liftM s (Gen.Ctx.remove_node s i) (resOut fun _ => .ok)
  | .addEdge a b w => liftM s (Gen.Ctx.add_edge s a b w) (resOut fun _ => .ok)
  | .containsEdge a b => liftR s (Gen.Ctx.contains_edge s a b) .bool
  | .removeEdge a b => liftM s (Gen.Ctx.remove_edge s a b) (resOut fun _ => .ok)
  | .size => liftR s (Gen.Ctx.size s) .nat
  | .isEmpty => liftR s (Gen.Ctx.is_empty s) .bool
  | .nodeCount => liftR s (Gen.Ctx.node_count s) .nat
  | .edgeCount => liftR s (Gen.Ctx.edge_count s) .nat
  | .xAddNew d => liftM s (Gen.Ctx.extra_ctx_add_new s 0 d) .nat
  | .xCheckExists k => liftR s (Gen.Ctx.extra_ctx_check_exists s k) .bool
  | .xGetCurrent => liftR s (Gen.Ctx.extra_ctx_get_current_id s) .nat
  | .xSetCurrent k => liftM s (Gen.Ctx.extra_ctx_set_current_id s k) (resOut fun _ => .ok)
  | .xUnset => liftM s (Gen.Ctx.extra_ctx_unset_current_id s) (resOut fun _ => .ok)
  | .xAddNode v => liftM s (Gen.Ctx.extra_ctx_add_node s v) (resOut .idx)
  | .xContainsNode i => liftR s (Gen.Ctx.extra_ctx_contains_node s i) .bool
  | .xGetNode i => liftR s (Gen.Ctx.extra_ctx_get_node s i) (resOut fun v => .optNat (some v))
  | .xRemoveNode i => liftM s (Gen.Ctx.extra_ctx_remove_node s i) (resOut fun _ => .ok)
  | .xAddEdge a b w => liftM s (Gen.Ctx.extra_ctx_add_edge s a b w) (resOut fun _ => .ok)
  | .xContainsEdge a b => liftR s (Gen.Ctx.extra_ctx_contains_edge s a b) .bool
  | .xRemoveEdge a b => liftM s (Gen.Ctx.extra_ctx_remove_edge s a b) (resOut fun _ => .ok)
  | .xSize => liftR s (Gen.Ctx.extra_ctx_size s) (resOut .nat)
  | .xIsEmpty => liftR s (Gen.Ctx.extra_ctx_is_empty s) (resOut .bool)
  | .xNodeCount => liftR s (Gen.Ctx.extra_ctx_node_count s) (resOut .nat)
  | .xEdgeCount => liftR s (Gen.Ctx.extra_ctx_edge_count s) (resOut .nat)
  | .getIndex key cur => liftR s (Gen.Ctx.get_index s key cur) .optNat
  | .setIndex key idx cur => liftM s (Gen.Ctx.set_index s key idx cur) (fun _ => .ok)

/-- the view of a step's result -/
def view (p : Gen.Ctx.Context × Out) : Ctx × Out := (toModel p.1, p.2)

def genRun (s : Gen.Ctx.Context) : List Op → Gen.Ctx.Context × List Out
  | [] => (s, [])
  | op :: rest =>
    let r := genStep s op
    let q := genRun r.1 rest
    (q.1, r.2 :: q.2)

/-- generated step and model step agree: same answer, same model state, `id` and `name` untouched -/
def Agrees (s : Gen.Ctx.Context) (op : Op) : Prop :=
  view (genStep s op) = Ctx.step (toModel s) op ∧ (genStep s op).1.id = s.id ∧ (genStep s op).1.name = s.name

/-! ## facts about the interface (`Model.UGraph`) and the finite maps -/

/-- why the adapter `ug_result` may hand back the graph it was given when the model answers `err` -/
theorem ug_err_leaves_graph (g : UGraph) :
    (∀ i, (g.removeNode .repaired i).2 = .err → (g.removeNode .repaired i).1 = g) ∧
    (∀ a b w, (g.addEdgeW a b w).2 = .err → (g.addEdgeW a b w).1 = g) ∧
    (∀ a b, (g.removeEdge .repaired a b).2 = .err → (g.removeEdge .repaired a b).1 = g) :=
  ⟨fun i => C08.c08_failed_ops_change_nothing .repaired g (.removeNode i),
   fun a b w => C08.c08_failed_ops_change_nothing .repaired g (.addEdgeW a b w),
   fun a b => C08.c08_failed_ops_change_nothing .repaired g (.removeEdge a b)⟩

theorem removeNode_absent (g : UGraph) (i : Nat) (h : g.containsNode i = false) : g.removeNode .repaired i = (g, .err) := by
  simp [UGraph.removeNode, h]
theorem addEdgeW_absent_a (g : UGraph) (a b w : Nat) (h : g.containsNode a = false) : g.addEdgeW a b w = (g, .err) := by
  simp [UGraph.addEdgeW, h]
theorem addEdgeW_absent_b (g : UGraph) (a b w : Nat) (h : g.containsNode b = false) : g.addEdgeW a b w = (g, .err) := by
  simp [UGraph.addEdgeW, h]
theorem removeEdge_absent_a (g : UGraph) (a b : Nat) (h : g.containsNode a = false) : g.removeEdge .repaired a b = (g, .err) := by
  simp [UGraph.removeEdge, h]
theorem removeEdge_absent_b (g : UGraph) (a b : Nat) (h : g.containsNode b = false) : g.removeEdge .repaired a b = (g, .err) := by
  simp [UGraph.removeEdge, h]
theorem containsEdge_absent_a (g : UGraph) (a b : Nat) (h : g.containsNode a = false) : g.containsEdge a b = false := by
  simp [UGraph.containsEdge, h]
theorem containsEdge_absent_b (g : UGraph) (a b : Nat) (h : g.containsNode b = false) : g.containsEdge a b = false := by
  simp [UGraph.containsEdge, h]
theorem getNode_absent (g : UGraph) (i : Nat) (h : g.containsNode i = false) : g.getNode i = none := by
  simp [UGraph.getNode, h]
theorem getNode_present (g : UGraph) (i v : Nat) (h : g.getNode i = some v) : g.containsNode i = true := by
  cases hc : g.containsNode i
  · rw [getNode_absent g i hc] at h; cases h
  · rfl

/-- writing back the value an entry already has changes nothing (distinct keys) -/
theorem mUpdate_same (m : List (Nat × UGraph)) (k : Nat) (g : UGraph) (hn : (m.map (·.1)).Nodup) (hg : mGet m k = some g) :
    mUpdate m k g = m := by
  induction m with
  | nil => rfl
  | cons e m ih =>
    simp only [List.map_cons, List.nodup_cons] at hn
    rw [mGet_cons] at hg
    unfold mUpdate at ih ⊢
    rw [List.map_cons]
    by_cases he : e.1 = k
    · rw [if_pos he] at hg
      have hrest : m.map (fun e => if e.1 == k then (e.1, g) else e) = m := by
        have : ∀ x ∈ m, ¬ x.1 = k := by
          intro x hx hxe
          exact hn.1 (he ▸ hxe ▸ List.mem_map.2 ⟨x, hx, rfl⟩)
        conv => rhs; rw [← List.map_id m]
        apply List.map_congr_left
        intro x hx
        have hb : (x.1 == k) = false := by simpa using this x hx
        simp [hb]
      rw [hrest]
      injection hg with hg
      have : (e.1, g) = e := Prod.ext rfl hg.symm
      simp only [← he]; simpa using this
    · have hb : (e.1 == k) = false := by simpa using he
      rw [if_neg he] at hg
      simp only [hb, Bool.false_eq_true, if_false]
      rw [ih hn.2 hg]

/-- the situation `get_current_extra_context[_mut]` finds in a state that satisfies the invariant -/
inductive SelCase (s : Gen.Ctx.Context) : Prop
  | zero (h0 : s.current = 0)
  | sel (h0 : ¬ s.current = 0) (h0' : ¬ 0 = s.current) (hc : s.current ≤ s.count) (m : List (Nat × UGraph)) (hx : s.extras = some m)
      (g : UGraph) (hg : mGet m s.current = some g) (hsame : mUpdate m s.current g = m) (hwf : WF g)

theorem selCase {s : Gen.Ctx.Context} (h : GInv s) : SelCase s := by
  rcases getCurrent_spec h with ⟨h0, _, _⟩ | ⟨h0, g, _, _, hg, hwf, hex⟩
  · exact .zero h0
  · have hx : s.extras = some (toModel s).extrasList := hex
    exact .sel h0 (fun e => h0 e.symm) h.cur _ hx g hg (mUpdate_same _ _ g h.keysNodup hg) hwf

/-! ## evaluation of both sides -/

/-- unfold the generated definitions, the vocabulary and the model's step, and evaluate with the facts in the context -/
macro "ctx_eval" : tactic => `(tactic|
  (simp [Agrees, view, genStep, liftM, liftR, resOut, toModel, Ctx.step, Ctx.getCurrent, Ctx.checkExists, Ctx.putCurrent,
    Ctx.extraContainsNode, Ctx.lenOut, Exec.bind, Exec.sub, Res.isOk,
    removeNode_absent, addEdgeW_absent_a, addEdgeW_absent_b, removeEdge_absent_a, removeEdge_absent_b,
    containsEdge_absent_a, containsEdge_absent_b, getNode_absent,
    Gen.Ctx.ug_new, Gen.Ctx.ug_add_node, Gen.Ctx.ug_contains_node, Gen.Ctx.ug_get_node, Gen.Ctx.ug_contains_edge,
    Gen.Ctx.ug_result, Gen.Ctx.ug_remove_node, Gen.Ctx.ug_add_edge_with_weight, Gen.Ctx.ug_add_edge, Gen.Ctx.ug_remove_edge,
    Gen.Ctx.ug_size, Gen.Ctx.ug_number_nodes, Gen.Ctx.ug_is_empty, Gen.Ctx.ug_number_edges,
    Gen.Ctx.add_node, Gen.Ctx.contains_node, Gen.Ctx.get_node, Gen.Ctx.remove_node, Gen.Ctx.add_edge, Gen.Ctx.contains_edge,
    Gen.Ctx.remove_edge, Gen.Ctx.size, Gen.Ctx.is_empty, Gen.Ctx.node_count, Gen.Ctx.edge_count,
    Gen.Ctx.extra_ctx_add_new, Gen.Ctx.extra_ctx_check_exists, Gen.Ctx.extra_ctx_get_current_id,
    Gen.Ctx.extra_ctx_set_current_id, Gen.Ctx.extra_ctx_unset_current_id, Gen.Ctx.extra_ctx_add_node,
    Gen.Ctx.extra_ctx_contains_node, Gen.Ctx.extra_ctx_get_node, Gen.Ctx.extra_ctx_remove_node, Gen.Ctx.extra_ctx_add_edge,
    Gen.Ctx.extra_ctx_contains_edge, Gen.Ctx.extra_ctx_remove_edge, Gen.Ctx.extra_ctx_size, Gen.Ctx.extra_ctx_is_empty,
    Gen.Ctx.extra_ctx_node_count, Gen.Ctx.extra_ctx_edge_count, Gen.Ctx.get_index, Gen.Ctx.set_index, *] <;>
   try (first | rfl | (simp [mUpdate]; done) | (congr 1; done) | (simp [mUpdate] <;> congr 1; done))))

/-- the arithmetic part of the invariant, as a hypothesis the evaluation can use (`debug_assert!`s of it never fire) -/
theorem inv_cur {s : Gen.Ctx.Context} (h : GInv s) : s.current ≤ s.count := h.cur

/-- the outcome of an `ultragraph` mutator: the new graph and one of the answers -/
macro "ug_cases " t:term : tactic => `(tactic|
  (generalize hr : $t = r; obtain ⟨g', o⟩ := r; cases o))

/-! ## base context (`contextuable_graph.rs`) -/

theorem add_node_eq (s : Gen.Ctx.Context) (h : GInv s) (v : Nat) : Agrees s (.addNode v) := by
  have hcur := inv_cur h
  ctx_eval
theorem contains_node_eq (s : Gen.Ctx.Context) (h : GInv s) (i : Nat) : Agrees s (.containsNode i) := by
  have hcur := inv_cur h
  ctx_eval
theorem get_node_eq (s : Gen.Ctx.Context) (h : GInv s) (i : Nat) : Agrees s (.getNode i) := by
  have hcur := inv_cur h
  ctx_eval
theorem remove_node_eq (s : Gen.Ctx.Context) (h : GInv s) (i : Nat) : Agrees s (.removeNode i) := by
  have hcur := inv_cur h
  cases hc : s.base.containsNode i
  · ctx_eval
  · ug_cases s.base.removeNode .repaired i <;> ctx_eval
theorem add_edge_eq (s : Gen.Ctx.Context) (h : GInv s) (a b w : Nat) : Agrees s (.addEdge a b w) := by
  have hcur := inv_cur h
  cases ha : s.base.containsNode a <;> cases hb : s.base.containsNode b
  · ctx_eval
  · ctx_eval
  · ctx_eval
  · ug_cases s.base.addEdgeW a b w <;> ctx_eval
theorem contains_edge_eq (s : Gen.Ctx.Context) (h : GInv s) (a b : Nat) : Agrees s (.containsEdge a b) := by
  have hcur := inv_cur h
  ctx_eval
theorem remove_edge_eq (s : Gen.Ctx.Context) (h : GInv s) (a b : Nat) : Agrees s (.removeEdge a b) := by
  have hcur := inv_cur h
  cases ha : s.base.containsNode a <;> cases hb : s.base.containsNode b
  · ctx_eval
  · ctx_eval
  · ctx_eval
  · ug_cases s.base.removeEdge .repaired a b <;> ctx_eval
theorem size_eq (s : Gen.Ctx.Context) (h : GInv s) : Agrees s .size := by
  have hcur := inv_cur h
  cases hl : s.base.ids.len <;> ctx_eval
theorem is_empty_eq (s : Gen.Ctx.Context) (h : GInv s) : Agrees s .isEmpty := by
  have hcur := inv_cur h
  cases hl : s.base.ids.len <;> ctx_eval
theorem node_count_eq (s : Gen.Ctx.Context) (h : GInv s) : Agrees s .nodeCount := by
  have hcur := inv_cur h
  cases hl : s.base.ids.len <;> ctx_eval
theorem edge_count_eq (s : Gen.Ctx.Context) (h : GInv s) : Agrees s .edgeCount := by
  have hcur := inv_cur h
  ctx_eval

/-! ## management of the extra contexts -/

theorem extra_ctx_add_new_eq (s : Gen.Ctx.Context) (h : GInv s) (d : Bool) : Agrees s (.xAddNew d) := by
  have hcur := inv_cur h
  cases hx : s.extras <;> cases d <;> ctx_eval
theorem extra_ctx_check_exists_eq (s : Gen.Ctx.Context) (h : GInv s) (k : Nat) : Agrees s (.xCheckExists k) := by
  have hcur := inv_cur h
  ctx_eval
theorem extra_ctx_get_current_id_eq (s : Gen.Ctx.Context) (h : GInv s) : Agrees s .xGetCurrent := by
  have hcur := inv_cur h
  ctx_eval
theorem extra_ctx_set_current_id_eq (s : Gen.Ctx.Context) (h : GInv s) (k : Nat) : Agrees s (.xSetCurrent k) := by
  have hcur := inv_cur h
  by_cases hk : k ≤ s.count <;> ctx_eval
theorem extra_ctx_unset_current_id_eq (s : Gen.Ctx.Context) (h : GInv s) : Agrees s .xUnset := by
  have hcur := inv_cur h
  ctx_eval

/-! ## the selected extra context -/

theorem extra_ctx_add_node_eq (s : Gen.Ctx.Context) (h : GInv s) (v : Nat) : Agrees s (.xAddNode v) := by
  have hcur := inv_cur h
  rcases selCase h with h0 | ⟨h0, h0', hc, m, hx, g, hg, hsame, hwf⟩ <;> ctx_eval
theorem extra_ctx_contains_node_eq (s : Gen.Ctx.Context) (h : GInv s) (i : Nat) : Agrees s (.xContainsNode i) := by
  have hcur := inv_cur h
  rcases selCase h with h0 | ⟨h0, h0', hc, m, hx, g, hg, hsame, hwf⟩ <;> ctx_eval
theorem extra_ctx_get_node_eq (s : Gen.Ctx.Context) (h : GInv s) (i : Nat) : Agrees s (.xGetNode i) := by
  have hcur := inv_cur h
  rcases selCase h with h0 | ⟨h0, h0', hc, m, hx, g, hg, hsame, hwf⟩
  · ctx_eval
  · cases hv : g.getNode i <;> ctx_eval
theorem extra_ctx_remove_node_eq (s : Gen.Ctx.Context) (h : GInv s) (i : Nat) : Agrees s (.xRemoveNode i) := by
  have hcur := inv_cur h
  rcases selCase h with h0 | ⟨h0, h0', hc, m, hx, g, hg, hsame, hwf⟩
  · ctx_eval
  · cases hi : g.containsNode i
    · ctx_eval
    · ug_cases g.removeNode .repaired i <;> ctx_eval
theorem extra_ctx_add_edge_eq (s : Gen.Ctx.Context) (h : GInv s) (a b w : Nat) : Agrees s (.xAddEdge a b w) := by
  have hcur := inv_cur h
  rcases selCase h with h0 | ⟨h0, h0', hc, m, hx, g, hg, hsame, hwf⟩
  · ctx_eval
  · cases ha : g.containsNode a <;> cases hb : g.containsNode b
    · ctx_eval
    · ctx_eval
    · ctx_eval
    · ug_cases g.addEdgeW a b w <;> ctx_eval
theorem extra_ctx_contains_edge_eq (s : Gen.Ctx.Context) (h : GInv s) (a b : Nat) : Agrees s (.xContainsEdge a b) := by
  have hcur := inv_cur h
  rcases selCase h with h0 | ⟨h0, h0', hc, m, hx, g, hg, hsame, hwf⟩
  · ctx_eval
  · cases ha : g.containsNode a <;> cases hb : g.containsNode b <;> ctx_eval
theorem extra_ctx_remove_edge_eq (s : Gen.Ctx.Context) (h : GInv s) (a b : Nat) : Agrees s (.xRemoveEdge a b) := by
  have hcur := inv_cur h
  rcases selCase h with h0 | ⟨h0, h0', hc, m, hx, g, hg, hsame, hwf⟩
  · ctx_eval
  · cases ha : g.containsNode a <;> cases hb : g.containsNode b
    · ctx_eval
    · ctx_eval
    · ctx_eval
    · ug_cases g.removeEdge .repaired a b <;> ctx_eval
theorem extra_ctx_size_eq (s : Gen.Ctx.Context) (h : GInv s) : Agrees s .xSize := by
  have hcur := inv_cur h
  rcases selCase h with h0 | ⟨h0, h0', hc, m, hx, g, hg, hsame, hwf⟩
  · ctx_eval
  · cases hl : g.ids.len <;> ctx_eval
theorem extra_ctx_is_empty_eq (s : Gen.Ctx.Context) (h : GInv s) : Agrees s .xIsEmpty := by
  have hcur := inv_cur h
  rcases selCase h with h0 | ⟨h0, h0', hc, m, hx, g, hg, hsame, hwf⟩
  · ctx_eval
  · cases hl : g.ids.len <;> ctx_eval
theorem extra_ctx_node_count_eq (s : Gen.Ctx.Context) (h : GInv s) : Agrees s .xNodeCount := by
  have hcur := inv_cur h
  rcases selCase h with h0 | ⟨h0, h0', hc, m, hx, g, hg, hsame, hwf⟩
  · ctx_eval
  · cases hl : g.ids.len <;> ctx_eval
theorem extra_ctx_edge_count_eq (s : Gen.Ctx.Context) (h : GInv s) : Agrees s .xEdgeCount := by
  have hcur := inv_cur h
  rcases selCase h with h0 | ⟨h0, h0', hc, m, hx, g, hg, hsame, hwf⟩ <;> ctx_eval

/-! ## the index maps, `id`, `name`, the constructor -/

theorem get_index_eq (s : Gen.Ctx.Context) (h : GInv s) (key : Nat) (cur : Bool) : Agrees s (.getIndex key cur) := by
  have hcur := inv_cur h
  cases cur <;> cases hm : mGet s.curMap key <;> cases hp : mGet s.prevMap key <;> ctx_eval
theorem set_index_eq (s : Gen.Ctx.Context) (h : GInv s) (key idx : Nat) (cur : Bool) : Agrees s (.setIndex key idx cur) := by
  have hcur := inv_cur h
  cases cur <;> ctx_eval

theorem id_eq (s : Gen.Ctx.Context) : Gen.Ctx.id s = .val s.id := by simp [Gen.Ctx.id]
theorem name_eq (s : Gen.Ctx.Context) : Gen.Ctx.name s = .val s.name := by simp [Gen.Ctx.name]

/-- `Context::with_capacity(id, name, capacity)` never panics and yields the model's initial context with that id and name -/
theorem with_capacity_eq (i : Nat) (nm : String) (c : Nat) :
    ∃ s0, Gen.Ctx.with_capacity i nm c = .val s0 ∧ toModel s0 = Ctx.init ∧ s0.id = i ∧ s0.name = nm := by
  simp [Gen.Ctx.with_capacity, toModel, Ctx.init, Gen.Ctx.ug_new, Exec.bind]
  rfl

/-! ## one step, every history -/

/-- **every operation**: on a context that satisfies the invariant the generated definitions answer as the model does -/
theorem genStep_agrees (s : Gen.Ctx.Context) (h : GInv s) (op : Op) : Agrees s op := by
  have hcur := inv_cur h
  cases op
  case addNode v => exact add_node_eq s h v
  case containsNode i => exact contains_node_eq s h i
  case getNode i => exact get_node_eq s h i
  case removeNode i => exact remove_node_eq s h i
  case addEdge a b w => exact add_edge_eq s h a b w
  case containsEdge a b => exact contains_edge_eq s h a b
  case removeEdge a b => exact remove_edge_eq s h a b
  case size => exact size_eq s h
  case isEmpty => exact is_empty_eq s h
  case nodeCount => exact node_count_eq s h
  case edgeCount => exact edge_count_eq s h
  case xAddNew d => exact extra_ctx_add_new_eq s h d
  case xCheckExists k => exact extra_ctx_check_exists_eq s h k
  case xGetCurrent => exact extra_ctx_get_current_id_eq s h
  case xSetCurrent k => exact extra_ctx_set_current_id_eq s h k
  case xUnset => exact extra_ctx_unset_current_id_eq s h
  case xAddNode v => exact extra_ctx_add_node_eq s h v
  case xContainsNode i => exact extra_ctx_contains_node_eq s h i
  case xGetNode i => exact extra_ctx_get_node_eq s h i
  case xRemoveNode i => exact extra_ctx_remove_node_eq s h i
  case xAddEdge a b w => exact extra_ctx_add_edge_eq s h a b w
  case xContainsEdge a b => exact extra_ctx_contains_edge_eq s h a b
  case xRemoveEdge a b => exact extra_ctx_remove_edge_eq s h a b
  case xSize => exact extra_ctx_size_eq s h
  case xIsEmpty => exact extra_ctx_is_empty_eq s h
  case xNodeCount => exact extra_ctx_node_count_eq s h
  case xEdgeCount => exact extra_ctx_edge_count_eq s h
  case getIndex key cur => exact get_index_eq s h key cur
  case setIndex key idx cur => exact set_index_eq s h key idx cur

theorem genStep_eq (s : Gen.Ctx.Context) (h : GInv s) (op : Op) : view (genStep s op) = Ctx.step (toModel s) op :=
  (genStep_agrees s h op).1

/-- the invariant is kept by every generated operation -/
theorem genStep_inv (s : Gen.Ctx.Context) (h : GInv s) (op : Op) : GInv (genStep s op).1 := by
  have h1 := (C09.c09_step_refines h op).1
  rw [← genStep_eq s h op] at h1
  exact h1

/-- **every history**: running the generated definitions = running the model -/
theorem genRun_eq (ops : List Op) : ∀ (s : Gen.Ctx.Context), GInv s →
    (toModel (genRun s ops).1, (genRun s ops).2) = Ctx.run (toModel s) ops ∧ GInv (genRun s ops).1 ∧
    (genRun s ops).1.id = s.id ∧ (genRun s ops).1.name = s.name := by
  induction ops with
  | nil => intro s h; exact ⟨rfl, h, rfl, rfl⟩
  | cons op rest ih =>
    intro s h
    obtain ⟨he, hid, hnm⟩ := genStep_agrees s h op
    obtain ⟨hr, hi, hid', hnm'⟩ := ih (genStep s op).1 (genStep_inv s h op)
    have e1 : toModel (genStep s op).1 = (Ctx.step (toModel s) op).1 := congrArg Prod.fst he
    have e2 : (genStep s op).2 = (Ctx.step (toModel s) op).2 := congrArg Prod.snd he
    refine ⟨?_, hi, hid'.trans hid, hnm'.trans hnm⟩
    show (toModel (genRun (genStep s op).1 rest).1, (genStep s op).2 :: (genRun (genStep s op).1 rest).2) = _
    have hr1 := congrArg Prod.fst hr
    have hr2 := congrArg Prod.snd hr
    simp only at hr1 hr2
    simp only [Ctx.run]
    rw [hr1, hr2, e1, e2]

/-! ## the headline statements of `Props/C09.lean`, on what was read from the source -/

/-- **C09 on the generated definitions.** A context built by the generated `with_capacity` and driven through any
history of the 29 operations by the generated definitions: every answer is one the specification allows, the final
state corresponds to the specification's, every reachable context satisfies the invariant (each store a well-formed
`UltraGraph`), and `id` / `name` never change. -/
theorem c09gen_refinement (i : Nat) (nm : String) (c : Nat) (ops : List Op) :
    ∃ s0, Gen.Ctx.with_capacity i nm c = .val s0 ∧
      Spec.Context.run {} (ops.zip (genRun s0 ops).2) = some (absCtx (toModel (genRun s0 ops).1)) ∧
      GInv (genRun s0 ops).1 ∧ (genRun s0 ops).1.id = i ∧ (genRun s0 ops).1.name = nm := by
  obtain ⟨s0, hs, hm, hid, hnm⟩ := with_capacity_eq i nm c
  have h0 : GInv s0 := by show Inv (toModel s0); rw [hm]; exact inv_init
  obtain ⟨hr, hi, hid', hnm'⟩ := genRun_eq ops s0 h0
  refine ⟨s0, hs, ?_, hi, hid'.trans hid, hnm'.trans hnm⟩
  have hr1 := congrArg Prod.fst hr
  have hr2 := congrArg Prod.snd hr
  simp only at hr1 hr2
  rw [hr1, hr2, hm]
  exact C09.c09_refinement ops

/-- an operation addressed to the base context changes nothing else; one addressed to the selected extra context
changes nothing but that extra context (generated definitions, reachable states) -/
theorem c09gen_frames (s : Gen.Ctx.Context) (h : GInv s) (op : Op) (gop : DiGraph.Op) :
    (op.graphOp = some (.base, gop) →
      (genStep s op).1.extras = s.extras ∧ (genStep s op).1.count = s.count ∧ (genStep s op).1.current = s.current ∧
      (genStep s op).1.curMap = s.curMap ∧ (genStep s op).1.prevMap = s.prevMap) ∧
    (op.graphOp = some (.extra, gop) →
      (genStep s op).1.base = s.base ∧ (genStep s op).1.count = s.count ∧ (genStep s op).1.current = s.current ∧
      (genStep s op).1.curMap = s.curMap ∧ (genStep s op).1.prevMap = s.prevMap ∧
      ∀ k, k ≠ s.current → (toModel (genStep s op).1).component k = (toModel s).component k) := by
  have e : toModel (genStep s op).1 = (Ctx.step (toModel s) op).1 := congrArg Prod.fst (genStep_eq s h op)
  constructor
  · intro hg
    have := C09.c09_base_ops_frame h op gop hg
    rw [← e] at this
    exact this
  · intro hg
    have := C09.c09_extra_ops_frame h op gop hg
    rw [← e] at this
    exact this

/-- extra-context operations fail cleanly when nothing is selected (generated definitions, reachable states) -/
theorem c09gen_extra_ops_without_selection_fail_clean (s : Gen.Ctx.Context) (h : GInv s) (h0 : s.current = 0) (op : Op)
    (gop : DiGraph.Op) (hg : op.graphOp = some (.extra, gop)) : view (genStep s op) = (toModel s, noSel gop) := by
  rw [genStep_eq s h op]
  exact C09.c09_extra_ops_without_selection_fail_clean (toModel s) h0 op gop hg

/-- `get_index` after `set_index` on the same key and map returns the index just set (generated definitions) -/
theorem c09gen_index_get_after_set (s : Gen.Ctx.Context) (h : GInv s) (key idx : Nat) (cur : Bool) :
    (genStep (genStep s (.setIndex key idx cur)).1 (.getIndex key cur)).2 = .optNat (some idx) := by
  have h1 := genStep_inv s h (.setIndex key idx cur)
  have e1 := genStep_eq s h (.setIndex key idx cur)
  have e2 := genStep_eq _ h1 (.getIndex key cur)
  have := C09.c09_index_get_after_set (toModel s) key idx cur
  rw [← congrArg Prod.fst e1] at this
  rw [← this]
  exact congrArg Prod.snd e2

/-! non-vacuity: the generated `with_capacity` and the generated operations on a history with two extra contexts and the
base context holding the same indices, switching, removals, a refused selection and both index maps -/
example :
    let ops : List Op := [.addNode 4, .addNode 5, .addEdge 0 1 2, .xAddNode 7, .xAddNew true, .xAddNode 7, .xAddNode 8,
      .xAddEdge 0 1 3, .xAddNew false, .xSetCurrent 2, .xAddNode 9, .xSetCurrent 3, .xGetCurrent, .removeEdge 0 1,
      .getNode 0, .xGetNode 0, .xSetCurrent 1, .xRemoveNode 1, .xEdgeCount, .xGetNode 0, .getNode 1, .xSetCurrent 0,
      .xGetNode 0, .setIndex 1 5 true, .setIndex 1 6 false, .getIndex 1 true, .getIndex 1 false, .getIndex 2 true]
    (match Gen.Ctx.with_capacity 1 "base" 10 with
     | .val s0 => (genRun s0 ops).2
     | .panic => []) =
      [.idx 0, .idx 1, .ok, .err, .nat 1, .idx 0, .idx 1, .ok, .nat 2, .ok, .idx 0, .err, .nat 2, .ok,
       .optNat (some 4), .optNat (some 9), .ok, .ok, .nat 0, .optNat (some 7), .optNat (some 5), .ok,
       .err, .ok, .ok, .optNat (some 5), .optNat (some 6), .optNat none] := by decide

end C09Gen
