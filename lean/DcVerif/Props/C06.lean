import DcVerif.Lemmas.RingLive
import DcVerif.Lemmas.RingMultiLiveS
import DcVerif.Lemmas.RingMultiLiveB
/-!
# C06 — the ring buffer never deadlocks or loses a wake-up; `write`, `drain` and join terminate

Model: `Model/Ring.lean` (single producer; one step per facade operation: every load / store of a sequence counter and of
`is_done`, every mutex lock / unlock, `cvar.wait`, `notify_all`, every handler call and slot write; both wait
strategies). A `lock` step on a taken mutex and the `relock` step of a handler that is parked and not notified (or
finds the mutex taken) are *stutters*; `Ring.enabled x t` says that the next step of thread `t` is not a stutter.
`drain` computes `next_write_sequence.saturating_sub(1)` (defect F6 repaired in /repo), the drain loop of the blocking
strategy signals on every iteration, `drain` stores `is_done` and signals, `Drop` stores it again and signals again.

`terminal x` = the producer has returned from every `write`, from `drain` and from `Drop` (`pc = done`) and every
handler thread of the topology has left its loop (`pc = done`), i.e. joining the executor returns.

Schedules are infinite sequences `σ : Nat → Tid`; `Fair.run stepX σ x i` is the state after `i` scheduled steps.

* (a) spin strategy, full statement: `c06_spin_terminates`, `c06_write_returns`, `c06_zero_events_drains` — every
  *weakly fair* schedule (every thread of the topology is scheduled infinitely often) reaches a terminal state; every
  batch has then been claimed, written and published.
* (b) both strategies, every schedule: `c06_no_deadlock` (some thread always has an enabled step),
  `c06_mutual_exclusion`, `c06_no_lost_wakeup`, `c06_wait_conditions_stable`, `c06_all_written_at_exit`.
* (c) blocking strategy: `c06_blocking_terminates`, `c06_blocking_write_returns` — the same conclusion as (a) for every
  schedule that is weakly fair and *strongly fair for lock acquisition* (`LockFair`: a thread whose `lock` / `relock`
  step is enabled infinitely often eventually takes it); `c06_blocking_some_thread_ready` (deadlock freedom in the
  strong sense: some thread can always make progress).

Multi-producer sequencer (`Model/RingMulti.lean`; `section Multi` at the end of this file, ring sizes `2^k`):

* (d) any number of writer threads, both strategies, every schedule (`MReachableWF`): `c06_multi_mutual_exclusion`,
  `c06_multi_no_lost_wakeup`, `c06_multi_no_deadlock`, `c06_multi_wait_conditions_stable`;
* (e) **one writer thread**, batches `1 ≤ b < n` (what `has_capacity` needs: `n > (hw − min) + count`), every topology:
  `c06_multi_single_writer_spin_terminates` (weak fairness), `c06_multi_single_writer_blocking_terminates` (weak fairness +
  `LockFairM`), `…_write_returns`, `c06_multi_single_writer_zero_events_drains`;
* (f) any number of writers, conditional: `c06_multi_drain_terminates_when_released` / `…_blocking` — from every reachable
  state in which all writers are done and nothing is stranded (`cursor = high watermark`) every fair schedule of the
  draining thread and the handlers terminates. With two or more writers the unconditional statement is false (known findings
  F7/F8/F11/F13: a stranded sequence stalls later `write` calls in `has_capacity` for ever; `Props/C14.lean` has the
  witnesses) — (f) isolates the defect in the release protocol.

Not covered by the model: the fairness of the real OS scheduler and of `std::sync::Mutex`, timing, spurious condvar
wake-ups.
-/
namespace C06
open Ring

/-- weak fairness, spelled out: every thread of the topology (the producer/draining thread and every handler `(k,j)` with
`k < K`, `j < h k`) is scheduled infinitely often -/
def WeaklyFair (K : Nat) (h : Nat → Nat) (σ : Nat → Tid) : Prop :=
  ∀ t, inTopo K h t → ∀ i, ∃ m, i ≤ m ∧ σ m = t

theorem tiles_sum {a b : Nat} {cs : List (Nat × Nat × Nat)} (h : Tiles a cs b) :
    b = a + (cs.map (·.2.2)).sum := by
  induction h with
  | nil a => simp
  | cons h1 h2 h3 _ ih => subst h1; simp only [List.map_cons, List.sum_cons]; omega

/-! ## (a) spin strategy: termination under weak fairness -/

/-- **C06, spin strategy.** For every ring size `n`, every topology (`K ≥ 1` stages, every stage at least one handler),
every list of batches with `1 ≤ b ≤ n` (this includes the batches `b < n` of the property, and the *empty* list: a
pipeline that is drained without ever publishing) and every weakly fair schedule, the pipeline reaches the state in
which all `write` calls, `drain` and `Drop` have returned and every handler thread has terminated. -/
theorem c06_spin_terminates (n K : Nat) (h : Nat → Nat) (batches : List Nat)
    (hK : 0 < K) (hh : ∀ k, k < K → 0 < h k) (hb : ∀ b, b ∈ batches → 1 ≤ b ∧ b ≤ n)
    (σ : Nat → Tid) (hfair : WeaklyFair K h σ) :
    ∃ t, terminal (Fair.run stepX σ (mk n K h false batches) t) :=
  Spin.ring_terminates (mk n K h false batches) (Spin.linv_init n K h batches hK hh hb) σ hfair

/-- non-vacuity: a concrete weakly fair schedule (producer and the single handler alternate) -/
def alt : Nat → Tid := fun i => if i % 2 = 0 then .prod else .cons 0 0

theorem alt_fair : WeaklyFair 1 (fun _ => 1) alt := by
  intro t ht i
  cases t with
  | prod => exact ⟨2 * i, by omega, by simp [alt]⟩
  | cons k j =>
    obtain ⟨hk, hj⟩ := ht
    change j < 1 at hj
    have hk0 : k = 0 := by omega
    have hj0 : j = 0 := by omega
    subst hk0; subst hj0
    exact ⟨2 * i + 1, by omega, by simp [alt]⟩

example : ∃ t, terminal (Fair.run stepX alt (mk 4 1 (fun _ => 1) false [2, 3, 1, 4]) t) :=
  c06_spin_terminates 4 1 (fun _ => 1) [2, 3, 1, 4] (by omega) (fun _ _ => Nat.one_pos)
    (by intro b hb; simp at hb; omega) alt alt_fair

/-- **when the run is over every `write` has returned with its batch published** (both strategies, every schedule):
in a terminal state no batch is left, every batch of the input became — in order — one claim of exactly its length,
the claims tile `[0, next_write)`, exactly these sequences were written to slots, and the cursor stands at the last
one (`cursor + 1 = next_write = Σ batches`; `0 = 0` when nothing was published). -/
theorem c06_all_written_at_exit (n K : Nat) (h : Nat → Nat) (blocking : Bool) (batches : List Nat)
    (hK : 0 < K) (hh : ∀ k, k < K → 0 < h k) (hb : ∀ b, b ∈ batches → 1 ≤ b)
    (σ : Nat → Tid) (i : Nat) (ht : terminal (Fair.run stepX σ (mk n K h blocking batches) i)) :
    let x := Fair.run stepX σ (mk n K h blocking batches) i
    x.p.todo = [] ∧ x.p.claims.map (·.2.2) = batches ∧ Tiles 0 x.p.claims x.p.nextWrite ∧
    x.p.nextWrite = batches.sum ∧ x.p.written = List.range' 0 batches.sum ∧
    (x.s.cursor + 1 = batches.sum ∨ (x.s.cursor = 0 ∧ batches.sum = 0)) := by
  intro x
  have hW : WInv batches x.p := winv_run batches σ _ (winv_init n K h blocking batches) i
  have hA : PInvAll x := inv_frun σ _ (inv_init n K h blocking batches hK hh hb) i
  have hpc : x.p.pc = .done := ht.1
  obtain ⟨_, _, hP, _⟩ := hA
  have h1 : x.p.todo = [] := hW.empty (by simp [hpc, PPc.draining])
  have h2 : x.p.claims.map (·.2.2) = batches := by
    have := hW.split; simpa [hpc, h1] using this
  have h3 : Tiles 0 x.p.claims x.p.nextWrite := by have := hP.tiles; simpa [hpc] using this
  have h4 : x.p.nextWrite = batches.sum := by have := tiles_sum h3; rw [h2] at this; omega
  have h5 := hP.wrote
  have h6 := hP.nw (by simp [hpc, PPc.idle])
  simp only [hpc] at h5
  refine ⟨h1, h2, h3, h4, by rw [← h4]; simpa using h5, by rw [← h4]; exact h6⟩

/-- **C06, spin strategy: every `write` returns.** Under every weakly fair schedule a moment is reached at which all
threads have finished *and* every batch has been claimed with its exact length, written and published. -/
theorem c06_write_returns (n K : Nat) (h : Nat → Nat) (batches : List Nat)
    (hK : 0 < K) (hh : ∀ k, k < K → 0 < h k) (hb : ∀ b, b ∈ batches → 1 ≤ b ∧ b ≤ n)
    (σ : Nat → Tid) (hfair : WeaklyFair K h σ) :
    ∃ t, terminal (Fair.run stepX σ (mk n K h false batches) t) ∧
      (Fair.run stepX σ (mk n K h false batches) t).p.claims.map (·.2.2) = batches ∧
      (Fair.run stepX σ (mk n K h false batches) t).p.written = List.range' 0 batches.sum ∧
      ((Fair.run stepX σ (mk n K h false batches) t).s.cursor + 1 = batches.sum ∨
        ((Fair.run stepX σ (mk n K h false batches) t).s.cursor = 0 ∧ batches.sum = 0)) := by
  obtain ⟨t, ht⟩ := c06_spin_terminates n K h batches hK hh hb σ hfair
  obtain ⟨_, h2, _, _, h5, h6⟩ :=
    c06_all_written_at_exit n K h false batches hK hh (fun b hbm => (hb b hbm).1) σ t ht
  exact ⟨t, ht, h2, h5, h6⟩

example : ∃ t, terminal (Fair.run stepX alt (mk 4 1 (fun _ => 1) false [2, 3]) t) ∧
    (Fair.run stepX alt (mk 4 1 (fun _ => 1) false [2, 3]) t).p.written = [0, 1, 2, 3, 4] := by
  obtain ⟨t, h1, _, h3, _⟩ := c06_write_returns 4 1 (fun _ => 1) [2, 3] (by omega) (fun _ _ => Nat.one_pos)
    (by intro b hb; simp at hb; omega) alt alt_fair
  exact ⟨t, h1, by rw [h3]; rfl⟩

/-- **C06, spin strategy: a pipeline drained without ever publishing.** With no batch at all, every weakly fair schedule
reaches the terminal state (`drain` and join return); nothing was written and no handler was ever invoked. -/
theorem c06_zero_events_drains (n K : Nat) (h : Nat → Nat)
    (hK : 0 < K) (hh : ∀ k, k < K → 0 < h k) (σ : Nat → Tid) (hfair : WeaklyFair K h σ) :
    ∃ t, terminal (Fair.run stepX σ (mk n K h false []) t) ∧
      (Fair.run stepX σ (mk n K h false []) t).s.cursor = 0 ∧
      (Fair.run stepX σ (mk n K h false []) t).p.written = [] ∧
      ∀ k j, k < K → j < h k → ((Fair.run stepX σ (mk n K h false []) t).s.cons k j).log = [] := by
  obtain ⟨t, ht, _, h3, h4⟩ := c06_write_returns n K h [] hK hh (by simp) σ hfair
  have hA : PInvAll (Fair.run stepX σ (mk n K h false []) t) :=
    inv_frun σ _ (inv_init n K h false [] hK hh (by simp)) t
  have hcur : (Fair.run stepX σ (mk n K h false []) t).s.cursor = 0 := by
    rcases h4 with h4 | h4
    · simp at h4
    · exact h4.1
  refine ⟨t, ht, hcur, by simpa using h3, ?_⟩
  intro k j hk hj
  obtain ⟨eK, eh, _⟩ := topo_frun σ (mk n K h false []) t
  have eK : (Fair.run stepX σ (mk n K h false []) t).s.K = K := eK
  have eh : (Fair.run stepX σ (mk n K h false []) t).s.h = h := eh
  have hk' : k < (Fair.run stepX σ (mk n K h false []) t).s.K := by rw [eK]; exact hk
  have hj' : j < (Fair.run stepX σ (mk n K h false []) t).s.h k := by rw [eh]; exact hj
  have hci := hA.1.2 k j hk' hj'
  have hpc := ht.2 k j hk' hj'
  have hlog := hci.logO (by simp [hpc]) (by simp [hpc])
  have hup := chain_up _ hA.1 k j hk' hj'
  rw [hcur] at hup
  have : ((Fair.run stepX σ (mk n K h false []) t).s.cons k j).cur = 0 := by omega
  rw [hlog, this]; rfl

example : ∃ t, terminal (Fair.run stepX alt (mk 8 1 (fun _ => 1) false []) t) := by
  obtain ⟨t, h, _⟩ := c06_zero_events_drains 8 1 (fun _ => 1) (by omega) (fun _ _ => Nat.one_pos) alt alt_fair
  exact ⟨t, h⟩

/-! ## (b) both strategies, every schedule: deadlock freedom, mutual exclusion, no lost wake-up -/

/-- **C06: no deadlock** (spin *and* blocking strategy, every reachable state of every configuration, every schedule).
As long as the run is not over, some thread of the topology has an enabled step: not a `lock` on a taken mutex and not
the re-acquisition of a handler that is parked on the condvar without having been notified. -/
theorem c06_no_deadlock {x : PSt} (hr : Reachable x) (hnt : ¬ terminal x) :
    ∃ t, inTopo x.s.K x.s.h t ∧ enabled x t = true :=
  exists_enabled (reachable_binv hr) hnt

/-- non-vacuity: a blocking pipeline in the middle of a run — the handler has parked itself on the condvar (7 steps),
then the producer has written and published a batch of two and stands before the `lock` of its `signal()` (6 steps) -/
def parkedState : PSt :=
  runX (mk 4 1 (fun _ => 1) true [2])
    [.cons 0 0, .cons 0 0, .cons 0 0, .cons 0 0, .cons 0 0, .cons 0 0, .cons 0 0,
     .prod, .prod, .prod, .prod, .prod, .prod]

theorem parkedState_reachable : Reachable parkedState :=
  ⟨4, 1, fun _ => 1, true, [2], _, by omega, fun _ _ => Nat.one_pos, by intro b hb; simp at hb; omega, rfl⟩

theorem parkedState_facts :
    (parkedState.s.cons 0 0).pc = .bRelock ∧ parkedState.s.woken 0 0 = false ∧ parkedState.s.cursor = 1 ∧
    (parkedState.s.cons 0 0).cur = 0 ∧ parkedState.p.pc = .pLock ∧ parkedState.s.mtx = none := by
  decide

example : ∃ t, inTopo parkedState.s.K parkedState.s.h t ∧ enabled parkedState t = true :=
  c06_no_deadlock parkedState_reachable (by intro h; have := h.1; simp [parkedState_facts.2.2.2.2.1] at this)

/-- **C06: mutual exclusion / ownership of the wait strategy's mutex** (blocking strategy, every schedule): a thread is
at a program point between its `lock` and its `unlock` / `cvar.wait` exactly when the model's mutex is owned by it; in
particular no two threads are inside their critical sections (check-and-park, `notify_all`) at the same time. -/
theorem c06_mutual_exclusion {x : PSt} (hr : Reachable x) (hb : x.s.blocking = true) :
    (∀ k j, k < x.s.K → j < x.s.h k → (cHold (x.s.cons k j).pc = true ↔ x.s.mtx = some (.cons k j))) ∧
    (pHold x.p.pc = true ↔ x.s.mtx = some .prod) ∧
    (∀ k j k' j', k < x.s.K → j < x.s.h k → k' < x.s.K → j' < x.s.h k' →
        cHold (x.s.cons k j).pc = true → cHold (x.s.cons k' j').pc = true → k = k' ∧ j = j') ∧
    (∀ k j, k < x.s.K → j < x.s.h k → cHold (x.s.cons k j).pc = true → pHold x.p.pc = false) := by
  have hM := (reachable_binv hr).mtx
  refine ⟨fun k j hk hj => (hM.blkC hb k j hk hj).1, hM.blkP hb, ?_, ?_⟩
  · intro k j k' j' hk hj hk' hj' h1 h2
    have e1 := ((hM.blkC hb k j hk hj).1).1 h1
    have e2 := ((hM.blkC hb k' j' hk' hj').1).1 h2
    rw [e1] at e2
    injection e2 with e2; injection e2 with a b
    exact ⟨a, b⟩
  · intro k j hk hj h1
    have e1 := ((hM.blkC hb k j hk hj).1).1 h1
    cases hp : pHold x.p.pc
    · rfl
    · have := (hM.blkP hb).1 hp
      rw [e1] at this; cases this

/-- **C06: no lost wake-up** (every reachable state, every schedule). Whenever a handler is parked on the condvar
(`bRelock`: it has executed `cvar.wait`, which released the mutex) and its wait condition already holds (every
dependency cursor `≥ next`) or `is_done` is set, then either it has been notified (`woken`), or some *other* thread is
at a program point between its store and the `notify_all` of its `signal()` — the producer at
`pLock/pNotify` (after the cursor store), `dLock/dNotify` (drain loop), `eLock/eNotify` (after `is_done := true` in
`drain`), `fLock/fNotify` (after the store in `Drop`), or a handler at `sLock/sNotify` (after its cursor store) — from
which it executes `notify_all` before it can block. Check-and-park is atomic under the mutex (`bLock … bWait`). -/
theorem c06_no_lost_wakeup {x : PSt} (hr : Reachable x) (k j : Nat) (hk : k < x.s.K) (hj : j < x.s.h k)
    (hpark : (x.s.cons k j).pc = .bRelock) (hc : condC x.s k (x.s.cons k j) ∨ x.s.isDone = true) :
    x.s.woken k j = true ∨ pPend x.p.pc = true ∨
      ∃ k' j', k' < x.s.K ∧ j' < x.s.h k' ∧ (k', j') ≠ (k, j) ∧ cPend (x.s.cons k' j').pc = true :=
  no_lost_wakeup (reachable_binv hr) k j hk hj hpark hc

/-- non-vacuity: in `parkedState` the handler is parked, not notified, its condition holds — and indeed the producer
stands before its `signal()` -/
example : pPend parkedState.p.pc = true := by
  have hf := parkedState_facts
  have hcond : condC parkedState.s 0 (parkedState.s.cons 0 0) := by
    intro d _; simp only [dep, if_true]; rw [hf.2.2.1, hf.2.2.2.1]; omega
  rcases c06_no_lost_wakeup parkedState_reachable 0 0 (by decide) (by decide) hf.1 (Or.inl hcond) with h | h | h
  · rw [hf.2.1] at h; cases h
  · exact h
  · obtain ⟨k', j', hk', hj', hne, _⟩ := h
    have hK : parkedState.s.K = 1 := by decide
    have hh : parkedState.s.h k' = 1 := rfl
    exfalso; apply hne
    have : k' = 0 := by omega
    have : j' = 0 := by omega
    subst_vars; rfl

/-- **C06: wait conditions are monotone** (every schedule): a handler's wait condition, the producer's gate condition
and its drain condition, once true, stay true under every step of every thread (for the handler: as long as its own
cursor is unchanged), and `is_done` is never reset. Together with `c06_no_lost_wakeup` this is why a thread whose
condition has become true cannot be blocked for ever. -/
theorem c06_wait_conditions_stable {x : PSt} (hr : Reachable x) (t : Tid) :
    (∀ k j, ((stepX x t).s.cons k j).cur = (x.s.cons k j).cur → condC x.s k (x.s.cons k j) →
        condC (stepX x t).s k ((stepX x t).s.cons k j)) ∧
    (∀ stop, condG x.s stop → condG (stepX x t).s stop) ∧
    (∀ nw, condD x.s nw → condD (stepX x t).s nw) ∧
    (x.s.isDone = true → (stepX x t).s.isDone = true) := by
  have hB := reachable_binv hr
  exact ⟨fun k j hcur hc => condC_stable x t hB.base k j hcur hc,
         fun stop hc => condG_stable x t hB.base stop hc,
         fun nw hc => condD_stable x t hB.base nw hc,
         fun hd => isDone_stable x t hB.mtx hd⟩

/-! ## (c) blocking strategy: termination under weak fairness + strong fairness of lock acquisition -/

/-- strong fairness of lock acquisition (the assumption about `std::sync::Mutex` / the OS recorded in DESIGN.md §7 C06):
a thread of the topology whose `lock` step — or the re-acquisition after `cvar.wait`, which additionally needs the
notification — is enabled infinitely often along the run eventually takes it while it is enabled. Every other step is
always enabled, for those weak fairness suffices. -/
def LockFair (K : Nat) (h : Nat → Nat) (σ : Nat → Tid) (x0 : PSt) : Prop :=
  ∀ t, inTopo K h t →
    (∀ i, ∃ m, i ≤ m ∧ Blk.atLock (Fair.run stepX σ x0 m) t = true ∧ enabled (Fair.run stepX σ x0 m) t = true) →
    ∀ i, ∃ m, i ≤ m ∧ σ m = t ∧ Blk.atLock (Fair.run stepX σ x0 m) t = true ∧
      enabled (Fair.run stepX σ x0 m) t = true

/-- **C06, blocking strategy.** For every ring size `n`, every topology (`K ≥ 1`, every stage at least one handler),
every list of batches with `1 ≤ b ≤ n` (including the empty list) and every schedule that is weakly fair and strongly
fair for lock acquisition, the pipeline with the *blocking* wait strategy reaches the state in which all `write`
calls, `drain` and `Drop` have returned and every handler thread has terminated: no wake-up is lost, nobody waits for
ever on the mutex or on the condvar.

Proof: `Fair.fair_termination_sf` with the measure `(2·#handlers + 1) · remaining work + outstanding wake-ups`
(`Blk.μ`), the readiness predicate `Blk.ready` (a thread whose wait is over, a handler on its way to park although its
wait is over, or the notifier such a parked handler waits for — `Blk.exists_ready` is deadlock freedom in this strong
sense and uses `no_lost_wakeup`), per-thread ranks `Blk.rank`, and "the owner of the mutex releases it after at most
`Blk.hrank` own steps". -/
theorem c06_blocking_terminates (n K : Nat) (h : Nat → Nat) (batches : List Nat)
    (hK : 0 < K) (hh : ∀ k, k < K → 0 < h k) (hb : ∀ b, b ∈ batches → 1 ≤ b ∧ b ≤ n)
    (σ : Nat → Tid) (hfair : WeaklyFair K h σ) (hlock : LockFair K h σ (mk n K h true batches)) :
    ∃ t, terminal (Fair.run stepX σ (mk n K h true batches) t) :=
  Blk.ring_terminates (mk n K h true batches) (Blk.jinv_init n K h batches hK hh hb) σ hfair
    (Blk.strongFair_of_lockFair _ σ _ hfair hlock)

/-- `write` returns under the blocking strategy as well: at the moment the run is over every batch has been claimed
with its exact length, written and published -/
theorem c06_blocking_write_returns (n K : Nat) (h : Nat → Nat) (batches : List Nat)
    (hK : 0 < K) (hh : ∀ k, k < K → 0 < h k) (hb : ∀ b, b ∈ batches → 1 ≤ b ∧ b ≤ n)
    (σ : Nat → Tid) (hfair : WeaklyFair K h σ) (hlock : LockFair K h σ (mk n K h true batches)) :
    ∃ t, terminal (Fair.run stepX σ (mk n K h true batches) t) ∧
      (Fair.run stepX σ (mk n K h true batches) t).p.claims.map (·.2.2) = batches ∧
      (Fair.run stepX σ (mk n K h true batches) t).p.written = List.range' 0 batches.sum ∧
      ((Fair.run stepX σ (mk n K h true batches) t).s.cursor + 1 = batches.sum ∨
        ((Fair.run stepX σ (mk n K h true batches) t).s.cursor = 0 ∧ batches.sum = 0)) := by
  obtain ⟨t, ht⟩ := c06_blocking_terminates n K h batches hK hh hb σ hfair hlock
  obtain ⟨_, h2, _, _, h5, h6⟩ :=
    c06_all_written_at_exit n K h true batches hK hh (fun b hbm => (hb b hbm).1) σ t ht
  exact ⟨t, ht, h2, h5, h6⟩

set_option maxRecDepth 20000 in
/-- non-vacuity of the fairness hypotheses: the alternating schedule is weakly fair and lock-fair for the blocking
pipeline `n = 2`, one handler, batches `[1, 1]` — under it the run is over after 83 steps (checked by evaluation) -/
theorem alt_lockfair : LockFair 1 (fun _ => 1) alt (mk 2 1 (fun _ => 1) true [1, 1]) := by
  have hT : terminal (Fair.run stepX alt (mk 2 1 (fun _ => 1) true [1, 1]) 83) := by
    refine ⟨by decide, ?_⟩
    intro k j hk hj
    have hK : (Fair.run stepX alt (mk 2 1 (fun _ => 1) true [1, 1]) 83).s.K = 1 := (topo_frun _ _ _).1
    have hh : (Fair.run stepX alt (mk 2 1 (fun _ => 1) true [1, 1]) 83).s.h = fun _ => 1 := (topo_frun _ _ _).2.1
    rw [hK] at hk; rw [hh] at hj
    have hk0 : k = 0 := by omega
    have hj0 : j = 0 := by simp at hj; omega
    subst hk0; subst hj0
    decide
  exact Blk.lockFair_of_terminates alt _ 83 hT

example : ∃ t, terminal (Fair.run stepX alt (mk 2 1 (fun _ => 1) true [1, 1]) t) :=
  c06_blocking_terminates 2 1 (fun _ => 1) [1, 1] (by omega) (fun _ _ => Nat.one_pos)
    (by intro b hb; simp at hb; omega) alt alt_fair alt_lockfair

/-- **C06, blocking strategy: no deadlock in the strong sense** (every schedule). As long as the run is not over,
some thread of the topology is *ready*: its wait is over (or it never waits) and it reaches its next progress event
after a bounded number of own steps — or it is the thread that is about to deliver the wake-up a parked handler is
waiting for. (For the spin strategy the same statement is `Spin.exists_ready`.) -/
theorem c06_blocking_some_thread_ready (n K : Nat) (h : Nat → Nat) (batches : List Nat)
    (hK : 0 < K) (hh : ∀ k, k < K → 0 < h k) (hb : ∀ b, b ∈ batches → 1 ≤ b ∧ b ≤ n) (sched : List Tid)
    (hnt : ¬ terminal (runX (mk n K h true batches) sched)) :
    ∃ t, inTopo (runX (mk n K h true batches) sched).s.K (runX (mk n K h true batches) sched).s.h t ∧
      Blk.ready (runX (mk n K h true batches) sched) t :=
  Blk.exists_ready _ (Blk.jinv_run _ sched (Blk.jinv_init n K h batches hK hh hb)) hnt

/-! ## (d)–(f) the multi-producer sequencer -/

section Multi
open RingMulti

/-- weak fairness for the multi-producer pipeline: every writer thread `i < P`, the draining thread and every handler `(k,j)`
of the topology is scheduled infinitely often -/
def WeaklyFairM (P K : Nat) (h : Nat → Nat) (σ : Nat → MTid) : Prop :=
  ∀ t, inTopoM P K h t → ∀ i, ∃ m, i ≤ m ∧ σ m = t

/-- strong fairness of lock acquisition (as `LockFair` above): a thread whose `lock` step — or the re-acquisition after
`cvar.wait`, which additionally needs the notification — is enabled infinitely often along the run eventually takes it
while it is enabled. Every other step (including the join of the writer threads, which is a stutter until they have ended
and enabled for ever after) only needs weak fairness. -/
def LockFairM (P K : Nat) (h : Nat → Nat) (σ : Nat → MTid) (x0 : MSt) : Prop :=
  ∀ t, inTopoM P K h t →
    (∀ i, ∃ m, i ≤ m ∧ BlkM.atLock (Fair.run stepM σ x0 m) t = true ∧ enabledM (Fair.run stepM σ x0 m) t = true) →
    ∀ i, ∃ m, i ≤ m ∧ σ m = t ∧ BlkM.atLock (Fair.run stepM σ x0 m) t = true ∧
      enabledM (Fair.run stepM σ x0 m) t = true

theorem frun_reachable (n K : Nat) (h : Nat → Nat) (bl : Bool) (batches : List (List Nat))
    (hK : 0 < K) (hh : ∀ k, k < K → 0 < h k) (hb : ∀ l, l ∈ batches → ∀ b, b ∈ l → 1 ≤ b) (σ : Nat → MTid) (i : Nat) :
    MReachableWF (Fair.run stepM σ (mkM n K h bl batches) i) :=
  ⟨n, K, h, bl, batches, (List.range i).map σ, hK, hh, hb, BlkM.frun_eq_runM σ _ i⟩

/-! ### (d) any number of writers, both strategies, every schedule -/

/-- **C06, multi producer: no deadlock** (spin *and* blocking strategy, any number of writer threads, every reachable
state, every schedule). As long as the run is not over, some thread of the configuration has an enabled step
(`RingMulti.enabledM`): not a `lock` on a taken mutex, not the re-acquisition of a handler that is parked on the condvar
without having been notified, not the join of a writer thread that is still running. (This is deadlock freedom; a writer
spinning for ever in `has_capacity` behind a stranded sequence — F11 — is enabled all the time.) -/
theorem c06_multi_no_deadlock {x : MSt} (hr : MReachableWF x) (hnt : ¬ terminalM x) :
    ∃ t, inTopoM x.P x.s.K x.s.h t ∧ enabledM x t = true :=
  exists_enabled (mreachableWF_ginv hr) hnt

/-- **C06, multi producer: mutual exclusion / ownership of the wait strategy's mutex** (blocking strategy, any number of
writers, every schedule): a handler is between its `lock` and its `unlock` / `cvar.wait` exactly when the model's mutex is
owned by it; the mutex is owned by the producer side exactly when a writer thread is inside `signal()`
(`sNotify/sUnlock`) or the draining thread is (`dNotify/dUnlock/eNotify/eUnlock`); at most one writer is, never a writer
and the draining thread together, never a handler and one of them together. -/
theorem c06_multi_mutual_exclusion {x : MSt} (hr : MReachableWF x) (hb : x.s.blocking = true) :
    (∀ k j, k < x.s.K → j < x.s.h k → (cHold (x.s.cons k j).pc = true ↔ x.s.mtx = some (.cons k j))) ∧
    (x.s.mtx = some .prod ↔ (dHold x.dr.pc = true ∨ ∃ i, i < x.P ∧ wHold (x.wr i).pc = true)) ∧
    (∀ i j, i < x.P → j < x.P → wHold (x.wr i).pc = true → wHold (x.wr j).pc = true → i = j) ∧
    (∀ i, i < x.P → wHold (x.wr i).pc = true → dHold x.dr.pc = false) ∧
    (∀ k j k' j', k < x.s.K → j < x.s.h k → k' < x.s.K → j' < x.s.h k' →
        cHold (x.s.cons k j).pc = true → cHold (x.s.cons k' j').pc = true → k = k' ∧ j = j') ∧
    (∀ k j, k < x.s.K → j < x.s.h k → cHold (x.s.cons k j).pc = true →
        dHold x.dr.pc = false ∧ ∀ i, i < x.P → wHold (x.wr i).pc = false) := by
  have hM := (mreachableWF_ginv hr).mtx
  refine ⟨fun k j hk hj => (hM.blkC hb k j hk hj).1, hM.blkP hb, hM.uniqW, hM.uniqD, ?_, ?_⟩
  · intro k j k' j' hk hj hk' hj' h1 h2
    have e1 := ((hM.blkC hb k j hk hj).1).1 h1
    have e2 := ((hM.blkC hb k' j' hk' hj').1).1 h2
    rw [e1] at e2
    injection e2 with e2; injection e2 with a b
    exact ⟨a, b⟩
  · intro k j hk hj h1
    have e1 := ((hM.blkC hb k j hk hj).1).1 h1
    refine ⟨?_, fun i hi => ?_⟩
    · apply bool_false_of_ne_true; intro hd
      have := (hM.blkP hb).2 (Or.inl hd); rw [e1] at this; cases this
    · apply bool_false_of_ne_true; intro hw
      have := (hM.blkP hb).2 (Or.inr ⟨i, hi, hw⟩); rw [e1] at this; cases this

/-- **C06, multi producer: no lost wake-up** (any number of writers, every reachable state, every schedule). Whenever a
handler is parked on the condvar (`bRelock`) and its wait condition already holds or `is_done` is set, then either it has
been notified (`woken`), or some *other* thread is at a program point between its store and the `notify_all` of its
`signal()`: the draining thread at `dLock/dNotify` (drain loop) or `eLock/eNotify` (after `is_done := true`), a writer
thread at `setLw/sLock/sNotify` (after its CAS on the cursor), or a handler at `sLock/sNotify` (after its cursor store). -/
theorem c06_multi_no_lost_wakeup {x : MSt} (hr : MReachableWF x) (k j : Nat) (hk : k < x.s.K) (hj : j < x.s.h k)
    (hpark : (x.s.cons k j).pc = .bRelock) (hc : condC x.s k (x.s.cons k j) ∨ x.s.isDone = true) :
    x.s.woken k j = true ∨ dPend x.dr.pc = true ∨ (∃ i, i < x.P ∧ wPend (x.wr i).pc = true) ∨
      ∃ k' j', k' < x.s.K ∧ j' < x.s.h k' ∧ (k', j') ≠ (k, j) ∧ cPend (x.s.cons k' j').pc = true :=
  RingMulti.no_lost_wakeup (mreachableWF_ginv hr) k j hk hj hpark hc

/-- **C06, multi producer: wait conditions are monotone** (every schedule): a handler's wait condition (as long as its own
cursor is unchanged), the drain condition, and — under every step that leaves the high watermark alone, i.e. every step
but a successful claim — a writer's capacity condition, once true, stay true; `is_done` is never reset. -/
theorem c06_multi_wait_conditions_stable {x : MSt} (hr : MReachableWF x) (t : MTid) :
    (∀ k j, ((stepM x t).s.cons k j).cur = (x.s.cons k j).cur → condC x.s k (x.s.cons k j) →
        condC (stepM x t).s k ((stepM x t).s.cons k j)) ∧
    (∀ i, (stepM x t).hw = x.hw → ((stepM x t).wr i).count = (x.wr i).count → condCap x i → condCap (stepM x t) i) ∧
    ((stepM x t).dr.current = x.dr.current → condDM x → condDM (stepM x t)) ∧
    (x.s.isDone = true → (stepM x t).s.isDone = true) := by
  have hG := mreachableWF_ginv hr
  refine ⟨fun k j hcur hc => RingMulti.condC_stable x t hG.good k j hcur hc, ?_, ?_,
    fun hd => RingMulti.isDone_stable x t hG.mtx hd⟩
  · intro i hhw hcnt hc d hd
    rw [ngate_stepM] at hd
    have := hc d hd
    have := gate_mono_stepM x t hG.good d
    rw [hhw, hcnt, (topo_stepM x t).2.2.1]; omega
  · intro hcur hc d hd
    rw [ngate_stepM] at hd
    have := hc d hd
    have := gate_mono_stepM x t hG.good d
    rw [hcur]; omega

/-! ### (e) one writer thread: termination -/

/-- **C06, multi-producer sequencer with one writer thread, spin strategy.** For every ring size `2^k`, every topology
(`K ≥ 1` stages, every stage at least one handler), every list of batches with `1 ≤ b < 2^k` (what `has_capacity` needs;
this includes the *empty* list: a pipeline that is drained without ever publishing) and every weakly fair schedule of the
writer thread, the draining thread and the handlers, the pipeline reaches the state in which the writer has returned from
all `write` calls, `drain` has returned and every handler thread has terminated.

Proof: `Fair.fair_termination` with the measure `RingMulti.μmain`, readiness `SpinM.ready`, ranks `SpinM.rank`. The
multi-producer specifics: the writer spins in `next`, re-reading the high watermark and the gating cursors, until the
slowest last-stage handler has advanced far enough (`readyW`/`condCap`); the handlers can always advance because with one
writer the cursor equals the published prefix (`Lemmas/RingMultiSerial.lean`: every `publish` releases exactly its own
range, its CAS on the cursor succeeds at the first attempt); the join is enabled once the writer is done; `drain` reads
the cursor once and waits for the last stage to reach it. -/
theorem c06_multi_single_writer_spin_terminates (k K : Nat) (h : Nat → Nat) (bs : List Nat)
    (hK : 0 < K) (hh : ∀ j, j < K → 0 < h j) (hb : ∀ b, b ∈ bs → 1 ≤ b ∧ b < 2 ^ k)
    (σ : Nat → MTid) (hfair : WeaklyFairM 1 K h σ) :
    ∃ t, terminalM (Fair.run stepM σ (mkM (2 ^ k) K h false [bs]) t) :=
  SpinM.terminates (mkM (2 ^ k) K h false [bs]) ⟨lj_init_single k K h false bs hK hh hb, rfl⟩ σ hfair

/-- **C06, multi-producer sequencer with one writer thread, blocking strategy.** As above for every schedule that is
weakly fair and strongly fair for lock acquisition: no wake-up is lost (the alert check of a handler is under the mutex;
the writer signals after every CAS on the cursor, `drain` on every loop iteration and after `is_done := true`), nobody
waits for ever on the mutex or on the condvar.

Proof: `Fair.fair_termination_sf` with the measure `BlkM.μ = (2·#handlers + 1)·μmain + outstanding wake-ups`. -/
theorem c06_multi_single_writer_blocking_terminates (k K : Nat) (h : Nat → Nat) (bs : List Nat)
    (hK : 0 < K) (hh : ∀ j, j < K → 0 < h j) (hb : ∀ b, b ∈ bs → 1 ≤ b ∧ b < 2 ^ k)
    (σ : Nat → MTid) (hfair : WeaklyFairM 1 K h σ) (hlock : LockFairM 1 K h σ (mkM (2 ^ k) K h true [bs])) :
    ∃ t, terminalM (Fair.run stepM σ (mkM (2 ^ k) K h true [bs]) t) :=
  BlkM.terminates (mkM (2 ^ k) K h true [bs]) ⟨lj_init_single k K h true bs hK hh hb, rfl⟩ σ hfair
    (BlkM.strongFair_of_lockFair _ σ _ hfair hlock)

theorem all_written_of_terminal (k : Nat) (bs : List Nat) (x : MSt) (hr : MReachableWF x) (hn : x.s.n = 2 ^ k)
    (hP : x.P = 1) (hS : SerAll x) (hW : WBook bs x) (hT0 : TodoDone x) (ht : terminalM x) :
    (x.wr 0).todo = [] ∧ (x.wr 0).claims.map (·.2.2) = bs ∧ x.hw = bs.sum ∧ x.s.cursor = bs.sum ∧
    ∀ q, 1 ≤ q → q ≤ bs.sum → (q, 0) ∈ x.written := by
  have hO := (mreachableWF_safeOwn hr k hn).2
  have hdone : ∀ a, a < x.P → (x.wr a).pc = .done := ht.1
  have hpc : (x.wr 0).pc = .done := hdone 0 (by omega)
  obtain ⟨w1, w2⟩ := hW
  have hcur : x.s.cursor = x.hw := serial_cursor_eq_hw x hS hdone
  have h1 : (x.wr 0).todo = [] := hT0 0 hpc
  have h2 : (x.wr 0).claims.map (·.2.2) = bs := by
    simpa [hpc, WPc.claiming, h1] using w1
  have hT : Tiles 1 x.allClaims (x.hw + 1) := (mreachableWF_good hr).1.tiles
  have h3 : x.hw = bs.sum := by
    have := tiles_sum hT; rw [w2, h2] at this; omega
  refine ⟨h1, h2, h3, by rw [hcur, h3], ?_⟩
  intro q q1 q2
  rcases hS.1.2.wrote q q1 (by omega) with ⟨a, ha⟩ | ⟨a, ha, hu⟩
  · obtain ⟨ha', _⟩ := hO.wrote q a ha
    have : a = 0 := by omega
    subst this; exact ha
  · have := hu.1; rw [hdone a ha] at this; cases this

/-- **when the run is over every `write` has returned with its batch published** (one writer, both strategies, every
schedule): in a terminal state every batch of the input became — in order — one claim of exactly its length, the high
watermark and the cursor stand at `Σ batches`, and every sequence `1 … Σ batches` was written to its slot by the writer. -/
theorem c06_multi_all_written_at_exit (k K : Nat) (h : Nat → Nat) (blocking : Bool) (bs : List Nat)
    (hK : 0 < K) (hh : ∀ j, j < K → 0 < h j) (hb : ∀ b, b ∈ bs → 1 ≤ b)
    (σ : Nat → MTid) (i : Nat) (ht : terminalM (Fair.run stepM σ (mkM (2 ^ k) K h blocking [bs]) i)) :
    ((Fair.run stepM σ (mkM (2 ^ k) K h blocking [bs]) i).wr 0).todo = [] ∧
    ((Fair.run stepM σ (mkM (2 ^ k) K h blocking [bs]) i).wr 0).claims.map (·.2.2) = bs ∧
    (Fair.run stepM σ (mkM (2 ^ k) K h blocking [bs]) i).hw = bs.sum ∧
    (Fair.run stepM σ (mkM (2 ^ k) K h blocking [bs]) i).s.cursor = bs.sum ∧
    ∀ q, 1 ≤ q → q ≤ bs.sum → (q, 0) ∈ (Fair.run stepM σ (mkM (2 ^ k) K h blocking [bs]) i).written := by
  have hb1 : ∀ l, l ∈ [bs] → ∀ b, b ∈ l → 1 ≤ b := by
    intro l hl b hbl; simp at hl; subst hl; exact hb b hbl
  have hP : ∀ j, (Fair.run stepM σ (mkM (2 ^ k) K h blocking [bs]) j).P = 1 := fun j => (BlkM.topo_frun σ _ j).2.2.2
  have hW : ∀ j, WBook bs (Fair.run stepM σ (mkM (2 ^ k) K h blocking [bs]) j) := by
    intro j
    induction j with
    | zero => exact wbook_init _ K h blocking bs
    | succ j ih => exact wbook_stepM bs _ _ (hP j) ih
  have hS : SerAll (Fair.run stepM σ (mkM (2 ^ k) K h blocking [bs]) i) := by
    rw [BlkM.frun_eq_runM σ _ i]
    exact serAll_run _ _ (serAll_init k K h blocking [bs] hK hh hb1) (serialSched_of_single _ rfl _)
  exact all_written_of_terminal k bs _ (frun_reachable _ K h blocking [bs] hK hh hb1 σ i) (BlkM.topo_frun σ _ i).2.2.1
    (hP i) hS (hW i) (todoDone_frun σ _ (by intro a ha; simp [mkM] at ha) i) ht

/-- **C06, one writer, spin strategy: every `write` returns.** Under every weakly fair schedule a moment is reached at
which all threads have finished *and* every batch has been claimed with its exact length, written and published. -/
theorem c06_multi_single_writer_write_returns (k K : Nat) (h : Nat → Nat) (bs : List Nat)
    (hK : 0 < K) (hh : ∀ j, j < K → 0 < h j) (hb : ∀ b, b ∈ bs → 1 ≤ b ∧ b < 2 ^ k)
    (σ : Nat → MTid) (hfair : WeaklyFairM 1 K h σ) :
    ∃ t, terminalM (Fair.run stepM σ (mkM (2 ^ k) K h false [bs]) t) ∧
      ((Fair.run stepM σ (mkM (2 ^ k) K h false [bs]) t).wr 0).claims.map (·.2.2) = bs ∧
      (Fair.run stepM σ (mkM (2 ^ k) K h false [bs]) t).s.cursor = bs.sum ∧
      ∀ q, 1 ≤ q → q ≤ bs.sum → (q, 0) ∈ (Fair.run stepM σ (mkM (2 ^ k) K h false [bs]) t).written := by
  obtain ⟨t, ht⟩ := c06_multi_single_writer_spin_terminates k K h bs hK hh hb σ hfair
  obtain ⟨_, h2, _, h4, h5⟩ := c06_multi_all_written_at_exit k K h false bs hK hh (fun b hbm => (hb b hbm).1) σ t ht
  exact ⟨t, ht, h2, h4, h5⟩

/-- `write` returns under the blocking strategy as well -/
theorem c06_multi_single_writer_blocking_write_returns (k K : Nat) (h : Nat → Nat) (bs : List Nat)
    (hK : 0 < K) (hh : ∀ j, j < K → 0 < h j) (hb : ∀ b, b ∈ bs → 1 ≤ b ∧ b < 2 ^ k)
    (σ : Nat → MTid) (hfair : WeaklyFairM 1 K h σ) (hlock : LockFairM 1 K h σ (mkM (2 ^ k) K h true [bs])) :
    ∃ t, terminalM (Fair.run stepM σ (mkM (2 ^ k) K h true [bs]) t) ∧
      ((Fair.run stepM σ (mkM (2 ^ k) K h true [bs]) t).wr 0).claims.map (·.2.2) = bs ∧
      (Fair.run stepM σ (mkM (2 ^ k) K h true [bs]) t).s.cursor = bs.sum ∧
      ∀ q, 1 ≤ q → q ≤ bs.sum → (q, 0) ∈ (Fair.run stepM σ (mkM (2 ^ k) K h true [bs]) t).written := by
  obtain ⟨t, ht⟩ := c06_multi_single_writer_blocking_terminates k K h bs hK hh hb σ hfair hlock
  obtain ⟨_, h2, _, h4, h5⟩ := c06_multi_all_written_at_exit k K h true bs hK hh (fun b hbm => (hb b hbm).1) σ t ht
  exact ⟨t, ht, h2, h4, h5⟩

/-- a run over: nothing was published, so no handler was ever invoked and nothing was written -/
theorem zero_events_facts (k K : Nat) (h : Nat → Nat) (bl : Bool) (hK : 0 < K) (hh : ∀ j, j < K → 0 < h j)
    (σ : Nat → MTid) (t : Nat) (ht : terminalM (Fair.run stepM σ (mkM (2 ^ k) K h bl [[]]) t)) :
    (Fair.run stepM σ (mkM (2 ^ k) K h bl [[]]) t).s.cursor = 0 ∧
    (Fair.run stepM σ (mkM (2 ^ k) K h bl [[]]) t).written = [] ∧
    ∀ a j, a < K → j < h a → ((Fair.run stepM σ (mkM (2 ^ k) K h bl [[]]) t).s.cons a j).log = [] := by
  obtain ⟨_, h2, _, h4, _⟩ := c06_multi_all_written_at_exit k K h bl [] hK hh (by simp) σ t ht
  have hr : MReachableWF (Fair.run stepM σ (mkM (2 ^ k) K h bl [[]]) t) :=
    frun_reachable _ K h bl [[]] hK hh (by simp) σ t
  have hn := (BlkM.topo_frun σ (mkM (2 ^ k) K h bl [[]]) t).2.2.1
  have hO := (mreachableWF_safeOwn hr k hn).2
  have hP := (BlkM.topo_frun σ (mkM (2 ^ k) K h bl [[]]) t).2.2.2
  have hcl : ((Fair.run stepM σ (mkM (2 ^ k) K h bl [[]]) t).wr 0).claims = [] := by simpa using h2
  have hcur : (Fair.run stepM σ (mkM (2 ^ k) K h bl [[]]) t).s.cursor = 0 := by simpa using h4
  refine ⟨hcur, ?_, ?_⟩
  · apply List.eq_nil_iff_forall_not_mem.2
    rintro ⟨q, a⟩ hq
    obtain ⟨ha, c, hc, _⟩ := hO.wrote q a hq
    have : a = 0 := by rw [hP] at ha; exact Nat.lt_one_iff.1 ha
    subst this; rw [hcl] at hc; cases hc
  · intro a j ha hj
    obtain ⟨eK, eh, _⟩ := BlkM.topo_frun σ (mkM (2 ^ k) K h bl [[]]) t
    have eK : (Fair.run stepM σ (mkM (2 ^ k) K h bl [[]]) t).s.K = K := eK
    have eh : (Fair.run stepM σ (mkM (2 ^ k) K h bl [[]]) t).s.h = h := eh
    have ha' : a < (Fair.run stepM σ (mkM (2 ^ k) K h bl [[]]) t).s.K := by rw [eK]; exact ha
    have hj' : j < (Fair.run stepM σ (mkM (2 ^ k) K h bl [[]]) t).s.h a := by rw [eh]; exact hj
    have hI := (mreachableWF_good hr).2.1
    have hci := hI.2 a j ha' hj'
    have hpc := ht.2.2 a j ha' hj'
    have hlog := hci.logO (by simp [hpc]) (by simp [hpc])
    have hup := chain_up _ hI a j ha' hj'
    rw [hcur] at hup
    have : ((Fair.run stepM σ (mkM (2 ^ k) K h bl [[]]) t).s.cons a j).cur = 0 := by omega
    rw [hlog, this]; rfl

/-- **C06, one writer, a pipeline drained without ever publishing** (both strategies). With no batch at all, every fair
schedule reaches the terminal state (join, `drain` and the handler threads return); the cursor is still 0, nothing was
written and no handler was ever invoked. -/
theorem c06_multi_single_writer_zero_events_drains (k K : Nat) (h : Nat → Nat)
    (hK : 0 < K) (hh : ∀ j, j < K → 0 < h j) (σ : Nat → MTid) (hfair : WeaklyFairM 1 K h σ) :
    (∃ t, terminalM (Fair.run stepM σ (mkM (2 ^ k) K h false [[]]) t) ∧
      (Fair.run stepM σ (mkM (2 ^ k) K h false [[]]) t).s.cursor = 0 ∧
      (Fair.run stepM σ (mkM (2 ^ k) K h false [[]]) t).written = [] ∧
      ∀ a j, a < K → j < h a → ((Fair.run stepM σ (mkM (2 ^ k) K h false [[]]) t).s.cons a j).log = []) ∧
    (LockFairM 1 K h σ (mkM (2 ^ k) K h true [[]]) →
      ∃ t, terminalM (Fair.run stepM σ (mkM (2 ^ k) K h true [[]]) t) ∧
      (Fair.run stepM σ (mkM (2 ^ k) K h true [[]]) t).s.cursor = 0 ∧
      (Fair.run stepM σ (mkM (2 ^ k) K h true [[]]) t).written = [] ∧
      ∀ a j, a < K → j < h a → ((Fair.run stepM σ (mkM (2 ^ k) K h true [[]]) t).s.cons a j).log = []) := by
  constructor
  · obtain ⟨t, ht⟩ := c06_multi_single_writer_spin_terminates k K h [] hK hh (by simp) σ hfair
    exact ⟨t, ht, zero_events_facts k K h false hK hh σ t ht⟩
  · intro hlock
    obtain ⟨t, ht⟩ := c06_multi_single_writer_blocking_terminates k K h [] hK hh (by simp) σ hfair hlock
    exact ⟨t, ht, zero_events_facts k K h true hK hh σ t ht⟩

/-! ### (f) any number of writers: `drain` and the handlers terminate once everything claimed has been released -/

theorem lj_of_released {x : MSt} (hr : MReachableWF x) (hdone : writersDone x = true) (hrel : x.s.cursor = x.hw) : LJ x :=
  ⟨mreachableWF_ginv hr, Or.inr ⟨hdone, hrel⟩⟩

/-- **C06, multi producer, conditional form** (spin strategy, any number of writer threads, any ring size). From every
reachable state in which all writer threads have ended and nothing is stranded — the cursor has reached the high
watermark — every weakly fair schedule reaches the terminal state: the join returns, `drain` returns, every handler
thread exits. The hypothesis `cursor = hw` is exactly what the release protocol fails to establish with two or more
writers (F7, F13); with it the rest of the pipeline is live. -/
theorem c06_multi_drain_terminates_when_released {x : MSt} (hr : MReachableWF x) (hspin : x.s.blocking = false)
    (hdone : writersDone x = true) (hrel : x.s.cursor = x.hw)
    (σ : Nat → MTid) (hfair : WeaklyFairM x.P x.s.K x.s.h σ) :
    ∃ t, terminalM (Fair.run stepM σ x t) :=
  SpinM.terminates x ⟨lj_of_released hr hdone hrel, hspin⟩ σ hfair

/-- the same for the blocking strategy, under weak fairness + strong fairness of lock acquisition -/
theorem c06_multi_drain_terminates_when_released_blocking {x : MSt} (hr : MReachableWF x) (hblk : x.s.blocking = true)
    (hdone : writersDone x = true) (hrel : x.s.cursor = x.hw)
    (σ : Nat → MTid) (hfair : WeaklyFairM x.P x.s.K x.s.h σ) (hlock : LockFairM x.P x.s.K x.s.h σ x) :
    ∃ t, terminalM (Fair.run stepM σ x t) :=
  BlkM.terminates x ⟨lj_of_released hr hdone hrel, hblk⟩ σ hfair (BlkM.strongFair_of_lockFair _ σ _ hfair hlock)

/-- **C06, multi producer, blocking strategy, one writer: no deadlock in the strong sense** (every schedule): as long as
the run is not over some thread of the configuration is *ready* — its wait is over (or it never waits) and it reaches its
next progress event after a bounded number of own steps, or it is about to deliver the wake-up a parked handler waits for -/
theorem c06_multi_single_writer_some_thread_ready (k K : Nat) (h : Nat → Nat) (bs : List Nat)
    (hK : 0 < K) (hh : ∀ j, j < K → 0 < h j) (hb : ∀ b, b ∈ bs → 1 ≤ b ∧ b < 2 ^ k) (σ : Nat → MTid) (i : Nat)
    (hnt : ¬ terminalM (Fair.run stepM σ (mkM (2 ^ k) K h true [bs]) i)) :
    ∃ t, inTopoM (Fair.run stepM σ (mkM (2 ^ k) K h true [bs]) i).P (Fair.run stepM σ (mkM (2 ^ k) K h true [bs]) i).s.K
        (Fair.run stepM σ (mkM (2 ^ k) K h true [bs]) i).s.h t ∧
      BlkM.ready (Fair.run stepM σ (mkM (2 ^ k) K h true [bs]) i) t := by
  have : ∀ j, BlkM.LB (Fair.run stepM σ (mkM (2 ^ k) K h true [bs]) j) := by
    intro j
    induction j with
    | zero => exact ⟨lj_init_single k K h true bs hK hh hb, rfl⟩
    | succ j ih => exact BlkM.lb_stepM _ _ ih
  exact BlkM.exists_ready _ (this i) hnt

/-! ### non-vacuity -/

/-- a concrete weakly fair schedule: the writer, the draining thread and the single handler take turns -/
def altM : Nat → MTid := fun i => if i % 3 = 0 then .writer 0 else if i % 3 = 1 then .drainer else .cons 0 0

theorem altM_fair : WeaklyFairM 1 1 (fun _ => 1) altM := by
  intro t ht i
  cases t with
  | writer a =>
    have ha : a = 0 := Nat.lt_one_iff.1 ht
    subst ha
    exact ⟨3 * i, by omega, by simp [altM]⟩
  | drainer =>
    refine ⟨3 * i + 1, by omega, ?_⟩
    have h1 : (3 * i + 1) % 3 = 1 := by omega
    simp [altM, h1]
  | cons a j =>
    obtain ⟨ha, hj⟩ := ht
    change j < 1 at hj
    have ha0 : a = 0 := by omega
    have hj0 : j = 0 := by omega
    subst ha0; subst hj0
    refine ⟨3 * i + 2, by omega, ?_⟩
    have h1 : (3 * i + 2) % 3 = 2 := by omega
    simp [altM, h1]

example : ∃ t, terminalM (Fair.run stepM altM (mkM (2 ^ 2) 1 (fun _ => 1) false [[2, 3, 1]]) t) :=
  c06_multi_single_writer_spin_terminates 2 1 (fun _ => 1) [2, 3, 1] (by omega) (fun _ _ => Nat.one_pos)
    (by intro b hb; simp at hb; omega) altM altM_fair

example : ∃ t, terminalM (Fair.run stepM altM (mkM (2 ^ 2) 1 (fun _ => 1) false [[2, 3]]) t) ∧
    (Fair.run stepM altM (mkM (2 ^ 2) 1 (fun _ => 1) false [[2, 3]]) t).s.cursor = 5 := by
  obtain ⟨t, h1, _, h3, _⟩ := c06_multi_single_writer_write_returns 2 1 (fun _ => 1) [2, 3] (by omega)
    (fun _ _ => Nat.one_pos) (by intro b hb; simp at hb; omega) altM altM_fair
  exact ⟨t, h1, h3⟩

example : ∃ t, terminalM (Fair.run stepM altM (mkM (2 ^ 3) 1 (fun _ => 1) false [[]]) t) := by
  obtain ⟨⟨t, h, _⟩, _⟩ := c06_multi_single_writer_zero_events_drains 3 1 (fun _ => 1) (by omega)
    (fun _ _ => Nat.one_pos) altM altM_fair
  exact ⟨t, h⟩

theorem terminal_of_facts (x : MSt) (hP : x.P = 1) (hK : x.s.K = 1) (hh : x.s.h = fun _ => 1)
    (h1 : (x.wr 0).pc = .done) (h2 : x.dr.pc = .done) (h3 : (x.s.cons 0 0).pc = .done) : terminalM x := by
  refine ⟨fun i hi => ?_, h2, fun a j ha hj => ?_⟩
  · have : i = 0 := by omega
    subst this; exact h1
  · rw [hK] at ha; rw [hh] at hj
    have ha0 : a = 0 := by omega
    have hj0 : j = 0 := by simp at hj; omega
    subst ha0; subst hj0; exact h3

set_option maxRecDepth 20000 in
/-- non-vacuity of the fairness hypotheses of the blocking theorem: `altM` is weakly fair and lock-fair for the blocking
pipeline `n = 2`, one handler, batches `[1, 1]` — under it the run is over after 213 steps (checked by evaluation) -/
theorem altM_lockfair : LockFairM 1 1 (fun _ => 1) altM (mkM (2 ^ 1) 1 (fun _ => 1) true [[1, 1]]) := by
  have hT : terminalM (Fair.run stepM altM (mkM (2 ^ 1) 1 (fun _ => 1) true [[1, 1]]) 213) := by
    obtain ⟨eK, eh, _, eP⟩ := BlkM.topo_frun altM (mkM (2 ^ 1) 1 (fun _ => 1) true [[1, 1]]) 213
    exact terminal_of_facts _ eP eK eh (by decide +kernel) (by decide +kernel) (by decide +kernel)
  exact BlkM.lockFair_of_terminates altM _ 213 hT

example : ∃ t, terminalM (Fair.run stepM altM (mkM (2 ^ 1) 1 (fun _ => 1) true [[1, 1]]) t) :=
  c06_multi_single_writer_blocking_terminates 1 1 (fun _ => 1) [1, 1] (by omega) (fun _ _ => Nat.one_pos)
    (by intro b hb; simp at hb; omega) altM altM_fair altM_lockfair

/-- a blocking pipeline in the middle of a run: the handler has parked itself on the condvar (7 steps), then the writer has
claimed, written and released sequence 1 — its CAS on the cursor has succeeded — and stands before the low-watermark
store that precedes its `signal()` (18 steps) -/
def parkedStateM : MSt :=
  runM (mkM 4 1 (fun _ => 1) true [[1]]) (List.replicate 7 (MTid.cons 0 0) ++ List.replicate 18 (MTid.writer 0))

theorem parkedStateM_reachable : MReachableWF parkedStateM :=
  ⟨4, 1, fun _ => 1, true, [[1]], _, by omega, fun _ _ => Nat.one_pos, by intro l hl b hb; simp at hl; subst hl; simp at hb; omega,
   rfl⟩

theorem parkedStateM_facts :
    (parkedStateM.s.cons 0 0).pc = .bRelock ∧ parkedStateM.s.woken 0 0 = false ∧ parkedStateM.s.cursor = 1 ∧
    (parkedStateM.s.cons 0 0).cur = 0 ∧ (parkedStateM.wr 0).pc = .setLw ∧ parkedStateM.s.mtx = none ∧
    parkedStateM.dr.pc = .waitJoin := by
  decide +kernel

example : ∃ t, inTopoM parkedStateM.P parkedStateM.s.K parkedStateM.s.h t ∧ enabledM parkedStateM t = true :=
  c06_multi_no_deadlock parkedStateM_reachable (by intro h; have := h.2.1; simp [parkedStateM_facts.2.2.2.2.2.2] at this)

/-- in `parkedStateM` the handler is parked, not notified, its condition holds — and indeed the writer stands between its
CAS on the cursor and its `signal()` -/
example : ∃ i, i < parkedStateM.P ∧ wPend (parkedStateM.wr i).pc = true := by
  have hf := parkedStateM_facts
  have hcond : condC parkedStateM.s 0 (parkedStateM.s.cons 0 0) := by
    intro d _; simp only [dep, if_true]; rw [hf.2.2.1, hf.2.2.2.1]; omega
  rcases c06_multi_no_lost_wakeup parkedStateM_reachable 0 0 (by decide +kernel) (by decide +kernel) hf.1 (Or.inl hcond)
    with h | h | h | h
  · rw [hf.2.1] at h; cases h
  · rw [hf.2.2.2.2.2.2] at h; cases h
  · exact h
  · obtain ⟨k', j', hk', hj', hne, _⟩ := h
    have hK : parkedStateM.s.K = 1 := by decide +kernel
    have hh : parkedStateM.s.h k' = 1 := by
      have : parkedStateM.s.h = fun _ => 1 := (runM_topo (mkM 4 1 (fun _ => 1) true [[1]]) _).2.1
      rw [this]
    exfalso; apply hne
    have : k' = 0 := by omega
    have : j' = 0 := by omega
    subst_vars; rfl

/-- two writers that claim concurrently and publish one after the other in claim order: both are done, the cursor stands at
the high watermark 2 — the hypotheses of the conditional theorem hold, and under every fair schedule of the four threads
the draining thread and the handler terminate -/
def releasedState : MSt :=
  runM (mkM 4 1 (fun _ => 1) false [[1], [1]])
    (List.replicate 6 (MTid.writer 0) ++ List.replicate 6 (MTid.writer 1) ++ List.replicate 20 (MTid.writer 0) ++
     List.replicate 20 (MTid.writer 1))

theorem releasedState_topo : releasedState.P = 2 ∧ releasedState.s.K = 1 ∧ releasedState.s.h = fun _ => 1 := by
  unfold releasedState
  generalize (List.replicate 6 (MTid.writer 0) ++ List.replicate 6 (MTid.writer 1) ++ List.replicate 20 (MTid.writer 0) ++
     List.replicate 20 (MTid.writer 1)) = sch
  obtain ⟨e1, e2, _, e4, _⟩ := runM_topo (mkM 4 1 (fun _ => 1) false [[1], [1]]) sch
  exact ⟨e4, e1, e2⟩

example (σ : Nat → MTid) (hfair : WeaklyFairM 2 1 (fun _ => 1) σ) : ∃ t, terminalM (Fair.run stepM σ releasedState t) := by
  have hr : MReachableWF releasedState :=
    ⟨4, 1, fun _ => 1, false, [[1], [1]], _, by omega, fun _ _ => Nat.one_pos,
     by intro l hl b hb; simp at hl; rcases hl with rfl | rfl <;> simp at hb <;> omega, rfl⟩
  obtain ⟨hP, hK, hh⟩ := releasedState_topo
  apply c06_multi_drain_terminates_when_released hr (by decide +kernel) (by decide +kernel) (by decide +kernel) σ
  rw [hP, hK, hh]; exact hfair

/-- the same with the blocking strategy, under a concrete weakly fair and lock-fair schedule (the four threads take turns;
the run is over after 116 steps, checked by evaluation) -/
def releasedStateB : MSt :=
  runM (mkM 4 1 (fun _ => 1) true [[1], [1]])
    (List.replicate 6 (MTid.writer 0) ++ List.replicate 6 (MTid.writer 1) ++ List.replicate 24 (MTid.writer 0) ++
     List.replicate 24 (MTid.writer 1))

def alt4 : Nat → MTid :=
  fun i => if i % 4 = 0 then .writer 0 else if i % 4 = 1 then .writer 1 else if i % 4 = 2 then .drainer else .cons 0 0

theorem alt4_fair : WeaklyFairM 2 1 (fun _ => 1) alt4 := by
  intro t ht i
  cases t with
  | writer a =>
    have ha : a < 2 := ht
    rcases Nat.lt_or_ge a 1 with h0 | h1
    · have : a = 0 := by omega
      subst this
      exact ⟨4 * i, by omega, by simp [alt4]⟩
    · have : a = 1 := by omega
      subst this
      refine ⟨4 * i + 1, by omega, ?_⟩
      have h1 : (4 * i + 1) % 4 = 1 := by omega
      simp [alt4, h1]
  | drainer =>
    refine ⟨4 * i + 2, by omega, ?_⟩
    have h1 : (4 * i + 2) % 4 = 2 := by omega
    simp [alt4, h1]
  | cons a j =>
    obtain ⟨ha, hj⟩ := ht
    change j < 1 at hj
    have ha0 : a = 0 := by omega
    have hj0 : j = 0 := by omega
    subst ha0; subst hj0
    refine ⟨4 * i + 3, by omega, ?_⟩
    have h1 : (4 * i + 3) % 4 = 3 := by omega
    simp [alt4, h1]

theorem releasedStateB_topo : releasedStateB.P = 2 ∧ releasedStateB.s.K = 1 ∧ releasedStateB.s.h = fun _ => 1 := by
  unfold releasedStateB
  generalize (List.replicate 6 (MTid.writer 0) ++ List.replicate 6 (MTid.writer 1) ++ List.replicate 24 (MTid.writer 0) ++
     List.replicate 24 (MTid.writer 1)) = sch
  obtain ⟨e1, e2, _, e4, _⟩ := runM_topo (mkM 4 1 (fun _ => 1) true [[1], [1]]) sch
  exact ⟨e4, e1, e2⟩

set_option maxRecDepth 20000 in
example : ∃ t, terminalM (Fair.run stepM alt4 releasedStateB t) := by
  have hr : MReachableWF releasedStateB :=
    ⟨4, 1, fun _ => 1, true, [[1], [1]], _, by omega, fun _ _ => Nat.one_pos,
     by intro l hl b hb; simp at hl; rcases hl with rfl | rfl <;> simp at hb <;> omega, rfl⟩
  obtain ⟨hP, hK, hh⟩ := releasedStateB_topo
  have hT : terminalM (Fair.run stepM alt4 releasedStateB 116) := by
    obtain ⟨eK, eh, _, eP⟩ := BlkM.topo_frun alt4 releasedStateB 116
    refine ⟨fun i hi => ?_, by decide +kernel, fun a j ha hj => ?_⟩
    · rw [eP, hP] at hi
      rcases Nat.lt_or_ge i 1 with h0 | h1
      · have : i = 0 := by omega
        subst this; decide +kernel
      · have : i = 1 := by omega
        subst this; decide +kernel
    · rw [eK, hK] at ha; rw [eh, hh] at hj
      have ha0 : a = 0 := by omega
      have hj0 : j = 0 := by simp at hj; omega
      subst ha0; subst hj0; decide +kernel
  have hlf := BlkM.lockFair_of_terminates alt4 releasedStateB 116 hT
  apply c06_multi_drain_terminates_when_released_blocking hr (by decide +kernel) (by decide +kernel) (by decide +kernel) alt4
  · rw [hP, hK, hh]; exact alt4_fair
  · exact hlf

end Multi

end C06
