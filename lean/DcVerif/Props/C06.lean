import DcVerif.Model.Ring
namespace C06
theorem placeholder : True := trivial
end C06
