import DcVerif.Lemmas.RingLive
/-!
# C06 — the ring buffer never deadlocks or loses a wake-up; `write`, `drain` and join terminate

Model: `Model/Ring.lean` (single producer; one step per facade operation: every load / store of a sequence counter and of
`is_done`, every mutex lock / unlock, `cvar.wait`, `notify_all`, every handler call and slot write; both wait
strategies). A `lock` step on a taken mutex and the `relock` step of a handler that is parked and not notified (or
finds the mutex taken) are *stutters*; `Ring.enabled x t` says that the next step of thread `t` is not a stutter.
`drain` computes `next_write_sequence.saturating_sub(1)` (defect F6 repaired in /repo), the drain loop of the blocking
strategy signals on every iteration, `drain` stores `is_done` and signals, `Drop` stores it again and signals again.

`terminal x` = the producer has returned from every `write`, from `drain` and from `Drop` (`pc = done`) and every
handler thread of the topology has left its loop (`pc = done`), i.e. joining the executor returns.

Schedules are infinite sequences `σ : Nat → Tid`; `Fair.run stepX σ x i` is the state after `i` scheduled steps.

* (a) spin strategy, full statement: `c06_spin_terminates`, `c06_write_returns`, `c06_zero_events_drains` — every
  *weakly fair* schedule (every thread of the topology is scheduled infinitely often) reaches a terminal state; every
  batch has then been claimed, written and published.
* (b) both strategies, every schedule: `c06_no_deadlock` (some thread always has an enabled step),
  `c06_mutual_exclusion`, `c06_no_lost_wakeup`, `c06_wait_conditions_stable`, `c06_all_written_at_exit`.
* (c) blocking strategy: `c06_blocking_terminates`, `c06_blocking_write_returns` — the same conclusion as (a) for every
  schedule that is weakly fair and *strongly fair for lock acquisition* (`LockFair`: a thread whose `lock` / `relock`
  step is enabled infinitely often eventually takes it); `c06_blocking_some_thread_ready` (deadlock freedom in the
  strong sense: some thread can always make progress).

Not covered by the model: the multi-producer sequencer (known findings F7/F8/F11 are exhibited by the correspondence
run), the fairness of the real OS scheduler and of `std::sync::Mutex`, timing, spurious condvar wake-ups.
-/
namespace C06
open Ring

/-- weak fairness, spelled out: every thread of the topology (the producer/draining thread and every handler `(k,j)` with
`k < K`, `j < h k`) is scheduled infinitely often -/
def WeaklyFair (K : Nat) (h : Nat → Nat) (σ : Nat → Tid) : Prop :=
  ∀ t, inTopo K h t → ∀ i, ∃ m, i ≤ m ∧ σ m = t

theorem tiles_sum {a b : Nat} {cs : List (Nat × Nat × Nat)} (h : Tiles a cs b) :
    b = a + (cs.map (·.2.2)).sum := by
  induction h with
  | nil a => simp
  | cons h1 h2 h3 _ ih => subst h1; simp only [List.map_cons, List.sum_cons]; omega

/-! ## (a) spin strategy: termination under weak fairness -/

/-- **C06, spin strategy.** For every ring size `n`, every topology (`K ≥ 1` stages, every stage at least one handler),
every list of batches with `1 ≤ b ≤ n` (this includes the batches `b < n` of the property, and the *empty* list: a
pipeline that is drained without ever publishing) and every weakly fair schedule, the pipeline reaches the state in
which all `write` calls, `drain` and `Drop` have returned and every handler thread has terminated. -/
theorem c06_spin_terminates (n K : Nat) (h : Nat → Nat) (batches : List Nat)
    (hK : 0 < K) (hh : ∀ k, k < K → 0 < h k) (hb : ∀ b, b ∈ batches → 1 ≤ b ∧ b ≤ n)
    (σ : Nat → Tid) (hfair : WeaklyFair K h σ) :
    ∃ t, terminal (Fair.run stepX σ (mk n K h false batches) t) :=
  Spin.ring_terminates (mk n K h false batches) (Spin.linv_init n K h batches hK hh hb) σ hfair

/-- non-vacuity: a concrete weakly fair schedule (producer and the single handler alternate) -/
def alt : Nat → Tid := fun i => if i % 2 = 0 then .prod else .cons 0 0

theorem alt_fair : WeaklyFair 1 (fun _ => 1) alt := by
  intro t ht i
  cases t with
  | prod => exact ⟨2 * i, by omega, by simp [alt]⟩
  | cons k j =>
    obtain ⟨hk, hj⟩ := ht
    change j < 1 at hj
    have hk0 : k = 0 := by omega
    have hj0 : j = 0 := by omega
    subst hk0; subst hj0
    exact ⟨2 * i + 1, by omega, by simp [alt]⟩

example : ∃ t, terminal (Fair.run stepX alt (mk 4 1 (fun _ => 1) false [2, 3, 1, 4]) t) :=
  c06_spin_terminates 4 1 (fun _ => 1) [2, 3, 1, 4] (by omega) (fun _ _ => Nat.one_pos)
    (by intro b hb; simp at hb; omega) alt alt_fair

/-- **when the run is over every `write` has returned with its batch published** (both strategies, every schedule):
in a terminal state no batch is left, every batch of the input became — in order — one claim of exactly its length,
the claims tile `[0, next_write)`, exactly these sequences were written to slots, and the cursor stands at the last
one (`cursor + 1 = next_write = Σ batches`; `0 = 0` when nothing was published). -/
theorem c06_all_written_at_exit (n K : Nat) (h : Nat → Nat) (blocking : Bool) (batches : List Nat)
    (hK : 0 < K) (hh : ∀ k, k < K → 0 < h k) (hb : ∀ b, b ∈ batches → 1 ≤ b)
    (σ : Nat → Tid) (i : Nat) (ht : terminal (Fair.run stepX σ (mk n K h blocking batches) i)) :
    let x := Fair.run stepX σ (mk n K h blocking batches) i
    x.p.todo = [] ∧ x.p.claims.map (·.2.2) = batches ∧ Tiles 0 x.p.claims x.p.nextWrite ∧
    x.p.nextWrite = batches.sum ∧ x.p.written = List.range' 0 batches.sum ∧
    (x.s.cursor + 1 = batches.sum ∨ (x.s.cursor = 0 ∧ batches.sum = 0)) := by
  intro x
  have hW : WInv batches x.p := winv_run batches σ _ (winv_init n K h blocking batches) i
  have hA : PInvAll x := inv_frun σ _ (inv_init n K h blocking batches hK hh hb) i
  have hpc : x.p.pc = .done := ht.1
  obtain ⟨_, _, hP, _⟩ := hA
  have h1 : x.p.todo = [] := hW.empty (by simp [hpc, PPc.draining])
  have h2 : x.p.claims.map (·.2.2) = batches := by
    have := hW.split; simpa [hpc, h1] using this
  have h3 : Tiles 0 x.p.claims x.p.nextWrite := by have := hP.tiles; simpa [hpc] using this
  have h4 : x.p.nextWrite = batches.sum := by have := tiles_sum h3; rw [h2] at this; omega
  have h5 := hP.wrote
  have h6 := hP.nw (by simp [hpc, PPc.idle])
  simp only [hpc] at h5
  refine ⟨h1, h2, h3, h4, by rw [← h4]; simpa using h5, by rw [← h4]; exact h6⟩

/-- **C06, spin strategy: every `write` returns.** Under every weakly fair schedule a moment is reached at which all
threads have finished *and* every batch has been claimed with its exact length, written and published. -/
theorem c06_write_returns (n K : Nat) (h : Nat → Nat) (batches : List Nat)
    (hK : 0 < K) (hh : ∀ k, k < K → 0 < h k) (hb : ∀ b, b ∈ batches → 1 ≤ b ∧ b ≤ n)
    (σ : Nat → Tid) (hfair : WeaklyFair K h σ) :
    ∃ t, terminal (Fair.run stepX σ (mk n K h false batches) t) ∧
      (Fair.run stepX σ (mk n K h false batches) t).p.claims.map (·.2.2) = batches ∧
      (Fair.run stepX σ (mk n K h false batches) t).p.written = List.range' 0 batches.sum ∧
      ((Fair.run stepX σ (mk n K h false batches) t).s.cursor + 1 = batches.sum ∨
        ((Fair.run stepX σ (mk n K h false batches) t).s.cursor = 0 ∧ batches.sum = 0)) := by
  obtain ⟨t, ht⟩ := c06_spin_terminates n K h batches hK hh hb σ hfair
  obtain ⟨_, h2, _, _, h5, h6⟩ :=
    c06_all_written_at_exit n K h false batches hK hh (fun b hbm => (hb b hbm).1) σ t ht
  exact ⟨t, ht, h2, h5, h6⟩

example : ∃ t, terminal (Fair.run stepX alt (mk 4 1 (fun _ => 1) false [2, 3]) t) ∧
    (Fair.run stepX alt (mk 4 1 (fun _ => 1) false [2, 3]) t).p.written = [0, 1, 2, 3, 4] := by
  obtain ⟨t, h1, _, h3, _⟩ := c06_write_returns 4 1 (fun _ => 1) [2, 3] (by omega) (fun _ _ => Nat.one_pos)
    (by intro b hb; simp at hb; omega) alt alt_fair
  exact ⟨t, h1, by rw [h3]; rfl⟩

/-- **C06, spin strategy: a pipeline drained without ever publishing.** With no batch at all, every weakly fair schedule
reaches the terminal state (`drain` and join return); nothing was written and no handler was ever invoked. -/
theorem c06_zero_events_drains (n K : Nat) (h : Nat → Nat)
    (hK : 0 < K) (hh : ∀ k, k < K → 0 < h k) (σ : Nat → Tid) (hfair : WeaklyFair K h σ) :
    ∃ t, terminal (Fair.run stepX σ (mk n K h false []) t) ∧
      (Fair.run stepX σ (mk n K h false []) t).s.cursor = 0 ∧
      (Fair.run stepX σ (mk n K h false []) t).p.written = [] ∧
      ∀ k j, k < K → j < h k → ((Fair.run stepX σ (mk n K h false []) t).s.cons k j).log = [] := by
  obtain ⟨t, ht, _, h3, h4⟩ := c06_write_returns n K h [] hK hh (by simp) σ hfair
  have hA : PInvAll (Fair.run stepX σ (mk n K h false []) t) :=
    inv_frun σ _ (inv_init n K h false [] hK hh (by simp)) t
  have hcur : (Fair.run stepX σ (mk n K h false []) t).s.cursor = 0 := by
    rcases h4 with h4 | h4
    · simp at h4
    · exact h4.1
  refine ⟨t, ht, hcur, by simpa using h3, ?_⟩
  intro k j hk hj
  obtain ⟨eK, eh, _⟩ := topo_frun σ (mk n K h false []) t
  have eK : (Fair.run stepX σ (mk n K h false []) t).s.K = K := eK
  have eh : (Fair.run stepX σ (mk n K h false []) t).s.h = h := eh
  have hk' : k < (Fair.run stepX σ (mk n K h false []) t).s.K := by rw [eK]; exact hk
  have hj' : j < (Fair.run stepX σ (mk n K h false []) t).s.h k := by rw [eh]; exact hj
  have hci := hA.1.2 k j hk' hj'
  have hpc := ht.2 k j hk' hj'
  have hlog := hci.logO (by simp [hpc]) (by simp [hpc])
  have hup := chain_up _ hA.1 k j hk' hj'
  rw [hcur] at hup
  have : ((Fair.run stepX σ (mk n K h false []) t).s.cons k j).cur = 0 := by omega
  rw [hlog, this]; rfl

example : ∃ t, terminal (Fair.run stepX alt (mk 8 1 (fun _ => 1) false []) t) := by
  obtain ⟨t, h, _⟩ := c06_zero_events_drains 8 1 (fun _ => 1) (by omega) (fun _ _ => Nat.one_pos) alt alt_fair
  exact ⟨t, h⟩

/-! ## (b) both strategies, every schedule: deadlock freedom, mutual exclusion, no lost wake-up -/

/-- **C06: no deadlock** (spin *and* blocking strategy, every reachable state of every configuration, every schedule).
As long as the run is not over, some thread of the topology has an enabled step: not a `lock` on a taken mutex and not
the re-acquisition of a handler that is parked on the condvar without having been notified. -/
theorem c06_no_deadlock {x : PSt} (hr : Reachable x) (hnt : ¬ terminal x) :
    ∃ t, inTopo x.s.K x.s.h t ∧ enabled x t = true :=
  exists_enabled (reachable_binv hr) hnt

/-- non-vacuity: a blocking pipeline in the middle of a run — the handler has parked itself on the condvar (7 steps),
then the producer has written and published a batch of two and stands before the `lock` of its `signal()` (6 steps) -/
def parkedState : PSt :=
  runX (mk 4 1 (fun _ => 1) true [2])
    [.cons 0 0, .cons 0 0, .cons 0 0, .cons 0 0, .cons 0 0, .cons 0 0, .cons 0 0,
     .prod, .prod, .prod, .prod, .prod, .prod]

theorem parkedState_reachable : Reachable parkedState :=
  ⟨4, 1, fun _ => 1, true, [2], _, by omega, fun _ _ => Nat.one_pos, by intro b hb; simp at hb; omega, rfl⟩

theorem parkedState_facts :
    (parkedState.s.cons 0 0).pc = .bRelock ∧ parkedState.s.woken 0 0 = false ∧ parkedState.s.cursor = 1 ∧
    (parkedState.s.cons 0 0).cur = 0 ∧ parkedState.p.pc = .pLock ∧ parkedState.s.mtx = none := by
  decide

example : ∃ t, inTopo parkedState.s.K parkedState.s.h t ∧ enabled parkedState t = true :=
  c06_no_deadlock parkedState_reachable (by intro h; have := h.1; simp [parkedState_facts.2.2.2.2.1] at this)

/-- **C06: mutual exclusion / ownership of the wait strategy's mutex** (blocking strategy, every schedule): a thread is
at a program point between its `lock` and its `unlock` / `cvar.wait` exactly when the model's mutex is owned by it; in
particular no two threads are inside their critical sections (check-and-park, `notify_all`) at the same time. -/
theorem c06_mutual_exclusion {x : PSt} (hr : Reachable x) (hb : x.s.blocking = true) :
    (∀ k j, k < x.s.K → j < x.s.h k → (cHold (x.s.cons k j).pc = true ↔ x.s.mtx = some (.cons k j))) ∧
    (pHold x.p.pc = true ↔ x.s.mtx = some .prod) ∧
    (∀ k j k' j', k < x.s.K → j < x.s.h k → k' < x.s.K → j' < x.s.h k' →
        cHold (x.s.cons k j).pc = true → cHold (x.s.cons k' j').pc = true → k = k' ∧ j = j') ∧
    (∀ k j, k < x.s.K → j < x.s.h k → cHold (x.s.cons k j).pc = true → pHold x.p.pc = false) := by
  have hM := (reachable_binv hr).mtx
  refine ⟨fun k j hk hj => (hM.blkC hb k j hk hj).1, hM.blkP hb, ?_, ?_⟩
  · intro k j k' j' hk hj hk' hj' h1 h2
    have e1 := ((hM.blkC hb k j hk hj).1).1 h1
    have e2 := ((hM.blkC hb k' j' hk' hj').1).1 h2
    rw [e1] at e2
    injection e2 with e2; injection e2 with a b
    exact ⟨a, b⟩
  · intro k j hk hj h1
    have e1 := ((hM.blkC hb k j hk hj).1).1 h1
    cases hp : pHold x.p.pc
    · rfl
    · have := (hM.blkP hb).1 hp
      rw [e1] at this; cases this

/-- **C06: no lost wake-up** (every reachable state, every schedule). Whenever a handler is parked on the condvar
(`bRelock`: it has executed `cvar.wait`, which released the mutex) and its wait condition already holds (every
dependency cursor `≥ next`) or `is_done` is set, then either it has been notified (`woken`), or some *other* thread is
at a program point between its store and the `notify_all` of its `signal()` — the producer at
`pLock/pNotify` (after the cursor store), `dLock/dNotify` (drain loop), `eLock/eNotify` (after `is_done := true` in
`drain`), `fLock/fNotify` (after the store in `Drop`), or a handler at `sLock/sNotify` (after its cursor store) — from
which it executes `notify_all` before it can block. Check-and-park is atomic under the mutex (`bLock … bWait`). -/
theorem c06_no_lost_wakeup {x : PSt} (hr : Reachable x) (k j : Nat) (hk : k < x.s.K) (hj : j < x.s.h k)
    (hpark : (x.s.cons k j).pc = .bRelock) (hc : condC x.s k (x.s.cons k j) ∨ x.s.isDone = true) :
    x.s.woken k j = true ∨ pPend x.p.pc = true ∨
      ∃ k' j', k' < x.s.K ∧ j' < x.s.h k' ∧ (k', j') ≠ (k, j) ∧ cPend (x.s.cons k' j').pc = true :=
  no_lost_wakeup (reachable_binv hr) k j hk hj hpark hc

/-- non-vacuity: in `parkedState` the handler is parked, not notified, its condition holds — and indeed the producer
stands before its `signal()` -/
example : pPend parkedState.p.pc = true := by
  have hf := parkedState_facts
  have hcond : condC parkedState.s 0 (parkedState.s.cons 0 0) := by
    intro d _; simp only [dep, if_true]; rw [hf.2.2.1, hf.2.2.2.1]; omega
  rcases c06_no_lost_wakeup parkedState_reachable 0 0 (by decide) (by decide) hf.1 (Or.inl hcond) with h | h | h
  · rw [hf.2.1] at h; cases h
  · exact h
  · obtain ⟨k', j', hk', hj', hne, _⟩ := h
    have hK : parkedState.s.K = 1 := by decide
    have hh : parkedState.s.h k' = 1 := rfl
    exfalso; apply hne
    have : k' = 0 := by omega
    have : j' = 0 := by omega
    subst_vars; rfl

/-- **C06: wait conditions are monotone** (every schedule): a handler's wait condition, the producer's gate condition
and its drain condition, once true, stay true under every step of every thread (for the handler: as long as its own
cursor is unchanged), and `is_done` is never reset. Together with `c06_no_lost_wakeup` this is why a thread whose
condition has become true cannot be blocked for ever. -/
theorem c06_wait_conditions_stable {x : PSt} (hr : Reachable x) (t : Tid) :
    (∀ k j, ((stepX x t).s.cons k j).cur = (x.s.cons k j).cur → condC x.s k (x.s.cons k j) →
        condC (stepX x t).s k ((stepX x t).s.cons k j)) ∧
    (∀ stop, condG x.s stop → condG (stepX x t).s stop) ∧
    (∀ nw, condD x.s nw → condD (stepX x t).s nw) ∧
    (x.s.isDone = true → (stepX x t).s.isDone = true) := by
  have hB := reachable_binv hr
  exact ⟨fun k j hcur hc => condC_stable x t hB.base k j hcur hc,
         fun stop hc => condG_stable x t hB.base stop hc,
         fun nw hc => condD_stable x t hB.base nw hc,
         fun hd => isDone_stable x t hB.mtx hd⟩

/-! ## (c) blocking strategy: termination under weak fairness + strong fairness of lock acquisition -/

/-- strong fairness of lock acquisition (the assumption about `std::sync::Mutex` / the OS recorded in DESIGN.md §7 C06):
a thread of the topology whose `lock` step — or the re-acquisition after `cvar.wait`, which additionally needs the
notification — is enabled infinitely often along the run eventually takes it while it is enabled. Every other step is
always enabled, for those weak fairness suffices. -/
def LockFair (K : Nat) (h : Nat → Nat) (σ : Nat → Tid) (x0 : PSt) : Prop :=
  ∀ t, inTopo K h t →
    (∀ i, ∃ m, i ≤ m ∧ Blk.atLock (Fair.run stepX σ x0 m) t = true ∧ enabled (Fair.run stepX σ x0 m) t = true) →
    ∀ i, ∃ m, i ≤ m ∧ σ m = t ∧ Blk.atLock (Fair.run stepX σ x0 m) t = true ∧
      enabled (Fair.run stepX σ x0 m) t = true

/-- **C06, blocking strategy.** For every ring size `n`, every topology (`K ≥ 1`, every stage at least one handler),
every list of batches with `1 ≤ b ≤ n` (including the empty list) and every schedule that is weakly fair and strongly
fair for lock acquisition, the pipeline with the *blocking* wait strategy reaches the state in which all `write`
calls, `drain` and `Drop` have returned and every handler thread has terminated: no wake-up is lost, nobody waits for
ever on the mutex or on the condvar.

Proof: `Fair.fair_termination_sf` with the measure `(2·#handlers + 1) · remaining work + outstanding wake-ups`
(`Blk.μ`), the readiness predicate `Blk.ready` (a thread whose wait is over, a handler on its way to park although its
wait is over, or the notifier such a parked handler waits for — `Blk.exists_ready` is deadlock freedom in this strong
sense and uses `no_lost_wakeup`), per-thread ranks `Blk.rank`, and "the owner of the mutex releases it after at most
`Blk.hrank` own steps". -/
theorem c06_blocking_terminates (n K : Nat) (h : Nat → Nat) (batches : List Nat)
    (hK : 0 < K) (hh : ∀ k, k < K → 0 < h k) (hb : ∀ b, b ∈ batches → 1 ≤ b ∧ b ≤ n)
    (σ : Nat → Tid) (hfair : WeaklyFair K h σ) (hlock : LockFair K h σ (mk n K h true batches)) :
    ∃ t, terminal (Fair.run stepX σ (mk n K h true batches) t) :=
  Blk.ring_terminates (mk n K h true batches) (Blk.jinv_init n K h batches hK hh hb) σ hfair
    (Blk.strongFair_of_lockFair _ σ _ hfair hlock)

/-- `write` returns under the blocking strategy as well: at the moment the run is over every batch has been claimed
with its exact length, written and published -/
theorem c06_blocking_write_returns (n K : Nat) (h : Nat → Nat) (batches : List Nat)
    (hK : 0 < K) (hh : ∀ k, k < K → 0 < h k) (hb : ∀ b, b ∈ batches → 1 ≤ b ∧ b ≤ n)
    (σ : Nat → Tid) (hfair : WeaklyFair K h σ) (hlock : LockFair K h σ (mk n K h true batches)) :
    ∃ t, terminal (Fair.run stepX σ (mk n K h true batches) t) ∧
      (Fair.run stepX σ (mk n K h true batches) t).p.claims.map (·.2.2) = batches ∧
      (Fair.run stepX σ (mk n K h true batches) t).p.written = List.range' 0 batches.sum ∧
      ((Fair.run stepX σ (mk n K h true batches) t).s.cursor + 1 = batches.sum ∨
        ((Fair.run stepX σ (mk n K h true batches) t).s.cursor = 0 ∧ batches.sum = 0)) := by
  obtain ⟨t, ht⟩ := c06_blocking_terminates n K h batches hK hh hb σ hfair hlock
  obtain ⟨_, h2, _, _, h5, h6⟩ :=
    c06_all_written_at_exit n K h true batches hK hh (fun b hbm => (hb b hbm).1) σ t ht
  exact ⟨t, ht, h2, h5, h6⟩

set_option maxRecDepth 20000 in
/-- non-vacuity of the fairness hypotheses: the alternating schedule is weakly fair and lock-fair for the blocking
pipeline `n = 2`, one handler, batches `[1, 1]` — under it the run is over after 83 steps (checked by evaluation) -/
theorem alt_lockfair : LockFair 1 (fun _ => 1) alt (mk 2 1 (fun _ => 1) true [1, 1]) := by
  have hT : terminal (Fair.run stepX alt (mk 2 1 (fun _ => 1) true [1, 1]) 83) := by
    refine ⟨by decide, ?_⟩
    intro k j hk hj
    have hK : (Fair.run stepX alt (mk 2 1 (fun _ => 1) true [1, 1]) 83).s.K = 1 := (topo_frun _ _ _).1
    have hh : (Fair.run stepX alt (mk 2 1 (fun _ => 1) true [1, 1]) 83).s.h = fun _ => 1 := (topo_frun _ _ _).2.1
    rw [hK] at hk; rw [hh] at hj
    have hk0 : k = 0 := by omega
    have hj0 : j = 0 := by simp at hj; omega
    subst hk0; subst hj0
    decide
  exact Blk.lockFair_of_terminates alt _ 83 hT

example : ∃ t, terminal (Fair.run stepX alt (mk 2 1 (fun _ => 1) true [1, 1]) t) :=
  c06_blocking_terminates 2 1 (fun _ => 1) [1, 1] (by omega) (fun _ _ => Nat.one_pos)
    (by intro b hb; simp at hb; omega) alt alt_fair alt_lockfair

/-- **C06, blocking strategy: no deadlock in the strong sense** (every schedule). As long as the run is not over,
some thread of the topology is *ready*: its wait is over (or it never waits) and it reaches its next progress event
after a bounded number of own steps — or it is the thread that is about to deliver the wake-up a parked handler is
waiting for. (For the spin strategy the same statement is `Spin.exists_ready`.) -/
theorem c06_blocking_some_thread_ready (n K : Nat) (h : Nat → Nat) (batches : List Nat)
    (hK : 0 < K) (hh : ∀ k, k < K → 0 < h k) (hb : ∀ b, b ∈ batches → 1 ≤ b ∧ b ≤ n) (sched : List Tid)
    (hnt : ¬ terminal (runX (mk n K h true batches) sched)) :
    ∃ t, inTopo (runX (mk n K h true batches) sched).s.K (runX (mk n K h true batches) sched).s.h t ∧
      Blk.ready (runX (mk n K h true batches) sched) t :=
  Blk.exists_ready _ (Blk.jinv_run _ sched (Blk.jinv_init n K h batches hK hh hb)) hnt

end C06
