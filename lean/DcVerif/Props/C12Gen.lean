import DcVerif.Gen.Containers
import DcVerif.Props.C12
import DcVerif.Props.C18Gen
import DcVerif.Props.C11Gen
/-!
# C12 on the definitions generated from the source

`Gen/Containers.lean` is regenerated on every run by `tools/rs2lean_containers.py` from the token strings of
`deep_causality_macros/src/collections.rs`, the `#[proc_macro]` table of `lib.rs` and the impl blocks of
`deep_causality/src/extensions/{causable,assumable,inferable,observable}/mod.rs`.

Part 1 — every generated adapter (4 traits × 5 containers × `len` / `is_empty` / `get_all_items`, and `to_vec`) equals the
function of `Model/Collections.lean` the theorems of `Props/C12.lean` are about.
Part 2 — the record of required methods a container hands to the default methods (`Coll`) satisfies `len = |get_all_items|`
and `is_empty = (get_all_items = [])` — the hypothesis `hlen` of `Props/C18Gen.lean` / `Props/C11Gen.lean`, discharged
for every container of the repository; `Coll.ofVec` of `Gen/Causable.lean` is the generated `Vec` adapter.
Part 3 — the property on the generated definitions: two containers of any kinds that hand over the same list give the same
answer to *every* function of `Coll` (all default methods generated from the four traits are such functions); a container
whose list is a permutation (hash map, B-tree with unsorted insertion) gives the same counts, percentages, "all" answers and
the same filters as multisets.
-/
namespace C12Gen
open Model.Collections Model.ContainerPrim Gen.Containers

variable {α ι κ δ : Type}

/-! ## Part 1 — generated adapters = model -/

theorem foldl_push (l acc : List α) : List.foldl (fun a x => a ++ [x]) acc l = acc ++ l := by
  induction l generalizing acc with
  | nil => simp
  | cons x r ih => simp [ih]

/-- the four dispatch tables, as a list so that statements can range over "every trait" -/
def impls : List (Kind → Impl α) :=
  [CausableReasoning.impl, AssumableReasoning.impl, InferableReasoning.impl, ObservableReasoning.impl]

/-- unfold whatever the generated file defines today: the dispatch, the per-container records, the macro bodies, the
hand-written methods (`first | … ` so that names which disappear do not break the script) -/
macro "unfold_gen" : tactic =>
  `(tactic| simp only [impls, List.mem_cons, List.mem_singleton, List.not_mem_nil, or_false,
      CausableReasoning.impl, AssumableReasoning.impl, InferableReasoning.impl, ObservableReasoning.impl,
      CausableReasoning.slice, CausableReasoning.vec, CausableReasoning.deque, CausableReasoning.btree, CausableReasoning.hash,
      AssumableReasoning.slice, AssumableReasoning.vec, AssumableReasoning.deque, AssumableReasoning.btree, AssumableReasoning.hash,
      InferableReasoning.slice, InferableReasoning.vec, InferableReasoning.deque, InferableReasoning.btree, InferableReasoning.hash,
      ObservableReasoning.slice, ObservableReasoning.vec, ObservableReasoning.deque, ObservableReasoning.btree, ObservableReasoning.hash,
      CausableReasoning.to_vec, kindOf] at *)

/-- closes `generated adapter on c = model function on c` after the container has been split into its five cases -/
macro "adapter" : tactic =>
  `(tactic| first
    | rfl
    | (simp (config := { failIfUnchanged := false }) only [make_len, make_is_empty, make_get_all_items, make_get_all_map_items,
        make_array_to_vec, make_vec_to_vec, make_map_to_vec, CausableReasoning.deque_to_vec,
        Prim.len, Prim.is_empty, Prim.iter, Prim.values, items, len, isEmpty, foldl_push, List.nil_append]) <;>
       (first
       | rfl
       | (simp (config := { failIfUnchanged := false }) [foldl_push]; done)
       | grind))

/-- **`get_all_items`** of every trait's impl for every container = the list the model says the container hands over -/
theorem get_all_items_eq (I : Kind → Impl α) (hI : I ∈ impls) (c : Container α) :
    (I (kindOf c)).get_all_items c = items c := by
  unfold_gen
  rcases hI with rfl | rfl | rfl | rfl <;> cases c <;> unfold_gen <;> adapter

/-- **`len`** of every impl = the container's own length -/
theorem len_eq (I : Kind → Impl α) (hI : I ∈ impls) (c : Container α) :
    (I (kindOf c)).len c = len c := by
  unfold_gen
  rcases hI with rfl | rfl | rfl | rfl <;> cases c <;> unfold_gen <;> adapter

/-- **`is_empty`** of every impl = the container's own emptiness -/
theorem is_empty_eq (I : Kind → Impl α) (hI : I ∈ impls) (c : Container α) :
    (I (kindOf c)).is_empty c = isEmpty c := by
  unfold_gen
  rcases hI with rfl | rfl | rfl | rfl <;> cases c <;> unfold_gen <;> adapter

/-- **`to_vec`** (`CausableReasoning` only: macro for four containers, hand-written for `VecDeque`) returns the items in the
order `get_all_items` does -/
theorem to_vec_eq (c : Container α) : CausableReasoning.to_vec (kindOf c) c = items c := by
  cases c <;> unfold_gen <;> adapter

/-! ## Part 2 — what the default methods see -/

/-- the required methods of `AssumableReasoning` / `InferableReasoning` / `ObservableReasoning` as the impl for `c`'s type
answers them on `c` (`Coll` of `Gen/Collections.lean`) -/
def collOf (I : Kind → Impl α) (c : Container α) : Gen.Collections.Coll α :=
  { len := (I (kindOf c)).len c, is_empty := (I (kindOf c)).is_empty c, get_all_items := (I (kindOf c)).get_all_items c }

/-- the same for `CausableReasoning` (`Coll` of `Gen/Causable.lean`) -/
def causableCollOf (c : Container α) : Gen.Causable.Coll α :=
  { len := (CausableReasoning.impl (kindOf c)).len c, is_empty := (CausableReasoning.impl (kindOf c)).is_empty c,
    get_all_items := (CausableReasoning.impl (kindOf c)).get_all_items c }

theorem collOf_eq (I : Kind → Impl α) (hI : I ∈ impls) (c : Container α) :
    collOf I c = { len := len c, is_empty := isEmpty c, get_all_items := items c } := by
  simp only [collOf, len_eq I hI, is_empty_eq I hI, get_all_items_eq I hI]

theorem causableCollOf_eq (c : Container α) :
    causableCollOf c = { len := len c, is_empty := isEmpty c, get_all_items := items c } := by
  have h : CausableReasoning.impl ∈ (impls : List (Kind → Impl α)) := by simp [impls]
  simp only [causableCollOf, len_eq _ h, is_empty_eq _ h, get_all_items_eq _ h]

/-- **`hlen` discharged**: for every trait and every container of the repository (hash map: every enumeration order that is
a permutation of the keys) `len()` is the number of items `get_all_items()` returns and `is_empty()` says whether there are any -/
theorem c12gen_len_is_number_of_items (I : Kind → Impl α) (hI : I ∈ impls) (c : Container α) (wf : WellFormed c) :
    (collOf I c).len = (collOf I c).get_all_items.length ∧ (collOf I c).is_empty = (collOf I c).get_all_items.isEmpty := by
  rw [collOf_eq I hI]
  exact C12.c12_len_is_number_of_items c wf

theorem c12gen_causable_len_is_number_of_items (c : Container α) (wf : WellFormed c) :
    (causableCollOf c).len = (causableCollOf c).get_all_items.length ∧
    (causableCollOf c).is_empty = (causableCollOf c).get_all_items.isEmpty := by
  rw [causableCollOf_eq]
  exact C12.c12_len_is_number_of_items c wf

/-- the adapter `Gen/Causable.lean` assumes for the `Vec` inside a collection causaloid **is** the generated one -/
theorem ofVec_is_generated (v : List α) : Gen.Causable.Coll.ofVec v = causableCollOf (.vec v) := by
  rw [causableCollOf_eq]
  simp [Gen.Causable.Coll.ofVec, len, isEmpty, items]
  cases v <;> simp

/-! ## Part 3 — C12 on the generated definitions -/

/-- **container independence, order-sensitive part**: two containers — of any two of the five types, under any two of the
four traits' adapters — that hold the same items in the same iteration order give the same answer to every function of the
required methods, in particular to every default method generated from `AssumableReasoning`, `InferableReasoning`,
`ObservableReasoning` (`Gen/Collections.lean`: all take a `Coll`) -/
theorem c12gen_same_items_same_answers {β : Type} (I₁ I₂ : Kind → Impl α) (h₁ : I₁ ∈ impls) (h₂ : I₂ ∈ impls)
    (c₁ c₂ : Container α) (w₁ : WellFormed c₁) (w₂ : WellFormed c₂) (h : items c₁ = items c₂)
    (f : Gen.Collections.Coll α → β) : f (collOf I₁ c₁) = f (collOf I₂ c₂) := by
  have e : collOf I₁ c₁ = collOf I₂ c₂ := by
    rw [collOf_eq I₁ h₁, collOf_eq I₂ h₂]
    have l₁ := C12.c12_len_is_number_of_items c₁ w₁
    have l₂ := C12.c12_len_is_number_of_items c₂ w₂
    simp only [l₁.1, l₂.1, l₁.2, l₂.2, h]
  rw [e]

/-- the same for `CausableReasoning` (every definition of `Gen/Causable.lean` that takes the collection) -/
theorem c12gen_causable_same_items_same_answers {β : Type} (c₁ c₂ : Container α) (w₁ : WellFormed c₁) (w₂ : WellFormed c₂)
    (h : items c₁ = items c₂) (f : Gen.Causable.Coll α → β) : f (causableCollOf c₁) = f (causableCollOf c₂) := by
  have e : causableCollOf c₁ = causableCollOf c₂ := by
    rw [causableCollOf_eq, causableCollOf_eq]
    have l₁ := C12.c12_len_is_number_of_items c₁ w₁
    have l₂ := C12.c12_len_is_number_of_items c₂ w₂
    simp only [l₁.1, l₂.1, l₁.2, l₂.2, h]
  rw [e]

/-- which list each generated adapter hands over: slice, `Vec`, `VecDeque` their sequence; a B-tree filled with strictly
increasing keys the values in insertion order; for pairwise distinct keys a B-tree and a hash map a permutation of it -/
theorem c12gen_items_of_containers (I : Kind → Impl α) (hI : I ∈ impls) (l : List α) (kvs : List (Nat × α)) (order : List Nat) :
    (collOf I (.slice l)).get_all_items = l ∧ (collOf I (.vec l)).get_all_items = l ∧ (collOf I (.deque l)).get_all_items = l ∧
    ((C12.keysOf kvs).Pairwise (· < ·) → (collOf I (.btree kvs)).get_all_items = kvs.map (·.2)) ∧
    ((C12.keysOf kvs).Nodup → ((collOf I (.btree kvs)).get_all_items).Perm (kvs.map (·.2))) ∧
    ((C12.keysOf kvs).Nodup → WellFormed (.hash kvs order) → ((collOf I (.hash kvs order)).get_all_items).Perm (kvs.map (·.2))) := by
  have h := C12.c12_items_of_containers l kvs order
  simp only [collOf, get_all_items_eq I hI]
  exact ⟨h.1, h.2.1, h.2.2.1, h.2.2.2.1, h.2.2.2.2.2.1, h.2.2.2.2.2.2⟩

section Perm
open Gen.Collections Model.Reasoning

/-- **assumptions, order-insensitive part** on the generated definitions: two containers (any kinds) whose item lists are
permutations of each other — a hash map against the `Vec` it was filled from — agree on count, percentage and the two "all"
answers, and their four filters are permutations of each other -/
theorem c12gen_perm_assumable (T : AssumableDict ι δ) (c₁ c₂ : Container ι) (w₁ : WellFormed c₁) (w₂ : WellFormed c₂)
    (h : (items c₁).Perm (items c₂)) :
    let I := (AssumableReasoning.impl : Kind → Impl ι)
    AssumableReasoning.number_assumption_valid T (collOf I c₁) = AssumableReasoning.number_assumption_valid T (collOf I c₂) ∧
    AssumableReasoning.percent_assumption_valid T (collOf I c₁) = AssumableReasoning.percent_assumption_valid T (collOf I c₂) ∧
    AssumableReasoning.all_assumptions_tested T (collOf I c₁) = AssumableReasoning.all_assumptions_tested T (collOf I c₂) ∧
    AssumableReasoning.all_assumptions_valid T (collOf I c₁) = AssumableReasoning.all_assumptions_valid T (collOf I c₂) ∧
    (AssumableReasoning.get_all_valid_assumptions T (collOf I c₁)).Perm (AssumableReasoning.get_all_valid_assumptions T (collOf I c₂)) ∧
    (AssumableReasoning.get_all_invalid_assumptions T (collOf I c₁)).Perm (AssumableReasoning.get_all_invalid_assumptions T (collOf I c₂)) ∧
    (AssumableReasoning.get_all_tested_assumptions T (collOf I c₁)).Perm (AssumableReasoning.get_all_tested_assumptions T (collOf I c₂)) ∧
    (AssumableReasoning.get_all_untested_assumptions T (collOf I c₁)).Perm (AssumableReasoning.get_all_untested_assumptions T (collOf I c₂)) := by
  intro I
  have hI : I ∈ impls := by simp [I, impls]
  have l₁ := (c12gen_len_is_number_of_items I hI c₁ w₁).1
  have l₂ := (c12gen_len_is_number_of_items I hI c₂ w₂).1
  have g₁ : (collOf I c₁).get_all_items = items c₁ := get_all_items_eq I hI c₁
  have g₂ : (collOf I c₂).get_all_items = items c₂ := get_all_items_eq I hI c₂
  have p := C12.c12_perm_invariant_assumable T.assumption_tested T.assumption_valid h
  simp only [C18Gen.number_assumption_valid_eq, C18Gen.percent_assumption_valid_eq _ _ l₁, C18Gen.percent_assumption_valid_eq _ _ l₂,
    C18Gen.all_assumptions_tested_eq, C18Gen.all_assumptions_valid_eq, C18Gen.get_all_valid_assumptions_eq,
    C18Gen.get_all_invalid_assumptions_eq, C18Gen.get_all_tested_assumptions_eq, C18Gen.get_all_untested_assumptions_eq, g₁, g₂]
  exact ⟨by rw [p.1], p.2.1, p.2.2.1, p.2.2.2.1, p.2.2.2.2.1, p.2.2.2.2.2.1, p.2.2.2.2.2.2.1, p.2.2.2.2.2.2.2⟩

end Perm

section PermCausable
open Gen.Causable

/-! canonical forms of the generated aggregates (whatever spelling the source uses: `for … return false`, `.all(..)`,
`!….any(!..)`, `filter(..).count()`, a counter loop) — the permutation argument is made on these -/

theorem get_all_causes_true_canon (M : CausableDict ι δ) (s : Cells) (c : Gen.Causable.Coll ι) :
    CausableReasoning.get_all_causes_true M s c = c.get_all_items.all (fun x => M.is_active s x) := by
  unfold CausableReasoning.get_all_causes_true
  first
    | rfl
    | (rw [Bool.eq_iff_iff]; simp [List.all_eq_true, List.any_eq_true])

theorem number_active_canon (M : CausableDict ι δ) (s : Cells) (c : Gen.Causable.Coll ι) :
    CausableReasoning.number_active M s c = (((c.get_all_items.filter (fun x => M.is_active s x)).length : Nat) : Rat) := by
  unfold CausableReasoning.number_active
  first
    | rfl
    | simp [C11Gen.foldl_count]
    | (simp [C11Gen.foldl_count] <;> grind)

theorem get_all_active_causes_canon (M : CausableDict ι δ) (s : Cells) (c : Gen.Causable.Coll ι) :
    CausableReasoning.get_all_active_causes M s c = c.get_all_items.filter (fun x => M.is_active s x) := by
  unfold CausableReasoning.get_all_active_causes
  first | rfl | simp

theorem get_all_inactive_causes_canon (M : CausableDict ι δ) (s : Cells) (c : Gen.Causable.Coll ι) :
    CausableReasoning.get_all_inactive_causes M s c = c.get_all_items.filter (fun x => !M.is_active s x) := by
  unfold CausableReasoning.get_all_inactive_causes
  first | rfl | simp

theorem percent_active_canon (M : CausableDict ι δ) (s : Cells) (c : Gen.Causable.Coll ι) :
    CausableReasoning.percent_active M s c = CausableReasoning.number_active M s c / ((c.len : Nat) : Rat) * (100 : Rat) := by
  unfold CausableReasoning.percent_active
  first | rfl | simp | (simp <;> grind)

/-- **causaloids, order-insensitive part** on the generated definitions (`number_active`, `percent_active`,
`get_all_causes_true`, the two filters as multisets) for any member type and dictionary -/
theorem c12gen_perm_causable (M : CausableDict ι δ) (s : Cells) (c₁ c₂ : Container ι) (w₁ : WellFormed c₁) (w₂ : WellFormed c₂)
    (h : (items c₁).Perm (items c₂)) :
    CausableReasoning.number_active M s (causableCollOf c₁) = CausableReasoning.number_active M s (causableCollOf c₂) ∧
    CausableReasoning.percent_active M s (causableCollOf c₁) = CausableReasoning.percent_active M s (causableCollOf c₂) ∧
    CausableReasoning.get_all_causes_true M s (causableCollOf c₁) = CausableReasoning.get_all_causes_true M s (causableCollOf c₂) ∧
    (CausableReasoning.get_all_active_causes M s (causableCollOf c₁)).Perm (CausableReasoning.get_all_active_causes M s (causableCollOf c₂)) ∧
    (CausableReasoning.get_all_inactive_causes M s (causableCollOf c₁)).Perm
      (CausableReasoning.get_all_inactive_causes M s (causableCollOf c₂)) := by
  have l₁ := (C12.c12_len_is_number_of_items c₁ w₁).1
  have l₂ := (C12.c12_len_is_number_of_items c₂ w₂).1
  have hn : CausableReasoning.number_active M s (causableCollOf c₁) = CausableReasoning.number_active M s (causableCollOf c₂) := by
    simp only [number_active_canon, causableCollOf_eq, (h.filter _).length_eq]
  refine ⟨hn, ?_, ?_, ?_, ?_⟩
  · simp only [percent_active_canon, hn]
    simp only [causableCollOf_eq, l₁, l₂, h.length_eq]
  · simp only [get_all_causes_true_canon, causableCollOf_eq]
    rw [Bool.eq_iff_iff]; simp only [List.all_eq_true]
    exact ⟨fun H x hx => H x (h.mem_iff.2 hx), fun H x hx => H x (h.mem_iff.1 hx)⟩
  · simp only [get_all_active_causes_canon, causableCollOf_eq]; exact h.filter _
  · simp only [get_all_inactive_causes_canon, causableCollOf_eq]; exact h.filter _

end PermCausable

/-! ## non-vacuity: concrete containers, evaluated through the generated adapters -/

example : (collOf AssumableReasoning.impl (.btree [(3, 30), (1, 10), (2, 20)])).get_all_items = [10, 20, 30] := by decide
example : (collOf ObservableReasoning.impl (.hash [(3, 30), (1, 10), (2, 20)] [2, 3, 1])).get_all_items = [20, 30, 10] := by decide
example : (causableCollOf (.deque [7, 8, 9])).len = 3 ∧ CausableReasoning.to_vec .deque (.deque [7, 8, 9]) = [7, 8, 9] := by decide
example : WellFormed (.hash [(3, 30), (1, 10), (2, 20)] [2, 3, 1]) := by
  show List.Perm [2, 3, 1] [3, 1, 2]
  decide

end C12Gen
