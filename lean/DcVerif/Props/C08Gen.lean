import DcVerif.Gen.UGraphFns
import DcVerif.Props.C08
/-!
# C08 — the hand-written model is what the translator reads from the source

`Gen/UGraphFns.lean` is regenerated on every run by `tools/rs2lean_ugraphfns.py` from the current
`ultragraph/src/storage/matrix_graph/*.rs`: one `do` block in the `Option` monad per Rust function (`none` = the call
panics), written against the vocabulary of `Model/UGraph.lean` (association lists for the hash maps, the assumed petgraph
operations). This file proves, for every generated definition, that on every well-formed state (the invariant `WF` that
`c08_reachable_wf` establishes for every reachable state) it computes exactly what the hand-written model computes —
same result, same final state, panics exactly where the model panics — and transports the statements of `Props/C08.lean`
to the step function assembled from the generated definitions (`genStep`, the way the harness calls the real functions).

The proofs do not match the text of the generated definitions: they unfold both sides and decide the equality by case
analysis on the atoms (`mGet g.indexMap a`, `g.hasCell k l`, `petRemoveEdge …`, `g.ids.len`, …), falling back on the
invariant (`index_map` maps `i ↦ i` exactly on the live indices, `node_count = node_map.len()`) where a rewrite of the
source relies on it. Behaviour-preserving edits regenerate a different `Gen/UGraphFns.lean` and still check; an edit that
changes the behaviour on a reachable state breaks the corresponding `_eq` theorem.
-/
set_option linter.unusedVariables false
set_option linter.unusedSimpArgs false
namespace C08Gen
open Spec Spec.DiGraph Model Model.UGraph Gen.UGraphFns

/-! ## loops -/

/-- a loop that pushes one value per element -/
@[simp] theorem forEach_push {α β : Type} (l : List α) (acc : List β) (c : α → β) :
    forEach l acc (fun s x => some (s ++ [c x])) = some (acc ++ l.map c) := by
  induction l generalizing acc with
  | nil => simp [forEach]
  | cons x xs ih => simp [forEach, ih]

/-- a loop that appends a list per element -/
@[simp] theorem forEach_append {α β : Type} (l : List α) (acc : List β) (c : α → List β) :
    forEach l acc (fun s x => some (s ++ c x)) = some (acc ++ l.flatMap c) := by
  induction l generalizing acc with
  | nil => simp [forEach]
  | cons x xs ih => simp [forEach, ih]

/-- a loop of `graph.remove_edge` calls is `removeCells` -/
theorem forEach_removeCells {α : Type} (l : List α) (g : UGraph) (f : UGraph → α → Option UGraph) (c : α → Nat × Nat)
    (hf : ∀ s x, f s x = petRemoveEdge s (c x).1 (c x).2) : forEach l g f = removeCells g (l.map c) := by
  induction l generalizing g with
  | nil => rfl
  | cons x xs ih =>
    simp only [forEach, List.map, removeCells, hf]
    cases petRemoveEdge g (c x).1 (c x).2 <;> simp [ih]

@[simp] theorem forEach_removeRow (l : List Nat) (g : UGraph) (k : Nat) :
    forEach l g (fun s b => petRemoveEdge s k b) = removeCells g (l.map (fun b => (k, b))) :=
  forEach_removeCells l g _ _ (fun _ _ => rfl)

@[simp] theorem forEach_removeCol (l : List Nat) (g : UGraph) (k : Nat) :
    forEach l g (fun s a => petRemoveEdge s a k) = removeCells g (l.map (fun a => (a, k))) :=
  forEach_removeCells l g _ _ (fun _ _ => rfl)

/-- with the matrix and its counter in step (`EdgesOk`), the cells of column `k` and of row `k` can be removed in either order:
both ways every loop finds its cells, and what is left is the same graph -/
theorem removeIncident_swap {g : UGraph} (h : EdgesOk g) (k : Nat) :
    ((g.removeCells ((g.colOf k).map (fun a => (a, k)))).bind
        fun s => s.removeCells ((s.rowOf k).map (fun b => (k, b)))) =
    ((g.removeCells ((g.rowOf k).map (fun b => (k, b)))).bind
        fun s => s.removeCells ((s.colOf k).map (fun a => (a, k)))) := by
  obtain ⟨hn, hc, hf⟩ := row_cells g h k
  obtain ⟨g1, h1, hok1, hadj1, hids1, hnm1, him1, hroot1⟩ := removeCells_spec _ g h hn hc
  obtain ⟨hn', hc', hf'⟩ := col_cells g1 hok1 k
  obtain ⟨g2, h2, hok2, hadj2, hids2, hnm2, him2, hroot2⟩ := removeCells_spec _ g1 hok1 hn' hc'
  obtain ⟨cn, cc, cf⟩ := col_cells g h k
  obtain ⟨c1, e1, cok1, cadj1, cids1, cnm1, cim1, croot1⟩ := removeCells_spec _ g h cn cc
  obtain ⟨cn', cc', cf'⟩ := row_cells c1 cok1 k
  obtain ⟨c2, e2, cok2, cadj2, cids2, cnm2, cim2, croot2⟩ := removeCells_spec _ c1 cok1 cn' cc'
  rw [h1, e1]
  simp only [Option.bind_some, h2, e2]
  have hadj : c2.adj = g2.adj := by
    rw [cadj2, cf', cadj1, cf, hadj2, hf', hadj1, hf, List.filter_filter, List.filter_filter]
    apply List.filter_congr; intro e _; rw [Bool.and_comm]
  have hnb : c2.nbEdges = g2.nbEdges := by rw [cok2.nb, hok2.nb, hadj]
  congr 1
  cases c2; cases g2
  simp_all

/-- the same, in front of whatever follows the two loops -/
theorem removeIncident_swap' {β : Type} {g : UGraph} (h : EdgesOk g) (k : Nat) (f : UGraph → Option β) :
    ((g.removeCells ((g.colOf k).map (fun a => (a, k)))).bind
        fun s => (s.removeCells ((s.rowOf k).map (fun b => (k, b)))).bind f) =
    ((g.removeCells ((g.rowOf k).map (fun b => (k, b)))).bind
        fun s => (s.removeCells ((s.colOf k).map (fun a => (a, k)))).bind f) := by
  have := congrArg (fun o => o.bind f) (removeIncident_swap h k)
  simpa [Option.bind_assoc] using this

/-! ## hash maps -/

/-- a second `insert` under the same key overwrites the first -/
@[simp] theorem mInsert_mInsert {β : Type} (m : List (Nat × β)) (k : Nat) (v w : β) :
    mInsert (mInsert m k v) k w = mInsert m k w := by
  simp [mInsert, List.filter_filter]

/-! ## answers of the generated functions in the vocabulary of the hand model -/

/-- a `Result<(), _>` mutator of the hand model as the generated definitions answer: a panic loses the state -/
def ofOut (p : UGraph × Out) : Option (UGraph × Res Unit) :=
  match p.2 with
  | .ok => some (p.1, .ok ())
  | .err => some (p.1, .err)
  | _ => none
@[simp] theorem ofOut_ok (g : UGraph) : ofOut (g, .ok) = some (g, .ok ()) := rfl
@[simp] theorem ofOut_err (g : UGraph) : ofOut (g, .err) = some (g, .err) := rfl
@[simp] theorem ofOut_panic (g : UGraph) : ofOut (g, .panic) = none := rfl

/-- `index_map` has one entry per node (`index_map.len()` for `node_map.len()` is the same number) -/
theorem indexMap_length {g : UGraph} (h : WF g) : g.indexMap.length = g.nodeMap.length := by
  rw [h.indexSync]; simp [sync]

/-- the facts of the invariant a proof may fall back on: `index_map` is the identity on the live indices, `node_count()` is
`node_map.len()` -/
macro "ug_wf" h:ident : tactic => `(tactic|
  (simp only [indexMap_length $h, WF.mGet_index $h, WF.len $h, WF.containsNode $h, WF.getNode $h, WF.containsEdge $h,
    removeIncident_swap' (WF.edgesOk $h)] at *))

/-- unfold the hand model and the vocabulary, normalise -/
macro "ug_norm" : tactic => `(tactic|
  try simp [containsNode, containsEdge, getNode, removeNode, removeEdge, addEdgeW, addNode, addRoot, petAddNode, petNodeCount,
      petEdgeCount, petClear, petNew, petWithCapacity, UGraph.clear, UGraph.allEdges, UGraph.shortestPath, init, okOr, assertThat,
      checkedSub, Res.isOk, Res.toOption, List.flatMap_map, Option.isSome_iff_ne_none, contains_node, contains_edge,
      contains_root_node, is_empty, size, number_nodes, number_edges, *])
theorem bind_eq_match {α β : Type} (x : Option α) (f : α → Option β) :
    x.bind f = match x with | some a => f a | none => none := by cases x <;> rfl
theorem map_eq_match {α β : Type} (x : Option α) (f : α → β) :
    x.map f = match x with | some a => some (f a) | none => none := by cases x <;> rfl
/-- decide what is left by cases on every `if` / `match` / bind -/
macro "ug_split" : tactic => `(tactic|
  ((try simp only [bind_eq_match, map_eq_match]) <;> (repeat' (split <;> try simp_all [Option.isSome_iff_ne_none])) <;>
    (try grind)))
macro "ug_auto" h:ident : tactic => `(tactic|
  first
  | (ug_norm <;> ug_split; done)
  | (ug_norm <;> (try ug_wf $h) <;> ug_norm <;> ug_split; done))

/-! ## one theorem per generated definition -/

theorem new_eq : new = some init := by
  simp [new, petNew, init]

theorem new_with_capacity_eq (c : Nat) : new_with_capacity c = some init := by
  simp [new_with_capacity, petWithCapacity, init]

theorem contains_node_eq {g : UGraph} (h : WF g) (i : Nat) : contains_node g i = some (g.containsNode i) := by
  simp only [contains_node]; ug_auto h

theorem get_node_eq {g : UGraph} (h : WF g) (i : Nat) : get_node g i = some (g.getNode i) := by
  simp only [get_node, contains_node_eq h]; ug_auto h

theorem contains_edge_eq {g : UGraph} (h : WF g) (a b : Nat) : contains_edge g a b = some (g.containsEdge a b) := by
  simp only [contains_edge, contains_node_eq h]; ug_auto h

theorem add_edge_with_weight_eq {g : UGraph} (h : WF g) (a b w : Nat) :
    add_edge_with_weight g a b w = ofOut (g.addEdgeW a b w) := by
  simp only [add_edge_with_weight, contains_node_eq h, contains_edge_eq h]; ug_auto h

theorem add_edge_eq {g : UGraph} (h : WF g) (a b : Nat) : add_edge g a b = ofOut (g.addEdgeW a b 0) := by
  simp only [add_edge, contains_node_eq h, contains_edge_eq h, add_edge_with_weight_eq h]; ug_auto h

theorem remove_edge_eq {g : UGraph} (h : WF g) (a b : Nat) : remove_edge g a b = ofOut (g.removeEdge .repaired a b) := by
  simp only [remove_edge, contains_node_eq h, contains_edge_eq h]; ug_auto h

theorem add_node_eq {g : UGraph} (h : WF g) (v : Nat) : add_node g v = some (g.addNode v) := by
  simp only [add_node]; ug_auto h

theorem add_root_node_eq {g : UGraph} (h : WF g) (v : Nat) : add_root_node g v = some (g.addRoot v) := by
  simp only [add_root_node, add_node_eq h]; ug_auto h

theorem remove_node_eq {g : UGraph} (h : WF g) (i : Nat) : remove_node g i = ofOut (g.removeNode .repaired i) := by
  simp only [remove_node, contains_node_eq h]; ug_auto h

theorem contains_root_node_eq {g : UGraph} (h : WF g) : contains_root_node g = some g.root.isSome := by
  simp only [contains_root_node]; ug_auto h

theorem get_root_node_eq {g : UGraph} (h : WF g) : get_root_node g = some (g.root.bind (mGet g.nodeMap)) := by
  simp only [get_root_node, contains_root_node_eq h]; ug_auto h

theorem get_root_index_eq {g : UGraph} (h : WF g) : get_root_index g = some g.root := by
  simp only [get_root_index, contains_root_node_eq h]; ug_auto h

theorem size_eq {g : UGraph} (h : WF g) : size g = g.ids.len := by
  simp only [size]; ug_auto h

theorem number_nodes_eq {g : UGraph} (h : WF g) : number_nodes g = g.ids.len := by
  simp only [number_nodes]; ug_auto h

theorem is_empty_eq {g : UGraph} (h : WF g) : is_empty g = g.ids.len.map (· == 0) := by
  simp only [is_empty]; ug_auto h

theorem number_edges_eq {g : UGraph} (h : WF g) : number_edges g = some g.nbEdges := by
  simp only [number_edges]; ug_auto h

theorem get_last_index_eq {g : UGraph} (h : WF g) :
    get_last_index g = g.ids.len.map (fun n => if n == 0 then Res.err else Res.ok g.nodeMap.length) := by
  simp only [get_last_index, is_empty_eq h]; ug_auto h

theorem get_all_nodes_eq {g : UGraph} (h : WF g) : get_all_nodes g = g.ids.len.map (fun _ => g.nodeMap.map (·.2)) := by
  simp only [get_all_nodes]; ug_auto h

theorem get_all_edges_eq {g : UGraph} (h : WF g) : get_all_edges g = some g.allEdges := by
  simp only [get_all_edges]; ug_auto h

theorem clear_eq {g : UGraph} (h : WF g) : Gen.UGraphFns.clear g = some (UGraph.clear g, ()) := by
  simp only [Gen.UGraphFns.clear]; ug_auto h

theorem outgoing_edges_eq {g : UGraph} (h : WF g) (a : Nat) :
    outgoing_edges g a = some (if g.containsNode a then Res.ok (g.rowOf a) else Res.err) := by
  simp only [outgoing_edges, contains_node_eq h]; ug_auto h

theorem shortest_path_eq (astar : UGraph → Nat → Nat → Option (Nat × List Nat)) {g : UGraph} (h : WF g) (a b : Nat) :
    shortest_path astar g a b = some (g.shortestPath ((astar g a b).map (·.2)) a b) := by
  simp only [shortest_path, contains_node_eq h]; ug_auto h

/-! ## the step function assembled from the generated definitions

`genStep` calls the generated functions the way the harness (`harness/src/c08.rs`) calls the real ones — one public function per
operation, hash-map iteration orders sorted, errors mapped to `err`, a panic reported as `panic` (state as on entry). -/

/-- an observer's answer -/
def obs {α : Type} (g : UGraph) (f : α → Out) : Option α → UGraph × Out
  | none => (g, .panic)
  | some a => (g, f a)
/-- a mutator's answer and the state it leaves -/
def mutr {α : Type} (g : UGraph) (f : α → Out) : Option (UGraph × α) → UGraph × Out
  | none => (g, .panic)
  | some (g', a) => (g', f a)
def unitOut : Res Unit → Out
  | .ok _ => .ok
  | .err => .err
def natOut : Res Nat → Out
  | .ok n => .nat n
  | .err => .err
def natsOut : Res (List Nat) → Out
  | .ok l => .nats l
  | .err => .err

def genStep (g : UGraph) : Op → UGraph × Out
  | .addNode v => mutr g .idx (add_node g v)
  | .addRoot v => mutr g .idx (add_root_node g v)
  | .removeNode i => mutr g unitOut (remove_node g i)
  | .addEdge a b => mutr g unitOut (add_edge g a b)
  | .addEdgeW a b w => mutr g unitOut (add_edge_with_weight g a b w)
  | .removeEdge a b => mutr g unitOut (remove_edge g a b)
  | .clear => mutr g (fun _ => .ok) (Gen.UGraphFns.clear g)
  | .containsNode i => obs g .bool (contains_node g i)
  | .getNode i => obs g .optNat (get_node g i)
  | .containsEdge a b => obs g .bool (contains_edge g a b)
  | .size => obs g .nat (size g)
  | .isEmpty => obs g .bool (is_empty g)
  | .numNodes => obs g .nat (number_nodes g)
  | .numEdges => obs g .nat (number_edges g)
  | .allNodes => obs g (fun l => .nats (sortNat l)) (get_all_nodes g)
  | .allEdges => obs g (fun l => .pairs (sortPairs l)) (get_all_edges g)
  | .outgoing a => obs g natsOut (outgoing_edges g a)
  | .containsRoot => obs g .bool (contains_root_node g)
  | .getRootNode => obs g .optNat (get_root_node g)
  | .getRootIndex => obs g .optNat (get_root_index g)
  | .getLastIndex => obs g natOut (get_last_index g)

def genRun (g : UGraph) : List Op → UGraph × List Out
  | [] => (g, [])
  | op :: rest =>
    let (g', o) := genStep g op
    let (g'', os) := genRun g' rest
    (g'', o :: os)

theorem mutr_ofOut (g : UGraph) (p : UGraph × Out) (hp : p.2 = .ok ∨ p.2 = .err ∨ p = (g, .panic)) :
    mutr g unitOut (ofOut p) = p := by
  obtain ⟨g', o⟩ := p
  rcases hp with hp | hp | hp
  · cases hp; rfl
  · cases hp; rfl
  · cases hp; rfl

/-- **the hand-written step is the generated step** on every well-formed state -/
theorem gen_step {g : UGraph} (h : WF g) (op : Op) : genStep g op = UGraph.step .repaired g op := by
  cases op with
  | addNode v => simp [genStep, UGraph.step, add_node_eq h, mutr]
  | addRoot v => simp [genStep, UGraph.step, add_root_node_eq h, mutr]
  | removeNode i =>
    simp only [genStep, UGraph.step, remove_node_eq h]
    apply mutr_ofOut
    simp only [removeNode]; (repeat' split) <;> simp
  | addEdge a b =>
    simp only [genStep, UGraph.step, add_edge_eq h]
    apply mutr_ofOut
    simp only [addEdgeW]; (repeat' split) <;> simp
  | addEdgeW a b w =>
    simp only [genStep, UGraph.step, add_edge_with_weight_eq h]
    apply mutr_ofOut
    simp only [addEdgeW]; (repeat' split) <;> simp
  | removeEdge a b =>
    simp only [genStep, UGraph.step, remove_edge_eq h]
    apply mutr_ofOut
    simp only [removeEdge]; (repeat' split) <;> simp
  | clear => simp [genStep, UGraph.step, clear_eq h, mutr]
  | containsNode i => simp [genStep, UGraph.step, contains_node_eq h, obs]
  | getNode i => simp [genStep, UGraph.step, get_node_eq h, obs]
  | containsEdge a b => simp [genStep, UGraph.step, contains_edge_eq h, obs]
  | size => simp only [genStep, UGraph.step, size_eq h]; cases g.ids.len <;> rfl
  | isEmpty => simp only [genStep, UGraph.step, is_empty_eq h]; cases g.ids.len <;> rfl
  | numNodes => simp only [genStep, UGraph.step, number_nodes_eq h]; cases g.ids.len <;> rfl
  | numEdges => simp [genStep, UGraph.step, number_edges_eq h, obs]
  | allNodes => simp only [genStep, UGraph.step, get_all_nodes_eq h]; cases g.ids.len <;> rfl
  | allEdges => simp [genStep, UGraph.step, get_all_edges_eq h, obs]
  | outgoing a =>
    simp only [genStep, UGraph.step, outgoing_edges_eq h, obs]
    cases g.containsNode a <;> rfl
  | containsRoot => simp [genStep, UGraph.step, contains_root_node_eq h, obs]
  | getRootNode =>
    simp only [genStep, UGraph.step, get_root_node_eq h, obs]
    cases g.root <;> rfl
  | getRootIndex => simp [genStep, UGraph.step, get_root_index_eq h, obs]
  | getLastIndex =>
    simp only [genStep, UGraph.step, get_last_index_eq h]
    cases g.ids.len with
    | none => rfl
    | some n => simp only [Option.map, obs]; cases hn : n == 0 <;> simp [natOut, hn]

/-- histories: the generated functions, called one after the other on the state the previous call left, answer what the
hand-written model answers and leave the same state -/
theorem gen_run (ops : List Op) : ∀ {g : UGraph}, WF g → genRun g ops = UGraph.run .repaired g ops := by
  induction ops with
  | nil => intro g _; rfl
  | cons op rest ih =>
    intro g h
    have hwf := (C08.c08_step_refines h op).1
    simp only [genRun, UGraph.run, gen_step h, ih hwf]

/-! ## the statements of `Props/C08.lean`, about what was read from the source -/

/-- **C08 for the generated definitions.** For every operation history on the graph built by the generated `new`: every answer
of the generated functions is allowed by the plain directed-graph specification, and the final states correspond. -/
theorem c08gen_refinement (ops : List Op) :
    new = some init ∧
    Spec.DiGraph.run empty (ops.zip (genRun init ops).2) = some (abs (genRun init ops).1) := by
  rw [gen_run ops wf_init]
  exact ⟨new_eq, C08.c08_refinement ops⟩

/-- every state the generated functions reach is well-formed -/
theorem c08gen_reachable_wf (ops : List Op) : WF (genRun init ops).1 := by
  rw [gen_run ops wf_init]; exact C08.c08_reachable_wf ops

/-- no generated function panics on a reachable state (no `unwrap`/`expect` on `None`, no failed petgraph `assert!`, no
underflow) -/
theorem c08gen_never_panics (ops : List Op) (op : Op) : (genStep (genRun init ops).1 op).2 ≠ .panic := by
  rw [gen_step (c08gen_reachable_wf ops)]
  exact C08.c08_never_panics (c08gen_reachable_wf ops) op

/-- a generated function that answers `Err(..)` leaves the state as it found it -/
theorem c08gen_failed_ops_change_nothing (ops : List Op) (op : Op)
    (he : (genStep (genRun init ops).1 op).2 = .err) : (genStep (genRun init ops).1 op).1 = (genRun init ops).1 := by
  rw [gen_step (c08gen_reachable_wf ops)] at he ⊢
  exact C08.c08_failed_ops_change_nothing .repaired _ op he

/-- non-vacuity: the generated functions themselves, executed on a concrete history with index reuse, a self-loop, the removal
of a node with incident edges and root handling -/
example :
    (genRun init [.addRoot 5, .addNode 6, .addNode 7, .addEdge 0 1, .addEdgeW 1 2 9, .addEdge 2 2, .addEdge 2 0,
      .removeNode 1, .numEdges, .allEdges, .addNode 8, .getNode 1, .outgoing 2, .removeEdge 2 2, .containsNode 2,
      .removeNode 0, .getRootNode, .getRootIndex, .getLastIndex]).2 =
      [.idx 0, .idx 1, .idx 2, .ok, .ok, .ok, .ok, .ok, .nat 2, .pairs [(2, 0), (2, 2)], .idx 1, .optNat (some 8),
       .nats [0, 2], .ok, .bool true, .ok, .optNat none, .optNat (some 0), .nat 2] := by decide

end C08Gen
