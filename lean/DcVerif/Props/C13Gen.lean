import DcVerif.Gen.RingWiring
import DcVerif.Model.Ring
/-!
# The wiring of the ring-buffer models, tied to the source (C13; shared by C04, C05, C06, C14)

`Gen/RingWiring.lean` is regenerated on every run by `tools/rs2lean_wiring.py` from `dsl/rust_disruptor_builder.rs`
(`with_barrier`, `handle_events[_mut|_with]`, `build[_with_executor]`, symbolically executed). Here the generated builder is *run*
on an arbitrary topology — any number of barrier stages, any number of handlers per stage, mutable or not in any mix — and the
result is shown to be the wiring `Model/Ring.lean` (`ndeps`, `dep`, `ngate`, `gate`) and `Model/RingMulti.lean` are written with:
the barrier of a stage-0 handler is over the producer cursor alone, the barrier of a stage-`k+1` handler over exactly the cursors
of all handlers of stage `k` in registration order, and the producer is gated by exactly the cursors of the last stage.
-/
namespace C13Gen
open Model.WiringPrim Gen.RingWiring

/-- cursors: the producer's and the one of handler `j` of stage `k` -/
inductive Cur
  | prod
  | h (k j : Nat)
deriving DecidableEq, Repr

def stageCursors (k h : Nat) : List Cur := (List.range h).map (Cur.h k)

/-- the closure a user hands to `with_barrier` for stage `k`: `h` calls of `handle_events` / `handle_events_mut`
(`mutable j` says which), each with the processor of a fresh handler -/
def stageFn (k h : Nat) (mutable : Nat → Bool) (s : BarrierScope Cur) : BarrierScope Cur :=
  (List.range h).foldl (fun s j => if mutable j then s.handle_events_mut ⟨.h k j⟩ else s.handle_events ⟨.h k j⟩) s

/-- the runnables a stage contributes when its barrier is over `deps` -/
def stageRuns (k h : Nat) (deps : List Cur) : List (Run Cur) := (List.range h).map (fun j => ⟨.h k j, ⟨deps⟩⟩)

theorem stageFn_eq (k h : Nat) (mutable : Nat → Bool) (s : BarrierScope Cur) :
    stageFn k h mutable s =
      { s with cursors := s.cursors ++ stageCursors k h,
               event_handlers := s.event_handlers ++ stageRuns k h s.gating_sequences } := by
  induction h with
  | zero => simp [stageFn, stageCursors, stageRuns]
  | succ h ih =>
    have : stageFn k (h + 1) mutable s =
        (if mutable h then (stageFn k h mutable s).handle_events_mut ⟨.h k h⟩ else (stageFn k h mutable s).handle_events ⟨.h k h⟩) := by
      simp [stageFn, List.range_succ, List.foldl_append]
    rw [this, ih]
    cases mutable h <;>
      simp [BarrierScope.handle_events, BarrierScope.handle_events_mut, BarrierScope.handle_events_with, Proc.get_cursor,
        Proc.prepare, Seq.create_barrier, stageCursors, stageRuns, List.range_succ]

/-- the remaining stages `k, k+1, …` added to a pipeline under construction -/
def addStages (mutable : Nat → Nat → Bool) : Nat → List Nat → WithEventHandlers Cur → WithEventHandlers Cur
  | _, [], w => w
  | k, h :: hs, w => addStages mutable (k + 1) hs (w.with_barrier (stageFn k h (mutable k)))

/-- the whole DSL chain for the topology `h0 :: hs` (stage sizes), from a sequencer that gates on nothing yet -/
def pipeline (mutable : Nat → Nat → Bool) (h0 : Nat) (hs : List Nat) : List (Run Cur) × Seq Cur :=
  (addStages mutable 1 hs ((⟨⟨.prod, []⟩⟩ : WithSequencer Cur).with_barrier (stageFn 0 h0 (mutable 0)))).build

/-- handlers of stage `k` in the topology `sizes` (0 beyond the last stage) -/
def sizeAt (sizes : List Nat) (k : Nat) : Nat := (sizes[k]?).getD 0

/-- what the model assumes: the dependencies of stage `k` in the topology `sizes` -/
def deps (sizes : List Nat) (k : Nat) : List Cur :=
  if k = 0 then [.prod] else stageCursors (k - 1) (sizeAt sizes (k - 1))

/-- all runnables of stages `k …` when stage `k` waits on `d` -/
def runsFrom : Nat → List Nat → List Cur → List (Run Cur)
  | _, [], _ => []
  | k, h :: hs, d => stageRuns k h d ++ runsFrom (k + 1) hs (stageCursors k h)

/-- the cursors of the last of the stages `k (size h), k+1, …` -/
def lastStage : Nat → Nat → List Nat → List Cur
  | k, h, [] => stageCursors k h
  | k, _, h' :: hs => lastStage (k + 1) h' hs

theorem addStages_eq (mutable : Nat → Nat → Bool) (k : Nat) (hs : List Nat) (w : WithEventHandlers Cur) :
    addStages mutable k hs w =
      { with_sequencer := w.with_sequencer,
        event_handlers := w.event_handlers ++ runsFrom k hs w.gating_sequences,
        gating_sequences := match hs with
          | [] => w.gating_sequences
          | h :: t => lastStage k h t } := by
  induction hs generalizing k w with
  | nil => simp [addStages, runsFrom]
  | cons h hs ih =>
    rw [addStages, ih]
    simp only [WithEventHandlers.with_barrier, stageFn_eq, runsFrom, List.nil_append, List.append_assoc]
    cases hs with
    | nil => simp [lastStage]
    | cons h' t => simp [lastStage]

theorem foldl_gating (l : List Cur) : ∀ s : Seq Cur,
    List.foldl (fun s x => ({ cursor := s.cursor, gating := s.gating ++ [x] } : Seq Cur)) s l =
      { cursor := s.cursor, gating := s.gating ++ l } := by
  induction l with
  | nil => intro s; simp
  | cons a t ih => intro s; simp only [List.foldl_cons]; rw [ih]; simp

/-- **the runnables and the producer's gating list the builder produces, for every topology** -/
theorem pipeline_eq (mutable : Nat → Nat → Bool) (h0 : Nat) (hs : List Nat) :
    pipeline mutable h0 hs =
      (runsFrom 0 (h0 :: hs) [.prod], { cursor := .prod, gating := lastStage 0 h0 hs }) := by
  simp only [pipeline, WithEventHandlers.build, WithEventHandlers.build_with_executor, addStages_eq, WithSequencer.with_barrier,
    stageFn_eq, Seq.get_cursor, runsFrom, List.nil_append, Seq.add_gating_sequence, foldl_gating]
  cases hs with
  | nil => simp [lastStage, runsFrom]
  | cons h' t => simp [lastStage, runsFrom]

theorem lastStage_eq (k h : Nat) (hs : List Nat) :
    lastStage k h hs = stageCursors (k + hs.length) (sizeAt (h :: hs) hs.length) := by
  induction hs generalizing k h with
  | nil => simp [lastStage, sizeAt]
  | cons h' t ih =>
    rw [lastStage, ih]
    simp only [List.length_cons, sizeAt]
    congr 1 <;> first | omega | simp

/-- a runnable of stage `k` is built over `deps sizes k` -/
theorem runsFrom_deps (sizes : List Nat) :
    ∀ (hs : List Nat) (k : Nat) (d : List Cur), sizes.drop k = hs → d = deps sizes k →
      ∀ r ∈ runsFrom k hs d, ∃ k' j, k ≤ k' ∧ r.cursor = .h k' j ∧ j < sizeAt sizes k' ∧ r.barrier.deps = deps sizes k' := by
  intro hs
  induction hs with
  | nil => intro k d _ _ r hr; simp [runsFrom] at hr
  | cons h hs ih =>
    intro k d hdrop hd r hr
    have hk : sizeAt sizes k = h := by
      have : (sizes.drop k)[0]? = some h := by rw [hdrop]; rfl
      simp only [List.getElem?_drop, Nat.add_zero] at this
      simp [sizeAt, this]
    simp only [runsFrom, List.mem_append] at hr
    rcases hr with hr | hr
    · simp only [stageRuns, List.mem_map, List.mem_range] at hr
      obtain ⟨j, hj, rfl⟩ := hr
      exact ⟨k, j, Nat.le_refl k, rfl, by omega, hd⟩
    · have hdrop' : sizes.drop (k + 1) = hs := by
        have : sizes.drop (k + 1) = (sizes.drop k).drop 1 := by rw [List.drop_drop]
        rw [this, hdrop]; rfl
      have hd' : stageCursors k h = deps sizes (k + 1) := by
        simp [deps, hk]
      obtain ⟨k', j, hle, h1, h2, h3⟩ := ih (k + 1) (stageCursors k h) hdrop' hd' r hr
      exact ⟨k', j, by omega, h1, h2, h3⟩

/-- **every handler waits on exactly what the models assume**: in the pipeline built for the topology `h0 :: hs`, the runnable
with cursor `(k, j)` has a barrier over the producer cursor (`k = 0`) resp. over all cursors of stage `k − 1`, in order -/
theorem c13gen_barrier_deps (mutable : Nat → Nat → Bool) (h0 : Nat) (hs : List Nat) :
    ∀ r ∈ (pipeline mutable h0 hs).1, ∃ k j, r.cursor = .h k j ∧ j < sizeAt (h0 :: hs) k ∧ r.barrier.deps = deps (h0 :: hs) k := by
  rw [pipeline_eq]
  intro r hr
  obtain ⟨k, j, _, h1, h2, h3⟩ := runsFrom_deps (h0 :: hs) (h0 :: hs) 0 [.prod] rfl (by simp [deps]) r hr
  exact ⟨k, j, h1, h2, h3⟩

/-- … and every handler of the topology is there, once, in registration order (stage by stage) -/
theorem c13gen_all_handlers (mutable : Nat → Nat → Bool) (h0 : Nat) (hs : List Nat) :
    (pipeline mutable h0 hs).1.map (·.cursor) =
      (List.range (hs.length + 1)).flatMap (fun k => stageCursors k (sizeAt (h0 :: hs) k)) := by
  rw [pipeline_eq]
  have key : ∀ (l : List Nat) (k : Nat) (d : List Cur),
      (runsFrom k l d).map (·.cursor) = (List.range l.length).flatMap (fun i => stageCursors (k + i) (sizeAt l i)) := by
    intro l
    induction l with
    | nil => intro k d; simp [runsFrom]
    | cons h t ih =>
      intro k d
      simp only [runsFrom, List.map_append, ih, List.length_cons, List.range_succ_eq_map, List.flatMap_cons, List.flatMap_map]
      congr 1
      · simp [stageRuns, stageCursors, sizeAt]
      · have : ∀ i, stageCursors (k + 1 + i) (sizeAt t i) = stageCursors (k + (i + 1)) (sizeAt (h :: t) (i + 1)) := by
          intro i
          simp only [sizeAt, List.getElem?_cons_succ]
          congr 1
          omega
        simp only [Function.comp_def, this]
  simpa using key (h0 :: hs) 0 [.prod]

/-- **the producer is gated by exactly the last stage** -/
theorem c13gen_producer_gating (mutable : Nat → Nat → Bool) (h0 : Nat) (hs : List Nat) :
    (pipeline mutable h0 hs).2.gating = stageCursors hs.length (sizeAt (h0 :: hs) hs.length) := by
  rw [pipeline_eq]
  simp [lastStage_eq]

/-! ## the same wiring as `Model/Ring.lean` -/

/-- the value of a cursor in a state of the single-producer model -/
def val (s : Ring.St) : Cur → Nat
  | .prod => s.cursor
  | .h k j => (s.cons k j).cur

/-- **`Ring.ndeps` / `Ring.dep` are the generated wiring**: for a model state whose topology is `sizes`, stage `k` waits on
`ndeps s k` cursors and the `d`-th of them is the `d`-th cursor of the barrier the builder builds for stage `k` -/
theorem model_deps_is_generated (s : Ring.St) (sizes : List Nat) (hsz : ∀ k, s.h k = sizeAt sizes k) (k : Nat) :
    Ring.ndeps s k = (deps sizes k).length ∧
    ∀ d, d < Ring.ndeps s k → ((deps sizes k)[d]?).map (val s) = some (Ring.dep s k d) := by
  unfold Ring.ndeps Ring.dep deps
  by_cases hk : k = 0
  · subst hk
    refine ⟨by simp, ?_⟩
    intro d hd
    have : d = 0 := by simpa using hd
    subst this
    simp [val]
  · simp only [hk, if_false, stageCursors, List.length_map, List.length_range, hsz]
    refine ⟨trivial, ?_⟩
    intro d hd
    simp [List.getElem?_map, List.getElem?_range hd, val, hd]

/-- **`Ring.ngate` / `Ring.gate` are the generated gating list** (`K ≥ 1` stages) -/
theorem model_gate_is_generated (s : Ring.St) (h0 : Nat) (hs : List Nat) (mutable : Nat → Nat → Bool)
    (hK : s.K = hs.length + 1) (hsz : ∀ k, s.h k = sizeAt (h0 :: hs) k) :
    Ring.ngate s = (pipeline mutable h0 hs).2.gating.length ∧
    ∀ d, d < Ring.ngate s → (((pipeline mutable h0 hs).2.gating)[d]?).map (val s) = some (Ring.gate s d) := by
  rw [c13gen_producer_gating]
  unfold Ring.ngate Ring.gate
  have : s.K - 1 = hs.length := by omega
  simp only [this, stageCursors, List.length_map, List.length_range, hsz]
  refine ⟨trivial, ?_⟩
  intro d hd
  simp [List.getElem?_map, List.getElem?_range hd, val, hd]

/-! ## non-vacuity: three stages (2, 1, 3 handlers), evaluated through the generated builder -/
example : ((pipeline (fun k j => k == 1) 2 [1, 3]).1.map (fun r => (r.cursor, r.barrier.deps))) =
    [(.h 0 0, [.prod]), (.h 0 1, [.prod]), (.h 1 0, [.h 0 0, .h 0 1]),
     (.h 2 0, [.h 1 0]), (.h 2 1, [.h 1 0]), (.h 2 2, [.h 1 0])] := by decide
example : (pipeline (fun _ _ => false) 2 [1, 3]).2.gating = [.h 2 0, .h 2 1, .h 2 2] := by decide

end C13Gen
