import DcVerif.Gen.Causable
import DcVerif.Props.C11
/-!
# C11 (and the singleton / collection level of C02), tie to the source: the hand model satisfies what the translator read

`Gen/Causable.lean` is regenerated on every run from the current Rust source of `impl Causable for Causaloid`, its six
constructors, the default methods of `CausableReasoning` and the aggregates of `impl CausableGraph for CausaloidGraph`
(`tools/rs2lean_causable.py`: symbolic execution, one definition per Rust function). The generated definitions are **one level
deep**: a call on a member of a collection / a node of a graph goes through the dictionary `M : CausableDict ι δ`, a call on the
wrapped graph through `G : GraphOps γ ι δ`. Here both are instantiated with the functions of `Model/Causaloid.lean` (`modelDict`,
`modelGraph`), and every theorem `…_eq` says: *the generated function, applied to the record a generated constructor builds for a
model causaloid (`Rep`), answers what the model function answers — verdict and cell writes — for all inputs*. That is exactly the
statement that the model's mutually recursive definitions satisfy the generated equations; by structural induction over the
(finite) nesting tree the model therefore is the function the source defines, and every theorem of `Props/C11.lean` is a statement
about what the translator read. `CausableGraphReasoning::reason_all_causes` stays abstract here (`GraphOps.reason_all_causes`,
instantiated with the model's `reasonAllGraph`): graph reasoning is tied by its own generator.

The model logs every *evaluation* (`(cell, V.e)` for one that erred), the code can only log *writes*: `writes` drops the `V.e`
events, `applyLog_writes` shows that this does not change any activation.

The proofs unfold the generated definitions and let `simp` / `split` / `grind` case-split on whatever the generated decision tree
splits on (`split_all`), go through `Bool.eq_iff_iff` for the all/any spellings, `foldl_count` for counter loops and induction over
the list a loop walks; they depend on the names and parameter lists of the generated definitions, not on their text.
-/
set_option linter.unusedSimpArgs false
namespace C11Gen
open Causal Dfs Spec.Nest Gen.Causable

/-! ## vocabulary of the tie -/

/-- the cell writes an evaluation log stands for: an evaluation that erred wrote nothing -/
def writes (log : List Event) : List Event := log.filter (fun e => e.2 != V.e)

theorem writes_append (a b : List Event) : writes (a ++ b) = writes a ++ writes b := by
  simp [writes]

theorem writes_nil : writes [] = [] := rfl

theorem applyLog_append (s : Cells) (a b : List Event) : applyLog s (a ++ b) = applyLog (applyLog s a) b := by
  simp [applyLog, List.foldl_append]

theorem applyLog_writes (log : List Event) : ∀ s : Cells, applyLog s (writes log) = applyLog s log := by
  induction log with
  | nil => intro s; rfl
  | cons e rest ih =>
    intro s
    obtain ⟨c, v⟩ := e
    cases v
    · simpa [writes, applyLog, applyEvent] using ih _
    · simpa [writes, applyLog, applyEvent] using ih _
    · simpa [writes, applyLog, applyEvent] using ih s

/-- a graph as the model has it -/
structure MGraph where
  nodes : List Causal.Causaloid
  edges : List (Nat × Nat)
  root : Option Nat

/-- the members' side of the one-level definitions: every call on a member is answered by the model -/
def modelDict (mk : Nat → Nat) (fuel : Nat) : CausableDict Causal.Causaloid Nat where
  is_active := isActive
  is_singleton := Causal.Causaloid.isSingleton
  verify_single_cause := fun c o => (verifySingle mk c o, writes (singleLog mk c o))
  verify_all_causes := fun c d ix => (verifyAll mk fuel c d ix, writes (logAll mk fuel c d ix))

def modelGraph (mk : Nat → Nat) (fuel : Nat) : GraphOps MGraph Causal.Causaloid Nat where
  get_all_nodes := fun g => g.nodes
  size := fun g => g.nodes.length
  is_empty := fun g => g.nodes.isEmpty
  reason_all_causes := fun g d ix =>
    (reasonAllGraph mk fuel g.nodes g.edges g.root d ix, writes (logAllGraph mk fuel g.nodes g.edges g.root d ix))

abbrev GC := Gen.Causable.Causaloid Nat Nat Causal.Causaloid MGraph

/-- the record the Rust constructors build for a causaloid of the model -/
inductive Rep (mk : Nat → Nat) : Causal.Causaloid → GC → Prop
  | plain (cell id : Nat) : Rep mk (.single cell id .plain) (Causaloid.new cell id (fun o => decode o)).1
  | inv (cell id : Nat) : Rep mk (.single cell id .inv) (Causaloid.new cell id (fun o => neg (decode o))).1
  | ctx (cell id : Nat) (c : Option Nat) :
      Rep mk (.single cell id (.ctx c)) (Causaloid.new_with_context cell id (fun o k => decode (o + mk k)) c).1
  | coll (cell id : Nat) (items : List Causal.Causaloid) :
      Rep mk (.coll id items) (Causaloid.from_causal_collection cell id items).1
  | collCtx (cell id : Nat) (items : List Causal.Causaloid) (c : Option Nat) :
      Rep mk (.coll id items) (Causaloid.from_causal_collection_with_context cell id items c).1
  | graph (cell id : Nat) (nodes : List Causal.Causaloid) (edges : List (Nat × Nat)) (root : Option Nat) :
      Rep mk (.graph id nodes edges root) (Causaloid.from_causal_graph cell id ⟨nodes, edges, root⟩).1
  | graphCtx (cell id : Nat) (nodes : List Causal.Causaloid) (edges : List (Nat × Nat)) (root : Option Nat) (c : Option Nat) :
      Rep mk (.graph id nodes edges root) (Causaloid.from_causal_graph_with_context cell id ⟨nodes, edges, root⟩ c).1

/-! ## the model side, as rewrite rules -/

@[simp] theorem md_is_active (mk : Nat → Nat) (fuel : Nat) (s : Cells) (c : Causal.Causaloid) :
    (modelDict mk fuel).is_active s c = isActive s c := id rfl
@[simp] theorem md_is_singleton (mk : Nat → Nat) (fuel : Nat) (c : Causal.Causaloid) :
    (modelDict mk fuel).is_singleton c = c.isSingleton := id rfl
@[simp] theorem md_verify_single (mk : Nat → Nat) (fuel : Nat) (c : Causal.Causaloid) (o : Nat) :
    (modelDict mk fuel).verify_single_cause c o = (verifySingle mk c o, writes (singleLog mk c o)) := id rfl
@[simp] theorem md_verify_all (mk : Nat → Nat) (fuel : Nat) (c : Causal.Causaloid) (d : List Nat) (ix : Idx) :
    (modelDict mk fuel).verify_all_causes c d ix = (verifyAll mk fuel c d ix, writes (logAll mk fuel c d ix)) := id rfl
@[simp] theorem mg_nodes (mk : Nat → Nat) (fuel : Nat) (g : MGraph) : (modelGraph mk fuel).get_all_nodes g = g.nodes := id rfl
@[simp] theorem mg_size (mk : Nat → Nat) (fuel : Nat) (g : MGraph) : (modelGraph mk fuel).size g = g.nodes.length := id rfl
@[simp] theorem mg_is_empty (mk : Nat → Nat) (fuel : Nat) (g : MGraph) : (modelGraph mk fuel).is_empty g = g.nodes.isEmpty := id rfl
@[simp] theorem mg_reason (mk : Nat → Nat) (fuel : Nat) (g : MGraph) (d : List Nat) (ix : Idx) :
    (modelGraph mk fuel).reason_all_causes g d ix =
      (reasonAllGraph mk fuel g.nodes g.edges g.root d ix, writes (logAllGraph mk fuel g.nodes g.edges g.root d ix)) := id rfl
@[simp] theorem writes_t (c : Nat) : writes [(c, V.t)] = [(c, V.t)] := rfl
@[simp] theorem writes_f (c : Nat) : writes [(c, V.f)] = [(c, V.f)] := rfl
@[simp] theorem writes_e (c : Nat) : writes [(c, V.e)] = [] := rfl
attribute [simp] writes_nil writes_append
@[simp] theorem ofVec_items (v : List Causal.Causaloid) : (Coll.ofVec v).get_all_items = v := rfl
@[simp] theorem ofVec_len (v : List Causal.Causaloid) : (Coll.ofVec v).len = v.length := rfl
@[simp] theorem ofVec_is_empty (v : List Causal.Causaloid) : (Coll.ofVec v).is_empty = v.isEmpty := rfl

/-- closes what is left after unfolding when the generated decision tree splits where the model does not (or the other way
round): case-split every remaining `match` / `if` and simplify with the case hypotheses -/
macro "split_all" : tactic => `(tactic| (repeat' (first | rfl | (split <;> simp_all))))

/-! ## aggregates -/

theorem foldl_count {α : Type} (p : α → Bool) (xs : List α) : ∀ n : Nat,
    xs.foldl (fun acc x => if p x then acc + 1 else acc) n = n + (xs.filter p).length := by
  induction xs with
  | nil => intro n; rfl
  | cons x xs ih =>
    intro n
    by_cases hx : p x = true
    · simp [List.foldl_cons, hx, ih]; omega
    · simp [List.foldl_cons, hx, ih]

theorem countActive_eq_filter (s : Cells) (cs : List Causal.Causaloid) :
    countActive s cs = (cs.filter (isActive s)).length := C11.countActive_eq_filter s cs

/-- `number_active() > 0` ⇔ some member is active -/
theorem countActive_pos_decide (s : Cells) (cs : List Causal.Causaloid) :
    decide (0 < countActive s cs) = cs.any (isActive s) := by
  rw [Bool.eq_iff_iff]
  simp [C11.countActive_pos_iff]

theorem number_active_eq (mk : Nat → Nat) (fuel : Nat) (s : Cells) (c : Coll Causal.Causaloid) :
    CausableReasoning.number_active (modelDict mk fuel) s c = (countActive s c.get_all_items : Rat) := by
  unfold CausableReasoning.number_active
  simp [countActive_eq_filter, foldl_count]


theorem get_all_causes_true_eq (mk : Nat → Nat) (fuel : Nat) (s : Cells) (c : Coll Causal.Causaloid) :
    CausableReasoning.get_all_causes_true (modelDict mk fuel) s c = allActive s c.get_all_items := by
  unfold CausableReasoning.get_all_causes_true
  rw [Bool.eq_iff_iff]
  simp [allActive, foldl_count, List.all_eq_true, List.any_eq_true]

theorem get_all_active_causes_eq (mk : Nat → Nat) (fuel : Nat) (s : Cells) (c : Coll Causal.Causaloid) :
    CausableReasoning.get_all_active_causes (modelDict mk fuel) s c = c.get_all_items.filter (isActive s) := by
  unfold CausableReasoning.get_all_active_causes
  simp

theorem get_all_inactive_causes_eq (mk : Nat → Nat) (fuel : Nat) (s : Cells) (c : Coll Causal.Causaloid) :
    CausableReasoning.get_all_inactive_causes (modelDict mk fuel) s c = c.get_all_items.filter (fun x => !isActive s x) := by
  unfold CausableReasoning.get_all_inactive_causes
  simp

theorem percent_active_eq (mk : Nat → Nat) (fuel : Nat) (s : Cells) (c : Coll Causal.Causaloid)
    (hlen : c.len = c.get_all_items.length) :
    CausableReasoning.percent_active (modelDict mk fuel) s c = percentActive s c.get_all_items := by
  unfold CausableReasoning.percent_active
  simp only [number_active_eq, percentActive, hlen] <;> first | rfl | grind


/-! ## `CausableReasoning::reason_all_causes` -/

theorem reason_loop_eq (mk : Nat → Nat) (fuel : Nat) (s : Cells) (c : Coll Causal.Causaloid) (data : List Nat) :
    ∀ (items : List Causal.Causaloid) (lg : List Event) (i : Nat),
      CausableReasoning.reason_all_causes.loop1 (modelDict mk fuel) s c data lg i items
        = (reasonFrom mk fuel items data i, lg ++ writes (logFrom mk fuel items data i)) := by
  intro items
  induction items with
  | nil => intro lg i; simp [CausableReasoning.reason_all_causes.loop1, reasonFrom, logFrom]
  | cons m ms ih =>
    intro lg i
    simp only [CausableReasoning.reason_all_causes.loop1, reasonFrom, logFrom, writes_append, md_is_singleton,
      md_verify_single, md_verify_all]
    cases m with
    | single cell id fn =>
      simp only [Causal.Causaloid.isSingleton, dispatch, dispatchLog, verifySingle, singleLog]
      cases hd : data[i]? with
      | none => simp [*]
      | some o =>
        cases hf : fn.apply mk o with
        | none => simp [*]
        | some v => cases v <;> simp [*]
    | coll id its =>
      simp only [Causal.Causaloid.isSingleton, dispatch, dispatchLog]
      cases hv : verifyAll mk fuel (.coll id its) data none with
      | none => simp [*]
      | some v => cases v <;> simp [*]
    | graph id ns es r =>
      simp only [Causal.Causaloid.isSingleton, dispatch, dispatchLog]
      cases hv : verifyAll mk fuel (.graph id ns es r) data none with
      | none => simp [*]
      | some v => cases v <;> simp [*]

theorem reason_all_causes_eq (mk : Nat → Nat) (fuel : Nat) (s : Cells) (c : Coll Causal.Causaloid) (data : List Nat)
    (hemp : c.is_empty = c.get_all_items.isEmpty) :
    CausableReasoning.reason_all_causes (modelDict mk fuel) s c data =
      (reasonColl mk fuel c.get_all_items data, writes (logColl mk fuel c.get_all_items data)) := by
  unfold CausableReasoning.reason_all_causes
  simp only [reason_loop_eq, reasonColl, logColl, hemp]
  by_cases he : c.get_all_items.isEmpty = true
  · have : c.get_all_items = [] := by simpa using he
    simp [this, logFrom]
  · simp [he]

/-! ## `impl CausableGraph for CausaloidGraph`: the aggregates -/

theorem graph_all_active_eq (mk : Nat → Nat) (fuel : Nat) (s : Cells) (g : MGraph) :
    CausaloidGraph.all_active (modelDict mk fuel) (modelGraph mk fuel) s g = allActive s g.nodes := by
  unfold CausaloidGraph.all_active
  rw [Bool.eq_iff_iff]
  simp [allActive, foldl_count, List.all_eq_true, List.any_eq_true]

theorem graph_number_active_eq (mk : Nat → Nat) (fuel : Nat) (s : Cells) (g : MGraph) :
    CausaloidGraph.number_active (modelDict mk fuel) (modelGraph mk fuel) s g = (countActive s g.nodes : Rat) := by
  unfold CausaloidGraph.number_active
  simp [countActive_eq_filter, foldl_count]

theorem graph_size_eq (mk : Nat → Nat) (fuel : Nat) (s : Cells) (g : MGraph) :
    CausaloidGraph.size (modelDict mk fuel) (modelGraph mk fuel) s g = g.nodes.length := by
  unfold CausaloidGraph.size
  simp

theorem graph_percent_active_eq (mk : Nat → Nat) (fuel : Nat) (s : Cells) (g : MGraph) :
    CausaloidGraph.percent_active (modelDict mk fuel) (modelGraph mk fuel) s g = percentActive s g.nodes := by
  unfold CausaloidGraph.percent_active
  simp only [graph_number_active_eq, graph_size_eq, percentActive, mg_size] <;> first | rfl | grind

/-! ## `impl Causable for Causaloid` on the records the constructors build -/

theorem reason_all_causes_vec (mk : Nat → Nat) (fuel : Nat) (s : Cells) (items : List Causal.Causaloid) (data : List Nat) :
    CausableReasoning.reason_all_causes (modelDict mk fuel) s (Coll.ofVec items) data =
      (reasonColl mk fuel items data, writes (logColl mk fuel items data)) :=
  reason_all_causes_eq mk fuel s (Coll.ofVec items) data rfl

theorem is_singleton_eq (mk : Nat → Nat) (fuel : Nat) (s : Cells) (c : Causal.Causaloid) (r : GC) (h : Rep mk c r) :
    Causaloid.is_singleton (modelDict mk fuel) (modelGraph mk fuel) s r = c.isSingleton := by
  cases h <;> simp [Causaloid.is_singleton, Causaloid.new, Causaloid.new_with_context, Causaloid.from_causal_collection,
    Causaloid.from_causal_collection_with_context, Causaloid.from_causal_graph, Causaloid.from_causal_graph_with_context,
    Causal.Causaloid.isSingleton]

theorem is_active_eq (mk : Nat → Nat) (fuel : Nat) (s : Cells) (c : Causal.Causaloid) (r : GC) (h : Rep mk c r) :
    Causaloid.is_active (modelDict mk fuel) (modelGraph mk fuel) s r = some (isActive s c) := by
  cases h <;> simp [Causaloid.is_active, Causaloid.new, Causaloid.new_with_context, Causaloid.from_causal_collection,
    Causaloid.from_causal_collection_with_context, Causaloid.from_causal_graph, Causaloid.from_causal_graph_with_context,
    isActive, number_active_eq, graph_number_active_eq, Rat.natCast_pos, countActive_pos_decide]

theorem verify_single_cause_eq (mk : Nat → Nat) (fuel : Nat) (s : Cells) (c : Causal.Causaloid) (r : GC) (h : Rep mk c r)
    (obs : Nat) :
    Causaloid.verify_single_cause (modelDict mk fuel) (modelGraph mk fuel) s r obs =
      (verifySingle mk c obs, writes (singleLog mk c obs)) := by
  cases h with
  | plain cell id =>
    simp [Causaloid.verify_single_cause, Causaloid.new, verifySingle, singleLog, Fn.apply]
    cases decode obs <;> simp
  | inv cell id =>
    simp [Causaloid.verify_single_cause, Causaloid.new, verifySingle, singleLog, Fn.apply]
    cases neg (decode obs) <;> simp
  | ctx cell id k =>
    cases k with
    | none => simp [Causaloid.verify_single_cause, Causaloid.new_with_context, verifySingle, singleLog, Fn.apply]
    | some k =>
      simp [Causaloid.verify_single_cause, Causaloid.new_with_context, verifySingle, singleLog, Fn.apply]
      cases decode (obs + mk k) <;> simp
  | _ =>
    simp [Causaloid.verify_single_cause, Causaloid.from_causal_collection,
      Causaloid.from_causal_collection_with_context, Causaloid.from_causal_graph, Causaloid.from_causal_graph_with_context,
      verifySingle, singleLog]
    all_goals split_all

theorem verify_all_causes_eq (mk : Nat → Nat) (fuel : Nat) (s : Cells) (c : Causal.Causaloid) (r : GC) (h : Rep mk c r)
    (data : List Nat) (ix : Idx) :
    Causaloid.verify_all_causes (modelDict mk fuel) (modelGraph mk fuel) s r data ix =
      (verifyAll mk fuel c data ix, writes (logAll mk fuel c data ix)) := by
  cases h <;>
    simp [Causaloid.verify_all_causes, Causaloid.new, Causaloid.new_with_context, Causaloid.from_causal_collection,
      Causaloid.from_causal_collection_with_context, Causaloid.from_causal_graph, Causaloid.from_causal_graph_with_context,
      reason_all_causes_vec, verifyAll, logAll, reasonColl, logColl, reasonAllGraph, logAllGraph] <;>
    (try (split <;> simp_all)) <;> (try (split <;> simp_all))


/-! ## the constructors: a new causaloid owns a fresh cell that holds `false` (`Cells.init`) -/

theorem constructors_start_inactive (cell id : Nat) (f : Nat → V) (g : Nat → Nat → V) (k : Option Nat)
    (items : List Causal.Causaloid) (gr : MGraph) :
    (Causaloid.new cell id f : GC × Bool).2 = Cells.init cell ∧
    (Causaloid.new_with_context cell id g k : GC × Bool).2 = Cells.init cell ∧
    (Causaloid.from_causal_collection cell id items : GC × Bool).2 = Cells.init cell ∧
    (Causaloid.from_causal_collection_with_context cell id items k : GC × Bool).2 = Cells.init cell ∧
    (Causaloid.from_causal_graph cell id gr : GC × Bool).2 = Cells.init cell ∧
    (Causaloid.from_causal_graph_with_context cell id gr k : GC × Bool).2 = Cells.init cell := by
  simp [Causaloid.new, Causaloid.new_with_context, Causaloid.from_causal_collection,
    Causaloid.from_causal_collection_with_context, Causaloid.from_causal_graph, Causaloid.from_causal_graph_with_context,
    Cells.init]

/-! ## the headline laws of C11, on the generated definitions

`embed` picks one record per model causaloid (the constructor without context, wrappers own cell 0 — `Rep` covers the other
choices); `genOpLog` is what one call of a history writes according to the *generated* functions. -/

def embed (mk : Nat → Nat) : Causal.Causaloid → GC
  | .single cell id .plain => (Causaloid.new cell id (fun o => decode o)).1
  | .single cell id .inv => (Causaloid.new cell id (fun o => neg (decode o))).1
  | .single cell id (.ctx c) => (Causaloid.new_with_context cell id (fun o k => decode (o + mk k)) c).1
  | .coll id items => (Causaloid.from_causal_collection 0 id items).1
  | .graph id nodes edges root => (Causaloid.from_causal_graph 0 id ⟨nodes, edges, root⟩).1

theorem rep_embed (mk : Nat → Nat) (c : Causal.Causaloid) : Rep mk c (embed mk c) := by
  cases c with
  | single cell id fn => cases fn <;> constructor
  | coll id items => exact Rep.coll 0 id items
  | graph id nodes edges root => exact Rep.graph 0 id nodes edges root

def genOpLog (mk : Nat → Nat) (fuel : Nat) (s : Cells) : Op → List Event
  | .single c obs => (Causaloid.verify_single_cause (modelDict mk fuel) (modelGraph mk fuel) s (embed mk c) obs).2
  | .all c data ix => (Causaloid.verify_all_causes (modelDict mk fuel) (modelGraph mk fuel) s (embed mk c) data ix).2
  | .coll items data => (CausableReasoning.reason_all_causes (modelDict mk fuel) s (Coll.ofVec items) data).2
  | .graph nodes edges root data ix => ((modelGraph mk fuel).reason_all_causes ⟨nodes, edges, root⟩ data ix).2

theorem genOpLog_eq (mk : Nat → Nat) (fuel : Nat) (s : Cells) (op : Op) : genOpLog mk fuel s op = writes (opLog mk fuel op) := by
  cases op <;>
    simp [genOpLog, opLog, verify_single_cause_eq _ _ _ _ _ (rep_embed mk _), verify_all_causes_eq _ _ _ _ _ (rep_embed mk _),
      reason_all_causes_vec]

/-- the activation after a history is the fold of the generated functions' writes -/
theorem c11gen_run_append (mk : Nat → Nat) (fuel : Nat) (ops : List Op) (op : Op) (s : Cells) :
    run mk fuel (ops ++ [op]) = applyLog (run mk fuel ops) (genOpLog mk fuel s op) := by
  rw [genOpLog_eq, applyLog_writes, C11.run_append]

/-- the flag is written only after the causal function succeeded: a `verify_single_cause` that errs or panics writes nothing,
    one that answers `Ok(b)` writes exactly `b` to the causaloid's own cell -/
theorem c11gen_single_writes (mk : Nat → Nat) (fuel : Nat) (s : Cells) (cell id : Nat) (fn : Fn) (r : GC)
    (h : Rep mk (.single cell id fn) r) (obs : Nat) :
    Causaloid.verify_single_cause (modelDict mk fuel) (modelGraph mk fuel) s r obs =
      match fn.apply mk obs with
      | some .t => (some .t, [(cell, .t)])
      | some .f => (some .f, [(cell, .f)])
      | some .e => (some .e, [])
      | none => (none, []) := by
  rw [verify_single_cause_eq mk fuel s _ r h]
  simp only [verifySingle, singleLog]
  cases fn.apply mk obs with
  | none => rfl
  | some v => cases v <;> rfl

/-- `is_active` as generated, after every history: a singleton mirrors the latest evaluation of its cell that did not err,
    a wrapper is active iff some member is -/
theorem c11gen_is_active_after_history (mk : Nat → Nat) (fuel : Nat) (ops : List Op) (c : Causal.Causaloid) (r : GC)
    (h : Rep mk c r) :
    Causaloid.is_active (modelDict mk fuel) (modelGraph mk fuel) (run mk fuel ops) r =
      some (activeSpec (events mk fuel ops) c) := by
  rw [is_active_eq mk fuel _ c r h, C11.active_eq_spec]

/-- the aggregates as generated = the recount over the members, after every history -/
theorem c11gen_aggregates (mk : Nat → Nat) (fuel : Nat) (ops : List Op) (c : Coll Causal.Causaloid)
    (hlen : c.len = c.get_all_items.length) :
    CausableReasoning.number_active (modelDict mk fuel) (run mk fuel ops) c = (recount (events mk fuel ops) c.get_all_items : Rat) ∧
    CausableReasoning.percent_active (modelDict mk fuel) (run mk fuel ops) c = percent (events mk fuel ops) c.get_all_items ∧
    (CausableReasoning.get_all_causes_true (modelDict mk fuel) (run mk fuel ops) c = true ↔
      recount (events mk fuel ops) c.get_all_items = c.get_all_items.length) := by
  refine ⟨?_, ?_, ?_⟩
  · rw [number_active_eq, C11.number_active_eq_recount]
  · rw [percent_active_eq _ _ _ _ hlen, C11.percent_active_eq_recount]
  · rw [get_all_causes_true_eq, C11.all_active_iff_recount]

theorem c11gen_graph_aggregates (mk : Nat → Nat) (fuel : Nat) (ops : List Op) (g : MGraph) :
    CausaloidGraph.number_active (modelDict mk fuel) (modelGraph mk fuel) (run mk fuel ops) g =
      (recount (events mk fuel ops) g.nodes : Rat) ∧
    CausaloidGraph.percent_active (modelDict mk fuel) (modelGraph mk fuel) (run mk fuel ops) g =
      percent (events mk fuel ops) g.nodes ∧
    (CausaloidGraph.all_active (modelDict mk fuel) (modelGraph mk fuel) (run mk fuel ops) g = true ↔
      recount (events mk fuel ops) g.nodes = g.nodes.length) := by
  refine ⟨?_, ?_, ?_⟩
  · rw [graph_number_active_eq, C11.number_active_eq_recount]
  · rw [graph_percent_active_eq, C11.percent_active_eq_recount]
  · rw [graph_all_active_eq, C11.all_active_iff_recount]

/-! ## the hypotheses are met -/

example : Rep (fun _ => 0) C11.w (Causaloid.from_causal_collection_with_context 7 5 [C11.a, C11.b] (some 1)).1 :=
  Rep.collCtx 7 5 [C11.a, C11.b] (some 1)
example : (Coll.ofVec [C11.a, C11.b]).len = (Coll.ofVec [C11.a, C11.b]).get_all_items.length := rfl

end C11Gen
