import DcVerif.Model.Collections
import DcVerif.Props.C18
/-!
# C12 — reasoning is deterministic and independent of the container holding the items

Model: `Model.Collections` (containers → `get_all_items()` / `len()`, `CausableReasoning` over causaloids) and
`Model.Reasoning` (assumptions, inferences, observations — shared with C18).

Part A: every container hands the reasoning code the same thing — a list of items and its length; sequence
containers hand over the sequence, a B-tree the values in ascending key order, a hash map some permutation.
Part B: every answer is a function of that list (so equal lists ⇒ equal answers, whichever container).
Part C: counts, percentages, "all" answers are invariant under permutation, filters are as multisets.
Part D: reasoning over causaloids: the verdict does not depend on the activation cells (so a clone sharing
the cells, or a rebuilt twin with fresh cells, answers the same), and repeating a call changes nothing.
-/
namespace C12
open Model.Collections Model.Reasoning Spec.Reasoning

variable {α ι κ δ : Type}

/-! ## Part A — containers -/

def keysOf (m : List (Nat × α)) : List Nat := m.map (·.1)

theorem binsert_last (m : List (Nat × α)) (k : Nat) (v : α) (h : ∀ e ∈ m, e.1 < k) :
    binsert m k v = m ++ [(k, v)] := by
  induction m with
  | nil => rfl
  | cons e r ih =>
    obtain ⟨j, w⟩ := e
    have hj : j < k := h (j, w) (by simp)
    have h1 : ¬ k < j := by omega
    have h2 : ¬ k = j := by omega
    simp only [binsert, h1, h2, if_false, List.cons_append]
    rw [ih (fun e he => h e (by simp [he]))]

/-- a B-tree filled with strictly increasing keys enumerates its values in insertion order -/
theorem btreeOf_increasing (kvs acc : List (Nat × α)) (hs : (keysOf kvs).Pairwise (· < ·))
    (hacc : ∀ e ∈ acc, ∀ f ∈ kvs, e.1 < f.1) :
    kvs.foldl (fun m kv => binsert m kv.1 kv.2) acc = acc ++ kvs := by
  induction kvs generalizing acc with
  | nil => simp
  | cons kv r ih =>
    simp only [keysOf, List.map_cons, List.pairwise_cons] at hs
    simp only [List.foldl_cons]
    rw [binsert_last acc kv.1 kv.2 (fun e he => hacc e he kv (by simp))]
    rw [ih (acc ++ [(kv.1, kv.2)]) hs.2]
    · simp
    · intro e he f hf
      rcases List.mem_append.1 he with h | h
      · exact hacc e h f (by simp [hf])
      · simp only [List.mem_singleton] at h
        subst h
        exact hs.1 f.1 (List.mem_map_of_mem hf)

theorem mem_keys_binsert (m : List (Nat × α)) (k j : Nat) (v : α) :
    j ∈ keysOf (binsert m k v) ↔ j = k ∨ j ∈ keysOf m := by
  induction m with
  | nil => simp [binsert, keysOf]
  | cons e r ih =>
    obtain ⟨i, w⟩ := e
    simp only [binsert]
    split
    · simp [keysOf]
    · split
      · rename_i h1 h2; subst h2; simp [keysOf]
      · simp only [keysOf, List.map_cons, List.mem_cons] at ih ⊢
        rw [ih]; grind

/-- inserting a fresh key adds exactly that pair -/
theorem binsert_perm (m : List (Nat × α)) (k : Nat) (v : α) (h : k ∉ keysOf m) :
    (binsert m k v).Perm ((k, v) :: m) := by
  induction m with
  | nil => exact List.Perm.refl _
  | cons e r ih =>
    obtain ⟨i, w⟩ := e
    have hik : ¬ k = i := by intro e; apply h; simp [keysOf, e]
    have hr : k ∉ keysOf r := by intro e; apply h; simp only [keysOf, List.map_cons, List.mem_cons]; exact Or.inr e
    simp only [binsert, hik, if_false]
    split
    · exact List.Perm.refl _
    · exact ((ih hr).cons (i, w)).trans (List.Perm.swap _ _ _)

/-- the keys of a B-tree are always in strictly ascending order (so `values()` is ascending key order) -/
theorem binsert_sorted (m : List (Nat × α)) (k : Nat) (v : α) (h : (keysOf m).Pairwise (· < ·)) :
    (keysOf (binsert m k v)).Pairwise (· < ·) := by
  induction m with
  | nil => simp [binsert, keysOf]
  | cons e r ih =>
    obtain ⟨i, w⟩ := e
    simp only [keysOf, List.map_cons, List.pairwise_cons] at h
    simp only [binsert]
    split
    · rename_i hk
      simp only [keysOf, List.map_cons, List.pairwise_cons, List.mem_cons]
      refine ⟨?_, h⟩
      rintro a (rfl | ha)
      · exact hk
      · exact Nat.lt_trans hk (h.1 a ha)
    · split
      · rename_i h1 h2; subst h2
        simpa [keysOf] using h
      · rename_i h1 h2
        have := ih h.2
        simp only [keysOf, List.map_cons, List.pairwise_cons]
        refine ⟨?_, this⟩
        intro a ha
        rcases (mem_keys_binsert r k a v).1 ha with rfl | ha'
        · omega
        · exact h.1 a ha'

theorem btreeOf_sorted (kvs : List (Nat × α)) : (keysOf (btreeOf kvs)).Pairwise (· < ·) := by
  suffices ∀ acc : List (Nat × α), (keysOf acc).Pairwise (· < ·) →
      (keysOf (kvs.foldl (fun m kv => binsert m kv.1 kv.2) acc)).Pairwise (· < ·) from this [] (by simp [keysOf])
  induction kvs with
  | nil => intro acc h; exact h
  | cons kv r ih => intro acc h; exact ih _ (binsert_sorted acc kv.1 kv.2 h)

theorem btreeOf_perm_aux (kvs acc : List (Nat × α)) (hn : (keysOf kvs).Nodup)
    (hd : ∀ k ∈ keysOf kvs, k ∉ keysOf acc) :
    (kvs.foldl (fun m kv => binsert m kv.1 kv.2) acc).Perm (acc ++ kvs) := by
  induction kvs generalizing acc with
  | nil => simp
  | cons kv r ih =>
    simp only [keysOf, List.map_cons, List.nodup_cons] at hn
    simp only [List.foldl_cons]
    have hk : kv.1 ∉ keysOf acc := hd kv.1 (by simp [keysOf])
    have h1 := binsert_perm acc kv.1 kv.2 hk
    refine (ih (binsert acc kv.1 kv.2) hn.2 ?_).trans ?_
    · intro k hk' hmem
      rcases (mem_keys_binsert acc kv.1 k kv.2).1 hmem with rfl | h
      · exact hn.1 hk'
      · exact hd k (by simp only [keysOf, List.map_cons, List.mem_cons]; exact Or.inr hk') h
    · have : (binsert acc kv.1 kv.2 ++ r).Perm ((kv :: acc) ++ r) := List.Perm.append_right r h1
      refine this.trans ?_
      simp only [List.cons_append]
      exact (List.perm_middle (a := kv) (l₁ := acc) (l₂ := r)).symm

theorem hinsert_fresh (m : List (Nat × α)) (k : Nat) (v : α) (h : k ∉ keysOf m) :
    hinsert m k v = m ++ [(k, v)] := by
  induction m with
  | nil => rfl
  | cons e r ih =>
    obtain ⟨i, w⟩ := e
    have hik : ¬ i = k := by intro e; apply h; simp [keysOf, e]
    have hr : k ∉ keysOf r := by intro e; apply h; simp only [keysOf, List.map_cons, List.mem_cons]; exact Or.inr e
    simp only [hinsert, hik, if_false, List.cons_append, ih hr]

theorem hashOf_distinct_aux (kvs acc : List (Nat × α)) (hn : (keysOf kvs).Nodup)
    (hd : ∀ k ∈ keysOf kvs, k ∉ keysOf acc) :
    kvs.foldl (fun m kv => hinsert m kv.1 kv.2) acc = acc ++ kvs := by
  induction kvs generalizing acc with
  | nil => simp
  | cons kv r ih =>
    simp only [keysOf, List.map_cons, List.nodup_cons] at hn
    simp only [List.foldl_cons]
    rw [hinsert_fresh acc kv.1 kv.2 (hd kv.1 (by simp [keysOf]))]
    rw [ih _ hn.2]
    · simp
    · intro k hk hmem
      simp only [keysOf, List.map_append, List.map_cons, List.map_nil, List.mem_append, List.mem_singleton] at hmem
      rcases hmem with h | rfl
      · exact hd k (by simp only [keysOf, List.map_cons, List.mem_cons]; exact Or.inr hk) h
      · exact hn.1 hk

theorem filterMap_congr_mem {β γ : Type} (f g : β → Option γ) (l : List β) (h : ∀ x ∈ l, f x = g x) :
    l.filterMap f = l.filterMap g := by
  induction l with
  | nil => rfl
  | cons x r ih =>
    simp only [List.filterMap_cons, h x (by simp)]
    rw [ih (fun y hy => h y (by simp [hy]))]

theorem hget_values (m : List (Nat × α)) (hn : (keysOf m).Nodup) :
    (keysOf m).filterMap (hget m) = m.map (·.2) := by
  induction m with
  | nil => rfl
  | cons e r ih =>
    obtain ⟨j, v⟩ := e
    simp only [keysOf, List.map_cons, List.nodup_cons] at hn ⊢
    have h1 : hget ((j, v) :: r) j = some v := by simp [hget]
    simp only [List.filterMap_cons, h1]
    congr 1
    rw [← ih hn.2]
    apply filterMap_congr_mem
    intro k hk
    have : j ≠ k := fun e => hn.1 (e ▸ hk)
    simp [hget, this]

theorem mem_keys_hinsert (m : List (Nat × α)) (k j : Nat) (v : α) :
    j ∈ keysOf (hinsert m k v) ↔ j = k ∨ j ∈ keysOf m := by
  induction m with
  | nil => simp [hinsert, keysOf]
  | cons e r ih =>
    obtain ⟨i, w⟩ := e
    simp only [hinsert]
    split
    · rename_i h; subst h; simp [keysOf]
    · simp only [keysOf, List.map_cons, List.mem_cons] at ih ⊢
      rw [ih]; grind

theorem hinsert_nodup (m : List (Nat × α)) (k : Nat) (v : α) (h : (keysOf m).Nodup) :
    (keysOf (hinsert m k v)).Nodup := by
  induction m with
  | nil => simp [hinsert, keysOf]
  | cons e r ih =>
    obtain ⟨i, w⟩ := e
    simp only [keysOf, List.map_cons, List.nodup_cons] at h
    simp only [hinsert]
    split
    · rename_i hik; subst hik; simpa [keysOf] using h
    · rename_i hik
      simp only [keysOf, List.map_cons, List.nodup_cons]
      refine ⟨?_, ih h.2⟩
      intro hmem
      rcases (mem_keys_hinsert r k i v).1 hmem with rfl | h'
      · exact hik rfl
      · exact h.1 h'

theorem hashOf_nodup (kvs : List (Nat × α)) : (keysOf (hashOf kvs)).Nodup := by
  suffices ∀ acc : List (Nat × α), (keysOf acc).Nodup →
      (keysOf (kvs.foldl (fun m kv => hinsert m kv.1 kv.2) acc)).Nodup from this [] (by simp [keysOf])
  induction kvs with
  | nil => intro acc h; exact h
  | cons kv r ih => intro acc h; exact ih _ (hinsert_nodup acc kv.1 kv.2 h)

/-- **the container's own `len()` is the number of items `get_all_items()` returns** — for all five container
types (hash map: for every enumeration order) -/
theorem c12_len_is_number_of_items (c : Container α) (wf : WellFormed c) :
    len c = (items c).length ∧ isEmpty c = (items c).isEmpty := by
  have h : len c = (items c).length := by
    cases c with
    | slice l => rfl
    | vec l => rfl
    | deque l => rfl
    | btree kvs => simp [len, items]
    | hash kvs order =>
      simp only [len, items]
      have hp : (order.filterMap (hget (hashOf kvs))).Perm ((hashOf kvs).map (·.2)) := by
        rw [← hget_values _ (hashOf_nodup kvs)]
        exact List.Perm.filterMap _ wf
      simpa using hp.length_eq.symm
  refine ⟨h, ?_⟩
  simp only [isEmpty, h]
  cases items c <;> simp

/-- **which list each container hands over.** Slice, `Vec` and `VecDeque` hand over their sequence; a B-tree
filled with strictly increasing keys hands over the values in insertion order (an ordered map with the same
iteration order); for pairwise distinct keys a B-tree hands over the values sorted by key and a hash map some
permutation — both the same multiset as the sequence. -/
theorem c12_items_of_containers (l : List α) (kvs : List (Nat × α)) (order : List Nat) :
    items (.slice l) = l ∧ items (.vec l) = l ∧ items (.deque l) = l ∧
    ((keysOf kvs).Pairwise (· < ·) → items (.btree kvs) = kvs.map (·.2)) ∧
    (keysOf (btreeOf kvs)).Pairwise (· < ·) ∧
    ((keysOf kvs).Nodup → (items (.btree kvs)).Perm (kvs.map (·.2))) ∧
    ((keysOf kvs).Nodup → WellFormed (.hash kvs order) → (items (.hash kvs order)).Perm (kvs.map (·.2))) := by
  refine ⟨rfl, rfl, rfl, ?_, btreeOf_sorted kvs, ?_, ?_⟩
  · intro hs
    have := btreeOf_increasing kvs [] hs (by simp)
    simp only [items, btreeOf, this, List.nil_append]
  · intro hn
    have := btreeOf_perm_aux kvs [] hn (by simp [keysOf])
    simp only [List.nil_append] at this
    exact this.map _
  · intro hn wf
    have hk : hashOf kvs = kvs := by
      have := hashOf_distinct_aux kvs [] hn (by simp [keysOf])
      simpa [hashOf] using this
    simp only [items, hk]
    simp only [WellFormed, hk] at wf
    rw [← hget_values kvs hn]
    exact List.Perm.filterMap _ wf

/-! ## Part B — every answer is a function of the item list -/

/-- all answers of `AssumableReasoning` on a container -/
structure AssumableAns (ι : Type) where
  allTested : Bool
  allValid : Bool
  numberValid : Nat
  percentValid : Rat
  invalid : List ι
  valid : List ι
  tested : List ι
  untested : List ι
  len : Nat
  isEmpty : Bool

/-- … computed the way the trait computes them on a container: from `get_all_items()` and the container's `len()` -/
def assumableAns (tested valid : ι → Bool) (c : Container ι) : AssumableAns ι :=
  { allTested := allTested tested (items c), allValid := allValid valid (items c),
    numberValid := numberValid valid (items c),
    percentValid := ((numberValid valid (items c) : Nat) : Rat) / (len c : Rat) * 100,
    invalid := getAllInvalid valid (items c), valid := getAllValid valid (items c),
    tested := getAllTested tested (items c), untested := getAllUntested tested (items c),
    len := len c, isEmpty := isEmpty c }

/-- … and the same answers computed from a bare list -/
def assumableOfList (tested valid : ι → Bool) (l : List ι) : AssumableAns ι :=
  { allTested := allTested tested l, allValid := allValid valid l, numberValid := numberValid valid l,
    percentValid := percentValid valid l, invalid := getAllInvalid valid l, valid := getAllValid valid l,
    tested := getAllTested tested l, untested := getAllUntested tested l, len := l.length, isEmpty := l.isEmpty }

structure InferableAns (κ : Type) where
  inferable : List (Inference κ)
  inverse : List (Inference κ)
  non : List (Inference κ)
  allInferable : Bool
  allInverse : Bool
  allNon : Bool
  numberInferable : Nat
  numberInverse : Nat
  numberNon : Nat
  percentInferable : Rat
  percentInverse : Rat
  percentNon : Rat
  conjointDelta : Rat
  len : Nat
  isEmpty : Bool

def inferableAns (cmp : κ → κ → Ordering) (approx : κ → κ → Bool) (c : Container (Inference κ)) : InferableAns κ :=
  let l := items c
  let total : Rat := (len c : Rat)
  { inferable := getAllInferable cmp approx l, inverse := getAllInverseInferable cmp approx l,
    non := getAllNonInferable cmp approx l, allInferable := allInferable cmp approx l,
    allInverse := allInverseInferable cmp approx l, allNon := allNonInferable cmp approx l,
    numberInferable := numberInferable cmp approx l, numberInverse := numberInverseInferable cmp approx l,
    numberNon := numberNonInferable cmp approx l,
    percentInferable := percentOf (numberInferable cmp approx l) (len c),
    percentInverse := percentOf (numberInverseInferable cmp approx l) (len c),
    percentNon := percentOf (numberNonInferable cmp approx l) (len c),
    conjointDelta := absNum (1 - (total - (numberNonInferable cmp approx l : Rat)) / total),
    len := len c, isEmpty := isEmpty c }

def inferableOfList (cmp : κ → κ → Ordering) (approx : κ → κ → Bool) (l : List (Inference κ)) : InferableAns κ :=
  { inferable := getAllInferable cmp approx l, inverse := getAllInverseInferable cmp approx l,
    non := getAllNonInferable cmp approx l, allInferable := allInferable cmp approx l,
    allInverse := allInverseInferable cmp approx l, allNon := allNonInferable cmp approx l,
    numberInferable := numberInferable cmp approx l, numberInverse := numberInverseInferable cmp approx l,
    numberNon := numberNonInferable cmp approx l,
    percentInferable := percentInferable cmp approx l, percentInverse := percentInverseInferable cmp approx l,
    percentNon := percentNonInferable cmp approx l, conjointDelta := conjointDelta cmp approx l,
    len := l.length, isEmpty := l.isEmpty }

structure ObservableAns where
  numberObservation : Nat
  numberNonObservation : Int
  percentObservation : Rat
  percentNonObservation : Rat
  len : Nat
  isEmpty : Bool

def observableAns (ge eq : κ → κ → Bool) (c : Container (Observation κ)) (thr e : κ) : ObservableAns :=
  let l := items c
  { numberObservation := numberObservation ge eq l thr e,
    numberNonObservation := (len c : Int) - (numberObservation ge eq l thr e : Int),
    percentObservation := (numberObservation ge eq l thr e : Rat) / (len c : Rat),
    percentNonObservation := 1 - (numberObservation ge eq l thr e : Rat) / (len c : Rat),
    len := len c, isEmpty := isEmpty c }

def observableOfList (ge eq : κ → κ → Bool) (l : List (Observation κ)) (thr e : κ) : ObservableAns :=
  { numberObservation := numberObservation ge eq l thr e, numberNonObservation := numberNonObservation ge eq l thr e,
    percentObservation := percentObservation ge eq l thr e, percentNonObservation := percentNonObservation ge eq l thr e,
    len := l.length, isEmpty := l.isEmpty }

/-- all answers of `CausableReasoning` on a container of causaloids, for the activation state `cells`, and the
outcome of `reason_all_causes(data)` (verdict and activation state afterwards) -/
structure CausableAns where
  allTrue : Bool
  active : List Cause
  inactive : List Cause
  numberActive : Nat
  percentActive : Rat
  explain : Option (List Nat)
  toVec : List Cause
  len : Nat
  isEmpty : Bool

def causableAns (cells : Cells) (c : Container Cause) : CausableAns :=
  let l := items c
  { allTrue := allCausesTrue cells l, active := getAllActive cells l, inactive := getAllInactive cells l,
    numberActive := numberActive cells l, percentActive := percentActive cells l (len c),
    explain := explainIds cells l, toVec := l, len := len c, isEmpty := isEmpty c }

def causableOfList (cells : Cells) (l : List Cause) : CausableAns :=
  { allTrue := allCausesTrue cells l, active := getAllActive cells l, inactive := getAllInactive cells l,
    numberActive := numberActive cells l, percentActive := percentActive cells l l.length,
    explain := explainIds cells l, toVec := l, len := l.length, isEmpty := l.isEmpty }

/-- `reason_all_causes` on a container: `is_empty()` of the container, then the loop over `get_all_items()` -/
def reasonAllC (eval : Nat → δ → Option Bool) (c : Container Cause) (data : List δ) (cells : Cells) : Res × Cells :=
  if isEmpty c then (.err, cells) else loopCauses eval (items c) 0 data cells

/-- **every reasoning answer is a function of the item list only**: for each of the five container types (hash map:
every enumeration order), all answers of the four reasoning traits computed on the container — through its
`get_all_items()` and its own `len()`/`is_empty()` — are the answers computed from the bare list `items c`. -/
theorem c12_answers_function_of_items :
    (∀ (tested valid : ι → Bool) (c : Container ι), WellFormed c →
      assumableAns tested valid c = assumableOfList tested valid (items c)) ∧
    (∀ (cmp : κ → κ → Ordering) (approx : κ → κ → Bool) (c : Container (Inference κ)), WellFormed c →
      inferableAns cmp approx c = inferableOfList cmp approx (items c)) ∧
    (∀ (ge eq : κ → κ → Bool) (c : Container (Observation κ)) (thr e : κ), WellFormed c →
      observableAns ge eq c thr e = observableOfList ge eq (items c) thr e) ∧
    (∀ (cells : Cells) (c : Container Cause), WellFormed c → causableAns cells c = causableOfList cells (items c)) ∧
    (∀ (eval : Nat → δ → Option Bool) (c : Container Cause) (data : List δ) (cells : Cells), WellFormed c →
      reasonAllC eval c data cells = reasonAll eval (items c) data cells) := by
  refine ⟨?_, ?_, ?_, ?_, ?_⟩
  · intro tested valid c wf
    obtain ⟨h1, h2⟩ := c12_len_is_number_of_items c wf
    simp only [assumableAns, assumableOfList, h1, h2, percentValid]
  · intro cmp approx c wf
    obtain ⟨h1, h2⟩ := c12_len_is_number_of_items c wf
    simp only [inferableAns, inferableOfList, h1, h2, percentInferable, percentInverseInferable,
      percentNonInferable, conjointDelta]
  · intro ge eq c thr e wf
    obtain ⟨h1, h2⟩ := c12_len_is_number_of_items c wf
    simp only [observableAns, observableOfList, h1, h2, numberNonObservation, percentObservation,
      percentNonObservation]
  · intro cells c wf
    obtain ⟨h1, h2⟩ := c12_len_is_number_of_items c wf
    simp only [causableAns, causableOfList, h1, h2]
  · intro eval c data cells wf
    obtain ⟨h1, h2⟩ := c12_len_is_number_of_items c wf
    simp only [reasonAllC, reasonAll, h2]

/-- hence: **two containers holding the same list give the same answers, whichever container types they are** -/
theorem c12_same_items_same_answers :
    (∀ (tested valid : ι → Bool) (c₁ c₂ : Container ι), WellFormed c₁ → WellFormed c₂ → items c₁ = items c₂ →
      assumableAns tested valid c₁ = assumableAns tested valid c₂) ∧
    (∀ (cmp : κ → κ → Ordering) (approx : κ → κ → Bool) (c₁ c₂ : Container (Inference κ)),
      WellFormed c₁ → WellFormed c₂ → items c₁ = items c₂ → inferableAns cmp approx c₁ = inferableAns cmp approx c₂) ∧
    (∀ (ge eq : κ → κ → Bool) (c₁ c₂ : Container (Observation κ)) (thr e : κ),
      WellFormed c₁ → WellFormed c₂ → items c₁ = items c₂ → observableAns ge eq c₁ thr e = observableAns ge eq c₂ thr e) ∧
    (∀ (cells : Cells) (c₁ c₂ : Container Cause), WellFormed c₁ → WellFormed c₂ → items c₁ = items c₂ →
      causableAns cells c₁ = causableAns cells c₂) ∧
    (∀ (eval : Nat → δ → Option Bool) (c₁ c₂ : Container Cause) (data : List δ) (cells : Cells),
      WellFormed c₁ → WellFormed c₂ → items c₁ = items c₂ →
      reasonAllC eval c₁ data cells = reasonAllC eval c₂ data cells) := by
  obtain ⟨h1, h2, h3, h4, h5⟩ := @c12_answers_function_of_items ι κ δ
  refine ⟨?_, ?_, ?_, ?_, ?_⟩
  · intro t v c₁ c₂ w₁ w₂ e; rw [h1 t v c₁ w₁, h1 t v c₂ w₂, e]
  · intro cmp ap c₁ c₂ w₁ w₂ e; rw [h2 cmp ap c₁ w₁, h2 cmp ap c₂ w₂, e]
  · intro ge eq c₁ c₂ thr x w₁ w₂ e; rw [h3 ge eq c₁ thr x w₁, h3 ge eq c₂ thr x w₂, e]
  · intro cells c₁ c₂ w₁ w₂ e; rw [h4 cells c₁ w₁, h4 cells c₂ w₂, e]
  · intro ev c₁ c₂ d cells w₁ w₂ e; rw [h5 ev c₁ d cells w₁, h5 ev c₂ d cells w₂, e]

/-! ## Part C — invariance under permutation (what an unordered map may do to the order) -/

theorem loop_perm (p : ι → Bool) (loop : List ι → Bool) (hnil : loop [] = true)
    (hcons : ∀ a r, loop (a :: r) = if !p a then false else loop r) {l₁ l₂ : List ι} (h : l₁.Perm l₂) :
    loop l₁ = loop l₂ := by
  have h1 := C18.all_loop_iff p loop hnil hcons l₁
  have h2 := C18.all_loop_iff p loop hnil hcons l₂
  have : loop l₁ = true ↔ loop l₂ = true := by
    rw [h1, h2]; exact ⟨fun H a ha => H a (h.mem_iff.2 ha), fun H a ha => H a (h.mem_iff.1 ha)⟩
  cases h₁ : loop l₁ <;> cases h₂ : loop l₂ <;> simp_all

theorem filter_length_perm (p : ι → Bool) {l₁ l₂ : List ι} (h : l₁.Perm l₂) :
    (l₁.filter p).length = (l₂.filter p).length := (h.filter p).length_eq

/-- **assumptions: permutation invariance** — counts, percentage and "all" answers are equal, the four filters are
equal as multisets -/
theorem c12_perm_invariant_assumable (tested valid : ι → Bool) {l₁ l₂ : List ι} (h : l₁.Perm l₂) :
    numberValid valid l₁ = numberValid valid l₂ ∧ percentValid valid l₁ = percentValid valid l₂ ∧
    allTested tested l₁ = allTested tested l₂ ∧ allValid valid l₁ = allValid valid l₂ ∧
    (getAllValid valid l₁).Perm (getAllValid valid l₂) ∧ (getAllInvalid valid l₁).Perm (getAllInvalid valid l₂) ∧
    (getAllTested tested l₁).Perm (getAllTested tested l₂) ∧
    (getAllUntested tested l₁).Perm (getAllUntested tested l₂) := by
  have hn : numberValid valid l₁ = numberValid valid l₂ := filter_length_perm valid h
  refine ⟨hn, by simp only [percentValid, hn, h.length_eq],
    loop_perm tested (allTested tested) rfl (fun _ _ => rfl) h,
    loop_perm valid (allValid valid) rfl (fun _ _ => rfl) h,
    h.filter _, h.filter _, h.filter _, h.filter _⟩

/-- **inferences: permutation invariance** -/
theorem c12_perm_invariant_inferable (cmp : κ → κ → Ordering) (approx : κ → κ → Bool)
    {l₁ l₂ : List (Inference κ)} (h : l₁.Perm l₂) :
    numberInferable cmp approx l₁ = numberInferable cmp approx l₂ ∧
    numberInverseInferable cmp approx l₁ = numberInverseInferable cmp approx l₂ ∧
    numberNonInferable cmp approx l₁ = numberNonInferable cmp approx l₂ ∧
    percentInferable cmp approx l₁ = percentInferable cmp approx l₂ ∧
    percentInverseInferable cmp approx l₁ = percentInverseInferable cmp approx l₂ ∧
    percentNonInferable cmp approx l₁ = percentNonInferable cmp approx l₂ ∧
    conjointDelta cmp approx l₁ = conjointDelta cmp approx l₂ ∧
    allInferable cmp approx l₁ = allInferable cmp approx l₂ ∧
    allInverseInferable cmp approx l₁ = allInverseInferable cmp approx l₂ ∧
    allNonInferable cmp approx l₁ = allNonInferable cmp approx l₂ ∧
    (getAllInferable cmp approx l₁).Perm (getAllInferable cmp approx l₂) ∧
    (getAllInverseInferable cmp approx l₁).Perm (getAllInverseInferable cmp approx l₂) ∧
    (getAllNonInferable cmp approx l₁).Perm (getAllNonInferable cmp approx l₂) := by
  have h1 : numberInferable cmp approx l₁ = numberInferable cmp approx l₂ := filter_length_perm _ h
  have h2 : numberInverseInferable cmp approx l₁ = numberInverseInferable cmp approx l₂ := filter_length_perm _ h
  have h3 : numberNonInferable cmp approx l₁ = numberNonInferable cmp approx l₂ := filter_length_perm _ h
  refine ⟨h1, h2, h3, by simp only [percentInferable, h1, h.length_eq],
    by simp only [percentInverseInferable, h2, h.length_eq], by simp only [percentNonInferable, h3, h.length_eq],
    by simp only [conjointDelta, h3, h.length_eq],
    loop_perm _ (allInferable cmp approx) rfl (fun _ _ => rfl) h,
    loop_perm _ (allInverseInferable cmp approx) rfl (fun _ _ => rfl) h, ?_, h.filter _, h.filter _, h.filter _⟩
  rw [(C18.c18_non_inferable_family cmp approx l₁).2.2.1, (C18.c18_non_inferable_family cmp approx l₂).2.2.1]

/-- **observations: permutation invariance** -/
theorem c12_perm_invariant_observable (ge eq : κ → κ → Bool) {l₁ l₂ : List (Observation κ)} (h : l₁.Perm l₂)
    (thr e : κ) :
    numberObservation ge eq l₁ thr e = numberObservation ge eq l₂ thr e ∧
    numberNonObservation ge eq l₁ thr e = numberNonObservation ge eq l₂ thr e ∧
    percentObservation ge eq l₁ thr e = percentObservation ge eq l₂ thr e ∧
    percentNonObservation ge eq l₁ thr e = percentNonObservation ge eq l₂ thr e := by
  have h1 : numberObservation ge eq l₁ thr e = numberObservation ge eq l₂ thr e := filter_length_perm _ h
  exact ⟨h1, by simp only [numberNonObservation, h1, h.length_eq],
    by simp only [percentObservation, h1, h.length_eq],
    by simp only [percentNonObservation, percentObservation, h1, h.length_eq]⟩

/-- **causaloids: permutation invariance** of the order-insensitive answers -/
theorem c12_perm_invariant_causable (cells : Cells) {l₁ l₂ : List Cause} (h : l₁.Perm l₂) :
    numberActive cells l₁ = numberActive cells l₂ ∧
    percentActive cells l₁ l₁.length = percentActive cells l₂ l₂.length ∧
    allCausesTrue cells l₁ = allCausesTrue cells l₂ ∧
    (getAllActive cells l₁).Perm (getAllActive cells l₂) ∧
    (getAllInactive cells l₁).Perm (getAllInactive cells l₂) := by
  have h1 : numberActive cells l₁ = numberActive cells l₂ := filter_length_perm _ h
  exact ⟨h1, by simp only [percentActive, h1, h.length_eq],
    loop_perm (isActive cells) (allCausesTrue cells) rfl (fun _ _ => rfl) h, h.filter _, h.filter _⟩

/-! ## Part D — reasoning over causaloids is deterministic -/

/-- writes to activation cells, oldest first -/
abbrev Writes := List (Nat × Bool)

def applyWrites (ws : Writes) (c : Cells) : Cells := ws.foldl (fun c w => c.set w.1 w.2) c

/-- the pure content of the loop over singletons: verdict and cell writes, no cells read -/
def traceSingles (eval : Nat → δ → Option Bool) : List Single → Nat → List δ → Res × Writes
  | [], _, _ => (.ok true, [])
  | s :: r, i, data =>
    match data[i]? with
    | none => (.panic, [])
    | some d =>
      match eval s.kind d with
      | none => (.err, [])
      | some true => let t := traceSingles eval r (i + 1) data; (t.1, (s.id, true) :: t.2)
      | some false => (.ok false, [(s.id, false)])

def traceInner (eval : Nat → δ → Option Bool) (inner : List Single) (data : List δ) : Res × Writes :=
  if inner.isEmpty then (.err, []) else traceSingles eval inner 0 data

def traceCauses (eval : Nat → δ → Option Bool) : List Cause → Nat → List δ → Res × Writes
  | [], _, _ => (.ok true, [])
  | .single s :: r, i, data =>
    match data[i]? with
    | none => (.panic, [])
    | some d =>
      match eval s.kind d with
      | none => (.err, [])
      | some true => let t := traceCauses eval r (i + 1) data; (t.1, (s.id, true) :: t.2)
      | some false => (.ok false, [(s.id, false)])
  | .coll _ inner :: r, i, data =>
    let ti := traceInner eval inner data
    if ti.1 = .ok true then
      let t := traceCauses eval r (i + 1) data
      (t.1, ti.2 ++ t.2)
    else ti

theorem applyWrites_append (a b : Writes) (c : Cells) : applyWrites (a ++ b) c = applyWrites b (applyWrites a c) := by
  simp [applyWrites, List.foldl_append]

theorem loopSingles_eq_trace (eval : Nat → δ → Option Bool) (l : List Single) (i : Nat) (data : List δ) (c : Cells) :
    loopSingles eval l i data c = ((traceSingles eval l i data).1, applyWrites (traceSingles eval l i data).2 c) := by
  induction l generalizing i c with
  | nil => rfl
  | cons s r ih =>
    simp only [loopSingles, traceSingles]
    cases hd : data[i]? with
    | none => rfl
    | some d =>
      simp only [verifySingle]
      cases he : eval s.kind d with
      | none => rfl
      | some b =>
        cases b with
        | true => simp only [ih]; rfl
        | false => rfl

theorem reasonSingles_eq_trace (eval : Nat → δ → Option Bool) (l : List Single) (data : List δ) (c : Cells) :
    reasonSingles eval l data c = ((traceInner eval l data).1, applyWrites (traceInner eval l data).2 c) := by
  simp only [reasonSingles, traceInner]
  split
  · rfl
  · exact loopSingles_eq_trace eval l 0 data c

theorem loopCauses_eq_trace (eval : Nat → δ → Option Bool) (l : List Cause) (i : Nat) (data : List δ) (c : Cells) :
    loopCauses eval l i data c = ((traceCauses eval l i data).1, applyWrites (traceCauses eval l i data).2 c) := by
  induction l generalizing i c with
  | nil => rfl
  | cons x r ih =>
    cases x with
    | single s =>
      simp only [loopCauses, traceCauses]
      cases hd : data[i]? with
      | none => rfl
      | some d =>
        simp only [verifySingle]
        cases he : eval s.kind d with
        | none => rfl
        | some b =>
          cases b with
          | true => simp only [ih]; rfl
          | false => rfl
    | coll id inner =>
      simp only [loopCauses, traceCauses, reasonSingles_eq_trace]
      cases hv : (traceInner eval inner data).1 with
      | ok b =>
        cases b with
        | true => simp [ih, applyWrites_append]
        | false => simp [hv]
      | err => simp [hv]
      | panic => simp [hv]

/-- `reason_all_causes` = a pure verdict plus a sequence of cell writes that do not depend on the cells -/
theorem reasonAll_eq_trace (eval : Nat → δ → Option Bool) (l : List Cause) (data : List δ) (c : Cells) :
    reasonAll eval l data c =
      if l.isEmpty then (.err, c)
      else ((traceCauses eval l 0 data).1, applyWrites (traceCauses eval l 0 data).2 c) := by
  simp only [reasonAll]; split
  · rfl
  · exact loopCauses_eq_trace eval l 0 data c

/-- the value of a cell after a sequence of writes: the last write to it, if any -/
theorem applyWrites_apply (ws : Writes) (c : Cells) (j : Nat) :
    applyWrites ws c j = match ws.reverse.find? (fun w => w.1 == j) with
      | some w => w.2
      | none => c j := by
  induction ws generalizing c with
  | nil => rfl
  | cons w r ih =>
    simp only [applyWrites, List.foldl_cons] at ih ⊢
    rw [ih]
    simp only [List.reverse_cons, List.find?_append]
    cases h : List.find? (fun w => w.1 == j) r.reverse with
    | some x => simp
    | none =>
      simp only [Option.none_or, List.find?_cons, List.find?_nil]
      by_cases hj : w.1 = j
      · simp [hj, Cells.set]
      · have : ¬ j = w.1 := fun e => hj e.symm
        have hb : (w.1 == j) = false := by simp [hj]
        simp [hb, Cells.set, this]

theorem applyWrites_idem (ws : Writes) (c : Cells) : applyWrites ws (applyWrites ws c) = applyWrites ws c := by
  funext j
  rw [applyWrites_apply ws (applyWrites ws c), applyWrites_apply ws c]
  cases List.find? (fun w => w.1 == j) ws.reverse <;> rfl

/-- **the verdict does not depend on the activation state**: whatever the cells hold — untouched (a rebuilt
model), left over from earlier calls, or shared with a clone that was evaluated in between — `reason_all_causes`
returns the same verdict -/
theorem c12_verdict_independent_of_cells (eval : Nat → δ → Option Bool) (l : List Cause) (data : List δ)
    (c₁ c₂ : Cells) : (reasonAll eval l data c₁).1 = (reasonAll eval l data c₂).1 := by
  simp only [reasonAll_eq_trace]; split <;> rfl

/-- **repeating a call changes nothing**: the second call returns the same verdict and leaves every activation
cell as the first call left it — for any number of repetitions -/
theorem c12_reason_idempotent (eval : Nat → δ → Option Bool) (l : List Cause) (data : List δ) (c : Cells) (n : Nat) :
    let once := reasonAll eval l data c
    reasonAll eval l data once.2 = once ∧
    Nat.repeat (fun r : Res × Cells => reasonAll eval l data r.2) (n + 1) (.err, c) = once := by
  intro once
  have h1 : reasonAll eval l data once.2 = once := by
    simp only [once, reasonAll_eq_trace]
    split
    · rfl
    · simp only [applyWrites_idem]
  refine ⟨h1, ?_⟩
  induction n with
  | zero => rfl
  | succ n ih =>
    rw [Nat.repeat]
    rw [ih]
    exact h1

/-- forget which cells a member uses: only the kinds of the causal functions and the nesting remain -/
def shape : Cause → Cause
  | .single s => .single ⟨0, s.kind⟩
  | .coll _ inner => .coll 0 (inner.map (fun s => ⟨0, s.kind⟩))

theorem traceSingles_shape (eval : Nat → δ → Option Bool) (l : List Single) (i : Nat) (data : List δ) :
    (traceSingles eval (l.map (fun s => (⟨0, s.kind⟩ : Single))) i data).1 = (traceSingles eval l i data).1 := by
  induction l generalizing i with
  | nil => rfl
  | cons s r ih =>
    simp only [List.map_cons, traceSingles]
    cases hd : data[i]? with
    | none => rfl
    | some d =>
      dsimp only
      cases he : eval s.kind d with
      | none => rfl
      | some b => cases b <;> simp [ih]

theorem traceCauses_shape (eval : Nat → δ → Option Bool) (l : List Cause) (i : Nat) (data : List δ) :
    (traceCauses eval (l.map shape) i data).1 = (traceCauses eval l i data).1 := by
  induction l generalizing i with
  | nil => rfl
  | cons x r ih =>
    cases x with
    | single s =>
      simp only [List.map_cons, shape, traceCauses]
      cases hd : data[i]? with
      | none => rfl
      | some d =>
        dsimp only
        cases he : eval s.kind d with
        | none => rfl
        | some b => cases b <;> simp [ih]
    | coll id inner =>
      have hin : (traceInner eval (inner.map (fun s => (⟨0, s.kind⟩ : Single))) data).1 = (traceInner eval inner data).1 := by
        simp only [traceInner, List.isEmpty_map]
        split
        · rfl
        · exact traceSingles_shape eval inner 0 data
      simp only [List.map_cons, shape, traceCauses, hin]
      split
      · simp [ih]
      · exact hin

/-- **a clone and a rebuilt twin give the same verdict** (collections of causaloids). Two collections whose members
have the same causal functions and the same nesting — a clone (same members, activation cells shared with the
original) or a model rebuilt from the same description (fresh cells) — return the same verdict on the same data,
whatever their activation cells hold.

`_partial`: this is proved for `CausableReasoning` over a collection (`Model.Collections`). `CausaloidGraph`
itself is not modelled here (the graph model belongs to C01/C02); cloning / rebuilding a *graph* is compared on the
real code only (harness: graph vs. `clone()` vs. rebuilt twin, every verdict and aggregate). -/
theorem c12_clone_same_verdict_partial (eval : Nat → δ → Option Bool) (l₁ l₂ : List Cause) (data : List δ)
    (c₁ c₂ : Cells) (h : l₁.map shape = l₂.map shape) :
    (reasonAll eval l₁ data c₁).1 = (reasonAll eval l₂ data c₂).1 := by
  have he : l₁.isEmpty = l₂.isEmpty := by
    have := congrArg List.isEmpty h
    simpa using this
  simp only [reasonAll_eq_trace, he]
  split
  · rfl
  · show (traceCauses eval l₁ 0 data).1 = (traceCauses eval l₂ 0 data).1
    rw [← traceCauses_shape eval l₁, ← traceCauses_shape eval l₂, h]

/-! ## non-vacuity -/
section Examples

-- the same three items in a slice, a B-tree with increasing keys, a B-tree filled in another key order and a hash
-- map enumerating 30,10,20
example : items (.slice [7, 8, 9]) = [7, 8, 9] ∧ items (.btree [(1, 7), (5, 8), (6, 9)]) = [7, 8, 9] ∧
    items (.btree [(5, 8), (6, 9), (1, 7)]) = [7, 8, 9] ∧
    items (.hash [(10, 7), (20, 8), (30, 9)] [30, 10, 20]) = [9, 7, 8] ∧
    len (.hash [(10, 7), (20, 8), (30, 9)] [30, 10, 20]) = 3 := by decide
example : WellFormed (.hash [(10, 7), (20, 8), (30, 9)] [30, 10, 20]) := by
  show [30, 10, 20].Perm [10, 20, 30]; decide

/-- causal functions by kind: verdict from the residue of the data value (0: `1`↦true `0`↦false `2`↦error; 1: inverted) -/
def exEval (kind : Nat) (d : Nat) : Option Bool :=
  if d % 3 = 2 then none else some ((d % 3 = 1) != (kind = 1))

def exItems : List Cause := [.single ⟨0, 0⟩, .coll 1 [⟨10, 0⟩, ⟨11, 1⟩], .single ⟨2, 1⟩]

example : (reasonAll exEval exItems [1, 0, 3] (fun _ => false)).1 = .ok true ∧
    (reasonAll exEval exItems [1, 1, 3] (fun _ => false)).1 = .ok false ∧
    (reasonAll exEval exItems [1, 2, 3] (fun _ => false)).1 = .err ∧
    (reasonAll exEval exItems [1, 0] (fun _ => false)).1 = .panic ∧
    (reasonAll exEval [] [1] (fun _ => false)).1 = .err := by decide
example : let c := (reasonAll exEval exItems [1, 0, 3] (fun _ => false)).2
    [c 0, c 10, c 11, c 2, c 5] = [true, true, true, true, false] ∧
    numberActive c exItems = 3 ∧ explainIds c exItems = some [0, 10, 11, 2] := by decide
-- a twin with other cell ids has the same shape
example : exItems.map shape = ([.single ⟨5, 0⟩, .coll 9 [⟨6, 0⟩, ⟨7, 1⟩], .single ⟨8, 1⟩] : List Cause).map shape := by
  decide

end Examples

end C12
