import DcVerif.Lemmas.Ring
import DcVerif.Lemmas.RingMulti
import DcVerif.Lemmas.RingPay
import DcVerif.Lemmas.RingMultiSafe
/-!
# C04 — every published event is delivered exactly once, in order (single-producer pipelines)

Model: `Model/Ring.lean` (every facade operation of the real code is one step; both wait strategies). All theorems
quantify over every ring size, every stage/handler topology, every batch list and **every schedule** (`Reachable`).

Full statement of the property: *every handler is invoked for every published sequence number exactly once, in
strictly increasing order without gaps, and never for a sequence that is not yet published.* For the single producer the
code violates the first part for exactly one sequence number (known finding F5): the sequencer numbers from 0 while
consumers start at `cursor + 1 = 1`, so sequence 0 is written but never delivered. What is proved:

* `c04_log_is_prefix`      — at every moment each handler has been handed exactly `1, 2, …, m` (once each, in order, no
                              gaps) for some `m ≤ cursor`;
* `c04_handle_only_published` — a handler call for `i` happens only when `i ≤ cursor`, and `i` has been written;
* `c04_delivered_after_drain` — once `drain` has returned and a handler thread has terminated it has been handed exactly
                              `1 … cursor`;
* `c04_single_partial`     — …which is every written sequence except 0: `written = 0 :: log` (or nothing was written);
* `c04_single_first_event_never_delivered` — the negation of the full statement (F5): sequence 0 is in no log, ever,
                              although it is written as soon as any batch is.

* `c04_payload_intact`    — payload integrity on the slot layer `Model/RingPay.lean` (ring of `n` slots indexed by
                              sequence mod n, mutable handlers storing their transformation back): whatever a handler of
                              stage `k` is handed for sequence `i` is the value written for `i`, transformed by the mutable
                              handlers of the stages below `k`, in stage order — and nothing else, although slots are reused
                              every `n` sequences. Hypothesis: a stage with a mutable handler has no other handler (F9).
-/
namespace C04
open Ring

/-- the sequences handed so far to handler `(k,j)` are exactly `1 … m` for its progress counter `m` -/
def progress (c : Cons) : Nat :=
  if c.pc = .handle then c.i - 1 else if c.pc = .publish then c.avail else c.cur

/-- consumer-side fact, independent of the kind of producer: it only needs the consumer invariant -/
theorem log_prefix_of_inv (s : St) (hI : Ring.Inv s) (k j : Nat) (hk : k < s.K) (hj : j < s.h k) :
    (s.cons k j).log = List.range' 1 (progress (s.cons k j)) ∧ progress (s.cons k j) ≤ s.cursor := by
  have hc := hI.2 k j hk hj
  have hup := chain_up s hI k j hk hj
  unfold progress
  by_cases h1 : (s.cons k j).pc = .handle
  · have hav := avail_le_cursor s hI k j hk hj (by simp [h1])
    have := hc.iLe h1
    simp only [h1, if_true]
    exact ⟨hc.logH h1, by omega⟩
  · by_cases h2 : (s.cons k j).pc = .publish
    · have hav := avail_le_cursor s hI k j hk hj (by simp [h2])
      simp only [h1, h2, if_false, if_true]
      exact ⟨hc.logP h2, hav⟩
    · simp only [h1, h2, if_false]
      exact ⟨hc.logO h1 h2, hup⟩

theorem c04_log_is_prefix {x : PSt} (hr : Reachable x) (k j : Nat) (hk : k < x.s.K) (hj : j < x.s.h k) :
    (x.s.cons k j).log = List.range' 1 (progress (x.s.cons k j)) ∧ progress (x.s.cons k j) ≤ x.s.cursor :=
  log_prefix_of_inv x.s (reachable_inv hr).1 k j hk hj

/-- strictly increasing, gap-free, no repetition: immediate from `log = [1 … m]` -/
theorem c04_log_strictly_increasing {x : PSt} (hr : Reachable x) (k j : Nat) (hk : k < x.s.K) (hj : j < x.s.h k) :
    List.Pairwise (· < ·) (x.s.cons k j).log := by
  rw [(c04_log_is_prefix hr k j hk hj).1]
  exact List.pairwise_lt_range' (step := 1) (by omega)

/-- a handler is about to be invoked for `i` only if `i` is published (`i ≤ cursor`) and written -/
theorem c04_handle_only_published {x : PSt} (hr : Reachable x) (k j : Nat) (hk : k < x.s.K) (hj : j < x.s.h k)
    (hpc : (x.s.cons k j).pc = .handle) (hi : (x.s.cons k j).i ≤ (x.s.cons k j).avail) :
    (x.s.cons k j).i ≤ x.s.cursor ∧ (x.s.cons k j).i ∈ x.p.written := by
  obtain ⟨hI, hK, hP, hb⟩ := reachable_inv hr
  have hav := avail_le_cursor x.s hI k j hk hj (by simp [hpc])
  refine ⟨by omega, ?_⟩
  rw [hP.wrote]
  have hcur : (x.s.cons k j).i ≤ x.s.cursor := by omega
  have hci := hI.2 k j hk hj
  have hne := hci.nextEq (by simp [hpc])
  have hge := hci.iGe hpc
  simp only [List.mem_range'_1]
  by_cases hw : x.p.pc = .write ∨ x.p.pc = .publish
  · have := hP.wr hw
    simp only [hw, if_true]
    rcases this.1 with h1 | ⟨h1, h2⟩ <;> omega
  · simp only [hw, if_false]
    by_cases hidle : x.p.pc.idle = true
    · rcases hP.nw hidle with h1 | ⟨h1, h2⟩ <;> omega
    · have hcl : x.p.pc = .gateCheck ∨ x.p.pc = .gateLoad := by
        cases hp : x.p.pc <;> simp_all [PPc.idle]
      have := hP.claim hcl
      rcases this.1 with h1 | ⟨h1, h2⟩ <;> omega

/-- once `drain` (and `Drop`) have completed, a handler thread that has terminated has been handed exactly `1 … cursor` -/
theorem c04_delivered_after_drain {x : PSt} (hr : Reachable x) (hp : x.p.pc = .done)
    (k j : Nat) (hk : k < x.s.K) (hj : j < x.s.h k) (hc : (x.s.cons k j).pc = .done) :
    (x.s.cons k j).log = List.range' 1 x.s.cursor := by
  obtain ⟨hI, hK, hP, hb⟩ := reachable_inv hr
  have hci := hI.2 k j hk hj
  have hlog := hci.logO (by simp [hc]) (by simp [hc])
  have hup := chain_up x.s hI k j hk hj
  have hlow := below_all x.s hI hK (x.p.nextWrite - 1) (hP.drained (by simp [hp, PPc.drained]))
    (x.s.K - 1 - k) k j (by omega) hj
  have hnw := hP.nw (by simp [hp, PPc.idle])
  have : (x.s.cons k j).cur = x.s.cursor := by rcases hnw with h1 | ⟨h1, h2⟩ <;> omega
  rw [hlog, this]

/-- **partial C04**: after shutdown every terminated handler was handed every written sequence except sequence 0 -/
theorem c04_single_partial {x : PSt} (hr : Reachable x) (hp : x.p.pc = .done)
    (k j : Nat) (hk : k < x.s.K) (hj : j < x.s.h k) (hc : (x.s.cons k j).pc = .done) :
    x.p.written = [] ∨ x.p.written = 0 :: (x.s.cons k j).log := by
  obtain ⟨hI, hK, hP, hb⟩ := reachable_inv hr
  rw [c04_delivered_after_drain hr hp k j hk hj hc, hP.wrote]
  simp only [hp, reduceCtorEq, or_self, if_false]
  rcases hP.nw (by simp [hp, PPc.idle]) with h1 | ⟨h1, h2⟩
  · right; rw [← h1, List.range'_succ]
  · left; simp [h2]

/-- **F5, negation of the full statement**: sequence 0 is never handed to any handler … -/
theorem c04_single_first_event_never_delivered {x : PSt} (hr : Reachable x) (k j : Nat)
    (hk : k < x.s.K) (hj : j < x.s.h k) : 0 ∉ (x.s.cons k j).log := by
  rw [(c04_log_is_prefix hr k j hk hj).1]
  simp [List.mem_range'_1]

/-- … although it is written as soon as anything is written -/
theorem c04_single_first_event_written {x : PSt} (hr : Reachable x) (hne : x.p.written ≠ []) : 0 ∈ x.p.written := by
  obtain ⟨hI, hK, hP, hb⟩ := reachable_inv hr
  rw [hP.wrote] at hne ⊢
  cases hn : (if x.p.pc = .write ∨ x.p.pc = .publish then x.p.w else x.p.nextWrite) with
  | zero => rw [hn] at hne; simp at hne
  | succ m => simp [List.mem_range'_1]

/-! ## non-vacuity: a concrete pipeline run to completion (ring of 2, one handler, batches 1 and 1, spin wait) -/

def demoSched : List Tid :=
  (List.replicate 12 Tid.prod) ++ (List.replicate 12 (Tid.cons 0 0)) ++ (List.replicate 12 Tid.prod) ++
  (List.replicate 12 (Tid.cons 0 0))

example : (runX (mk 2 1 (fun _ => 1) false [1, 1]) demoSched).p.pc = .done ∧
    ((runX (mk 2 1 (fun _ => 1) false [1, 1]) demoSched).s.cons 0 0).pc = .done ∧
    ((runX (mk 2 1 (fun _ => 1) false [1, 1]) demoSched).s.cons 0 0).log = [1] ∧
    (runX (mk 2 1 (fun _ => 1) false [1, 1]) demoSched).p.written = [0, 1] := by decide +kernel

example : Reachable (runX (mk 2 1 (fun _ => 1) false [1, 1]) demoSched) :=
  ⟨2, 1, fun _ => 1, false, [1, 1], demoSched, by decide, by intro k _; simp, by decide, rfl⟩

/-! ## payload integrity -/
section Payload
open RingPay

/-- a state of the payload layer reachable in a well-formed pipeline whose mutable handlers are alone in their stage -/
def PayReachable (c : PCfg) (s : PaySt) : Prop :=
  ∃ (n K : Nat) (h : Nat → Nat) (blocking : Bool) (batches : List Nat) (sched : List Tid),
    0 < K ∧ (∀ k, k < K → 0 < h k) ∧ (∀ b, b ∈ batches → 1 ≤ b) ∧
    (∀ k j, k < K → j < h k → c.mutH k j = true → h k = 1) ∧
    s = runPay c (mkPay n K h blocking batches) sched

theorem payReachable_good {c : PCfg} {s : PaySt} (hr : PayReachable c s) : PayGood c s := by
  obtain ⟨n, K, h, bl, bs, sched, hK, hh, hb, hT, rfl⟩ := hr
  exact paygood_run c _ sched (paygood_init c n K h bl bs hK hh hb hT)

/-- **payload integrity**: every `(sequence, payload)` pair handed to handler `(k,j)` carries the value written for that
sequence, transformed by exactly the mutable handlers of the earlier stages -/
theorem c04_payload_intact {c : PCfg} {s : PaySt} (hr : PayReachable c s) (k j : Nat)
    (hk : k < s.x.s.K) (hj : j < s.x.s.h k) (e : Nat × Nat) (he : e ∈ s.seen k j) :
    e.2 = expectBelow c k (c.pay e.1) :=
  (payReachable_good hr).2.2.saw k j hk hj e he

/-- the slot layer does not change the system: its projection is a run of `Model/Ring.lean`, so all delivery theorems
above apply to it -/
theorem c04_payload_layer_is_ghost (c : PCfg) (s : PaySt) (sched : List Tid) :
    (runPay c s sched).x = runX s.x sched := by
  unfold runPay runX
  induction sched generalizing s with
  | nil => rfl
  | cons t ts ih => simp only [List.foldl_cons]; rw [ih, stepPay_x]

/-- the sequences of the `(sequence, payload)` pairs are exactly the delivery log of the handler -/
theorem c04_seen_is_log {c : PCfg} {s : PaySt} (hr : PayReachable c s) (k j : Nat) :
    (s.seen k j).map (·.1) = (s.x.s.cons k j).log := by
  obtain ⟨n, K, h, bl, bs, sched, _, _, _, _, rfl⟩ := hr
  unfold runPay
  suffices H : ∀ (s0 : PaySt), (∀ k j, (s0.seen k j).map (·.1) = (s0.x.s.cons k j).log) →
      ∀ k j, ((sched.foldl (stepPay c) s0).seen k j).map (·.1) = ((sched.foldl (stepPay c) s0).x.s.cons k j).log from
    H _ (by intro k j; rfl) k j
  induction sched with
  | nil => intro s0 h0; exact h0
  | cons t ts ih => intro s0 h0; exact ih _ (seen_eq_log_step c s0 t h0)

/-! non-vacuity: ring of 2, stage 0 one mutable handler (×3), stage 1 one immutable handler, three events: the ring wraps -/
def demoCfg : PCfg := { pay := fun q => 100 + q, mutH := fun k _ => k == 0, tf := fun _ _ v => 3 * v }
def demoPay : PaySt := runPay demoCfg (mkPay 2 2 (fun _ => 1) false [1, 1, 1])
  ((List.replicate 12 Tid.prod) ++ (List.replicate 12 (Tid.cons 0 0)) ++ (List.replicate 12 (Tid.cons 1 0)) ++
   (List.replicate 12 Tid.prod) ++ (List.replicate 12 (Tid.cons 0 0)) ++ (List.replicate 12 (Tid.cons 1 0)))

example : demoPay.seen 0 0 = [(1, 101), (2, 102)] ∧ demoPay.seen 1 0 = [(1, 303), (2, 306)] := by decide +kernel

end Payload

/-! ## multi-producer pipelines

The full delivery statement is false for the multi-producer sequencer (known finding F8); the consumer-side half
(`c04_multi_log_is_prefix`: in order, no gaps, no repetition, nothing above the cursor) holds for every schedule, and so does
**no read before write** (`c04_multi_handle_only_published`, every ring size `n = 2^k`: a handler is only ever handed a sequence
that its claimant has completely written and published). The witness below is schedule-exact and agrees with what the real code does under the same schedule (harness corpus case
`F7-witness`): two writers claim 1 and 2, the second publishes first, the first publishes last; `drain` waits for the cursor
(1) only, so the handler terminates having been handed `[1]` although 2 was written and its `write` call had returned. -/
section Multi
open RingMulti

def lostRun : MSt := runM (mkM 4 1 (fun _ => 1) false [[1], [1]])
  ((List.replicate 6 (MTid.writer 0)) ++ (List.replicate 20 (MTid.writer 1)) ++ (List.replicate 20 (MTid.writer 0)) ++
   (List.replicate 12 (MTid.cons 0 0)) ++ (List.replicate 12 MTid.drainer) ++ (List.replicate 8 (MTid.cons 0 0)))

/-- **multi producer, what does hold** (every ring size, topology, wait strategy, any number of writer threads, every
schedule): each handler has been handed exactly `1 … m`, once each, in order, for some `m ≤ cursor` — whatever the writers do,
no handler ever sees a sequence twice, out of order, or above the cursor -/
theorem c04_multi_log_is_prefix {x : MSt} (hr : MReachableWF x) (k j : Nat) (hk : k < x.s.K) (hj : j < x.s.h k) :
    (x.s.cons k j).log = List.range' 1 (progress (x.s.cons k j)) ∧ progress (x.s.cons k j) ≤ x.s.cursor :=
  log_prefix_of_inv x.s (mreachableWF_good hr).2.1 k j hk hj

theorem c04_multi_stranded_event_lost :
    (lostRun.wr 0).pc = .done ∧ (lostRun.wr 1).pc = .done ∧ lostRun.dr.pc = .done ∧ (lostRun.s.cons 0 0).pc = .done ∧
    lostRun.written = [(2, 1), (1, 0)] ∧ (lostRun.s.cons 0 0).log = [1] := by decide +kernel

/-- **no read before write, multi producer** (every ring size `n = 2^k`, topology, wait strategy, number of writer threads,
every schedule): a handler is about to be invoked for `i` only if `i ≤ cursor`, `i` has been claimed and written to its slot
(`(i, writer) ∈ written`), and no writer thread is still before the `ready_sequences.set(i)` of its `publish` call — the
multi-producer analogue of `c04_handle_only_published`, from release safety (`Lemmas/RingMultiSafe.lean`) -/
theorem c04_multi_handle_only_published {x : MSt} (hr : MReachableWF x) (e : Nat) (hn : x.s.n = 2 ^ e) (k j : Nat)
    (hk : k < x.s.K) (hj : j < x.s.h k) (hpc : (x.s.cons k j).pc = .handle)
    (hi : (x.s.cons k j).i ≤ (x.s.cons k j).avail) :
    (x.s.cons k j).i ≤ x.s.cursor ∧ (x.s.cons k j).i ≤ x.hw ∧ (∃ w, ((x.s.cons k j).i, w) ∈ x.written) ∧
    ¬ Pend x (x.s.cons k j).i := by
  have hs := mreachableWF_safe hr e hn
  have hI := hs.1.1.2.1
  have hav := avail_le_cursor x.s hI k j hk hj (by simp [hpc])
  have hci := hI.2 k j hk hj
  have h1 := hci.nextEq (by simp [hpc])
  have h2 := hci.iGe hpc
  have := published_below_cursor x hs (x.s.cons k j).i (by omega) (by omega)
  exact ⟨by omega, this⟩

/-- everything in a handler's log has been written (and published) before it was handed over -/
theorem c04_multi_log_written {x : MSt} (hr : MReachableWF x) (e : Nat) (hn : x.s.n = 2 ^ e) (k j : Nat)
    (hk : k < x.s.K) (hj : j < x.s.h k) (q : Nat) (hq : q ∈ (x.s.cons k j).log) : ∃ w, (q, w) ∈ x.written := by
  have hs := mreachableWF_safe hr e hn
  obtain ⟨hlog, hle⟩ := c04_multi_log_is_prefix hr k j hk hj
  rw [hlog, List.mem_range'_1] at hq
  exact (published_below_cursor x hs q hq.1 (by omega)).2.1

/-- non-vacuity: the handler is about to be handed sequence 1, written by writer 0 -/
def demoMultiHandle : MSt := runM (mkM 4 1 (fun _ => 1) false [[1], [1]])
  ((List.replicate 30 (MTid.writer 0)) ++ (List.replicate 4 (MTid.cons 0 0)))

example : (demoMultiHandle.s.cons 0 0).pc = .handle ∧ (demoMultiHandle.s.cons 0 0).i = 1 ∧
    (demoMultiHandle.s.cons 0 0).avail = 1 ∧ demoMultiHandle.written = [(1, 0)] := by decide +kernel
example : MReachableWF demoMultiHandle :=
  ⟨4, 1, fun _ => 1, false, [[1], [1]], _, by decide, fun _ _ => Nat.one_pos, by decide, rfl⟩

end Multi

end C04
